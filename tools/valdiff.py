"""tools/valdiff.py: helpers to locate the first difference between an implementation observation (python nesting) and a model `val` printed by coqc"""
import re


def norm(v):
    if isinstance(v, bool):
        return int(v)
    if isinstance(v, int):
        return v
    if v is None:
        return []
    if isinstance(v, (bytes, bytearray)):
        return list(v)
    if isinstance(v, str):
        return [ord(c) for c in v]
    return [norm(x) for x in v]


def parse_val(txt):
    toks = re.findall(r'VL|VZ|\[|\]|;|\(|\)|-?\d+', txt)
    pos = 0

    def p():
        nonlocal pos
        t = toks[pos]
        if t == '(':
            pos += 1
            v = p()
            assert toks[pos] == ')'
            pos += 1
            return v
        if t == 'VZ':
            pos += 1
            if toks[pos] == '(':
                pos += 1
                v = int(toks[pos]); pos += 2
            else:
                v = int(toks[pos]); pos += 1
            return v
        if t == 'VL':
            pos += 1
            assert toks[pos] == '['
            pos += 1
            out = []
            while toks[pos] != ']':
                if toks[pos] == ';':
                    pos += 1
                    continue
                out.append(p())
            pos += 1
            return out
        raise ValueError(t)
    return p()


def first_diff(a, b, path=()):
    if isinstance(a, int) or isinstance(b, int):
        return None if a == b else (path, a, b)
    for i in range(max(len(a), len(b))):
        if i >= len(a) or i >= len(b):
            return (path + (i,), a[i] if i < len(a) else '<missing>', b[i] if i < len(b) else '<missing>')
        d = first_diff(a[i], b[i], path + (i,))
        if d:
            return d
    return None
