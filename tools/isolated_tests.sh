#!/bin/sh
# tools/isolated_tests.sh <tree> [pytest args]: run the repository test suite of <tree> in a private network namespace
T="$1"; shift
exec unshare -n sh -c 'ip link set lo up; ip link set lo multicast on; ip route add 224.0.0.0/4 dev lo; ip -6 route add ff00::/8 dev lo 2>/dev/null; cd "$0" && PYTHONPATH="$0/src" /venv/bin/python -m pytest -q -p no:cacheprovider --no-cov --timeout=900 "$@"' "$T" "$@"
