#!/usr/bin/env python3
"""tools/design_tables.py : regenerate the machine-made tables of DESIGN.md (between the BEGIN/END markers) from seeded/RESULTS.json, seeded/*/meta.json"""
import glob, json, os, re
os.chdir('/verif')
res = json.load(open('seeded/RESULTS.json'))
rows = ["| id | what was changed (one line) | files | confirmed (demo fails, suite passes) | caught by the quick check |", "|---|---|---|---|---|"]
for d in sorted(glob.glob('seeded/C*-*')):
    mid = os.path.basename(d)
    m = json.load(open(os.path.join(d, 'meta.json')))
    summ = re.sub(r'\s+', ' ', m.get('summary', ''))[:230].replace('|', '/')
    files = ', '.join(os.path.basename(f) for f in m.get('files_changed', []))
    c = m.get('confirmed', {})
    conf = 'yes' if c and c.get('demo_on_repo_HEAD_exit') == 0 and c.get('demo_with_patch_exit') not in (0, None) else ('?' if not c else 'NO')
    r = res.get(mid, {})
    how = ', '.join(f"{k} x{v}" for k, v in sorted(r.get('how', {}).items())) or '-'
    rows.append(f"| {mid} | {summ} | {files} | {conf} | {r.get('verdict', 'not run')}: {how} |")
table = '\n'.join(rows)
p = 'DESIGN.md'
s = open(p).read()
s = re.sub(r'<!-- BEGIN SEEDED TABLE -->.*?<!-- END SEEDED TABLE -->', lambda _m: '<!-- BEGIN SEEDED TABLE -->\n' + table + '\n<!-- END SEEDED TABLE -->', s, flags=re.S)
open(p, 'w').write(s)
print(len(rows) - 2, 'rows')
