#!/usr/bin/env python3
"""tools/design_tables.py : regenerate the machine-made tables of DESIGN.md (between the BEGIN/END markers) from seeded/RESULTS.json, seeded/*/meta.json"""
import glob, json, os, re
os.chdir('/verif')
res = json.load(open('seeded/RESULTS.json'))
rows = ["| id | what was changed (one line) | files | confirmed (demo fails, suite passes) | caught by the quick check |", "|---|---|---|---|---|"]
for d in sorted(glob.glob('seeded/C*-*')):
    mid = os.path.basename(d)
    m = json.load(open(os.path.join(d, 'meta.json')))
    summ = re.sub(r'\s+', ' ', m.get('summary', ''))[:230].replace('|', '/')
    files = ', '.join(os.path.basename(f) for f in m.get('files_changed', []))
    c = m.get('confirmed', {})
    conf = 'yes' if c and c.get('demo_on_repo_HEAD_exit') == 0 and c.get('demo_with_patch_exit') not in (0, None) else ('?' if not c else 'NO')
    r = res.get(mid, {})
    how = ', '.join(f"{k} x{v}" for k, v in sorted(r.get('how', {}).items())) or '-'
    rows.append(f"| {mid} | {summ} | {files} | {conf} | {r.get('verdict', 'not run')}: {how} |")
table = '\n'.join(rows)
p = 'DESIGN.md'
s = open(p).read()
s = re.sub(r'<!-- BEGIN SEEDED TABLE -->.*?<!-- END SEEDED TABLE -->', lambda _m: '<!-- BEGIN SEEDED TABLE -->\n' + table + '\n<!-- END SEEDED TABLE -->', s, flags=re.S)
open(p, 'w').write(s)
print(len(rows) - 2, 'rows')

# ---- the false-alarm side: neutral/RESULTS.json ----
nres = json.load(open('neutral/RESULTS.json')) if os.path.exists('neutral/RESULTS.json') else {}
nrows = ["| id | what was rewritten (one line) | files | suite still green | checks run: verdicts |", "|---|---|---|---|---|"]
tot = {}
for d in sorted(glob.glob('neutral/C*-*')):
    nid = os.path.basename(d)
    m = json.load(open(os.path.join(d, 'meta.json')))
    summ = re.sub(r'\s+', ' ', m.get('summary', ''))[:200].replace('|', '/')
    files = ', '.join(os.path.basename(f) for f in m.get('files_in_patch', m.get('files_changed', [])))
    c = m.get('confirmed', {})
    conf = 'yes' if c and 'passed' in c.get('test_suite_with_patch', '') and set(c.get('failed_tests', '').split()) <= {'tests/services/test_types.py::test_integration_with_listener_ipv6'} else ('?' if not c else 'NO')
    checks = nres.get(nid, {}).get('checks', {})
    for v in checks.values():
        tot[v['verdict']] = tot.get(v['verdict'], 0) + 1
    bad = [f"{p}: {v['verdict']}" for p, v in sorted(checks.items()) if v['verdict'] != 'clean']
    verd = f"{len(checks)} run, {sum(1 for v in checks.values() if v['verdict'] == 'clean')} clean" + ('; ' + ', '.join(bad) if bad else '')
    nrows.append(f"| {nid} | {summ} | {files} | {conf} | {verd} |")
summary = (f"Current numbers (`neutral/RESULTS.json`, {len(nres)} rewrites, {sum(tot.values())} check runs): "
           + ', '.join(f"{v} {k}" for k, v in sorted(tot.items())) + ".\n\n" + '\n'.join(nrows))
s = open(p).read()
s = re.sub(r'<!-- BEGIN NEUTRAL SUMMARY -->.*?<!-- END NEUTRAL SUMMARY -->', lambda _m: '<!-- BEGIN NEUTRAL SUMMARY -->\n' + summary + '\n<!-- END NEUTRAL SUMMARY -->', s, flags=re.S)
open(p, 'w').write(s)
print(len(nrows) - 2, 'neutral rows', tot)
