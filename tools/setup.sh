#!/bin/sh
# MANIFEST.setup_cmd: build the whole Coq development from files on disk (offline), full .vo build.
set -e
HERE="$(cd "$(dirname "$0")/.." && pwd)"
REPO="${VERIF_REPO:-/repo}"
cd "$HERE"
# gate: nothing in the development may declare an axiom or skip a proof
if grep -rnE '\b(Admitted|admit|Axiom|Parameter|Conjecture|Admit Obligations|bypass_check)\b|Unset Guard|Unset Positivity|Unset Universe|type-in-type|impredicative-set' coq --include='*.v' ; then
  echo "setup: forbidden construct in coq/ (see lines above)"; exit 1
fi
python3 tools/translate.py "$REPO" coq/Gen
sh tools/mk_coqproject.sh
# build what the registered checks use (Props/ + Corr/ and their dependency cones); proof files still in progress are not referenced
timeout 3000 make -C coq -j16 $(cd coq && ls Props/*.v Corr/*.v | sed 's/\.v$/.vo/')
/venv/bin/python -m compileall -q lib props >/dev/null 2>&1 || true
echo "setup: ok"
