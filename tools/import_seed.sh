#!/bin/sh
# tools/import_seed.sh <Cxx> : copy the two mutants a seeding agent left in /tmp/seed/<Cxx> into /verif/seeded/<Cxx>-{1,2}
P="$1"
for k in 1 2; do
  d=/verif/seeded/$P-$k; mkdir -p "$d"
  cp /tmp/seed/$P/mutant_$k.diff "$d/patch.diff"; cp /tmp/seed/$P/demo_$k.py "$d/demo.py"; cp /tmp/seed/$P/meta_$k.json "$d/meta.json"
  sed -i "s#/tmp/seed/$P/src#src#g; s#/tmp/seed/$P#.#g" "$d/demo.py" 2>/dev/null
done
ls /verif/seeded/$P-1 /verif/seeded/$P-2
