#!/bin/sh
# tools/import_seed.sh <Cxx> [k ...] : copy the mutants a seeding agent left in /tmp/seed/<Cxx> into /verif/seeded/<Cxx>-<k> (default k = 1 2)
P="$1"; shift
KS="${*:-1 2}"
for k in $KS; do
  [ -f /tmp/seed/$P/mutant_$k.diff ] || { echo "missing /tmp/seed/$P/mutant_$k.diff"; continue; }
  d=/verif/seeded/$P-$k; mkdir -p "$d"
  cp /tmp/seed/$P/mutant_$k.diff "$d/patch.diff"; cp /tmp/seed/$P/demo_$k.py "$d/demo.py"; cp /tmp/seed/$P/meta_$k.json "$d/meta.json"
  sed -i "s#/tmp/seed/$P/src#src#g; s#/tmp/seed/$P#.#g" "$d/demo.py" 2>/dev/null
  echo "imported $P-$k"
done
