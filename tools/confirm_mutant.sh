#!/bin/sh
# tools/confirm_mutant.sh <seeded/ID dir>   (expects patch.diff demo.py meta.json inside)
# confirms: demo passes on /repo HEAD, fails with the patch; full test suite passes with the patch (private netns).
D="$(realpath "$1")"; ID="$(basename "$D")"
WT=/tmp/wt-confirm-$ID
git -C /repo worktree add -q "$WT" HEAD || exit 2
cd "$WT"
PYTHONPATH="$WT/src" timeout 600 /venv/bin/python "$D/demo.py" > "$D/.demo_clean.log" 2>&1; rc_clean=$?
if ! git apply "$D/patch.diff" 2>/dev/null; then echo "$ID: PATCH DOES NOT APPLY"; git -C /repo worktree remove --force "$WT"; exit 3; fi
PYTHONPATH="$WT/src" timeout 600 /venv/bin/python "$D/demo.py" > "$D/.demo_mutant.log" 2>&1; rc_mut=$?
/verif/tools/isolated_tests.sh "$WT" tests > "$D/.tests.log" 2>&1
summary="$(tail -1 "$D/.tests.log")"
failed="$(grep -E '^(FAILED|ERROR)' "$D/.tests.log" | sed -e 's/ - .*//' -e 's/^FAILED //' -e 's/^ERROR //' | tr '\n' ' ')"
cd /; git -C /repo worktree remove --force "$WT"
python3 - "$D" "$rc_clean" "$rc_mut" "$summary" "$failed" <<'PY'
import json,sys,os
d,rc_clean,rc_mut,summary,failed=sys.argv[1:6]
p=os.path.join(d,'meta.json'); m=json.load(open(p))
m['confirmed']={'demo_on_repo_HEAD_exit':int(rc_clean),'demo_with_patch_exit':int(rc_mut),'test_suite_with_patch':summary.strip('= '),'failed_tests':failed.strip(),
 'how':'tools/confirm_mutant.sh: scratch worktree of /repo HEAD; demo.py before/after git apply patch.diff; full suite via tools/isolated_tests.sh (private network namespace; tests/services/test_types.py::test_integration_with_listener_ipv6 fails there on the unmodified tree too, for lack of IPv6 multicast)'}
json.dump(m,open(p,'w'),indent=1)
ok = int(rc_clean)==0 and int(rc_mut)!=0 and set(failed.split()) <= {'tests/services/test_types.py::test_integration_with_listener_ipv6'}
print(os.path.basename(d), 'CONFIRMED' if ok else 'NOT-CONFIRMED', rc_clean, rc_mut, summary, failed)
PY
rm -f "$D"/.demo_*.log "$D"/.tests.log
