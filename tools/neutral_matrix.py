#!/usr/bin/env python3
"""tools/neutral_matrix.py [ID ...] : the false-alarm side. Every behaviour-preserving rewrite kept in neutral/<ID>/patch.diff is run against the
quick check of its property (and of the properties listed under "also" in its meta.json) in a scratch worktree (tools/try_mutant.sh). Expected:
no VIOLATION line at all. Recorded in neutral/RESULTS.json per check: clean | broken-obligation (a proof obligation / the translator stopped
checking and no failing input was found - admitted by the interface for harmless rewrites, reported with no-failing-input-found) |
FALSE-ALARM (a replay claims a failing input or a model/implementation disagreement on code whose behaviour is unchanged) | check-crashed."""
import glob, json, os, re, subprocess, sys, time


def own_replays(out):
    """the replay files named by this run's own VIOLATION lines (several matrices may run side by side and share replays/)"""
    return sorted({m for m in re.findall(r'VIOLATION property=\S+ replay=(\S+)', out) if os.path.exists(m)})

os.chdir('/verif')
ids = sys.argv[1:] or sorted(os.path.basename(d) for d in glob.glob('neutral/C*-*'))
res_path = os.environ.get('MATRIX_RESULTS', 'neutral/RESULTS.json')
results = json.load(open(res_path)) if os.path.exists(res_path) else {}
head = subprocess.run(['git', '-C', '/repo', 'rev-parse', '--short', 'HEAD'], capture_output=True, text=True).stdout.strip()
for nid in ids:
    meta = json.load(open(f'neutral/{nid}/meta.json'))
    props = [nid.split('-')[0]] + [p for p in meta.get('also', []) if p != nid.split('-')[0]]
    entry = {}
    for prop in props:
        before = set(glob.glob(f'replays/{prop}-*.json'))
        t = time.time()
        r = subprocess.run(['tools/try_mutant.sh', f'neutral/{nid}/patch.diff', prop], capture_output=True, text=True)
        out = r.stdout + r.stderr
        new = own_replays(out)
        kinds, detail = {}, []
        for f in new:
            try:
                j = json.load(open(f))
            except Exception:
                j = {}
            k = j.get('kind', '?')
            kinds[k] = kinds.get(k, 0) + 1
            detail.append({kk: (str(v)[:400]) for kk, v in j.items() if kk in ('kind', 'why', 'what', 'broken', 'first_difference')})
            os.remove(f)
        if 'PATCH DOES NOT APPLY' in out:
            verdict = 'patch-does-not-apply'
        elif 'ERROR' in out and not kinds:
            verdict = 'check-crashed'
        elif not kinds and 'VIOLATION' not in out:
            verdict = 'clean'
        elif set(kinds) <= {'broken-obligation'}:
            verdict = 'broken-obligation'
        else:
            verdict = 'FALSE-ALARM'
        entry[prop] = dict(verdict=verdict, how=kinds, detail=detail[:3], seconds=round(time.time() - t),
                           lines=[l for l in out.splitlines() if 'done:' in l or 'ERROR' in l or 'VIOLATION' in l][-3:])
        print(nid, prop, verdict, kinds, flush=True)
    results[nid] = dict(repo_head=head, checks=entry)
    json.dump(results, open(res_path, 'w'), indent=1, sort_keys=True)
