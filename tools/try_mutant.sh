#!/bin/sh
# tools/try_mutant.sh <patch.diff> <Cxx> [<Cyy> ...]  : run checks against a scratch worktree of /repo HEAD with the patch applied
P="$(realpath "$1")"; shift
WT=/tmp/wt-try-$$
git -C /repo worktree add -q "$WT" HEAD || exit 2
if ! git -C "$WT" apply "$P" 2>/dev/null; then
  if ! (cd "$WT" && patch -p1 --no-backup-if-mismatch < "$P" >/dev/null); then echo "PATCH DOES NOT APPLY"; git -C /repo worktree remove --force "$WT"; exit 3; fi
fi
rc=0
# separate Coq build directory so that the real tree's .vo files are never disturbed
export VERIF_COQ=/verif/work/coq-mut-$$
mkdir -p /verif/work && rsync -a --delete /verif/coq/ "$VERIF_COQ"/
for c in "$@"; do
  VERIF_REPO="$WT" /verif/check "$c" --tier "${TIER:-quick}" 2>&1 | grep -E "VIOLATION|KNOWN-FINDING|done:|ERROR|broken" | sed "s/^/[$c] /"
done
git -C /repo worktree remove --force "$WT"
rm -rf "$VERIF_COQ"
