#!/bin/sh
# tools/confirm_neutral.sh <neutral/ID dir>   (expects patch.diff meta.json inside): the patch applies to /repo HEAD and the full test suite still passes
D="$(realpath "$1")"; ID="$(basename "$D")"
WT=/tmp/wt-nconfirm-$ID
git -C /repo worktree add -q "$WT" HEAD || exit 2
cd "$WT"
if ! git apply "$D/patch.diff" 2>/dev/null; then echo "$ID: PATCH DOES NOT APPLY"; cd /; git -C /repo worktree remove --force "$WT"; exit 3; fi
/verif/tools/isolated_tests.sh "$WT" tests > "$D/.tests.log" 2>&1
summary="$(tail -1 "$D/.tests.log")"
failed="$(grep -E '^(FAILED|ERROR)' "$D/.tests.log" | sed -e 's/ - .*//' -e 's/^FAILED //' -e 's/^ERROR //' | tr '\n' ' ')"
cd /; git -C /repo worktree remove --force "$WT"
python3 - "$D" "$summary" "$failed" <<'PY'
import json,sys,os
d,summary,failed=sys.argv[1:4]
p=os.path.join(d,'meta.json'); m=json.load(open(p))
m['confirmed']={'test_suite_with_patch':summary.strip('= '),'failed_tests':failed.strip(),
 'how':'tools/confirm_neutral.sh: scratch worktree of /repo HEAD, git apply patch.diff, full suite via tools/isolated_tests.sh (private network namespace; tests/services/test_types.py::test_integration_with_listener_ipv6 fails there on the unmodified tree too)'}
json.dump(m,open(p,'w'),indent=1)
ok = set(failed.split()) <= {'tests/services/test_types.py::test_integration_with_listener_ipv6'} and 'passed' in summary
print(os.path.basename(d), 'CONFIRMED' if ok else 'NOT-CONFIRMED', summary, failed)
PY
rm -f "$D"/.tests.log
