#!/usr/bin/env python3
"""tools/mutant_matrix.py [ID ...] : run every seeded change (seeded/<ID>/patch.diff) against the quick check of its property in a scratch
worktree (tools/try_mutant.sh) and record how it was caught in seeded/RESULTS.json: oracle (a failing input was found), correspondence (model and
implementation disagree), broken-obligation (a generated definition / proof no longer checks), or MISSED."""
import glob, json, os, re, subprocess, sys, time


def own_replays(out):
    """the replay files named by this run's own VIOLATION lines (several matrices may run side by side and share replays/)"""
    return sorted({m for m in re.findall(r'VIOLATION property=\S+ replay=(\S+)', out) if os.path.exists(m)})

os.chdir('/verif')
ids = sys.argv[1:] or sorted(os.path.basename(d) for d in glob.glob('seeded/C*-*'))
res_path = os.environ.get('MATRIX_RESULTS', 'seeded/RESULTS.json')
results = json.load(open(res_path)) if os.path.exists(res_path) else {}
head = subprocess.run(['git', '-C', '/repo', 'rev-parse', '--short', 'HEAD'], capture_output=True, text=True).stdout.strip()
for mid in ids:
    prop = mid.split('-')[0]
    before = set(glob.glob(f'replays/{prop}-*.json'))
    t = time.time()
    r = subprocess.run(['tools/try_mutant.sh', f'seeded/{mid}/patch.diff', prop], capture_output=True, text=True)
    out = r.stdout + r.stderr
    new = own_replays(out)
    kinds = {}
    for f in new:
        try:
            k = json.load(open(f)).get('kind', '?')
        except Exception:
            k = '?'
        kinds[k] = kinds.get(k, 0) + 1
        os.remove(f)
    if 'PATCH DOES NOT APPLY' in out:
        verdict = 'patch-does-not-apply'
    elif 'ERROR' in out and not kinds:
        verdict = 'check-crashed'
    elif kinds:
        verdict = 'caught'
    else:
        verdict = 'MISSED'
    results[mid] = dict(verdict=verdict, how=kinds, repo_head=head, seconds=round(time.time() - t), lines=[l for l in out.splitlines() if 'done:' in l or 'ERROR' in l][-2:])
    # a change that its own property's check cannot observe may be caught by the check of the property it really touches (seeded/ALSO.json)
    also = json.load(open('seeded/ALSO.json')).get(mid, []) if os.path.exists('seeded/ALSO.json') else []
    if verdict == 'MISSED' and also:
        for other in also:
            before = set(glob.glob(f'replays/{other}-*.json'))
            r2 = subprocess.run(['tools/try_mutant.sh', f'seeded/{mid}/patch.diff', other], capture_output=True, text=True)
            new2 = own_replays(r2.stdout + r2.stderr)
            k2 = {}
            for f in new2:
                kk = json.load(open(f)).get('kind', '?')
                k2[kk] = k2.get(kk, 0) + 1
                os.remove(f)
            if k2:
                results[mid]['verdict'] = f'caught-by-{other}'
                results[mid]['how'] = k2
                verdict, kinds = results[mid]['verdict'], k2
                break
    print(mid, verdict, kinds, flush=True)
    json.dump(results, open(res_path, 'w'), indent=1, sort_keys=True)
