#!/usr/bin/env python3
"""tools/manifest_add.py <Cxx> <design_ref> <technique> <level text file> <note text file>: add/replace a check entry, drop it from not_applicable"""
import json, sys
pid, ref, tech, textf, notef = sys.argv[1:6]
m = json.load(open('/verif/MANIFEST.json'))
entry = {"property_id": pid, "quick_cmd": f"./check {pid} --tier quick", "thorough_cmd": f"./check {pid} --tier thorough",
         "evidence_file": f"evidence/{pid}.json", "replay_cmd_template": f"./check {pid} --replay {{path}}", "engine": "coq",
         "level_claimed": {"category": "proof", "text": open(textf).read().strip(), "design_ref": ref},
         "level_note": open(notef).read().strip(), "technique": tech}
m['checks'] = [c for c in m['checks'] if c['property_id'] != pid] + [entry]
m['checks'].sort(key=lambda c: c['property_id'])
m['not_applicable'] = [n for n in m['not_applicable'] if n['property_id'] != pid]
json.dump(m, open('/verif/MANIFEST.json', 'w'), indent=1)
import jsonschema
jsonschema.validate(m, json.load(open('/root/.vp/MANIFEST.schema.json')))
print('ok', [c['property_id'] for c in m['checks']], [n['property_id'] for n in m['not_applicable']])
