#!/bin/sh
# regenerate coq/_CoqProject from the files present (Gen/*.v are produced by translate.py first)
cd "${VERIF_COQ:-$(dirname "$0")/../coq}" || exit 2
{ echo "-Q . ZC"; echo "-arg -w -arg -notation-overridden,-deprecated-hint-without-locality,-deprecated-syntactic-definition,-ambiguous-paths"; find Model Spec Gen Proofs Props Corr -name '*.v' | LC_ALL=C sort; } > _CoqProject.new
if ! cmp -s _CoqProject.new _CoqProject 2>/dev/null; then mv _CoqProject.new _CoqProject; coq_makefile -f _CoqProject -o Makefile >/dev/null; else rm _CoqProject.new; fi
[ -f Makefile ] || coq_makefile -f _CoqProject -o Makefile >/dev/null
