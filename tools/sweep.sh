#!/bin/sh
# tools/sweep.sh <logfile> <seed> [<seed> ...] : run every quick check for each seed against /repo, 4 checks at a time; keeps VIOLATION, KNOWN-FINDING and done lines
LOG="$1"; shift
: > "$LOG"
for sd in "$@"; do
  for c in C01 C02 C03 C04 C05 C06 C07 C08 C09 C10 C11 C12 C13 C14 C15 C16 C17 C18 C19 C20; do echo $c; done | \
    xargs -P 4 -I{} sh -c "VERIF_SEED=$sd /verif/check {} 2>&1 | grep -E 'VIOLATION|KNOWN-FINDING|done:|ERROR|Traceback' | cut -c1-170 | sed 's/^/[seed $sd] [{}] /'" >> "$LOG"
done
echo finished >> "$LOG"
