"""Parse the text of a Coq `val` term (as printed by vm_compute) back into nested Python lists, and
canonicalise set-tagged lists, for readable diffs in replay files / debugging."""
import re

TOK = re.compile(r'VL|VZ|\[|\]|;|\(|\)|-?\d+')


def parse(text):
    toks = TOK.findall(text)
    pos = [0]

    def val():
        t = toks[pos[0]]
        if t == '(':
            pos[0] += 1
            v = val()
            assert toks[pos[0]] == ')'
            pos[0] += 1
            return v
        if t == 'VZ':
            pos[0] += 1
            if toks[pos[0]] == '(':
                pos[0] += 1
                n = int(toks[pos[0]])
                pos[0] += 2
            else:
                n = int(toks[pos[0]])
                pos[0] += 1
            return n
        if t == 'VL':
            pos[0] += 1
            assert toks[pos[0]] == '['
            pos[0] += 1
            out = []
            while toks[pos[0]] != ']':
                out.append(val())
                if toks[pos[0]] == ';':
                    pos[0] += 1
            pos[0] += 1
            return out
        raise ValueError(t)
    return val()


def to_plain(v):
    """python observation -> same shape as parse() output (str/bytes -> int lists, bool -> int, None -> [])"""
    if isinstance(v, bool):
        return int(v)
    if isinstance(v, int):
        return v
    if v is None:
        return []
    if isinstance(v, (bytes, bytearray)):
        return list(v)
    if isinstance(v, str):
        return [ord(c) for c in v]
    return [to_plain(x) for x in v]


def canon(v):
    if isinstance(v, list):
        if len(v) == 2 and v[0] == -7777 and isinstance(v[1], list):
            return [-7777, sorted((canon(x) for x in v[1]), key=repr)]
        return [canon(x) for x in v]
    return v


def first_diff(a, b, path=''):
    if isinstance(a, list) and isinstance(b, list):
        if len(a) != len(b):
            return f"{path}: lengths {len(a)} vs {len(b)}\n   A={str(a)[:600]}\n   B={str(b)[:600]}"
        for i, (x, y) in enumerate(zip(a, b)):
            d = first_diff(x, y, f"{path}[{i}]")
            if d:
                return d
        return None
    return None if a == b else f"{path}: {a!r} vs {b!r}"
