import argparse
import importlib
import os
import sys

sys.path.insert(0, os.path.dirname(os.path.dirname(os.path.abspath(__file__))))
from lib import common  # noqa: E402


def main():
    ap = argparse.ArgumentParser()
    ap.add_argument('prop')
    ap.add_argument('--tier', default=os.environ.get('VERIF_TIER', 'quick'), choices=['quick', 'thorough'])
    ap.add_argument('--replay', default=None)
    a = ap.parse_args()
    seed = int(os.environ.get('VERIF_SEED', '0') or 0)
    mod = importlib.import_module(f"props.{a.prop.lower()}")
    ctx = common.Ctx(a.prop, a.tier, seed)
    try:
        if a.replay:
            rc = mod.replay(ctx, a.replay)
        else:
            rc = mod.run(ctx)
    except Exception:
        import traceback
        traceback.print_exc()
        # an internal error of the machinery is not a verdict about the property
        print(f"ERROR: check {a.prop} crashed (machinery error, no verdict)", flush=True)
        rc = 2
    finally:
        # the per-run scratch directory (case files, private .vo) never outlives the run, whatever happened
        import shutil
        shutil.rmtree(ctx.work, ignore_errors=True)
    sys.exit(rc)


if __name__ == '__main__':
    main()
