"""Shared machinery of every ./check run (DESIGN §3, §6.2, §7).

  Ctx.build()        translator -> Gen/*.v, incremental `make` of the property's Coq cone (file-locked)
  Ctx.assumptions()  re-compiles Props/Cxx.v and parses the `Print Assumptions` output
  Ctx.run_cases()    correspondence: the implementation's observations are written next to the inputs
                     into cases_k.v; `Eval vm_compute in (mismatches run 0 cases)` compares inside Coq
  Ctx.violation()    replay file + `VIOLATION property=.. replay=..` line (known findings are matched first)
  Ctx.finish()       evidence/Cxx.json, exit code
"""
import concurrent.futures
import fcntl
import hashlib
import json
import os
import random
import re
import shutil
import subprocess
import sys
import time

VERIF = os.path.dirname(os.path.dirname(os.path.abspath(__file__)))
COQ = os.environ.get('VERIF_COQ') or os.path.join(VERIF, 'coq')
REPO = os.environ.get('VERIF_REPO', '/repo')
NPROC = min(16, os.cpu_count() or 4)


# ------------------------------------------------------------------------------------------------
# Coq term printers
# ------------------------------------------------------------------------------------------------

def cz(n):
    n = int(n)
    return f"({n})" if n < 0 else str(n)


def clist(items):
    return "[" + "; ".join(items) + "]"


def czlist(ints):
    return "[" + "; ".join(cz(i) for i in ints) + "]"


def ctext(s):
    """Python str -> list of code points; bytes -> list of byte values."""
    if isinstance(s, (bytes, bytearray)):
        return czlist(s)
    return czlist(ord(c) for c in s)


def cbool(b):
    return "true" if b else "false"


def copt(v, f=cz):
    return "None" if v is None else f"(Some {f(v)})"


def cval(v):
    """nested python lists / ints / bools / None / str / bytes -> Base.val literal"""
    if isinstance(v, bool):
        return f"(VZ {1 if v else 0})"
    if isinstance(v, int):
        return f"(VZ {cz(v)})"
    if v is None:
        return "(VL [])"
    if isinstance(v, (bytes, bytearray)):
        return "(VL " + clist(f"(VZ {b})" for b in v) + ")"
    if isinstance(v, str):
        return "(VL " + clist(f"(VZ {ord(c)})" for c in v) + ")"
    if isinstance(v, (list, tuple)):
        return "(VL " + clist(cval(x) for x in v) + ")"
    raise TypeError(f"cval: {type(v)}")


def stable_hash(obj):
    return hashlib.sha256(json.dumps(obj, sort_keys=True, default=repr).encode()).hexdigest()[:12]


# ------------------------------------------------------------------------------------------------
# known findings
# ------------------------------------------------------------------------------------------------

def load_known_findings():
    p = os.path.join(VERIF, 'known_findings.json')
    try:
        with open(p) as f:
            return json.load(f)
    except FileNotFoundError:
        return {'findings': []}


# ------------------------------------------------------------------------------------------------
# context
# ------------------------------------------------------------------------------------------------

class Ctx:
    def __init__(self, prop, tier, seed):
        self.prop = prop
        self.tier = tier
        self.seed = seed
        self.rng = random.Random(f"{prop}-{seed}")
        self.t0 = time.time()
        self.violations = []       # (replay_path, note)
        self.known_hits = {}       # finding id -> what
        self.cov = {
            'evaluations': 0, 'distinct_nontrivial': 0, 'rule': '', 'samples': [],
            'obligations': 0, 'discharged': 0, 'checker_cmd': '', 'trusted_base': [],
            'histogram': {},
        }
        self.assumptions_list = []
        self.notes = []
        self.work = os.path.join(VERIF, 'work', f"{prop}-{os.getpid()}")
        os.makedirs(self.work, exist_ok=True)
        self.kf = [f for f in load_known_findings().get('findings', []) if f.get('property') == prop]
        self.build_ok = None
        self.build_msg = ''
        self._distinct = set()

    # -- logging ---------------------------------------------------------------------------------
    def log(self, *a):
        print(f"[{self.prop} {time.time() - self.t0:6.1f}s]", *a, flush=True)

    def hist(self, key, n=1):
        h = self.cov['histogram']
        h[key] = h.get(key, 0) + n

    def count(self, case_key, nontrivial=True):
        """Register one evaluated case; distinct_nontrivial counts distinct keys flagged non-trivial."""
        self.cov['evaluations'] += 1
        if nontrivial:
            k = case_key if isinstance(case_key, str) else stable_hash(case_key)
            self._distinct.add(k)

    def sample(self, obj, limit=4):
        if len(self.cov['samples']) < limit:
            self.cov['samples'].append(obj)

    # -- build -----------------------------------------------------------------------------------
    def build(self, targets, timeout=1500):
        """translator + make of the given .vo targets. Returns True on success. On failure
        self.build_msg names the obligation (translator rejection or first failing file/lemma)."""
        os.makedirs(os.path.join(COQ, 'logs'), exist_ok=True)
        lock = open(os.path.join(COQ, '.lock'), 'w')
        fcntl.flock(lock, fcntl.LOCK_EX)
        try:
            t = subprocess.run([sys.executable, os.path.join(VERIF, 'tools', 'translate.py'), REPO,
                                os.path.join(COQ, 'Gen')], capture_output=True, text=True)
            self.log(t.stdout.strip() or t.stderr.strip())
            if t.returncode != 0:
                self.build_ok = False
                self.build_msg = t.stderr.strip() or 'translator failed'
                return False
            subprocess.run([os.path.join(VERIF, 'tools', 'mk_coqproject.sh')], check=True, env=dict(os.environ, VERIF_COQ=COQ))
            cmd = ['timeout', str(timeout), 'make', '-C', COQ, f'-j{NPROC}'] + list(targets)
            m = subprocess.run(cmd, capture_output=True, text=True)
            self.cov['checker_cmd'] = (f"tools/translate.py {REPO} coq/Gen && make -C coq -j{NPROC} "
                                       + ' '.join(targets) + f" && coqc -Q coq ZC coq/Props/{self.prop}.v   (Coq 8.16.1 kernel, full .vo build)")
            if m.returncode != 0:
                self.build_ok = False
                err = (m.stdout + m.stderr)
                mm = re.search(r'File "\./([^"]+)", line (\d+)[^\n]*\n(Error:.*?)(?:\n\n|\nmake)', err, re.S)
                if mm:
                    self.build_msg = f"proof obligation broken: {mm.group(1)} line {mm.group(2)}: {mm.group(3)[:600]}"
                    lemma = lemma_at(os.path.join(COQ, mm.group(1)), int(mm.group(2)))
                    if lemma:
                        self.build_msg = f"proof obligation broken: {lemma} ({mm.group(1)} line {mm.group(2)}): {mm.group(3)[:600]}"
                else:
                    self.build_msg = "coq build failed: " + err[-800:]
                self.log(self.build_msg)
                return False
            self.build_ok = True
            return True
        finally:
            fcntl.flock(lock, fcntl.LOCK_UN)
            lock.close()

    def assumptions(self):
        """Compile Props/Cxx.v again (cheap: only `exact` + Print Assumptions) and record the result."""
        v = os.path.join(COQ, 'Props', f'{self.prop}.v')
        out_vo = os.path.join(self.work, f'{self.prop}.vo')
        r = subprocess.run(['timeout', '600', 'coqc', '-Q', COQ, 'ZC', '-o', out_vo, v],
                           capture_output=True, text=True, cwd=self.work)
        text = r.stdout
        if r.returncode != 0:
            self.build_ok = False
            self.build_msg = "Props file failed: " + (r.stdout + r.stderr)[-600:]
            return False
        src = open(v).read()
        thms = re.findall(r'^\s*Print Assumptions\s+(\w+)\.', src, re.M)
        blocks = re.split(r'(?=Closed under the global context|Axioms:)', text)
        blocks = [b.strip() for b in blocks if b.strip().startswith(('Closed', 'Axioms'))]
        axioms = set()
        per = {}
        for name, b in zip(thms, blocks):
            if b.startswith('Closed'):
                per[name] = 'closed'
            else:
                per[name] = ' '.join(b.split())[:300]
                for ax in re.findall(r'^(\S+)\s*:', b, re.M):
                    if ax != 'Axioms':
                        axioms.add(ax)
        self.cov['theorems'] = per
        self.assumptions_list = sorted(axioms)
        return True

    def count_obligations(self, root_rel):
        """Lemma/Theorem/... statements in the dependency cone of Props/Cxx.v (own development only)."""
        seen, todo = set(), [root_rel]
        n = 0
        files = []
        while todo:
            rel = todo.pop()
            if rel in seen:
                continue
            seen.add(rel)
            p = os.path.join(COQ, rel)
            if not os.path.exists(p):
                continue
            files.append(rel)
            s = open(p).read()
            n += len(re.findall(r'^\s*(?:Local\s+|Global\s+)?(?:Lemma|Theorem|Corollary|Example|Fact|Proposition|Remark)\s+\w+', s, re.M))
            for m in re.finditer(r'From\s+ZC\s+Require\s+(?:Import|Export)\s+(.*?)\.(?:\s|$)', s, re.S):
                for mod in m.group(1).split():
                    todo.append(mod.replace('.', '/') + '.v')
        self.cov['obligations'] = n
        self.cov['cone_files'] = sorted(files)
        vo_ok = all(os.path.exists(os.path.join(COQ, f + 'o')) and
                    os.path.getmtime(os.path.join(COQ, f + 'o')) >= os.path.getmtime(os.path.join(COQ, f)) - 1e-6
                    for f in files)
        self.cov['discharged'] = n if (self.build_ok and vo_ok) else 0
        return n

    # -- correspondence --------------------------------------------------------------------------
    def run_cases(self, imports, input_type, run_fn, cases, shard=300, tag='corr', timeout=900, preamble='', mismatch_fn='mismatches'):
        """cases: list of (coq_input_text, expected_val_python). Returns list of (index, model_output_text)."""
        if not cases:
            return []
        # shards are bounded by case count AND by text size (a multi-megabyte literal costs minutes and gigabytes in coqc): every case is
        # rendered once, then packed greedily; `bases` remembers the index of the first case of each shard
        rendered = [f"  ({ci}, {cval(ev)})" for ci, ev in cases]
        shards, bases, cur, size = [], [], [], 0
        for idx, txt in enumerate(rendered):
            if cur and (len(cur) >= shard or size + len(txt) > 700_000):
                shards.append(cur)
                cur, size = [], 0
            if not cur:
                bases.append(idx)
            cur.append(txt)
            size += len(txt)
        if cur:
            shards.append(cur)
        jobs = []
        for k, sh in enumerate(shards):
            name = f"{tag}_{k}"
            path = os.path.join(self.work, name + '.v')
            with open(path, 'w') as f:
                f.write(f"From ZC Require Import {imports}.\nOpen Scope Z_scope.\n{preamble}\n")
                f.write(f"Definition cases : list (({input_type}) * val) := [\n")
                f.write(";\n".join(sh))
                f.write("\n].\n")
                f.write(f"Eval vm_compute in ({mismatch_fn} {run_fn} 0 cases).\n")
            jobs.append((k, name, path, len(sh)))

        def one(job):
            k, name, path, n = job
            r = subprocess.run(['timeout', str(timeout), 'coqc', '-Q', COQ, 'ZC', path],
                               capture_output=True, text=True, cwd=self.work)
            return k, r.returncode, r.stdout, r.stderr

        bad = []
        with concurrent.futures.ThreadPoolExecutor(max_workers=NPROC) as ex:
            for k, rc, out, err in ex.map(one, jobs):
                base = bases[k]
                if rc != 0:
                    raise RuntimeError(f"coqc failed on case shard {k}: {err[-1500:]}")
                body = out.strip()
                m = re.match(r'=\s*(.*?)\s*:\s*list \(Z \* val\)\s*$', body, re.S)
                if not m:
                    raise RuntimeError(f"unparsable coq output for shard {k}: {body[:500]}")
                lst = m.group(1).strip()
                if lst == '[]':
                    continue
                # entries look like (idx, VL [...]) ; split on top-level "; ("
                for em in re.finditer(r'\((\d+),\s*', lst):
                    idx = int(em.group(1))
                    start = em.end()
                    nxt = re.search(r';\s*\(\d+,\s*V', lst[start:])
                    end = start + nxt.start() if nxt else len(lst) - 1
                    bad.append((base + idx, ' '.join(lst[start:end].split()).rstrip(')').strip() + ')'))
        for j in jobs:
            for ext in ('.v', '.vo', '.glob', '.vok', '.vos'):
                try:
                    os.remove(os.path.join(self.work, j[1] + ext))
                except OSError:
                    pass
        # de-duplicate indices that the regex may have caught inside nested values
        seen = set()
        res = []
        for i, t in bad:
            if i not in seen and i < len(cases):
                seen.add(i)
                res.append((i, t))
        return res

    # -- reporting -------------------------------------------------------------------------------
    def match_known(self, tags):
        """tags: set of strings describing the failing case; a known finding matches when its
        matcher tags are all present."""
        for f in self.kf:
            if f.get('status', 'open') != 'open':
                continue
            need = set(f.get('matcher', []))
            if need and need <= set(tags):
                return f
        return None

    def violation(self, replay, tags=(), no_input=False):
        """Report one violation. replay: JSON-able dict. tags: for known-finding matching."""
        kf = None if no_input else self.match_known(tags)
        if kf is not None:
            if kf['id'] not in self.known_hits:
                self.known_hits[kf['id']] = kf['what']
                print(f"KNOWN-FINDING: property={self.prop} {kf['what']}", flush=True)
            return False
        os.makedirs(os.path.join(VERIF, 'replays'), exist_ok=True)
        replay = dict(replay)
        replay.setdefault('property', self.prop)
        replay.setdefault('seed', self.seed)
        replay.setdefault('tier', self.tier)
        replay['repo'] = REPO
        h = stable_hash(replay)
        path = os.path.join(VERIF, 'replays', f"{self.prop}-{h}.json")
        if path in self.violations:
            return False
        with open(path, 'w') as f:
            json.dump(replay, f, indent=1, default=repr)
        line = f"VIOLATION property={self.prop} replay={path}"
        if no_input:
            line += " no-failing-input-found"
        print(line, flush=True)
        self.violations.append(path)
        return True

    def finish(self, level='proof', assumptions_extra=()):
        cov = self.cov
        cov['distinct_nontrivial'] = len(self._distinct)
        tb = [
            "Coq 8.16.1 kernel (coqc, full .vo build; vm_compute used, native_compute not used)",
            "tools/translate.py (fail-closed Python-ast -> Gallina translator; regenerates coq/Gen/*.v from the current source: constants, the pure "
            "methods of _dns.py, regex classes, and the ordering comparisons of the hand-modelled methods - Gen/Sites.v - from which 36 comparisons of "
            "the model definitions are built by `Eval cbv`; the site locator matches operands textually modulo local aliases, mirroring, negation and "
            "branch order, so a wholesale inversion of a condition is NOT seen by it and is left to the differential side)",
            "correspondence harness (lib/, props/): implementation and model run on the same inputs, compared inside Coq by val_eqb",
            "CPython 3.12 semantics of the implementation under test",
        ]
        if self.assumptions_list:
            tb.append("axioms reported by Print Assumptions: " + ", ".join(self.assumptions_list))
        else:
            tb.append("Print Assumptions: every property theorem is closed under the global context (no axioms)")
        if cov.get('discharged', 0) < 1 or cov.get('obligations', 0) < 1:
            # broken build: the proof-level keys would be invalid; keep the numbers under other names
            cov['obligations_total'] = cov.pop('obligations', 0)
            cov['discharged_count'] = cov.pop('discharged', 0)
            cov['explanation'] = 'proof obligations NOT discharged on this run: ' + (self.build_msg or 'unknown')
        cov['trusted_base'] = tb + list(cov.get('trusted_base_extra', []))
        cov.pop('trusted_base_extra', None)
        ev = {
            'property_id': self.prop, 'tier': self.tier, 'seed': self.seed, 'level': level,
            'coverage': cov,
            'assumptions': list(assumptions_extra) + self.notes,
            'wall_s': round(time.time() - self.t0, 2),
            'violations': len(self.violations),
            'known_findings_hit': sorted(self.known_hits),
        }
        # evidence describes a run against /repo itself; a run against a scratch worktree (seeded changes: VERIF_REPO set elsewhere) must not
        # overwrite it and keeps its record next to its scratch files
        ev['repo'] = REPO
        evdir = os.path.join(VERIF, 'evidence') if os.path.realpath(REPO) == '/repo' else os.path.join(VERIF, 'work', 'evidence-scratch')
        os.makedirs(evdir, exist_ok=True)
        with open(os.path.join(evdir, f'{self.prop}.json'), 'w') as f:
            json.dump(ev, f, indent=1, default=repr)
        shutil.rmtree(self.work, ignore_errors=True)
        self.log(f"done: evaluations={cov['evaluations']} distinct={cov['distinct_nontrivial']} "
                 f"obligations={cov.get('obligations', 0)}/{cov.get('discharged', 0)} violations={len(self.violations)}")
        return 1 if self.violations else 0


def lemma_at(path, line):
    """Name of the Lemma/Theorem whose proof contains the given line."""
    try:
        lines = open(path).read().split('\n')
    except OSError:
        return None
    for i in range(min(line, len(lines)) - 1, -1, -1):
        m = re.match(r'\s*(?:Lemma|Theorem|Corollary|Example|Fact|Definition|Fixpoint)\s+(\w+)', lines[i])
        if m:
            return m.group(1)
    return None


def standard_flow(ctx, mod):
    """The protocol of DESIGN §3 for a property module `mod` providing:
         TARGETS            list of .vo targets
         CORR               dict(imports=, input_type=, run_fn=)
         generate(ctx)      -> list of case dicts (JSON-able, each with 'coq' = input term text)
         observe(case)      -> python value (implementation observation -> val)
         oracle(case, obs)  -> None | failure text   (the property's own predicate on the implementation)
         tags(case, why)    -> iterable of tags for known-finding matching (optional)
         search(ctx)        -> extra cases to try when a proof obligation broke (optional)
    """
    ok = ctx.build(mod.TARGETS)
    if ok:
        ok = ctx.assumptions()
    ctx.count_obligations(f'Props/{ctx.prop}.v')
    cases = mod.generate(ctx)
    obs = []
    oracle_failures = []
    for c in cases:
        o = mod.observe(c)
        obs.append(o)
        why = mod.oracle(c, o)
        if why:
            oracle_failures.append((c, o, why))
    ctx.log(f"{len(cases)} cases observed on the implementation; oracle failures: {len(oracle_failures)}")
    get_tags = getattr(mod, 'tags', lambda c, why: ())
    reported = set()
    for c, o, why in oracle_failures:
        key = stable_hash(c.get('key', c.get('coq')))
        if key in reported:
            continue
        reported.add(key)
        if len(ctx.violations) >= 5:
            break
        ctx.violation({'kind': 'oracle', 'case': {k: v for k, v in c.items() if k != 'coq'},
                       'observed': o, 'why': why}, tags=get_tags(c, why))
    if not ok:
        # proof / translator broke: the property is no longer shown to hold
        if not ctx.violations and not ctx.known_hits:
            extra = getattr(mod, 'search', None)
            found = False
            if extra:
                for c in extra(ctx):
                    o = mod.observe(c)
                    why = mod.oracle(c, o)
                    if why:
                        ctx.violation({'kind': 'oracle-after-broken-proof', 'broken': ctx.build_msg,
                                       'case': {k: v for k, v in c.items() if k != 'coq'}, 'observed': o, 'why': why},
                                      tags=get_tags(c, why))
                        found = True
                        break
            if not found:
                ctx.violation({'kind': 'broken-obligation', 'broken': ctx.build_msg}, no_input=True)
        elif ctx.violations:
            pass
        else:
            ctx.violation({'kind': 'broken-obligation', 'broken': ctx.build_msg}, no_input=True)
        return ctx.finish()
    # correspondence
    mism = ctx.run_cases(mod.CORR['imports'], mod.CORR['input_type'], mod.CORR['run_fn'],
                         [(c['coq'], o) for c, o in zip(cases, obs)], shard=mod.CORR.get('shard', 300))
    ctx.cov['traces_validated_against_impl'] = len(cases) - len(mism)
    ctx.cov['correspondence_mismatches'] = len(mism)
    for idx, model_out in mism[:5]:
        c = cases[idx]
        key = stable_hash(c.get('key', c.get('coq')))
        if key in reported:
            continue
        ctx.violation({'kind': 'correspondence', 'what': f"model {mod.CORR['run_fn']} and implementation disagree",
                       'case': {k: v for k, v in c.items() if k != 'coq'}, 'coq_input': c['coq'],
                       'implementation': obs[idx], 'model': model_out}, no_input=True)
    return ctx.finish()
