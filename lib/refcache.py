"""Plain reference model of an RFC 6762 section 10 record cache, written independently of the
library and of the Coq model: one flat insertion-ordered dict  identity -> stored record.
It produces observations in the same layout as lib/cachesim.Sim.event, so the property oracle
for C05/C06 is a plain comparison."""
from props.c20 import py_ident

KCODE = {'KQuestion': 0, 'KAddress': 1, 'KHinfo': 2, 'KPointer': 3, 'KText': 4, 'KService': 5, 'KNsec': 6}
PTR_FLOOR = 1125
TYPE_PTR = 12


def vrec(d):
    scope = d['scope_id']
    return [KCODE[d['kind']], d['name'], d['type'], d['cls'] & 0x7FFF, bool(d['cls'] & 0x8000), d['ttl'], d['created'],
            [bytes(d['address']), None if scope is None else [scope], d['cpu'], d['os'], d['alias'], bytes(d['text']),
             d['priority'], d['weight'], d['port'], d['server'], d['next_name'], sorted(d['rdtypes'])]]


def vopt(d):
    return None if d is None else [vrec(d)]


class RefCache:
    def __init__(self, probes, listeners=()):
        self.flat = {}          # ident -> record dict (insertion ordered)
        self.p = probes
        self.ls = list(listeners)

    # -- views ------------------------------------------------------------------------------------
    def by_name(self, name):
        k = name.lower()
        return [d for d in self.flat.values() if d['name'].lower() == k]

    def dump(self):
        return [[vrec(d) for d in self.by_name(n)] for n in self.p.names]

    def probe(self, now):
        def details(n, t, c):
            return [d for d in self.by_name(n) if d['type'] == t and (d['cls'] & 0x7FFF) == c]
        names = {d['name'].lower() for d in self.flat.values()}
        out_alias = []
        for n, a in self.p.alias:
            hit = None
            for d in self.by_name(n):
                if d['type'] == TYPE_PTR and d['created'] + 1000 * d['ttl'] > now and d['alias'] == a:
                    hit = d      # newest wins
            out_alias.append(vopt(hit))
        return [
            self.dump(),
            [[vopt(details(n, t, c)[-1] if details(n, t, c) else None), [vrec(d) for d in details(n, t, c)],
              [vrec(d) for d in details(n, t, c)]] for n, t, c in self.p.details],
            [[vopt(self.flat.get(py_ident(r))), vopt(self.flat.get(py_ident(r)))] for r in self.p.recs],
            [[vrec(d) for d in self.flat.values() if d['kind'] == 'KService' and d['server'].lower() == s.lower()]
             for s in self.p.servers],
            [n.lower() in names for n in self.p.names],
            len(names),
            out_alias,
        ]

    # -- events -----------------------------------------------------------------------------------
    def apply_cmd(self, cmd):
        op, lid = cmd
        if op == 'add':
            if lid not in self.ls:
                self.ls.append(lid)
        else:
            self.ls = [x for x in self.ls if x != lid]

    def fanout(self, reactions, phase):
        called = sorted(self.ls)
        for lid in list(self.ls):
            for (l, ph, cmd) in reactions:
                if l == lid and ph == phase:
                    self.apply_cmd(cmd)
        return called

    def event(self, ev):
        if ev[0] == 'listen':
            self.apply_cmd(ev[1])
            return [2]
        if ev[0] == 'purge':
            now = ev[1]
            gone = [i for i, d in self.flat.items() if d['created'] + 1000 * d['ttl'] <= now]
            expired = [self.flat.pop(i) for i in gone]
            return [1, [vrec(d) for d in expired], sorted(self.ls), self.probe(now)]
        _, now, recs, reactions = ev
        updates, adds_addr, adds_other, removes, flush = [], [], [], [], []
        datagram_idents = set()
        for r in recs:
            r = dict(r, created=now)
            if r['ttl'] and r['type'] == TYPE_PTR and r['ttl'] < PTR_FLOOR:
                r['ttl'] = PTR_FLOOR
            i = py_ident(r)
            datagram_idents.add(i)
            if r['cls'] & 0x8000:
                flush.append((r['name'].lower(), r['type'], r['cls'] & 0x7FFF))
            old = self.flat.get(i)
            if r['ttl'] != 0:
                if old is not None:
                    old['created'], old['ttl'] = now, r['ttl']          # refresh
                else:
                    (adds_addr if r['type'] in (1, 28) else adds_other).append(r)
                updates.append((r, old))
            elif old is not None:
                updates.append((r, old))
                if i not in [py_ident(x) for x in removes]:
                    removes.append(r)
        for (n, t, c) in flush:
            for d in self.flat.values():
                if (d['name'].lower(), d['type'], d['cls'] & 0x7FFF) == (n, t, c) and now - d['created'] > 1000 \
                        and py_ident(d) not in datagram_idents:
                    d['created'], d['ttl'] = now, 1
        if not updates:
            return [0, 0, self.probe(now)]
        seen1 = [[vrec(n), vopt(o)] for n, o in updates]
        dump1 = self.dump()
        called1 = self.fanout(reactions, 1)
        new = False
        for r in adds_addr + adds_other:
            i = py_ident(r)
            if i not in self.flat and r['kind'] != 'KNsec':
                new = True
            self.flat.pop(i, None)
            self.flat[i] = r
        for r in removes:
            del self.flat[py_ident(r)]
        dump2 = self.dump()
        called2 = self.fanout(reactions, 2)
        return [0, 1, seen1, called1, dump1, called2, dump2, new, self.probe(now)]


def run_history(probes, listeners, history):
    rc = RefCache(probes, listeners)
    return [rc.event(e) for e in history]
