"""A stand-in for DNSIncoming that offers the object's whole read API (so that harness stubs do not depend on which accessor the
handlers happen to use): questions, answers, probe / QU / TC flags, counts, id, flags, now."""


class FakeIncoming:
    def __init__(self, questions=(), answers=(), now=0, is_probe=False, ident=0, flags=0, truncated=False, source=None, data=b'',
                 authorities=0):
        self._questions = list(questions)
        self._answers = list(answers)
        self.now = now
        self.id = ident
        self.flags = flags | (0x0200 if truncated else 0)
        self.valid = True
        self.source = source
        self.scope_id = None
        self.data = data
        self._num_authorities = authorities or (1 if is_probe else 0)

    # -- accessors of DNSIncoming --
    @property
    def questions(self):
        return self._questions

    def answers(self):
        return self._answers

    def is_probe(self):
        return self._num_authorities > 0

    def has_qu_question(self):
        return any(q.unique for q in self._questions)

    @property
    def _has_qu_question(self):
        return self.has_qu_question()

    def is_query(self):
        return (self.flags & 0x8000) == 0

    def is_response(self):
        return (self.flags & 0x8000) == 0x8000

    @property
    def truncated(self):
        return (self.flags & 0x0200) == 0x0200

    @property
    def num_questions(self):
        return len(self._questions)

    _num_questions = num_questions

    @property
    def num_answers(self):
        return len(self._answers)

    _num_answers = num_answers

    @property
    def num_authorities(self):
        return self._num_authorities

    @property
    def num_additionals(self):
        return 0

    _num_additionals = num_additionals
