"""Drive the real DNSCache + RecordManager + engine purge with stub Zeroconf/engine objects and
observe them exactly where coq/Corr/C05.v observes the model (shared by C05, C06)."""
from lib.common import cz, ctext, copt, czlist, clist, cbool


def rec(kind, name, type_, cls=1, **rd):
    d = dict(kind=kind, name=name, type=type_, cls=cls, ttl=120, created=0, address=b'', scope_id=None, cpu='', os='',
             alias='', text=b'', priority=0, weight=0, port=0, server='', next_name='', rdtypes=[])
    d.update(rd)
    return d


def coq_rec(d):
    return ("{| p_kind := %s; p_name := %s; p_type_ := %s; p_class_ := %s; p_ttl := %s; p_created := %s; "
            "p_address := %s; p_scope_id := %s; p_cpu := %s; p_os := %s; p_alias := %s; p_text := %s; "
            "p_priority := %s; p_weight := %s; p_port := %s; p_server := %s; p_next_name := %s; p_rdtypes := %s |}") % (
        d['kind'], ctext(d['name']), cz(d['type']), cz(d['cls']), cz(d['ttl']), cz(d['created']),
        ctext(d['address']), copt(d['scope_id']), ctext(d['cpu']), ctext(d['os']), ctext(d['alias']), ctext(d['text']),
        cz(d['priority']), cz(d['weight']), cz(d['port']), ctext(d['server']), ctext(d['next_name']), czlist(d['rdtypes']))


def mk(d):
    from zeroconf import DNSAddress, DNSHinfo, DNSNsec, DNSPointer, DNSQuestion, DNSService, DNSText
    k = d['kind']
    if k == 'KQuestion':
        return DNSQuestion(d['name'], d['type'], d['cls'])
    if k == 'KAddress':
        return DNSAddress(d['name'], d['type'], d['cls'], d['ttl'], d['address'], scope_id=d['scope_id'], created=d['created'])
    if k == 'KHinfo':
        return DNSHinfo(d['name'], d['type'], d['cls'], d['ttl'], d['cpu'], d['os'], created=d['created'])
    if k == 'KPointer':
        return DNSPointer(d['name'], d['type'], d['cls'], d['ttl'], d['alias'], created=d['created'])
    if k == 'KText':
        return DNSText(d['name'], d['type'], d['cls'], d['ttl'], d['text'], created=d['created'])
    if k == 'KService':
        return DNSService(d['name'], d['type'], d['cls'], d['ttl'], d['priority'], d['weight'], d['port'], d['server'], created=d['created'])
    if k == 'KNsec':
        return DNSNsec(d['name'], d['type'], d['cls'], d['ttl'], d['next_name'], list(d['rdtypes']), created=d['created'])
    raise ValueError(k)


KCODE = {'DNSQuestion': 0, 'DNSAddress': 1, 'DNSHinfo': 2, 'DNSPointer': 3, 'DNSText': 4, 'DNSService': 5, 'DNSNsec': 6}


def as_int(x):
    i = int(x)
    assert i == x, f"non-integral time/ttl {x!r} (M2: integer-millisecond clocks only)"
    return i


def vrec(o):
    """the observable state of a live record object, same layout as Corr.C05.vrec"""
    g = lambda a, dflt: getattr(o, a, dflt)  # noqa: E731
    scope = g('scope_id', None)
    return [KCODE[type(o).__name__], o.name, o.type, o.class_, bool(o.unique), as_int(o.ttl), as_int(o.created),
            [bytes(g('address', b'')), None if scope is None else [scope], g('cpu', ''), g('os', ''), g('alias', ''),
             bytes(g('text', b'')), g('priority', 0), g('weight', 0), g('port', 0), g('server', ''), g('next_name', ''),
             list(g('rdtypes', []))]]


def vopt(o):
    return None if o is None else [vrec(o)]


class Probes:
    def __init__(self, names, details, recs, servers, alias):
        self.names, self.details, self.recs, self.servers, self.alias = names, details, recs, servers, alias
        self.rec_objs = [mk(r) for r in recs]

    def coq(self):
        return ("{| pr_names := %s; pr_details := %s; pr_recs := %s; pr_servers := %s; pr_alias := %s |}" % (
            clist(ctext(n) for n in self.names),
            clist(f"({ctext(n)}, {cz(t)}, {cz(c)})" for n, t, c in self.details),
            clist(coq_rec(r) for r in self.recs),
            clist(ctext(s) for s in self.servers),
            clist(f"({ctext(n)}, {ctext(a)})" for n, a in self.alias)))


class Sim:
    """history events:
         ('resp', now, [record dicts], [(lid, phase, ('add'|'remove', lid2))])
         ('purge', now)
         ('listen', ('add'|'remove', lid))"""

    def __init__(self, probes, listeners=()):
        import zeroconf._cache as zcache
        import zeroconf._engine as zengine
        import zeroconf._handlers.record_manager as zrm
        from zeroconf._cache import DNSCache
        from zeroconf._history import QuestionHistory
        from zeroconf._updates import RecordUpdateListener
        self.zcache, self.zengine, self.zrm = zcache, zengine, zrm
        sim = self
        self.p = probes

        class ZC:
            def __init__(self):
                self.cache = DNSCache()
                self.question_history = QuestionHistory()
                self.notified = 0

            def async_notify_all(self):
                self.notified += 1

        self.zc = ZC()

        class RM(zrm.RecordManager):
            # observation points only: what is passed, and what the cache looks like at that moment
            # (extra arguments a revised implementation may pass between its own methods are handed through)
            def async_updates(self, now, records, *a, **k):
                sim.phase1 = ([[vrec(u.new), vopt(u.old)] for u in records], sim.dump())
                super().async_updates(now, records, *a, **k)

            def async_updates_complete(self, notify, *a, **k):
                sim.phase2 = (sim.dump(), bool(notify))
                super().async_updates_complete(notify, *a, **k)

        self.rm = RM(self.zc)
        self.zc.record_manager = self.rm

        class Engine:
            zc = self.zc

            def _async_schedule_next_cache_cleanup(self):
                pass
        self.engine = Engine()

        class L(RecordUpdateListener):
            def __init__(self, lid):
                self.lid = lid

            def async_update_records(self, zc, now, records):
                sim.calls.append((1, self.lid, [[vrec(u.new), vopt(u.old)] for u in records], sim.dump()))
                sim.react(self.lid, 1)

            def async_update_records_complete(self):
                sim.calls.append((2, self.lid, None, sim.dump()))
                sim.react(self.lid, 2)
        self.L = L
        self.lobjs = {}
        for lid in listeners:
            self.listen(('add', lid))
        self.calls = []
        self.reactions = []
        self.now = 0

    def listen(self, cmd):
        op, lid = cmd
        if op == 'add':
            if lid not in self.lobjs:
                self.lobjs[lid] = self.L(lid)
                self.rm.async_add_listener(self.lobjs[lid], None)
        else:
            if lid in self.lobjs:
                self.rm.async_remove_listener(self.lobjs.pop(lid))

    def react(self, lid, phase):
        for (l, ph, cmd) in self.reactions:
            if l == lid and ph == phase:
                self.listen(cmd)

    def dump(self):
        c = self.zc.cache
        return [[vrec(r) for r in c.entries_with_name(n)] for n in self.p.names]

    def probe(self, now):
        c = self.zc.cache
        self.zcache.current_time_millis = lambda: now
        names = c.names()
        return [
            self.dump(),
            [[vopt(c.get_by_details(n, t, cl)), [vrec(r) for r in c.get_all_by_details(n, t, cl)],
              [vrec(r) for r in c.async_all_by_details(n, t, cl)]] for n, t, cl in self.p.details],
            [[vopt(c.get(o)), vopt(c.async_get_unique(o))] for o in self.p.rec_objs],
            [[vrec(r) for r in c.entries_with_server(s)] for s in self.p.servers],
            [n.lower() in names for n in self.p.names],
            len(names),
            [vopt(c.current_entry_with_name_and_alias(n, a)) for n, a in self.p.alias],
        ]

    def event(self, ev):
        kind = ev[0]
        if kind == 'listen':
            self.listen(ev[1])
            return [2]
        self.calls = []
        self.phase1 = self.phase2 = None
        if kind == 'purge':
            now = ev[1]
            self.reactions = []
            self.zengine.current_time_millis = lambda: now
            try:
                self.zengine.AsyncEngine._async_cache_cleanup(self.engine)
            except KeyError:
                return [9, 7]
            ups = [c for c in self.calls if c[0] == 1]
            lst = self.phase1[0]
            for c in ups:
                assert c[2] == lst
            for pair in lst:
                assert pair[1] == [pair[0]], "purge must report (record, record)"
            return [1, [p[0] for p in lst], sorted(c[1] for c in ups), self.probe(now)]
        if kind == 'resp':
            _, now, recs, reactions = ev
            self.reactions = reactions
            objs = [mk(dict(r, created=now)) for r in recs]

            from lib.fakemsg import FakeIncoming
            m = FakeIncoming(answers=objs, now=now, flags=0x8400)
            n0 = self.zc.notified
            try:
                self.rm.async_updates_from_response(m)
            except KeyError:
                return [9, 7]
            ups = [c for c in self.calls if c[0] == 1]
            comps = [c for c in self.calls if c[0] == 2]
            if self.phase1 is None and self.phase2 is None:
                assert not ups and not comps
                return [0, 0, self.probe(now)]
            assert self.phase1 is not None and self.phase2 is not None
            for c in ups:
                assert c[2] == self.phase1[0] and c[3] == self.phase1[1]
            for c in comps:
                assert c[3] == self.phase2[0]
            # phase order: every update call precedes every complete call
            idx_u = [i for i, c in enumerate(self.calls) if c[0] == 1]
            idx_c = [i for i, c in enumerate(self.calls) if c[0] == 2]
            assert not idx_c or not idx_u or max(idx_u) < min(idx_c)
            return [0, 1, self.phase1[0], sorted(c[1] for c in ups), self.phase1[1],
                    sorted(c[1] for c in comps), self.phase2[0], self.phase2[1], self.probe(now)]
        raise ValueError(kind)


def coq_event(ev):
    if ev[0] == 'listen':
        return f"Listen ({'LAdd' if ev[1][0] == 'add' else 'LRemove'} {cz(ev[1][1])})"
    if ev[0] == 'purge':
        return f"Purge {cz(ev[1])}"
    _, now, recs, reactions = ev
    rs = clist(f"({cz(l)}, {cz(ph)}, {'LAdd' if c[0] == 'add' else 'LRemove'} {cz(c[1])})" for l, ph, c in reactions)
    return f"Resp {cz(now)} {clist(coq_rec(dict(r, created=now)) for r in recs)} {rs}"


def run_history(probes, listeners, history):
    sim = Sim(probes, listeners)
    return [sim.event(ev) for ev in history]


def coq_case(listeners, history):
    return f"({czlist(listeners)}, {clist(coq_event(e) for e in history)})"
