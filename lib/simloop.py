"""Deterministic virtual-time harness for the real zeroconf stack (DESIGN F1/F3, M8-M10).

  * SimLoop: asyncio.BaseEventLoop whose selector advances an integer-millisecond virtual clock
  * patches (active for the lifetime of a Sim): time.monotonic, current_time_millis in every module
    that imports it by name, the four random call sites, socket creation / endpoint creation
  * Net: a link of hosts; every multicast send is delivered to the other hosts (and optionally back to
    the sender) after a per-datagram delay decided by a policy; unicast sends are delivered to the
    addressed host; every send is logged as (time, host, dest, bytes)
No source hook in /repo is needed.
"""
import asyncio
import contextlib
import socket
import sys
from unittest import mock

TIME_MODULES = ['zeroconf._cache', 'zeroconf._core', 'zeroconf._dns', 'zeroconf._engine',
                'zeroconf._handlers.multicast_outgoing_queue', 'zeroconf._handlers.record_manager', 'zeroconf._listener',
                'zeroconf._protocol.incoming', 'zeroconf._services.browser', 'zeroconf._services.info', 'zeroconf._utils.time']


class Clock:
    def __init__(self, start_ms=1_000_000):
        self.ms = start_ms


class NothingScheduled(Exception):
    pass


class SimLoop(asyncio.BaseEventLoop):
    def __init__(self, clock):
        super().__init__()
        self.clock = clock
        self._selector = self
        self._clock_resolution = 1e-9
        self.handler_log = None        # optional list: (virtual ms, description) per handler run
        self.escaped = []              # exceptions reported to the loop's exception handler
        self.set_exception_handler(self._on_exception)

    def _on_exception(self, loop, context):
        self.escaped.append((self.clock.ms, repr(context.get('exception')), context.get('message')))

    # -- virtual time ----------------------------------------------------------------------------
    def time(self):
        return self.clock.ms / 1000.0

    def select(self, timeout):
        if timeout is None:
            raise NothingScheduled()
        if timeout > 0:
            self.clock.ms += max(1, int(round(timeout * 1000)))
        return []

    def _process_events(self, event_list):
        pass

    def _write_to_self(self):
        pass

    def call_at(self, when, callback, *args, context=None):
        # the library always adds whole-millisecond delays; remove float noise below 1 us
        when = round(when * 1000) / 1000.0
        return super().call_at(when, callback, *args, context=context)

    def close(self):
        self._selector = None
        try:
            super().close()
        except Exception:  # noqa: BLE001
            pass


class FakeSock:
    def __init__(self, family, name, fileno):
        self.family = family
        self._name = name
        self._fileno = fileno

    def fileno(self):
        return self._fileno

    def getsockname(self):
        return self._name


class FakeTransport(asyncio.DatagramTransport):
    """One per (host, socket). sendto() hands the datagram to the Net."""

    def __init__(self, net, host, family, idx):
        super().__init__()
        self.net, self.host, self.family, self.idx = net, host, family, idx
        name = (host.addr6, 5353, 0, host.scope) if family == socket.AF_INET6 else (host.addr4, 5353)
        self.sock = FakeSock(family, name, 100 + idx)
        self.closed = False

    def get_extra_info(self, name, default=None):
        return self.sock if name == 'socket' else default

    def sendto(self, data, addr=None):
        if self.closed:
            self.net.log.append((self.net.clock.ms, self.host.name, 'send-after-close', bytes(data), self.idx))
            return
        self.net.on_send(self.host, self, bytes(data), addr)

    def close(self):
        if self.closed:
            return
        self.closed = True
        # like asyncio's selector transports: the protocol hears about it on the next loop iteration
        proto = getattr(self, 'protocol', None)
        if proto is not None:
            self.net.loop.call_soon(proto.connection_lost, None)

    def is_closing(self):
        return self.closed


class Host:
    def __init__(self, net, name, addr4, addr6=None, scope=3, families=('v4',)):
        self.net, self.name, self.addr4, self.addr6, self.scope, self.families = net, name, addr4, addr6, scope, families
        self.zc = None
        self.azc = None
        self.protocols = []
        self.transports = []


class Net:
    """policy(kind, src_host, dst_host, data, seq) -> list of delays in ms (empty list = dropped, two entries = duplicated)."""

    def __init__(self, clock, loop, policy=None, loopback=False):
        self.clock, self.loop = clock, loop
        self.hosts = []
        self.log = []          # (ms, host name, dest, bytes, socket idx)
        self.policy = policy or (lambda kind, src, dst, data, seq: [0])
        self.loopback = loopback
        self.seq = 0
        self.delivered = []    # (ms, dst, src, bytes)

    def add_host(self, name, addr4, addr6=None, families=('v4',)):
        h = Host(self, name, addr4, addr6, families=families)
        self.hosts.append(h)
        return h

    def on_send(self, host, transport, data, addr):
        dest = tuple(addr) if addr else None
        self.log.append((self.clock.ms, host.name, dest, data, transport.idx))
        is_mcast = dest is not None and dest[0] in ('224.0.0.251', 'ff02::fb')
        self.seq += 1
        seq = self.seq
        for dst in self.hosts:
            if dst is host and not (self.loopback and is_mcast):
                continue
            if not is_mcast and dest is not None and dest[0] not in (dst.addr4, dst.addr6):
                continue
            for proto, tr in zip(dst.protocols, dst.transports):
                if tr.family != transport.family or tr.closed:
                    continue
                for delay in self.policy('mcast' if is_mcast else 'ucast', host, dst, data, seq):
                    src = (host.addr6, 5353, 0, host.scope) if transport.family == socket.AF_INET6 else (host.addr4, 5353)
                    self.loop.call_at(self.loop.time() + delay / 1000.0, self._deliver, dst, proto, tr, data, src, host)

    def _deliver(self, dst, proto, tr, data, src, srchost):
        if tr.closed:
            return
        self.delivered.append((self.clock.ms, dst.name, srchost.name, data))
        proto.datagram_received(data, src)

    def inject(self, host, data, src=('10.9.9.9', 5353), sock=0, contain=False):
        """deliver a datagram to one socket of a host right now, as if it had arrived from `src`. With contain=True an exception out of
        datagram_received goes where asyncio's datagram transport lets it go: to the loop's exception handler (`escaped`)."""
        if not contain:
            host.protocols[sock].datagram_received(data, src)
            return
        try:
            host.protocols[sock].datagram_received(data, src)
        except Exception as e:        # noqa: BLE001
            self.loop.call_exception_handler({'message': 'Exception in callback datagram_received', 'exception': e})


class Sim(contextlib.ExitStack):
    """with Sim() as sim: ... sim.run(coro)"""

    def __init__(self, start_ms=1_000_000, policy=None, loopback=False, randoms=None):
        super().__init__()
        self.clock = Clock(start_ms)
        self.loop = SimLoop(self.clock)
        self.net = Net(self.clock, self.loop, policy, loopback)
        # every random.randint call site reads from its own named stream (M8); default = lower bound
        self.randoms = randoms or {}
        self.random_log = []

    def _rand(self, site):
        def f(a, b):
            stream = self.randoms.get(site)
            v = stream.pop(0) if stream else a
            v = min(max(v, a), b)
            self.random_log.append((self.clock.ms, site, v))
            return v
        return f

    def __enter__(self):
        super().__enter__()
        import importlib
        clock = self.clock
        self.enter_context(mock.patch('time.monotonic', lambda: clock.ms / 1000.0))
        for modname in TIME_MODULES:
            mod = importlib.import_module(modname)
            if hasattr(mod, 'current_time_millis'):
                self.enter_context(mock.patch.object(mod, 'current_time_millis', lambda: clock.ms))
        import zeroconf._services.browser as zb
        import zeroconf._handlers.multicast_outgoing_queue as zq
        import zeroconf._listener as zl
        import zeroconf._services.info as zi
        rb = mock.MagicMock()
        rb.randint = self._rand('first_query_delay')
        self.enter_context(mock.patch.object(zb, 'random', rb))
        self.enter_context(mock.patch.object(zq, 'RAND_INT', self._rand('mcast_delay')))
        rl = mock.MagicMock()
        rl.randint = self._rand('tc_delay')
        self.enter_context(mock.patch.object(zl, 'random', rl))
        self.enter_context(mock.patch.object(zi, 'randint', self._rand('lookup_jitter')))
        import zeroconf._core as zcore
        import zeroconf._engine as zengine
        self.enter_context(mock.patch.object(zcore, 'create_sockets', lambda *a, **k: (None, [])))
        sim = self

        async def fake_endpoints(engine):
            host = sim._pending_host
            from zeroconf._listener import AsyncListener
            from zeroconf._transport import make_wrapped_transport
            fams = []
            if 'v4' in host.families:
                fams.append(socket.AF_INET)
            if 'v6' in host.families:
                fams.append(socket.AF_INET6)
            for idx, fam in enumerate(fams):
                proto = AsyncListener(engine.zc)
                tr = FakeTransport(sim.net, host, fam, idx)
                proto.connection_made(tr)
                tr.protocol = proto
                engine.protocols.append(proto)
                wt = make_wrapped_transport(tr)
                engine.readers.append(wt)
                engine.senders.append(wt)
                host.protocols.append(proto)
                host.transports.append(tr)
        self.enter_context(mock.patch.object(zengine.AsyncEngine, '_async_create_endpoints', fake_endpoints))
        asyncio.set_event_loop(self.loop)
        return self

    def __exit__(self, *exc):
        try:
            # cancel whatever is left so that closing the loop is quiet
            for t in asyncio.all_tasks(self.loop):
                t.cancel()
            with contextlib.suppress(Exception, NothingScheduled):
                self.loop.run_until_complete(asyncio.sleep(0))
        finally:
            asyncio.set_event_loop(None)
            self.loop.close()
        return super().__exit__(*exc)

    async def start_host(self, name, addr4, addr6=None, families=('v4',)):
        from zeroconf.asyncio import AsyncZeroconf
        host = self.net.add_host(name, addr4, addr6, families)
        self._pending_host = host
        azc = AsyncZeroconf(interfaces=['127.0.0.1'])
        host.azc, host.zc = azc, azc.zeroconf
        await azc.zeroconf.async_wait_for_start()
        return host

    def run(self, coro):
        return self.loop.run_until_complete(coro)

    @property
    def now(self):
        return self.clock.ms

    async def sleep_until(self, t_ms):
        d = t_ms - self.clock.ms
        if d > 0:
            await asyncio.sleep(d / 1000.0)

    async def sleep(self, d_ms):
        await asyncio.sleep(d_ms / 1000.0)
