"""Instrument ONE real Zeroconf instance running on the virtual-time simulator (lib/simloop.py) so that every handler
invocation is logged as a label of the node LTS (coq/Model/Node.v) together with what that invocation let out.
The label sequence is replayed through the model (coq/Corr/Node.v node_run) and compared observation by observation.
Nothing in /repo is changed: the hooks are wrappers installed on the classes for the duration of a run and filtered by
instance identity."""
import asyncio
import contextvars

from lib import cachesim
from lib.cachesim import coq_rec
from lib.common import cz, ctext, cbool, clist
from props import c03

REG = contextvars.ContextVar('verif_reg', default=None)   # id of the registration / task the current asyncio task belongs to

EXN = {'IndexError': 1, 'IncomingDecodeError': 2, 'NamePartTooLongException': 3, 'BadTypeInNameException': 4, 'ValueError': 5,
       'RecursionError': 6, 'KeyError': 7, 'AssertionError': 8, 'ServiceNameAlreadyRegistered': 9, 'NonUniqueNameException': 10,
       'NotRunningException': 11}

KIND = {'DNSQuestion': 'KQuestion', 'DNSAddress': 'KAddress', 'DNSHinfo': 'KHinfo', 'DNSPointer': 'KPointer', 'DNSText': 'KText',
        'DNSService': 'KService', 'DNSNsec': 'KNsec'}


def rec_of(o, created=None):
    """a live DNS record / question object -> the dict form used by cachesim.coq_rec"""
    g = lambda a, d: getattr(o, a, d)  # noqa: E731
    k = KIND[type(o).__name__]
    return dict(kind=k, name=o.name, type=o.type, cls=(o.class_ | (0x8000 if o.unique else 0)),
                ttl=0 if k == 'KQuestion' else int(o.ttl), created=0 if k == 'KQuestion' else int(g('created', 0) if created is None else created),
                address=bytes(g('address', b'')), scope_id=g('scope_id', None), cpu=g('cpu', ''), os=g('os', ''), alias=g('alias', ''),
                text=bytes(g('text', b'')), priority=g('priority', 0), weight=g('weight', 0), port=g('port', 0), server=g('server', ''),
                next_name=g('next_name', ''), rdtypes=list(g('rdtypes', [])))


def vq(q):
    return [q.name, q.type, q.class_, bool(q.unique)]


def vmsg(out):
    return [out.id, out.flags, [vq(q) for q in out.questions], c03.vset([c03.vrec_ident(r) for r, _ in out.answers]),
            c03.vset([c03.vrec_ident(r) for r in out.authorities]), c03.vset([c03.vrec_ident(r) for r in out.additionals])]


def coq_svc_of(info):
    from zeroconf import IPVersion
    s = dict(type=info.type, name=info.name, server=info.server or info.name, port=info.port or 0, weight=info.weight, priority=info.priority,
             text=bytes(info.text or b''), host_ttl=info.host_ttl, other_ttl=info.other_ttl,
             v4=[bytes(a) for a in info.addresses_by_version(IPVersion.V4Only)], v6=[bytes(a) for a in info.addresses_by_version(IPVersion.V6Only)])
    return c03.coq_svc(s)


class NodeRecorder:
    def __init__(self, sim, host=None):
        self.sim, self.host, self.zc = sim, host, (host.zc if host is not None else None)
        self.labels, self.obs = [], []
        self.cur = None
        self.next_id = 0
        self.sends = []          # (ms, dest, out) of everything actually transmitted through async_send
        self._undo = []
        self._draws = {}
        self.active = True
        self.front = False       # byte-level mode (coq/Model/Front.v): datagrams and TC timers are the labels, node labels are wrapped in FNode
        self.in_dgram = False
        self.escaped = []        # exceptions that left datagram_received / a TC timer

    # ---- label bookkeeping ----
    def begin(self, label):
        if not self.active:          # a timer armed while the hooks were installed fires after uninstall(): not part of the recorded run
            self.cur = []
            return
        self.cur = []
        if self.front and label.startswith('L'):
            label = f"FNode ({label})"
        self.labels.append(label)
        self.obs.append(self.cur)

    def out(self, item):
        if self.cur is None:
            self.begin('LClose 0')   # cannot happen in a well-formed run; makes the replay fail loudly
        self.cur.append(item)

    def new_id(self):
        self.next_id += 1
        return self.next_id

    def _patch(self, cls, name, make):
        orig = getattr(cls, name)
        setattr(cls, name, make(orig))
        self._undo.append((cls, name, orig))

    # ---- hooks ----
    def install(self, front=False):
        self.front = front
        import zeroconf._core as zcore
        import zeroconf._engine as zengine
        from zeroconf._handlers.multicast_outgoing_queue import MulticastOutgoingQueue
        from zeroconf._handlers.query_handler import QueryHandler
        from zeroconf._handlers.record_manager import RecordManager
        from zeroconf._services.registry import ServiceRegistry
        Z = zcore.Zeroconf
        rec, sim = self, self.sim

        def mk_send(orig):
            def async_send(self, out, addr=None, port=5353, v6_flow_scope=(), transport=None):
                if self is not rec.zc:
                    return orig(self, out, addr, port, v6_flow_scope, transport)
                before = len(sim.net.log)
                orig(self, out, addr, port, v6_flow_scope, transport)
                if len(sim.net.log) != before:
                    rec.sends.append((sim.now, None if addr is None else (addr, port), out))
                    # questions without an authority section come from browsers and lookups, which the node model does not contain
                    if not (out.is_query() and not out.authorities):
                        rec.out([1, sim.now, [] if addr is None else [addr, port], vmsg(out)])
            return async_send
        self._patch(Z, 'async_send', mk_send)

        def mk_check(orig):
            async def async_check_service(self, info, allow_name_change, cooperating_responders=False, strict=True):
                if self is not rec.zc:
                    return await orig(self, info, allow_name_change, cooperating_responders, strict)
                rid = REG.get()
                rec.begin(f"LRegister {cz(rid)} {cz(sim.now)} {coq_svc_of(info)} {cbool(allow_name_change)} {cbool(strict)} {cbool(cooperating_responders)}")
                try:
                    await orig(self, info, allow_name_change, cooperating_responders, strict)
                except Exception as e:  # noqa: BLE001
                    rec.out([3, EXN.get(type(e).__name__, 99)])
                    raise
                rec.out([4])
            return async_check_service
        self._patch(Z, 'async_check_service', mk_check)

        def mk_wait(orig):
            async def async_wait(self, timeout):
                if self is not rec.zc or REG.get() is None:
                    return await orig(self, timeout)
                rid = REG.get()
                rec.out([2, cachesim.as_int(timeout)])
                await orig(self, timeout)
                rec.begin(f"LCheck {cz(rid)} {cz(sim.now)}")
            return async_wait
        self._patch(Z, 'async_wait', mk_wait)

        def mk_regadd(name):
            def mk(orig):
                def f(self, info):
                    if rec.zc is None or self is not rec.zc.registry:
                        return orig(self, info)
                    try:
                        orig(self, info)
                    except Exception as e:  # noqa: BLE001
                        rec.out([3, EXN.get(type(e).__name__, 99)])
                        raise
                    rec.out([5, c03.vset(sorted(self._services))])
                return f
            return mk
        self._patch(ServiceRegistry, 'async_add', mk_regadd('async_add'))
        self._patch(ServiceRegistry, 'async_update', mk_regadd('async_update'))

        def mk_bcast(orig):
            async def _async_broadcast_service(self, info, interval, ttl, broadcast_addresses=True):
                if self is not rec.zc:
                    return await orig(self, info, interval, ttl, broadcast_addresses)
                rid = REG.get()
                rec.begin(f"LBcast {cz(rid)} {cz(sim.now)}")
                await orig(self, info, interval, ttl, broadcast_addresses)
                rec.out([7])
            return _async_broadcast_service
        self._patch(Z, '_async_broadcast_service', mk_bcast)

        orig_sleep = asyncio.sleep

        async def sleep(delay, result=None):
            rid = REG.get()
            if rid is None:
                return await orig_sleep(delay, result)
            if rid == 'all':
                await orig_sleep(delay, result)
                rec.begin(f"LGoodbyeAll {cz(sim.now)}")
                return result
            rec.out([2, round(delay * 1000)])
            await orig_sleep(delay, result)
            rec.begin(f"LBcast {cz(rid)} {cz(sim.now)}")
            return result
        asyncio.sleep = sleep
        self._undo.append((asyncio, 'sleep', orig_sleep))

        def mk_unreg(orig):
            async def async_unregister_service(self, info):
                if self is not rec.zc:
                    return await orig(self, info)
                tid = rec.new_id()
                tok = REG.set(tid)
                rec._withdrawn = None
                rec.begin(f"LUnregister {cz(tid)} {cz(sim.now)} {ctext(info.key)}")
                try:
                    fut = await orig(self, info)
                finally:
                    REG.reset(tok)
                rec.out([6, c03.vset(sorted(self.registry._services)), c03.vset([c03.vrec_ident(r) for r in (rec._withdrawn or [])])])
                return fut
            return async_unregister_service
        self._patch(Z, 'async_unregister_service', mk_unreg)

        def mk_remove_answers(orig):
            def async_remove_answers(self, answers):
                if rec.zc is not None and self is rec.zc.out_queue:
                    rec._withdrawn = list(answers)
                return orig(self, answers)
            return async_remove_answers
        if hasattr(MulticastOutgoingQueue, 'async_remove_answers'):
            self._patch(MulticastOutgoingQueue, 'async_remove_answers', mk_remove_answers)

        def mk_update(orig):
            async def async_update_service(self, info):
                if self is not rec.zc:
                    return await orig(self, info)
                tid = rec.new_id()
                tok = REG.set(tid)
                rec.begin(f"LUpdate {cz(tid)} {cz(sim.now)} {coq_svc_of(info)}")
                try:
                    return await orig(self, info)
                finally:
                    REG.reset(tok)
            return async_update_service
        self._patch(Z, 'async_update_service', mk_update)

        def mk_unreg_all(orig):
            async def async_unregister_all_services(self):
                if self is not rec.zc:
                    return await orig(self)
                tok = REG.set('all')
                rec.begin(f"LUnregisterAll {cz(sim.now)}")
                had = bool(self.registry._services)
                try:
                    await orig(self)
                finally:
                    REG.reset(tok)
                if not had:
                    rec.out([7])
            return async_unregister_all_services
        self._patch(Z, 'async_unregister_all_services', mk_unreg_all)

        def mk_close(orig):
            def _close(self):
                if self is rec.zc and not self.done:
                    rec.begin(f"LClose {cz(sim.now)}")
                return orig(self)
            return _close
        self._patch(Z, '_close', mk_close)

        def mk_query(orig):
            def handle_assembled_query(self, packets, addr, port, transport, v6_flow_scope):
                if self.zc is not rec.zc:
                    return orig(self, packets, addr, port, transport, v6_flow_scope)
                msgs = clist("{| qm_questions := %s; qm_answers := %s; qm_is_probe := %s; qm_now := %s |}" % (
                    clist(coq_rec(rec_of(q)) for q in m.questions), clist(coq_rec(rec_of(r, created=int(m.now))) for r in m.answers()),
                    cbool(m.is_probe()), cz(m.now)) for m in packets)
                if rec.front and rec.in_dgram:
                    return orig(self, packets, addr, port, transport, v6_flow_scope)
                rec._draws = {}
                idx = len(rec.labels)
                rec.begin('LQuery')
                try:
                    orig(self, packets, addr, port, transport, v6_flow_scope)
                finally:
                    rec.labels[idx] = (f"LQuery {cz(sim.now)} {msgs} {cz(packets[0].id if packets else 0)} {ctext(addr)} {cz(port)} "
                                       f"{cz(rec._draws.get('q', 0))} {cz(rec._draws.get('qd', 0))}")
            return handle_assembled_query
        self._patch(QueryHandler, 'handle_assembled_query', mk_query)

        def mk_qadd(orig):
            def async_add(self, now, answers):
                if self.zc is not rec.zc:
                    return orig(self, now, answers)
                mark = len(sim.random_log)
                orig(self, now, answers)
                d = [v for (_, site, v) in sim.random_log[mark:] if site == 'mcast_delay']
                rec._draws['qd' if self is rec.zc.out_delay_queue else 'q'] = d[0] if d else 0
            return async_add
        self._patch(MulticastOutgoingQueue, 'async_add', mk_qadd)

        def mk_ready(orig):
            def async_ready(self):
                if self.zc is not rec.zc:
                    return orig(self)
                rec.begin(f"LReady {cbool(self is rec.zc.out_delay_queue)} {cz(sim.now)}")
                return orig(self)
            return async_ready
        self._patch(MulticastOutgoingQueue, 'async_ready', mk_ready)

        def mk_resp(orig):
            def async_updates_from_response(self, msg):
                if self.zc is rec.zc and not (rec.front and rec.in_dgram):
                    rec.begin(f"LResp {cz(msg.now)} {clist(coq_rec(rec_of(r, created=int(msg.now))) for r in msg.answers())}")
                return orig(self, msg)
            return async_updates_from_response
        self._patch(RecordManager, 'async_updates_from_response', mk_resp)

        from zeroconf._listener import AsyncListener

        def finish_front(idx, head, mark):
            tc = [v for (_, site, v) in sim.random_log[mark:] if site == 'tc_delay']
            return f"{head} {cz(tc[0] if tc else 0)} {cz(rec._draws.get('q', 0))} {cz(rec._draws.get('qd', 0))}"

        def mk_dgram(orig):
            def datagram_received(self, data, addrs):
                if self.zc is not rec.zc or not rec.front:
                    return orig(self, data, addrs)
                idx = len(rec.labels)
                rec.begin('FDatagram')
                rec._draws = {}
                mark = len(sim.random_log)
                rec.in_dgram = True
                try:
                    orig(self, data, addrs)
                except Exception as e:  # noqa: BLE001  (it would have reached the event loop's exception handler)
                    rec.out([3, EXN.get(type(e).__name__, 99)])
                    rec.escaped.append((sim.now, repr(e)))
                finally:
                    rec.in_dgram = False
                    rec.labels[idx] = finish_front(idx, f"FDatagram {ctext(bytes(data))} {ctext(addrs[0])} {cz(addrs[1])} {cz(sim.now)}", mark)
            return datagram_received
        self._patch(AsyncListener, 'datagram_received', mk_dgram)

        def mk_respond(orig):
            def _respond_query(self, msg, addr, port, transport, v6_flow_scope):
                if self.zc is not rec.zc or not rec.front or msg is not None:
                    return orig(self, msg, addr, port, transport, v6_flow_scope)
                idx = len(rec.labels)
                rec.begin('FTimer')
                rec._draws = {}
                rec.in_dgram = True
                try:
                    orig(self, msg, addr, port, transport, v6_flow_scope)
                except Exception as e:  # noqa: BLE001
                    rec.out([3, EXN.get(type(e).__name__, 99)])
                    rec.escaped.append((sim.now, repr(e)))
                finally:
                    rec.in_dgram = False
                    rec.labels[idx] = (f"FTimer {ctext(addr)} {cz(port)} {cz(sim.now)} {cz(rec._draws.get('q', 0))} {cz(rec._draws.get('qd', 0))}")
            return _respond_query
        self._patch(AsyncListener, '_respond_query', mk_respond)

        def mk_cleanup(orig):
            def _async_cache_cleanup(self):
                if self.zc is rec.zc:
                    rec.begin(f"LPurge {cz(sim.now)}")
                return orig(self)
            return _async_cache_cleanup
        self._patch(zengine.AsyncEngine, '_async_cache_cleanup', mk_cleanup)
        return self

    def attach(self, host):
        """hooks installed before the instance exists (so that timers armed at start-up already run through them) start logging here"""
        self.host, self.zc = host, host.zc
        return self

    def uninstall(self):
        self.active = False
        for cls, name, orig in reversed(self._undo):
            setattr(cls, name, orig)
        self._undo = []

    # ---- API calls made by the scenario, each in its own asyncio task so that the context variable is private ----
    def register(self, info, allow_name_change=False, cooperating_responders=False, strict=True):
        """-> task resolving to ('ok', broadcast future) or ('raise', exception)"""
        rid = self.new_id()
        zc = self.zc

        async def go():
            REG.set(rid)
            try:
                fut = await zc.async_register_service(info, allow_name_change=allow_name_change,
                                                      cooperating_responders=cooperating_responders, strict=strict)
            except Exception as e:  # noqa: BLE001
                return ('raise', e)
            await fut
            return ('ok', None)
        return rid, asyncio.ensure_future(go())

    def cache_dump(self):
        return c03.vset([cachesim.vrec(r) for bucket in self.zc.cache.cache.values() for r in bucket.values()])

    def cases(self):
        """(coq input, expected val) for Corr.Node.node_run"""
        return clist(self.labels), self.obs
