"""Independent strict RFC 1035 / RFC 6762 message parser (oracle side; shares no code with the
library or with the Coq model). Returns None when the datagram is not strictly well-formed:
  - 12-byte header, sections exactly fill the datagram (no trailing bytes)
  - labels 1..63 bytes, fully inside the datagram; 0x40..0xBF length bytes rejected
  - compression pointers point strictly backwards (target < position of the pointer) and not into
    the header; at most 128 pointers and 128 labels per name (no legitimate encoder needs more)
  - name text (labels joined by '.', trailing dot, UTF-8 decoded with replacement) at most 253
    characters - the figure property C02 itself uses - and at most 255 octets on the wire
  - rdata of the supported types consumes exactly RDLENGTH
"""

SUPPORTED = {1, 5, 12, 13, 16, 28, 33, 47}
MAX_HOPS = 128
MAX_LABELS = 128


class Bad(Exception):
    pass


def _name(data, off):
    labels = []
    wire = 1
    hops = 0
    end = None
    pos = off
    while True:
        if pos >= len(data):
            raise Bad('name runs off the end')
        n = data[pos]
        if n == 0:
            if end is None:
                end = pos + 1
            break
        if n < 0x40:
            if pos + 1 + n > len(data):
                raise Bad('label truncated')
            labels.append(bytes(data[pos + 1:pos + 1 + n]))
            wire += 1 + n
            if len(labels) > MAX_LABELS:
                raise Bad('too many labels')
            pos += 1 + n
            continue
        if n < 0xC0:
            raise Bad('reserved label type')
        if pos + 1 >= len(data):
            raise Bad('pointer truncated')
        target = ((n & 0x3F) << 8) | data[pos + 1]
        if target >= pos or target < 12:
            raise Bad('pointer not strictly backwards')
        hops += 1
        if hops > MAX_HOPS:
            raise Bad('too many pointers')
        if end is None:
            end = pos + 2
        pos = target
    text = '.'.join(l.decode('utf-8', 'replace') for l in labels) + '.'
    if len(text) > 253 or wire > 255:
        raise Bad('name too long')
    return text, end


def _u16(data, off):
    if off + 2 > len(data):
        raise Bad('short')
    return (data[off] << 8) | data[off + 1]


def _charstr(data, off, end):
    if off >= end:
        raise Bad('character-string missing')
    n = data[off]
    if off + 1 + n > end:
        raise Bad('character-string truncated')
    return bytes(data[off + 1:off + 1 + n]).decode('utf-8', 'replace'), off + 1 + n


def parse(data):
    """-> dict(id, flags, counts, questions=[(name,type,class15,qu)], records=[...], all_supported) or None"""
    try:
        return _parse(data)
    except Bad:
        return None


def _parse(data):
    if len(data) < 12:
        raise Bad('header')
    ident, flags, nq, na, nau, nad = (_u16(data, i) for i in range(0, 12, 2))
    off = 12
    questions = []
    for _ in range(nq):
        name, off = _name(data, off)
        t = _u16(data, off)
        c = _u16(data, off + 2)
        off += 4
        questions.append((name, t, c & 0x7FFF, bool(c & 0x8000)))
    records = []
    all_supported = True
    for _ in range(na + nau + nad):
        name, off = _name(data, off)
        t = _u16(data, off)
        c = _u16(data, off + 2)
        ttl = (_u16(data, off + 4) << 16) | _u16(data, off + 6)
        rdlen = _u16(data, off + 8)
        off += 10
        end = off + rdlen
        if end > len(data):
            raise Bad('rdata truncated')
        base = dict(name=name, type=t, cls=c & 0x7FFF, unique=bool(c & 0x8000), ttl=ttl)
        if t == 1:
            if rdlen != 4:
                raise Bad('A length')
            base['rdata'] = ('address', bytes(data[off:end]))
        elif t == 28:
            if rdlen != 16:
                raise Bad('AAAA length')
            base['rdata'] = ('address', bytes(data[off:end]))
        elif t in (5, 12):
            target, o2 = _name(data, off)
            if o2 != end:
                raise Bad('PTR length')
            base['rdata'] = ('alias', target)
        elif t == 16:
            base['rdata'] = ('text', bytes(data[off:end]))
        elif t == 33:
            if rdlen < 7:
                raise Bad('SRV length')
            pr, w, po = _u16(data, off), _u16(data, off + 2), _u16(data, off + 4)
            target, o2 = _name(data, off + 6)
            if o2 != end:
                raise Bad('SRV length')
            base['rdata'] = ('srv', pr, w, po, target)
        elif t == 13:
            cpu, o2 = _charstr(data, off, end)
            os_, o3 = _charstr(data, o2, end)
            if o3 != end:
                raise Bad('HINFO length')
            base['rdata'] = ('hinfo', cpu, os_)
        elif t == 47:
            nxt, o2 = _name(data, off)
            types = []
            while o2 < end:
                if o2 + 2 > end:
                    raise Bad('NSEC window')
                window, blen = data[o2], data[o2 + 1]
                if blen < 1 or blen > 32 or o2 + 2 + blen > end:
                    raise Bad('NSEC bitmap')
                for i, byte in enumerate(data[o2 + 2:o2 + 2 + blen]):
                    for bit in range(8):
                        if byte & (0x80 >> bit):
                            types.append(window * 256 + i * 8 + bit)
                o2 += 2 + blen
            if o2 != end:
                raise Bad('NSEC length')
            base['rdata'] = ('nsec', nxt, sorted(types))
        else:
            all_supported = False
            base['rdata'] = ('unknown', bytes(data[off:end]))
        records.append(base)
        off = end
    if off != len(data):
        raise Bad('trailing bytes')
    return dict(id=ident, flags=flags, counts=(nq, na, nau, nad), questions=questions, records=records,
                all_supported=all_supported)
