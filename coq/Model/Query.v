(* Query: what this instance asks and when it keeps quiet.
   _history.py (QuestionHistory), browser.py generate_service_query + _group_ptr_queries_with_known_answers,
   info.py _generate_request_query / _add_question_with_known_answers, and the responder's history update
   in query_handler.py async_response. *)
From ZC Require Import Model.Base Model.PyRec Model.Dict Model.Re Model.Utf8 Model.Cache Model.Respond Gen.Const Gen.DnsPure Gen.Sites.

(* ---- QuestionHistory: dict DNSQuestion -> (time, set of known answers) ---- *)
Definition history := list (pyrec * (Z * list pyrec)).
Definition hist_get (h : history) (q : pyrec) : option (Z * list pyrec) := d_get gen_eq h q.
Definition hist_add (h : history) (q : pyrec) (now : Z) (known : list pyrec) : history := d_set gen_eq h q (now, known).

Definition subset_ident (a b : list pyrec) : bool := forallb (fun x => existsb (fun y => gen_eq y x) b) a.

(* suppresses(question, now, known_answers) *)
Definition hist_suppresses : history -> pyrec -> Z -> list pyrec -> bool :=
  Eval cbv beta iota delta [sop_apply site_hist_suppress_age] in
  fun (h : history) (q : pyrec) (now : Z) (known : list pyrec) =>
  match hist_get h q with
  | None => false
  | Some (than, prev) =>
      if sop_apply site_hist_suppress_age (now - than) C_DUPLICATE_QUESTION_INTERVAL then false
      else subset_ident prev known            (* previous_known_answers - known_answers is empty *)
  end.

(* async_expire(now) *)
Definition hist_expire : history -> Z -> history :=
  Eval cbv beta iota delta [sop_apply site_hist_expire_age] in
  fun (h : history) (now : Z) =>
  filter (fun e => negb (sop_apply site_hist_expire_age (now - fst (snd e)) C_DUPLICATE_QUESTION_INTERVAL)) h.

Definition mkq (name : text) (ty : Z) (qu : bool) : pyrec :=
  {| p_kind := KQuestion; p_name := name; p_type_ := ty; p_class_ := if qu then C_CLASS_IN_UNIQUE else C_CLASS_IN;
     p_ttl := 0; p_created := 0; p_address := []; p_scope_id := None; p_cpu := []; p_os := []; p_alias := []; p_text := [];
     p_priority := 0; p_weight := 0; p_port := 0; p_server := []; p_next_name := []; p_rdtypes := [] |}.

Definition fresh_known (c : cache) (now : Z) (name : text) (ty : Z) : list pyrec :=
  filter (fun r => negb (DNSRecord_is_stale r now)) (get_all_by_details c name ty C_CLASS_IN).

(* ---- generate_service_query: per type a PTR question with the non-stale cached pointers ---- *)
Definition qu_decision (multicast : bool) (qtype : option bool (* Some true = QU forced, Some false = QM forced *)) : bool :=
  match qtype with None => negb multicast | Some b => b end.

Fixpoint service_questions (c : cache) (h : history) (now : Z) (types : list text) (qu : bool)
  : list (pyrec * list pyrec) * history :=
  match types with
  | [] => ([], h)
  | t :: rest =>
      let q := mkq t C_TYPE_PTR qu in
      let known := fresh_known c now t C_TYPE_PTR in
      if negb qu && hist_suppresses h q now known then service_questions c h now rest qu
      else
        let h' := if qu then h else hist_add h q now known in
        let '(qs, h'') := service_questions c h' now rest qu in
        ((q, known) :: qs, h'')
  end.

(* sizes used for bucketing: question.max_size, pointer.max_size_compressed (character counts for the latter, as in the code) *)
Definition question_max_size (q : pyrec) : Z :=
  (match utf8_len (p_name q) with Ok n => n | Raise _ => 0 end) + 1 + 2 + 2.
Definition pointer_max_size_compressed (r : pyrec) : Z :=
  10 + 2 + (Z.of_nat (length (p_alias r)) - Z.of_nat (length (p_name r))) + 2.
Definition query_size (qk : pyrec * list pyrec) : Z :=
  question_max_size (fst qk) + fold_left (fun acc r => acc + pointer_max_size_compressed r) (snd qk) 0.

(* stable insertion sort by decreasing size (sorted(..., reverse=True) keeps the original order of ties... Python's
   reverse=True preserves the original relative order of equal elements) *)
Fixpoint insert_desc (x : (pyrec * list pyrec)) (l : list (pyrec * list pyrec)) : list (pyrec * list pyrec) :=
  match l with
  | [] => [x]
  | y :: r => if query_size y <? query_size x then x :: l else y :: insert_desc x r
  end.
Definition sort_desc (l : list (pyrec * list pyrec)) : list (pyrec * list pyrec) :=
  fold_left (fun acc x => insert_desc x acc) l [].

Record bucket := { b_bytes : Z; b_entries : list (pyrec * list pyrec) }.

Definition place :=
  Eval cbv beta iota delta [sop_apply site_bucket_fits] in
  fix place (bs : list bucket) (sz : Z) (e : pyrec * list pyrec) (maxb : Z) {struct bs} : list bucket :=
  match bs with
  | [] => [{| b_bytes := sz; b_entries := [e] |}]
  | b :: r => if sop_apply site_bucket_fits (b_bytes b + sz) maxb then {| b_bytes := b_bytes b + sz; b_entries := b_entries b ++ [e] |} :: r
              else b :: place r sz e maxb
  end.

Definition group_queries (qs : list (pyrec * list pyrec)) : list bucket :=
  fold_left (fun bs e => place bs (query_size e) e (C_MAX_MSG_TYPICAL - C_DNS_PACKET_HEADER_LEN)) (sort_desc qs) [].

(* one outgoing query message per bucket: questions, and the known answers with the time they were taken *)
Record query_msg := { qm_qs : list pyrec; qm_known : list pyrec; qm_time : Z }.
Definition bucket_msg (now : Z) (b : bucket) : query_msg :=
  {| qm_qs := map fst (b_entries b); qm_known := flat_map snd (b_entries b); qm_time := now |}.

Definition generate_service_query (c : cache) (h : history) (now : Z) (types : list text) (multicast : bool) (qtype : option bool)
  : list query_msg * history :=
  let qu := qu_decision multicast qtype in
  let '(qs, h') := service_questions c h now types qu in
  (map (bucket_msg now) (group_queries qs), h').

(* ---- lookup: _generate_request_query ---- *)
Definition add_question_with_known (c : cache) (now : Z) (qu : bool) (acc : query_msg * history) (name : text) (ty : Z) (skip_if_known : bool)
  : query_msg * history :=
  let '(m, h) := acc in
  let known := fresh_known c now name ty in
  if skip_if_known && nonempty known then (m, h)
  else
    let q := mkq name ty qu in
    if qu then ({| qm_qs := qm_qs m ++ [q]; qm_known := qm_known m ++ known; qm_time := now |}, h)
    else if hist_suppresses h (mkq name ty false) now known then (m, h)
    else ({| qm_qs := qm_qs m ++ [q]; qm_known := qm_known m ++ known; qm_time := now |}, hist_add h (mkq name ty false) now known).

Definition generate_request_query (c : cache) (h : history) (now : Z) (name server : text) (qu : bool) : query_msg * history :=
  let a0 := ({| qm_qs := []; qm_known := []; qm_time := now |}, h) in
  let a1 := add_question_with_known c now qu a0 name C_TYPE_SRV true in
  let a2 := add_question_with_known c now qu a1 name C_TYPE_TXT true in
  let a3 := add_question_with_known c now qu a2 server C_TYPE_A false in
  add_question_with_known c now qu a3 server C_TYPE_AAAA false.

(* ---- responder: QM questions it has a strategy for are remembered with the union of the known answers ---- *)
Definition respond_history_update (g : registry) (h : history) (msgs : list qmsg) : history :=
  match msgs with
  | [] => h
  | m0 :: _ =>
      let now := qm_now (last msgs m0) in
      let known := flat_map (fun m => if qm_is_probe m then [] else qm_answers m) msgs in
      let known_set := map fst (d_of_list gen_eq (fun r => r) known) in      (* known_answers.lookup_set() *)
      fold_left (fun h q => match get_strategies g q with
                            | [] => h
                            | sts => if DNSEntry_unique q then h
                                     else fold_left (fun h _ => hist_add h q now known_set) sts h
                            end)
                (flat_map qm_questions msgs) h
  end.
