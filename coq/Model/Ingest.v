(* Ingest: RecordManager.async_updates_from_response and the periodic purge
   (AsyncEngine._async_cache_cleanup), phase by phase. *)
From ZC Require Import Model.Base Model.PyRec Model.Dict Model.Re Model.Cache Gen.Const Gen.Sites Gen.DnsPure.

(* RecordUpdate(new, old): old is a reference to the live cached object; the model keeps the
   identity and reads the object's current state from the phase-1 cache when a listener looks *)
Record update := { u_new : pyrec; u_old : option pyrec }.

Record ingest_acc := {
  a_cache : cache;
  a_updates : list update;          (* in datagram order *)
  a_address_adds : list pyrec;
  a_other_adds : list pyrec;
  a_removes : list pyrec;           (* a Python set: no two equal members *)
  a_unique : list (text * Z * Z)
}.

Definition set_add (s : list pyrec) (r : pyrec) : list pyrec :=
  if existsb (fun x => gen_eq x r) s then s else s ++ [r].

(* the PTR TTL floor; _DNS_PTR_MIN_TTL is the float 4500/4, required to be integral by the translator *)
Definition apply_ptr_floor :=
  Eval cbv beta iota delta [sop_apply site_ingest_ptr_min_ttl] in
  fun (r : pyrec) =>
  if negb (p_ttl r =? 0) && (p_type_ r =? C_TYPE_PTR) && sop_apply site_ingest_ptr_min_ttl (p_ttl r) C_DNS_PTR_MIN_TTL
  then set_lifetime r (p_created r) C_DNS_PTR_MIN_TTL else r.

Definition is_address_type (t : Z) : bool := existsb (Z.eqb t) C_ADDRESS_RECORD_TYPES.

Definition ingest_one (now : Z) (a : ingest_acc) (record0 : pyrec) : ingest_acc :=
  let record := apply_ptr_floor record0 in
  let uniq := if DNSEntry_unique record
              then a_unique a ++ [(p_name record, p_type_ record, DNSEntry_class_ record)]
              else a_unique a in
  let maybe_entry := async_get_unique (a_cache a) record in
  if negb (DNSRecord_is_expired record now) then
    match maybe_entry with
    | Some e =>
        {| a_cache := cache_set_lifetime (a_cache a) e (p_created record) (p_ttl record);
           a_updates := a_updates a ++ [{| u_new := record; u_old := Some e |}];
           a_address_adds := a_address_adds a; a_other_adds := a_other_adds a;
           a_removes := a_removes a; a_unique := uniq |}
    | None =>
        {| a_cache := a_cache a;
           a_updates := a_updates a ++ [{| u_new := record; u_old := None |}];
           a_address_adds := if is_address_type (p_type_ record) then a_address_adds a ++ [record] else a_address_adds a;
           a_other_adds := if is_address_type (p_type_ record) then a_other_adds a else a_other_adds a ++ [record];
           a_removes := a_removes a; a_unique := uniq |}
    end
  else
    match maybe_entry with
    | Some e =>
        {| a_cache := a_cache a;
           a_updates := a_updates a ++ [{| u_new := record; u_old := Some e |}];
           a_address_adds := a_address_adds a; a_other_adds := a_other_adds a;
           a_removes := set_add (a_removes a) record; a_unique := uniq |}
    | None =>
        {| a_cache := a_cache a; a_updates := a_updates a;
           a_address_adds := a_address_adds a; a_other_adds := a_other_adds a;
           a_removes := a_removes a; a_unique := uniq |}
    end.

Record ingest_result := {
  i_phase1 : cache;              (* what listeners see in async_update_records *)
  i_updates : list update;
  i_final : result cache;        (* what listeners see in async_update_records_complete *)
  i_called : bool;               (* updates <> [] : both callbacks are made *)
  i_notify : bool                (* async_notify_all *)
}.

Definition ingest (now : Z) (answers : list pyrec) (c : cache) : ingest_result :=
  let a0 := {| a_cache := c; a_updates := []; a_address_adds := []; a_other_adds := [];
               a_removes := []; a_unique := [] |} in
  let a := fold_left (ingest_one now) answers a0 in
  (* the set(answers) used for the flush test holds the (floored) record objects *)
  let answers' := map apply_ptr_floor answers in
  let c1 := if nonempty (a_unique a) then mark_unique (a_cache a) (a_unique a) answers' now else a_cache a in
  let '(c2, new) :=
     if nonempty (a_other_adds a) || nonempty (a_address_adds a) then
       let '(ca, n1) := cache_add_records c1 (a_address_adds a) in
       let '(cb, n2) := cache_add_records ca (a_other_adds a) in
       (cb, n1 || n2)
     else (c1, false) in
  let c3 := if nonempty (a_removes a) then cache_remove_records c2 (a_removes a) else Ok c2 in
  {| i_phase1 := c1; i_updates := a_updates a; i_final := c3;
     i_called := nonempty (a_updates a); i_notify := nonempty (a_updates a) && new |}.

(* the object a listener sees as `old`: the cached object's state at call time *)
Definition old_as_seen (c1 : cache) (u : update) : option pyrec :=
  match u_old u with
  | None => None
  | Some e => match async_get_unique c1 e with Some x => Some x | None => Some e end
  end.

(* periodic purge: expired records are removed, then reported as (record, record) *)
Record purge_result := { pg_expired : list pyrec; pg_final : result cache }.
Definition purge (now : Z) (c : cache) : purge_result :=
  let '(ex, c') := async_expire c now in {| pg_expired := ex; pg_final := c' |}.

(* listener fan-out: `for listener in self.listeners.copy()`; reactions are add/remove commands *)
Inductive lcmd := LAdd (l : Z) | LRemove (l : Z).
Definition apply_lcmd (ls : list Z) (cmd : lcmd) : list Z :=
  match cmd with
  | LAdd l => if existsb (Z.eqb l) ls then ls else ls ++ [l]
  | LRemove l => filter (fun x => negb (x =? l)) ls
  end.
(* returns the listeners called (the copy) and the listener set afterwards *)
Definition fanout (ls : list Z) (react : Z -> list lcmd) : list Z * list Z :=
  (ls, fold_left (fun acc l => fold_left apply_lcmd (react l) acc) ls ls).
