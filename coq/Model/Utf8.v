(* Utf8: CPython's str.encode('utf-8') on code points (M3). Lone surrogates raise UnicodeEncodeError. *)
From ZC Require Import Model.Base.

Definition is_surrogate (c : Z) : bool := (55296 <=? c) && (c <=? 57343).
Definition is_scalar (c : Z) : bool := (0 <=? c) && (c <=? 1114111) && negb (is_surrogate c).
Definition scalar_text (s : text) : bool := forallb is_scalar s.

Definition utf8_cp (c : Z) : list Z :=
  if c <? 128 then [c]
  else if c <? 2048 then [192 + c / 64; 128 + c mod 64]
  else if c <? 65536 then [224 + c / 4096; 128 + (c / 64) mod 64; 128 + c mod 64]
  else [240 + c / 262144; 128 + (c / 4096) mod 64; 128 + (c / 64) mod 64; 128 + c mod 64].

Fixpoint utf8_encode (s : text) : result bytes :=
  match s with
  | [] => Ok []
  | c :: s' =>
      if is_surrogate c then Raise UnicodeError
      else match utf8_encode s' with
           | Ok b => Ok (utf8_cp c ++ b)
           | Raise e => Raise e
           end
  end.

Definition utf8_len (s : text) : result Z :=
  match utf8_encode s with Ok b => Ok (Z.of_nat (length b)) | Raise e => Raise e end.

Lemma utf8_encode_scalar s : scalar_text s = true -> exists b, utf8_encode s = Ok b.
Proof.
  induction s as [|c s IH]; cbn [scalar_text forallb utf8_encode]; intro H; [eexists; reflexivity|].
  apply andb_true_iff in H as [Hc Hs]. destruct (IH Hs) as [b Hb].
  unfold is_scalar in Hc. apply andb_true_iff in Hc as [_ Hn]. apply negb_true_iff in Hn.
  rewrite Hn, Hb. eexists; reflexivity.
Qed.
