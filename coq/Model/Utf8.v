(* Utf8: CPython's str.encode('utf-8') on code points (M3). Lone surrogates raise UnicodeEncodeError. *)
From ZC Require Import Model.Base.

Definition is_surrogate (c : Z) : bool := (55296 <=? c) && (c <=? 57343).
Definition is_scalar (c : Z) : bool := (0 <=? c) && (c <=? 1114111) && negb (is_surrogate c).
Definition scalar_text (s : text) : bool := forallb is_scalar s.

Definition utf8_cp (c : Z) : list Z :=
  if c <? 128 then [c]
  else if c <? 2048 then [192 + c / 64; 128 + c mod 64]
  else if c <? 65536 then [224 + c / 4096; 128 + (c / 64) mod 64; 128 + c mod 64]
  else [240 + c / 262144; 128 + (c / 4096) mod 64; 128 + (c / 64) mod 64; 128 + c mod 64].

Fixpoint utf8_encode (s : text) : result bytes :=
  match s with
  | [] => Ok []
  | c :: s' =>
      if is_surrogate c then Raise UnicodeError
      else match utf8_encode s' with
           | Ok b => Ok (utf8_cp c ++ b)
           | Raise e => Raise e
           end
  end.

Definition utf8_len (s : text) : result Z :=
  match utf8_encode s with Ok b => Ok (Z.of_nat (length b)) | Raise e => Raise e end.

Lemma utf8_encode_scalar s : scalar_text s = true -> exists b, utf8_encode s = Ok b.
Proof.
  induction s as [|c s IH]; cbn [scalar_text forallb utf8_encode]; intro H; [eexists; reflexivity|].
  apply andb_true_iff in H as [Hc Hs]. destruct (IH Hs) as [b Hb].
  unfold is_scalar in Hc. apply andb_true_iff in Hc as [_ Hn]. apply negb_true_iff in Hn.
  rewrite Hn, Hb. eexists; reflexivity.
Qed.

(* ---- bytes.decode('utf-8', 'replace') as CPython does it: one U+FFFD per maximal invalid
   subpart (Unicode ch. 3, Table 3-7 well-formed byte ranges) ---- *)
Definition FFFD : Z := 65533.
Definition is_cont (b : Z) : bool := (128 <=? b) && (b <=? 191).

(* allowed range of the SECOND byte for a given lead byte of a 3- or 4-byte sequence *)
Definition second_ok (lead b : Z) : bool :=
  if lead =? 224 then (160 <=? b) && (b <=? 191)
  else if lead =? 237 then (128 <=? b) && (b <=? 159)
  else if lead =? 240 then (144 <=? b) && (b <=? 191)
  else if lead =? 244 then (128 <=? b) && (b <=? 143)
  else is_cont b.

Fixpoint utf8_decode_fuel (fuel : nat) (b : bytes) : text :=
  match fuel with
  | O => []
  | S f =>
      match b with
      | [] => []
      | b0 :: r0 =>
          if b0 <? 128 then b0 :: utf8_decode_fuel f r0
          else if (194 <=? b0) && (b0 <=? 223) then
            match r0 with
            | b1 :: r1 => if is_cont b1 then ((b0 - 192) * 64 + (b1 - 128)) :: utf8_decode_fuel f r1
                          else FFFD :: utf8_decode_fuel f r0
            | [] => [FFFD]
            end
          else if (224 <=? b0) && (b0 <=? 239) then
            match r0 with
            | b1 :: r1 =>
                if second_ok b0 b1 then
                  match r1 with
                  | b2 :: r2 => if is_cont b2
                                then ((b0 - 224) * 4096 + (b1 - 128) * 64 + (b2 - 128)) :: utf8_decode_fuel f r2
                                else FFFD :: utf8_decode_fuel f r1
                  | [] => [FFFD]
                  end
                else FFFD :: utf8_decode_fuel f r0
            | [] => [FFFD]
            end
          else if (240 <=? b0) && (b0 <=? 244) then
            match r0 with
            | b1 :: r1 =>
                if second_ok b0 b1 then
                  match r1 with
                  | b2 :: r2 =>
                      if is_cont b2 then
                        match r2 with
                        | b3 :: r3 =>
                            if is_cont b3
                            then ((b0 - 240) * 262144 + (b1 - 128) * 4096 + (b2 - 128) * 64 + (b3 - 128))
                                 :: utf8_decode_fuel f r3
                            else FFFD :: utf8_decode_fuel f r2
                        | [] => [FFFD]
                        end
                      else FFFD :: utf8_decode_fuel f r1
                  | [] => [FFFD]
                  end
                else FFFD :: utf8_decode_fuel f r0
            | [] => [FFFD]
            end
          else FFFD :: utf8_decode_fuel f r0
      end
  end.

Definition utf8_decode_replace (b : bytes) : text := utf8_decode_fuel (S (length b)) b.
