(* ValSet: comparison of observations in which some lists stand for Python sets / dicts whose
   iteration order is not part of the behaviour (F2). A set is written  VL [VZ (-7777); VL elems]. *)
From ZC Require Import Model.Base.

Definition SETTAG : Z := -7777.
Definition VSet (l : list val) : val := VL [VZ SETTAG; VL l].

Fixpoint val_eqb_u (fuel : nat) (a b : val) {struct fuel} : bool :=
  match fuel with
  | O => false
  | S f =>
      match a, b with
      | VZ x, VZ y => x =? y
      | VL [VZ t1; VL xs], VL [VZ t2; VL ys] =>
          if (t1 =? SETTAG) && (t2 =? SETTAG) then
            (Nat.eqb (length xs) (length ys))
            && forallb (fun x => existsb (fun y => val_eqb_u f x y) ys) xs
            && forallb (fun y => existsb (fun x => val_eqb_u f x y) xs) ys
          else (t1 =? t2) && val_eqb_u f (VL xs) (VL ys)      (* a two-element list whose second element may itself be a set *)
      | VL xs, VL ys =>
          (fix go (xs ys : list val) : bool :=
             match xs, ys with
             | [], [] => true
             | x :: xs', y :: ys' => val_eqb_u f x y && go xs' ys'
             | _, _ => false
             end) xs ys
      | _, _ => false
      end
  end.

Fixpoint mismatches_u {I : Type} (run : I -> val) (n : Z) (cases : list (I * val)) : list (Z * val) :=
  match cases with
  | [] => []
  | (i, expected) :: rest =>
      let got := run i in
      if val_eqb_u 40 got expected then mismatches_u run (n + 1) rest
      else (n, got) :: mismatches_u run (n + 1) rest
  end.
