(* Route: QueryHandler.handle_assembled_query and the construct_outgoing_* helpers (answers.py): what is sent where,
   with which header, once async_response has classified the answers. *)
From ZC Require Import Model.Base Model.PyRec Model.Dict Model.Re Model.Cache Model.Respond Model.WireEnc Gen.Const Gen.Extra Gen.DnsPure.

(* _add_answers_additionals: every answer; every additional that is neither an answer nor already added.
   (answers are sorted by name in the code - order inside a section is not part of the behaviour compared) *)
Definition answers_additionals (a : answer_set) : list pyrec * list pyrec :=
  let answers := map fst a in
  let adds := fold_left (fun acc ra => fold_left (fun acc x => if existsb (fun y => gen_eq y x) (answers ++ acc) then acc else acc ++ [x])
                                                 (snd ra) acc) a [] in
  (answers, adds).

Definition FLAGS_QR_RESPONSE_AA : Z := Z.lor C_FLAGS_QR_RESPONSE C_FLAGS_AA.

Definition construct_multicast (a : answer_set) : out_msg :=
  let '(ans, adds) := answers_additionals a in
  {| o_flags := FLAGS_QR_RESPONSE_AA; o_multicast := true; o_id := 0; o_questions := [];
     o_answers := map (fun r => (r, 0)) ans; o_authorities := []; o_additionals := adds |}.

Definition construct_unicast (a : answer_set) (ucast_source : bool) (questions : list pyrec) (id : Z) : out_msg :=
  let '(ans, adds) := answers_additionals a in
  {| o_flags := FLAGS_QR_RESPONSE_AA; o_multicast := false; o_id := id;
     o_questions := if ucast_source then questions else [];
     o_answers := map (fun r => (r, 0)) ans; o_authorities := []; o_additionals := adds |}.

Inductive action :=
| AUnicast (addr : text) (port : Z) (m : out_msg)      (* async_send(out, addr, port, v6_flow_scope, transport): on the receiving socket *)
| AMulticast (m : out_msg)                             (* async_send(out): every sender socket *)
| AQueue (now : Z) (a : answer_set)                    (* out_queue.async_add(first_packet.now, ...) *)
| ADelayQueue (now : Z) (a : answer_set).              (* out_delay_queue.async_add *)

Definition handle_assembled_query (g : registry) (c : cache) (msgs : list qmsg) (first_id : Z) (addr : text) (port : Z) : list action :=
  let ucast_source := negb (port =? C_MDNS_PORT) in
  match async_response g c msgs ucast_source, msgs with
  | Some qa, m0 :: _ =>
      (match qa_ucast qa with [] => [] | u => [AUnicast addr port (construct_unicast u ucast_source (qm_questions m0) first_id)] end)
      ++ (match qa_mcast_now qa with [] => [] | u => [AMulticast (construct_multicast u)] end)
      ++ (match qa_mcast_aggregate qa with [] => [] | u => [AQueue (qm_now m0) u] end)
      ++ (match qa_mcast_last_second qa with [] => [] | u => [ADelayQueue (qm_now m0) u] end)
  | _, _ => []
  end.
