(* Node: one Zeroconf instance as a labelled transition system - the composition of the cache (Ingest), the registry and
   responder (Respond, Route), the two multicast outgoing queues (OutQueue), the registration life cycle (Register) and the
   `done` flag of _core.py.  Every label is one handler invocation of the real instance (a datagram, a timer, one resumption
   of a coroutine, one API call); the harness logs them and the model replays exactly that sequence (M9).
   Queue entries are keyed by interned record ids: [n_tbl] is the intern table (first spelling wins, as in a Python dict). *)
From ZC Require Import Model.Base Model.PyRec Model.Dict Model.Re Model.Cache Model.Ingest Model.Respond Model.Route
  Model.WireEnc Model.OutQueue Model.Register Gen.Const Gen.Extra Gen.DnsPure.

Record node := {
  n_cache : cache; n_reg : registry; n_tbl : list pyrec;
  n_q : oq; n_qd : oq;
  n_checks : list (Z * chk);      (* registrations still probing *)
  n_tasks : list (Z * bcast);     (* announcement / goodbye tasks *)
  n_bye : option out_msg;         (* the shutdown goodbye message, sent three times *)
  n_done : bool
}.

Definition node_init : node :=
  {| n_cache := empty_cache; n_reg := empty_registry; n_tbl := [];
     n_q := oq_init 0 C_AGGREGATION_DELAY; n_qd := oq_init C_ONE_SECOND C_PROTECTED_AGGREGATION_DELAY;
     n_checks := []; n_tasks := []; n_bye := None; n_done := false |}.

(* ---- interning ---- *)
Fixpoint index_of (tbl : list pyrec) (r : pyrec) (i : Z) : option Z :=
  match tbl with
  | [] => None
  | x :: rest => if gen_eq x r then Some i else index_of rest r (i + 1)
  end.
Definition intern (tbl : list pyrec) (r : pyrec) : list pyrec * Z :=
  match index_of tbl r 0 with
  | Some i => (tbl, i)
  | None => (tbl ++ [r], Z.of_nat (length tbl))
  end.
Definition intern_list (tbl : list pyrec) (rs : list pyrec) : list pyrec * list Z :=
  fold_left (fun acc r => let '(t, i) := intern (fst acc) r in (t, snd acc ++ [i])) rs (tbl, []).
Definition intern_set (tbl : list pyrec) (a : answer_set) : list pyrec * answers :=
  fold_left (fun acc ra =>
               let '(t1, k) := intern (fst acc) (fst ra) in
               let '(t2, adds) := intern_list t1 (snd ra) in
               (t2, snd acc ++ [(k, adds)]))
            a (tbl, []).
Definition lookup_id (tbl : list pyrec) (i : Z) : list pyrec :=
  match nth_error tbl (Z.to_nat i) with Some r => [r] | None => [] end.
Definition extern_set (tbl : list pyrec) (a : answers) : answer_set :=
  flat_map (fun kv => match lookup_id tbl (fst kv) with
                      | r :: _ => [(r, flat_map (lookup_id tbl) (snd kv))]
                      | [] => []
                      end) a.

(* ---- what a step lets out ---- *)
Inductive nout :=
| OSend (now : Z) (dest : option (text * Z)) (m : out_msg)   (* None = multicast on every sender socket *)
| OWait (ms : Z)                                             (* the coroutine awaits (at most) this long *)
| ORaise (e : exn)
| OChecked                                                   (* async_check_service returned *)
| ORegistered (names : list text)                            (* registry after async_add / async_update *)
| OWithdrawn (names : list text) (rs : list pyrec)           (* registry after removal, records taken out of the queues *)
| OEnd.                                                      (* a task has sent its last message *)

Definition FLAGS_QUERY_AA : Z := Z.lor C_FLAGS_QR_QUERY C_FLAGS_AA.

Definition probe_msg (q auth : pyrec) : out_msg :=
  {| o_flags := FLAGS_QUERY_AA; o_multicast := true; o_id := 0; o_questions := [q]; o_answers := [];
     o_authorities := [auth]; o_additionals := [] |}.
Definition broadcast_msg (rs : list pyrec) : out_msg :=
  {| o_flags := FLAGS_QR_RESPONSE_AA; o_multicast := true; o_id := 0; o_questions := [];
     o_answers := map (fun r => (r, 0)) rs; o_authorities := []; o_additionals := [] |}.

(* async_send is a no-op once the instance is done *)
Definition gate (n : node) (outs : list nout) : list nout :=
  if n_done n then filter (fun o => match o with OSend _ _ _ => false | _ => true end) outs else outs.

Definition set_cache (n : node) (c : cache) : node :=
  {| n_cache := c; n_reg := n_reg n; n_tbl := n_tbl n; n_q := n_q n; n_qd := n_qd n; n_checks := n_checks n;
     n_tasks := n_tasks n; n_bye := n_bye n; n_done := n_done n |}.
Definition set_queues (n : node) (tbl : list pyrec) (q qd : oq) : node :=
  {| n_cache := n_cache n; n_reg := n_reg n; n_tbl := tbl; n_q := q; n_qd := qd; n_checks := n_checks n;
     n_tasks := n_tasks n; n_bye := n_bye n; n_done := n_done n |}.
Definition set_reg (n : node) (g : registry) (checks : list (Z * chk)) (tasks : list (Z * bcast)) : node :=
  {| n_cache := n_cache n; n_reg := g; n_tbl := n_tbl n; n_q := n_q n; n_qd := n_qd n; n_checks := checks;
     n_tasks := tasks; n_bye := n_bye n; n_done := n_done n |}.

Inductive nlabel :=
| LResp (now : Z) (answers : list pyrec)                       (* a response datagram reaches the record manager *)
| LPurge (now : Z)                                             (* the 10 s cache cleanup *)
| LQuery (now : Z) (msgs : list qmsg) (id : Z) (addr : text) (port : Z) (rnd_q rnd_d : Z)   (* an assembled query is answered *)
| LReady (delayq : bool) (now : Z)                             (* async_ready of one of the two queues *)
| LRegister (id now : Z) (s : svc) (allow strict coop : bool)  (* async_register_service up to its first await *)
| LCheck (id now : Z)                                          (* the probing coroutine resumes *)
| LBcast (id now : Z)                                          (* an announcement / goodbye task resumes *)
| LUnregister (id now : Z) (key : text)
| LUpdate (id now : Z) (s : svc)
| LUnregisterAll (now : Z)                                     (* async_unregister_all_services: build + first send *)
| LGoodbyeAll (now : Z)                                        (* its second and third send *)
| LClose (now : Z).                                            (* _close(): done *)

Definition names_of (g : registry) : list text := map fst (g_services g).

(* after a check turn: still waiting, failed, or finished (then the service enters the registry and its announcement task starts) *)
Definition after_check (n : node) (id : Z) (k : chk) (outs : list chk_out) (now : Z) : node * list nout :=
  let sends := flat_map (fun o => match o with
                                  | CProbe t q a => [OSend t None (probe_msg q a)]
                                  | CWait ms => [OWait ms]
                                  | CRaise e => [ORaise e]
                                  | CDone => [OChecked]
                                  end) outs in
  let checks' := d_del Z.eqb (n_checks n) id in
  match last outs CDone with
  | CWait _ => (set_reg n (n_reg n) (d_set Z.eqb (n_checks n) id k) (n_tasks n), sends)
  | CRaise _ => (set_reg n (n_reg n) checks' (n_tasks n), sends)
  | _ =>
      match register_finish (n_reg n) k with
      | Ok (g', task) => (set_reg n g' checks' (d_set Z.eqb (n_tasks n) id task), sends ++ [ORegistered (names_of g')])
      | Raise e => (set_reg n (n_reg n) checks' (n_tasks n), sends ++ [ORaise e])
      end
  end.

Definition nstep (n : node) (l : nlabel) : node * list nout :=
  match l with
  | LResp now answers =>
      (set_cache n (match i_final (ingest now answers (n_cache n)) with Ok c => c | Raise _ => n_cache n end), [])
  | LPurge now =>
      (set_cache n (match pg_final (purge now (n_cache n)) with Ok c => c | Raise _ => n_cache n end), [])
  | LQuery now msgs id addr port rnd_q rnd_d =>
      let acts := handle_assembled_query (n_reg n) (n_cache n) msgs id addr port in
      let '(n', outs) :=
        fold_left (fun acc a =>
                     let '(m, outs) := acc in
                     match a with
                     | AUnicast ad po msg => (m, outs ++ [OSend now (Some (ad, po)) msg])
                     | AMulticast msg => (m, outs ++ [OSend now None msg])
                     | AQueue t s => let '(tbl, a') := intern_set (n_tbl m) s in
                                     (set_queues m tbl (async_add (n_q m) t now rnd_q a') (n_qd m), outs)
                     | ADelayQueue t s => let '(tbl, a') := intern_set (n_tbl m) s in
                                          (set_queues m tbl (n_q m) (async_add (n_qd m) t now rnd_d a'), outs)
                     end) acts (n, []) in
      (n', gate n outs)
  | LReady delayq now =>
      let '(q', sent) := async_ready_body (if delayq then n_qd n else n_q n) now in
      let n' := if delayq then set_queues n (n_tbl n) (n_q n) q' else set_queues n (n_tbl n) q' (n_qd n) in
      (n', gate n match sent with
                  | Some a => [OSend now None (construct_multicast (extern_set (n_tbl n) a))]
                  | None => []
                  end)
  | LRegister id now s allow strict coop =>
      match check_start (n_cache n) now s allow strict coop with
      | Raise e => (n, [ORaise e])
      | Ok (k, outs) => let '(n', o) := after_check n id k outs now in (n', gate n o)
      end
  | LCheck id now =>
      match d_get Z.eqb (n_checks n) id with
      | None => (n, [ORaise KeyError])
      | Some k => let '(k', outs) := check_turn (n_cache n) now k in
                  let '(n', o) := after_check n id k' outs now in (n', gate n o)
      end
  | LBcast id now =>
      match d_get Z.eqb (n_tasks n) id with
      | None => (n, [ORaise KeyError])
      | Some b =>
          let '(b', outs) := bcast_turn b now in
          (set_reg n (n_reg n) (n_checks n) (d_set Z.eqb (n_tasks n) id b'),
           gate n (flat_map (fun o => match o with
                                      | BSend t rs => [OSend t None (broadcast_msg rs)]
                                      | BSleep ms => [OWait ms]
                                      | BEnd => [OEnd]
                                      end) outs))
      end
  | LUnregister id now key =>
      match d_get text_eqb (g_services (n_reg n)) key with
      | None => (n, [ORaise KeyError])
      | Some s =>
          let '(g', task, withdrawn) := unregister_service (n_reg n) s in
          let '(tbl, ids) := intern_list (n_tbl n) withdrawn in
          let ks := map (fun i => (i, [])) ids in
          (* async_remove_answers: the withdrawn records leave the queues as answers and as additionals of other answers *)
          let strip (q : oq) := {| q_groups := map (fun g => {| g_after := g_after g; g_before := g_before g;
                                                                g_answers := map (fun kv => (fst kv, filter (fun x => negb (existsb (Z.eqb x) ids)) (snd kv)))
                                                                                 (a_remove_keys (g_answers g) ks) |}) (q_groups q);
                                   q_timers := q_timers q; q_additional := q_additional q; q_aggregation := q_aggregation q |} in
          (set_queues (set_reg n g' (n_checks n) (d_set Z.eqb (n_tasks n) id task)) tbl (strip (n_q n)) (strip (n_qd n)),
           [OWithdrawn (names_of g') withdrawn])
      end
  | LUpdate id now s =>
      match update_service (n_reg n) s with
      | Raise e => (n, [ORaise e])
      | Ok (g', task) => (set_reg n g' (n_checks n) (d_set Z.eqb (n_tasks n) id task), [ORegistered (names_of g')])
      end
  | LUnregisterAll now =>
      let '(g', rs) := unregister_all (n_reg n) in
      match rs with
      | [] => (n, [OEnd])
      | _ =>
          let m := broadcast_msg rs in
          ({| n_cache := n_cache n; n_reg := g'; n_tbl := n_tbl n; n_q := n_q n; n_qd := n_qd n; n_checks := n_checks n;
              n_tasks := n_tasks n; n_bye := Some m; n_done := n_done n |}, gate n [OSend now None m])
      end
  | LGoodbyeAll now =>
      (n, gate n match n_bye n with Some m => [OSend now None m] | None => [ORaise KeyError] end)
  | LClose now =>
      ({| n_cache := n_cache n; n_reg := n_reg n; n_tbl := n_tbl n; n_q := n_q n; n_qd := n_qd n; n_checks := n_checks n;
          n_tasks := n_tasks n; n_bye := n_bye n; n_done := true |}, [])
  end.

Fixpoint nrun (n : node) (ls : list nlabel) : list (list nout) :=
  match ls with
  | [] => []
  | l :: rest => let '(n', outs) := nstep n l in outs :: nrun n' rest
  end.

Fixpoint nstate (n : node) (ls : list nlabel) : node :=
  match ls with
  | [] => n
  | l :: rest => nstate (fst (nstep n l)) rest
  end.
