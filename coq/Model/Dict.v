(* Dict: Python dict / set semantics as insertion-ordered association lists (M4).
   `d[k] = v` on an existing equal key keeps the OLD key object and its position and replaces the
   value; a new key is appended. Lookups compare with the supplied equality (hash congruence is a
   separate theorem, C20). *)
From ZC Require Import Model.Base.

Section Dict.
  Context {K V : Type}.
  Variable keqb : K -> K -> bool.

  Fixpoint d_get (d : list (K * V)) (k : K) : option V :=
    match d with
    | [] => None
    | (k', v) :: d' => if keqb k' k then Some v else d_get d' k
    end.

  Fixpoint d_getkey (d : list (K * V)) (k : K) : option K :=
    match d with
    | [] => None
    | (k', v) :: d' => if keqb k' k then Some k' else d_getkey d' k
    end.

  Fixpoint d_set (d : list (K * V)) (k : K) (v : V) : list (K * V) :=
    match d with
    | [] => [(k, v)]
    | (k', v') :: d' => if keqb k' k then (k', v) :: d' else (k', v') :: d_set d' k v
    end.

  Fixpoint d_del (d : list (K * V)) (k : K) : list (K * V) :=
    match d with
    | [] => []
    | (k', v') :: d' => if keqb k' k then d' else (k', v') :: d_del d' k
    end.

  Definition d_mem (d : list (K * V)) (k : K) : bool :=
    match d_get d k with Some _ => true | None => false end.

  Definition d_keys (d : list (K * V)) : list K := map fst d.
  Definition d_values (d : list (K * V)) : list V := map snd d.

  (* {x: x for x in l} *)
  Definition d_of_list (f : K -> V) (l : list K) : list (K * V) :=
    fold_left (fun d k => d_set d k (f k)) l [].
End Dict.
