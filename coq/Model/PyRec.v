(* PyRec: the flat view of a zeroconf DNS record / question object that the regenerated
   predicates of Gen/DnsPure.v are written against. One Coq record carries the constructor
   arguments of every class in _dns.py; [p_kind] says which Python class the object is.
   Fields that a class does not have are ignored by everything generated for that class. *)
From ZC Require Import Model.Base.

Inductive kind := KQuestion | KAddress | KHinfo | KPointer | KText | KService | KNsec.

Definition kind_eqb (a b : kind) : bool :=
  match a, b with
  | KQuestion, KQuestion | KAddress, KAddress | KHinfo, KHinfo | KPointer, KPointer
  | KText, KText | KService, KService | KNsec, KNsec => true
  | _, _ => false
  end.

Lemma kind_eqb_eq a b : kind_eqb a b = true <-> a = b.
Proof. destruct a, b; simpl; split; intro H; try reflexivity; try discriminate. Qed.

Definition kind_code (k : kind) : Z :=
  match k with
  | KQuestion => 0 | KAddress => 1 | KHinfo => 2 | KPointer => 3 | KText => 4
  | KService => 5 | KNsec => 6
  end.

Record pyrec := {
  p_kind : kind;
  (* DNSEntry / DNSRecord constructor arguments *)
  p_name : text; p_type_ : Z; p_class_ : Z; p_ttl : Z; p_created : Z;
  (* DNSAddress *)  p_address : bytes; p_scope_id : option Z;
  (* DNSHinfo *)    p_cpu : text; p_os : text;
  (* DNSPointer *)  p_alias : text;
  (* DNSText *)     p_text : bytes;
  (* DNSService *)  p_priority : Z; p_weight : Z; p_port : Z; p_server : text;
  (* DNSNsec *)     p_next_name : text; p_rdtypes : list Z
}.

(* hash((…)) tuples become lists of atoms; CPython's tuple hash is a function of the element
   hashes, so equal atom lists give equal hashes (trusted, DESIGN §9). *)
Inductive atom := AZ (z : Z) | AT (s : text) | AB (b : bytes) | AO (o : option Z).

Definition atom_eqb (a b : atom) : bool :=
  match a, b with
  | AZ x, AZ y => x =? y
  | AT x, AT y => text_eqb x y
  | AB x, AB y => bytes_eqb x y
  | AO x, AO y => optZ_eqb x y
  | _, _ => false
  end.

(* sorted(list of ints): insertion sort *)
Fixpoint insert_sorted (x : Z) (l : list Z) : list Z :=
  match l with
  | [] => [x]
  | y :: l' => if x <=? y then x :: l else y :: insert_sorted x l'
  end.
Definition sorted (l : list Z) : list Z := fold_right insert_sorted [] l.

(* Exact rationals with a positive literal denominator: the image of Python's true division by a
   numeric literal (M2: exact on integer-millisecond clocks). *)
Record qz := { q_num : Z; q_den : Z }.
Definition q_of_Z (z : Z) : qz := {| q_num := z; q_den := 1 |}.
Definition q_ltb (a b : qz) : bool := q_num a * q_den b <? q_num b * q_den a.
Definition q_int (a : qz) : Z := Z.quot (q_num a) (q_den a).   (* Python int(float) truncates *)
