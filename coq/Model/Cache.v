(* Cache: zeroconf._cache.DNSCache as a plain reference model (two indexes of insertion-ordered
   buckets). Identity and lifetime predicates are the ones regenerated from _dns.py (Gen.DnsPure).
   After the C05 repair a bucket holds one live object per identity, so a bucket is a list of
   records; `store.pop(record); store[record] = record` = remove the equal element, append. *)
From ZC Require Import Model.Base Model.PyRec Model.Dict Model.Re Gen.Const Gen.Sites Gen.DnsPure.

Definition rkey (r : pyrec) : text := DNSEntry_key r.
Definition skey (r : pyrec) : text := DNSService_server_key r.
Definition is_service (r : pyrec) : bool := kind_eqb (p_kind r) KService.
Definition is_nsec (r : pyrec) : bool := kind_eqb (p_kind r) KNsec.

Definition bucket := list pyrec.
Definition index := list (text * bucket).
Record cache := { c_main : index; c_srv : index }.
Definition empty_cache : cache := {| c_main := []; c_srv := [] |}.

Definition b_mem (b : bucket) (r : pyrec) : bool := existsb (fun x => gen_eq x r) b.
Definition b_get (b : bucket) (r : pyrec) : option pyrec := find (fun x => gen_eq x r) b.
Fixpoint b_remove (b : bucket) (r : pyrec) : bucket :=
  match b with
  | [] => []
  | x :: b' => if gen_eq x r then b' else x :: b_remove b' r
  end.

Definition idx_get (i : index) (k : text) : option bucket := d_get text_eqb i k.

(* setdefault(k, {}); store.pop(r, None); store[r] = r *)
Definition idx_add (i : index) (k : text) (r : pyrec) : index :=
  match idx_get i k with
  | None => i ++ [(k, [r])]
  | Some b => d_set text_eqb i k (b_remove b r ++ [r])
  end.

(* _remove_key: del cache[key][record]; if not cache[key]: del cache[key] *)
Definition idx_remove (i : index) (k : text) (r : pyrec) : result index :=
  match idx_get i k with
  | None => Raise KeyError
  | Some b =>
      if b_mem b r then
        let b' := b_remove b r in
        Ok (if nonempty b' then d_set text_eqb i k b' else d_del text_eqb i k)
      else Raise KeyError
  end.

Definition in_cache (c : cache) (r : pyrec) : bool :=
  match idx_get (c_main c) (rkey r) with Some b => b_mem b r | None => false end.

(* _async_add *)
Definition cache_add (c : cache) (r : pyrec) : cache * bool :=
  let new := negb (in_cache c r) && negb (is_nsec r) in
  ({| c_main := idx_add (c_main c) (rkey r) r;
      c_srv := if is_service r then idx_add (c_srv c) (skey r) r else c_srv c |}, new).

Fixpoint cache_add_records (c : cache) (rs : list pyrec) : cache * bool :=
  match rs with
  | [] => (c, false)
  | r :: rs' =>
      let '(c1, n1) := cache_add c r in
      let '(c2, n2) := cache_add_records c1 rs' in
      (c2, n1 || n2)
  end.

(* _async_remove *)
Definition cache_remove (c : cache) (r : pyrec) : result cache :=
  bind (if is_service r then idx_remove (c_srv c) (skey r) r else Ok (c_srv c)) (fun srv =>
  bind (idx_remove (c_main c) (rkey r) r) (fun main =>
  Ok {| c_main := main; c_srv := srv |})).

Fixpoint cache_remove_records (c : cache) (rs : list pyrec) : result cache :=
  match rs with
  | [] => Ok c
  | r :: rs' => bind (cache_remove c r) (fun c1 => cache_remove_records c1 rs')
  end.

(* in-place mutation record.set_created_ttl(created, ttl) of the cached object equal to r:
   the same Python object sits in both indexes *)
Definition set_lifetime (r : pyrec) (created ttl : Z) : pyrec :=
  {| p_kind := p_kind r; p_name := p_name r; p_type_ := p_type_ r; p_class_ := p_class_ r;
     p_ttl := ttl; p_created := created;
     p_address := p_address r; p_scope_id := p_scope_id r; p_cpu := p_cpu r; p_os := p_os r;
     p_alias := p_alias r; p_text := p_text r; p_priority := p_priority r; p_weight := p_weight r;
     p_port := p_port r; p_server := p_server r; p_next_name := p_next_name r;
     p_rdtypes := p_rdtypes r |}.

Definition b_update (b : bucket) (r : pyrec) (created ttl : Z) : bucket :=
  map (fun x => if gen_eq x r then set_lifetime x created ttl else x) b.

Definition idx_update (i : index) (k : text) (r : pyrec) (created ttl : Z) : index :=
  map (fun kb => if text_eqb (fst kb) k then (fst kb, b_update (snd kb) r created ttl) else kb) i.

Definition cache_set_lifetime (c : cache) (r : pyrec) (created ttl : Z) : cache :=
  {| c_main := idx_update (c_main c) (rkey r) r created ttl;
     c_srv := if is_service r then idx_update (c_srv c) (skey r) r created ttl else c_srv c |}.

(* ---- lookup paths ---- *)
Definition async_get_unique (c : cache) (r : pyrec) : option pyrec :=
  match idx_get (c_main c) (rkey r) with Some b => b_get b r | None => None end.

Definition details_match (ty cl : Z) (r : pyrec) : bool :=
  (ty =? DNSEntry_type r) && (cl =? DNSEntry_class_ r).

Definition async_all_by_details (c : cache) (name : text) (ty cl : Z) : list pyrec :=
  match idx_get (c_main c) (lower name) with
  | Some b => filter (details_match ty cl) b
  | None => []
  end.

Definition entries_with_name (c : cache) (name : text) : list pyrec :=
  match idx_get (c_main c) (lower name) with Some b => b | None => [] end.

Definition entries_with_server (c : cache) (server : text) : list pyrec :=
  match idx_get (c_srv c) (lower server) with Some b => b | None => [] end.

(* DNSCache.get(record): every record class is in _UNIQUE_RECORD_TYPES except DNSNsec (and
   DNSQuestion / plain entries), for which the bucket is scanned from the newest end *)
Definition cache_get (c : cache) (r : pyrec) : option pyrec :=
  match p_kind r with
  | KNsec | KQuestion => find (fun x => gen_eq r x) (rev (entries_with_name c (p_name r)))
  | _ => async_get_unique c r
  end.

Definition get_by_details (c : cache) (name : text) (ty cl : Z) : option pyrec :=
  find (details_match ty cl) (rev (entries_with_name c name)).

Definition get_all_by_details (c : cache) (name : text) (ty cl : Z) : list pyrec :=
  async_all_by_details c name ty cl.

Definition current_entry_with_name_and_alias (c : cache) (now : Z) (name alias : text) : option pyrec :=
  find (fun r => (DNSEntry_type r =? C_TYPE_PTR) && negb (DNSRecord_is_expired r now)
                 && text_eqb (p_alias r) alias)
       (rev (entries_with_name c name)).

Definition names (c : cache) : list text := map fst (c_main c).

(* async_expire *)
Definition all_records (c : cache) : list pyrec := concat (map snd (c_main c)).

Definition expired_records (c : cache) (now : Z) : list pyrec :=
  filter (fun r => DNSRecord_is_expired r now) (all_records c).

Definition async_expire (c : cache) (now : Z) : list pyrec * result cache :=
  let ex := expired_records c now in (ex, cache_remove_records c ex).

(* async_mark_unique_records_older_than_1s_to_expire *)
Definition mark_one :=
  Eval cbv beta iota delta [sop_apply site_cache_flush_age] in
  fun (now : Z) (answers : list pyrec) (c : cache) (u : text * Z * Z) =>
  let '(name, ty, cl) := u in
  fold_left (fun c r =>
               if sop_apply site_cache_flush_age (now - DNSRecord_created r) C_ONE_SECOND && negb (existsb (fun a => gen_eq a r) answers)
               then cache_set_lifetime c r now 1 else c)
            (async_all_by_details c name ty cl) c.

Definition mark_unique (c : cache) (unique_types : list (text * Z * Z)) (answers : list pyrec) (now : Z) : cache :=
  fold_left (mark_one now answers) unique_types c.
