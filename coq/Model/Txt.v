(* Txt: ServiceInfo._set_properties (dict -> TXT rdata) and _unpack_text_into_properties
   (TXT rdata -> dict), on byte level. str keys/values are utf-8 encoded by the caller (glue
   exercised by the correspondence check, not modelled). *)
From ZC Require Import Model.Base Model.Dict.

Definition EQ : Z := 61.   (* '=' *)

Definition props := list (bytes * option bytes).

Definition item_of (kv : bytes * option bytes) : bytes :=
  match snd kv with
  | None => fst kv
  | Some v => fst kv ++ EQ :: v
  end.

(* bytes((len(item),)) raises ValueError above 255 *)
Fixpoint encode_items (items : list bytes) : result bytes :=
  match items with
  | [] => Ok []
  | it :: rest =>
      if 255 <? Z.of_nat (length it) then Raise ValueError
      else match encode_items rest with
           | Ok b => Ok (Z.of_nat (length it) :: it ++ b)
           | Raise e => Raise e
           end
  end.

Definition txt_encode (d : props) : result bytes := encode_items (map item_of d).

(* bytes.partition(b'=') -> (head, value-or-empty); the separator itself is not needed *)
Fixpoint partition_eq (s : bytes) : bytes * bytes :=
  match s with
  | [] => ([], [])
  | c :: s' => if c =? EQ then ([], s') else let '(k, v) := partition_eq s' in (c :: k, v)
  end.

Definition or_none (v : bytes) : option bytes := match v with [] => None | _ => Some v end.

(* `if key not in properties: properties[key] = ...` *)
Definition add_first (d : props) (k : bytes) (v : option bytes) : props :=
  if d_mem bytes_eqb d k then d else d ++ [(k, v)].

(* the while loop; fuel = len(text) + 1 is always enough because index grows by >= 1 *)
Fixpoint txt_decode_loop (fuel : nat) (text : bytes) (d : props) : option props :=
  match fuel with
  | O => None
  | S fuel' =>
      match text with
      | [] => Some d
      | length :: rest =>
          let n := Z.to_nat length in
          let key_value := firstn n rest in
          let '(k, v) := partition_eq key_value in
          txt_decode_loop fuel' (skipn n rest) (add_first d k (or_none v))
      end
  end.

Definition txt_decode (text : bytes) : option props := txt_decode_loop (S (length text)) text [].

(* ---- independent RFC 6763 section 6 reader (specification side) ----
   6.1 a TXT record is a sequence of length-prefixed strings; 6.3 strings without '=' are
   boolean attributes (no value), 'key=' has an empty value; 6.4 if a key occurs more than once
   only the first occurrence counts, strings starting with '=' (missing key) and empty strings
   are ignored. *)
Fixpoint rfc_strings (fuel : nat) (text : bytes) : option (list bytes) :=
  match fuel with
  | O => None
  | S fuel' =>
      match text with
      | [] => Some []
      | n :: rest =>
          if (length rest <? Z.to_nat n)%nat then None       (* truncated string: malformed *)
          else match rfc_strings fuel' (skipn (Z.to_nat n) rest) with
               | Some l => Some (firstn (Z.to_nat n) rest :: l)
               | None => None
               end
      end
  end.

Fixpoint has_eq (s : bytes) : bool := match s with [] => false | c :: s' => (c =? EQ) || has_eq s' end.

Definition rfc_attr (s : bytes) : option (bytes * option bytes) :=
  match s with
  | [] => None
  | c :: _ => if c =? EQ then None
              else let '(k, v) := partition_eq s in Some (k, if has_eq s then Some v else None)
  end.

Fixpoint rfc_collect (strs : list bytes) (seen : props) : props :=
  match strs with
  | [] => seen
  | s :: rest =>
      match rfc_attr s with
      | None => rfc_collect rest seen
      | Some (k, v) => rfc_collect rest (add_first seen k v)
      end
  end.

Definition rfc_txt_parse (text : bytes) : option props :=
  match rfc_strings (S (length text)) text with
  | Some strs => Some (rfc_collect strs [])
  | None => None
  end.
