(* Sched: zeroconf._services.browser.QueryScheduler as a labelled transition system (M9).
   One timer (_next_run), a heap of scheduled PTR refresh queries with lazy cancellation, a
   per-alias map to the live entry. heapq is modelled as a list with pop-min on when_millis (ties in
   any order give the same set of ready types). Times in ms; the monotonic clock resolution added to
   `now` in _process_ready_types is below 1 ms and vanishes on integer clocks. *)
From ZC Require Import Model.Base Model.Dict Gen.Const Gen.Sites.

Record squery := {
  sq_id : Z;                 (* object identity *)
  sq_alias : text; sq_name : text; sq_ttl : Z;
  sq_cancelled : bool;
  sq_expire : Z; sq_when : Z
}.

Inductive timer_kind := TStartup | TReady.

Record sched := {
  sc_heap : list squery;
  sc_by_alias : list (text * Z);          (* alias -> id of the live scheduled query *)
  sc_next_run : option (Z * timer_kind);   (* deadline of the single armed timer *)
  sc_startup_sent : Z;
  sc_delay : Z;                            (* _min_time_between_queries_millis *)
  sc_first_qu : bool;                      (* question_type is None: the first query is QU *)
  sc_fresh : Z;                            (* next object id *)
  sc_stopped : bool;
  sc_min_next : Z                          (* _min_next_run_millis: 0 while the start-up queries are being sent *)
}.

Definition sched_init (delay : Z) (qtype_none : bool) : sched :=
  {| sc_heap := []; sc_by_alias := []; sc_next_run := None; sc_startup_sent := 0; sc_delay := delay;
     sc_first_qu := qtype_none; sc_fresh := 0; sc_stopped := false; sc_min_next := 0 |}.

Definition with_heap_alias_fresh (s : sched) (h : list squery) (a : list (text * Z)) (f : Z) : sched :=
  {| sc_heap := h; sc_by_alias := a; sc_next_run := sc_next_run s; sc_startup_sent := sc_startup_sent s;
     sc_delay := sc_delay s; sc_first_qu := sc_first_qu s; sc_fresh := f; sc_stopped := sc_stopped s; sc_min_next := sc_min_next s |}.

Definition cancel_id (h : list squery) (id : Z) : list squery :=
  map (fun q => if sq_id q =? id
                then {| sq_id := sq_id q; sq_alias := sq_alias q; sq_name := sq_name q; sq_ttl := sq_ttl q;
                        sq_cancelled := true; sq_expire := sq_expire q; sq_when := sq_when q |}
                else q) h.

(* _rearm_if_due_earlier: wake up earlier when a query is now due before the armed time, but never
   before the rate limit allows; while a pass is running the armed deadline is in the past *)
Definition rearm_if_due_earlier :=
  Eval cbv beta iota delta [sop_apply site_sched_rearm] in
  fun (s : sched) (when_ : Z) =>
  if sc_min_next s =? 0 then s else
  match sc_next_run s with
  | None => s
  | Some (armed, k) =>
      let w := Z.max when_ (sc_min_next s) in
      if sop_apply site_sched_rearm w armed then
        {| sc_heap := sc_heap s; sc_by_alias := sc_by_alias s; sc_next_run := Some (w, TReady);
           sc_startup_sent := sc_startup_sent s; sc_delay := sc_delay s; sc_first_qu := sc_first_qu s;
           sc_fresh := sc_fresh s; sc_stopped := sc_stopped s; sc_min_next := sc_min_next s |}
      else s
  end.

(* _schedule_ptr_query *)
Definition push (s : sched) (alias name : text) (ttl expire when_ : Z) : sched :=
  let q := {| sq_id := sc_fresh s; sq_alias := alias; sq_name := name; sq_ttl := ttl; sq_cancelled := false;
              sq_expire := expire; sq_when := when_ |} in
  rearm_if_due_earlier
    (with_heap_alias_fresh s (sc_heap s ++ [q]) (d_set text_eqb (sc_by_alias s) alias (sq_id q)) (sc_fresh s + 1)) when_.

(* cancel_ptr_refresh *)
Definition cancel_ptr_refresh (s : sched) (alias : text) : sched :=
  match d_get text_eqb (sc_by_alias s) alias with
  | None => s
  | Some id => with_heap_alias_fresh s (cancel_id (sc_heap s) id) (d_del text_eqb (sc_by_alias s) alias) (sc_fresh s)
  end.

Definition find_id (h : list squery) (id : Z) : option squery := find (fun q => sq_id q =? id) h.

(* the entry keeps its place and time but takes over TTL and expiry of the record now in the cache (repair: a refresh inside the no-churn
   window used to leave the old record's TTL and expiry on the entry, so the rescue steps of the new record were mis-spaced) *)
Definition retime_id (h : list squery) (id ttl expire : Z) : list squery :=
  map (fun q => if sq_id q =? id
                then {| sq_id := sq_id q; sq_alias := sq_alias q; sq_name := sq_name q; sq_ttl := ttl;
                        sq_cancelled := sq_cancelled q; sq_expire := expire; sq_when := sq_when q |}
                else q) h.

(* reschedule_ptr_first_refresh(pointer): created/ttl of the (refreshed) cached pointer *)
Definition reschedule_ptr_first_refresh :=
  Eval cbv beta iota delta [sop_apply site_sched_no_churn_1 site_sched_no_churn_2] in
  fun (s : sched) (alias name : text) (created ttl : Z) =>
  let refresh := created + C_EXPIRE_REFRESH_TIME_PERCENT * ttl * 10 in
  let expire := created + 100 * ttl * 10 in
  match d_get text_eqb (sc_by_alias s) alias with
  | Some id =>
      match find_id (sc_heap s) id with
      | Some cur =>
          if sop_apply site_sched_no_churn_1 (- sc_delay s) (refresh - sq_when cur) && sop_apply site_sched_no_churn_2 (refresh - sq_when cur) (sc_delay s)
          then with_heap_alias_fresh s (retime_id (sc_heap s) id ttl expire) (sc_by_alias s) (sc_fresh s)
          else push (with_heap_alias_fresh s (cancel_id (sc_heap s) id) (d_del text_eqb (sc_by_alias s) alias) (sc_fresh s))
                    alias name ttl expire refresh
      | None => push s alias name ttl expire refresh
      end
  | None => push s alias name ttl expire refresh
  end.

(* schedule_rescue_query: +10 % of the TTL, unless that is at or past the expiry *)
Definition schedule_rescue :=
  Eval cbv beta iota delta [sop_apply site_sched_rescue_past_expiry] in
  fun (s : sched) (q : squery) (now : Z) =>
  let next := now + (sq_ttl q * 1000 * C_RESCUE_RECORD_RETRY_TTL_PERCENTAGE_num) / C_RESCUE_RECORD_RETRY_TTL_PERCENTAGE_den in
  if sop_apply site_sched_rescue_past_expiry next (sq_expire q) then s else push s (sq_alias q) (sq_name q) (sq_ttl q) (sq_expire q) next.

(* observable: a call of async_send_ready_queries(first_request, now, types) *)
Record ssend := { ss_now : Z; ss_qu_first : bool; ss_types : list text }.

Definition arm (s : sched) (t : option (Z * timer_kind)) : sched :=
  {| sc_heap := sc_heap s; sc_by_alias := sc_by_alias s; sc_next_run := t; sc_startup_sent := sc_startup_sent s;
     sc_delay := sc_delay s; sc_first_qu := sc_first_qu s; sc_fresh := sc_fresh s; sc_stopped := sc_stopped s;
     sc_min_next := sc_min_next s |}.

Definition set_min_next (s : sched) (m : Z) : sched :=
  {| sc_heap := sc_heap s; sc_by_alias := sc_by_alias s; sc_next_run := sc_next_run s; sc_startup_sent := sc_startup_sent s;
     sc_delay := sc_delay s; sc_first_qu := sc_first_qu s; sc_fresh := sc_fresh s; sc_stopped := sc_stopped s;
     sc_min_next := m |}.

(* pop the heap while its minimum is cancelled or due *)
Definition min_query :=
  Eval cbv beta iota delta [sop_apply site_sched_lt] in
  fix min_query (h : list squery) {struct h} : option squery :=
  match h with
  | [] => None
  | q :: r => match min_query r with
              | Some m => if sop_apply site_sched_lt (sq_when m) (sq_when q) then Some m else Some q
              | None => Some q
              end
  end.
Fixpoint remove_id (h : list squery) (id : Z) : list squery :=
  match h with [] => [] | q :: r => if sq_id q =? id then r else q :: remove_id r id end.

Definition drain :=
  Eval cbv beta iota delta [sop_apply site_sched_ready_stop] in
  fix drain (fuel : nat) (h : list squery) (aliases : list (text * Z)) (now : Z) (ready : list squery) {struct fuel} : list squery * list (text * Z) * list squery * option squery :=
  match fuel with
  | O => (h, aliases, ready, None)
  | S f =>
      match min_query h with
      | None => (h, aliases, ready, None)
      | Some q =>
          if sq_cancelled q then drain f (remove_id h (sq_id q)) aliases now ready
          else if sop_apply site_sched_ready_stop (sq_when q) now then (h, aliases, ready, Some q)
          else drain f (remove_id h (sq_id q)) (d_del text_eqb aliases (sq_alias q)) now (ready ++ [q])
      end
  end.

Fixpoint dedup_text (l : list text) : list text :=
  match l with [] => [] | x :: r => if existsb (text_eqb x) r then dedup_text r else x :: dedup_text r end.

Inductive slabel :=
| LStart (now rnd : Z)
| LFire (now : Z)                                     (* the armed timer runs at loop time now >= its deadline *)
| LResched (alias name : text) (created ttl : Z)      (* browser saw a new / refreshed PTR *)
| LCancel (alias : text)                              (* browser saw the PTR expire / withdrawn *)
| LStop.

Definition sstep :=
  Eval cbv beta iota delta [sop_apply site_sched_startup_done site_sched_next_later] in
  fun (types : list text) (done : bool) (s : sched) (l : slabel) =>
  match l with
  | LStart now rnd => Some (arm s (Some (now + rnd, TStartup)), [])
  | LStop => Some ({| sc_heap := []; sc_by_alias := []; sc_next_run := None; sc_startup_sent := sc_startup_sent s;
                      sc_delay := sc_delay s; sc_first_qu := sc_first_qu s; sc_fresh := sc_fresh s; sc_stopped := true;
                      sc_min_next := sc_min_next s |}, [])
  | LResched alias name created ttl => Some (reschedule_ptr_first_refresh s alias name created ttl, [])
  | LCancel alias => Some (cancel_ptr_refresh s alias, [])
  | LFire now =>
      match sc_next_run s with
      | None => None
      | Some (deadline, kind) =>
          if now <? deadline then None else
          if done then Some (arm s None, []) else      (* zc.done: return without re-arming *)
          match kind with
          | TStartup =>
              let snd_ := {| ss_now := now; ss_qu_first := (sc_startup_sent s =? 0) && sc_first_qu s; ss_types := types |} in
              let sent := sc_startup_sent s + 1 in
              let s1 := {| sc_heap := sc_heap s; sc_by_alias := sc_by_alias s; sc_next_run := None; sc_startup_sent := sent;
                           sc_delay := sc_delay s; sc_first_qu := sc_first_qu s; sc_fresh := sc_fresh s; sc_stopped := sc_stopped s;
                           sc_min_next := sc_min_next s |} in
              if sop_apply site_sched_startup_done sent C_STARTUP_QUERIES
              then Some (arm (set_min_next s1 (now + sc_delay s)) (Some (now + sc_delay s, TReady)), [snd_])
              else Some (arm s1 (Some (now + sent * sent * 1000, TStartup)), [snd_])
          | TReady =>
              let '(h, al, ready, next_scheduled) := drain (S (length (sc_heap s))) (sc_heap s) (sc_by_alias s) now [] in
              let s1 := with_heap_alias_fresh s h al (sc_fresh s) in
              let s2 := fold_left (fun acc q => schedule_rescue acc q now) ready s1 in
              (* after the rescue queries have been pushed the heap top is taken again *)
              let next_scheduled := match ready, min_query (sc_heap s2) with
                                    | _ :: _, Some m => Some m
                                    | _, _ => next_scheduled
                                    end in
              let sends := match ready with
                           | [] => []
                           | _ => [{| ss_now := now; ss_qu_first := false; ss_types := dedup_text (map sq_name ready) |}]
                           end in
              let next_time := now + sc_delay s in
              let next_when := match next_scheduled with
                               | Some q => if sop_apply site_sched_next_later (sq_when q) next_time then sq_when q else next_time
                               | None => next_time
                               end in
              let s2 := set_min_next s2 next_time in
              Some (arm s2 (Some (next_when, TReady)), sends)
          end
      end
  end.

Fixpoint srun (types : list text) (s : sched) (ls : list slabel) (trace : list ssend) : option (sched * list ssend) :=
  match ls with
  | [] => Some (s, trace)
  | l :: r => match sstep types false s l with
              | Some (s', out) => srun types s' r (trace ++ out)
              | None => None
              end
  end.

(* punctual driver for correspondence: external labels carry their time; the timer fires exactly at its deadline,
   before an external label of the same instant is NOT assumed (the harness generates tie-free histories) *)
Definition ltime (l : slabel * Z) : Z := snd l.
Fixpoint sdrive (fuel : nat) (types : list text) (s : sched) (ext : list (slabel * Z)) (horizon : Z) (trace : list ssend)
  : list ssend :=
  match fuel with
  | O => trace
  | S f =>
      match ext, sc_next_run s with
      | [], None => trace
      | [], Some (d, _) =>
          if horizon <? d then trace else
          match sstep types false s (LFire d) with Some (s', out) => sdrive f types s' [] horizon (trace ++ out) | None => trace end
      | (l, t) :: rest, None =>
          match sstep types false s l with Some (s', out) => sdrive f types s' rest horizon (trace ++ out) | None => trace end
      | (l, t) :: rest, Some (d, _) =>
          if d <? t then
            match sstep types false s (LFire d) with Some (s', out) => sdrive f types s' ext horizon (trace ++ out) | None => trace end
          else
            match sstep types false s l with Some (s', out) => sdrive f types s' rest horizon (trace ++ out) | None => trace end
      end
  end.
