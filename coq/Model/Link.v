(* Link: what a lossy, delaying, duplicating link does to the messages one instance multicasts, and what the receiving cache makes of
   them (C07).  The sender side is the node LTS (Model.Node: the OSend outputs of announcement and goodbye tasks), the receiver side
   is the cache ingest (Model.Ingest) on which the browser model (Model.Browser, C04: "reported = cached") sits.  The link itself is
   not code of the library: it is the environment the property quantifies over, written down here once. *)
From ZC Require Import Model.Base Model.PyRec Model.Dict Model.Cache Model.Ingest Model.Respond Model.WireEnc Model.Register Model.Node
  Gen.Const Gen.DnsPure.

(* a multicast message on the wire: when it was sent and the records it carries (answers then additionals) *)
Record wmsg := { w_time : Z; w_recs : list pyrec }.

Definition wmsgs_of (outs : list nout) : list wmsg :=
  flat_map (fun o => match o with
                     | OSend t None m => [{| w_time := t; w_recs := map fst (o_answers m) ++ o_additionals m |}]
                     | _ => []
                     end) outs.

(* the fate of one message at one receiver: the delays of its copies ([] = lost, two entries = duplicated) *)
Definition fate := list Z.
Definition fate_ok (f : fate) : Prop := Forall (fun d => 0 <= d <= 100) f.
Definition lost (f : fate) : bool := match f with [] => true | _ => false end.
Definition losses (fs : list fate) : nat := length (filter lost fs).

(* arrivals: (arrival time, records), in order of arrival (ties: sending order) *)
Definition arrivals_of (m : wmsg) (f : fate) : list (Z * list pyrec) := map (fun d => (w_time m + d, w_recs m)) f.

Fixpoint insert_arrival (a : Z * list pyrec) (l : list (Z * list pyrec)) : list (Z * list pyrec) :=
  match l with
  | [] => [a]
  | b :: r => if fst a <? fst b then a :: l else b :: insert_arrival a r
  end.
Definition by_arrival (l : list (Z * list pyrec)) : list (Z * list pyrec) := fold_left (fun acc a => insert_arrival a acc) l [].

Definition deliveries (msgs : list wmsg) (fates : list fate) : list (Z * list pyrec) :=
  by_arrival (flat_map (fun mf => arrivals_of (fst mf) (snd mf)) (combine msgs fates)).

(* the receiving cache: every arrival is ingested at its arrival time (records stamped with it) *)
Definition stamp (now : Z) (r : pyrec) : pyrec := set_lifetime r now (p_ttl r).
Definition receive (c : cache) (a : Z * list pyrec) : cache :=
  match i_final (ingest (fst a) (map (stamp (fst a)) (snd a)) c) with Ok c' => c' | Raise _ => c end.
Definition receive_all (c : cache) (l : list (Z * list pyrec)) : cache := fold_left receive l c.

(* "the receiver knows the instance": an unexpired pointer  type -> name  in its cache (this is what a browser reports, C04_live) *)
Definition knows (c : cache) (now : Z) (s : svc) : bool :=
  match current_entry_with_name_and_alias c now (s_type s) (s_name s) with Some _ => true | None => false end.
