(* Front: the instance as the network sees it - bytes in, messages out.
   AsyncListener.datagram_received (size guard, duplicate guard, DNSIncoming, dispatch, TC deferral) in front of the node LTS
   (Model.Node), and Zeroconf.async_send's encoding behind it.  Exceptions are explicit: an [ORaise] in the output of a datagram
   or timer label is an exception that would escape into the event loop.  One IPv4 socket (scope None). *)
From ZC Require Import Model.Base Model.PyRec Model.Dict Model.Re Model.Cache Model.Ingest Model.Respond Model.Route
  Model.WireDec Model.WireEnc Model.OutQueue Model.Register Model.Listener Model.Node Gen.Const Gen.Sites Gen.Extra Gen.DnsPure.

Definition FRAMES : nat := 200.      (* Python stack frames available to the decoder's pointer recursion (any value >= 130 behaves alike: C02_total) *)

Record fnode := {
  f_node : node;
  f_ls : lstate;
  f_msgs : list (bytes * (qmsg * Z))      (* addr ++ [-1] ++ data -> what DNSIncoming made of it (and its id), for deferred packets *)
}.
Definition fnode_init : fnode := {| f_node := node_init; f_ls := lstate_init; f_msgs := [] |}.

Definition lmsg_of (data : bytes) (p : parsed) : lmsg :=
  {| lm_data := data; lm_valid := m_valid p;
     lm_is_query := Z.land (m_flags p) C_FLAGS_QR_MASK =? C_FLAGS_QR_QUERY;
     lm_truncated := Z.land (m_flags p) C_FLAGS_TC =? C_FLAGS_TC;
     lm_has_qu := existsb DNSEntry_unique (m_questions p) |}.
Definition qmsg_of :=
  Eval cbv beta match delta [sop_apply sop_mirror site_dec_is_probe site_dec_is_probe_rhs] in
  fun (p : parsed) (now : Z) =>
  {| qm_questions := m_questions p; qm_answers := m_answers p;
     qm_is_probe := sop_apply (sop_mirror site_dec_is_probe) site_dec_is_probe_rhs (m_nauth p); qm_now := now |}.

Definition mkey (addr : text) (data : bytes) : bytes := addr ++ [-1] ++ data.

(* Zeroconf.async_send writes the message; handle_assembled_query drops a unicast reply whose question echo cannot be encoded
   (NamePartTooLongException, after the C15 repair); anything else that the encoder raises escapes *)
Definition send_gate (outs : list nout) : list nout :=
  flat_map (fun o => match o with
                     | OSend t dest m =>
                         match packets m with
                         | Ok _ => [o]
                         | Raise NamePartTooLong => match dest with Some _ => [] | None => [ORaise NamePartTooLong] end
                         | Raise e => [ORaise e]
                         end
                     | _ => [o]
                     end) outs.

Definition with_node (f : fnode) (n : node) : fnode := {| f_node := n; f_ls := f_ls f; f_msgs := f_msgs f |}.

(* handle_assembled_query(packets, addr, port) for the packets the listener hands over *)
Definition respond (f : fnode) (ls' : lstate) (msgs' : list (bytes * (qmsg * Z))) (addr : text) (port : Z) (packets : list lmsg)
                   (now rnd_q rnd_d : Z) : fnode * list nout :=
  let found := flat_map (fun m => match d_get bytes_eqb msgs' (mkey addr (lm_data m)) with Some x => [x] | None => [] end) packets in
  match found with
  | [] => ({| f_node := f_node f; f_ls := ls'; f_msgs := msgs' |}, [ORaise IndexError])     (* packets[0] on an empty list *)
  | (_, id) :: _ =>
      let '(n', outs) := nstep (f_node f) (LQuery now (map fst found) id addr port rnd_q rnd_d) in
      ({| f_node := n'; f_ls := ls'; f_msgs := msgs' |}, send_gate outs)
  end.

Inductive flabel :=
| FDatagram (data : bytes) (addr : text) (port : Z) (now : Z) (tc_delay rnd_q rnd_d : Z)
| FTimer (addr : text) (port : Z) (now rnd_q rnd_d : Z)          (* the reassembly timer of a truncated query fires *)
| FNode (l : nlabel).

Definition fstep :=
  Eval cbv beta iota delta [sop_apply site_listener_oversize] in
  fun (f : fnode) (l : flabel) =>
  match l with
  | FDatagram data addr port now tc rq rd =>
      if sop_apply site_listener_oversize (Z.of_nat (length data)) C_MAX_MSG_ABSOLUTE then (f, [])
      else if is_duplicate (f_ls f) data now then (f, [])
      else
        let p := parse data now None FRAMES in
        match m_escaped p with
        | Some e => (f, [ORaise e])                     (* the constructor raised: listener state untouched *)
        | None =>
            let m := lmsg_of data p in
            (* a truncated query that is already waiting in this source's reassembly list (same bytes; it got past the duplicate guard because
               it carries a QU question) is ignored: the packet object that waits - with ITS arrival time - stays *)
            let waiting := match d_get text_eqb (ls_deferred (f_ls f)) addr with
                           | Some l => existsb (fun x => bytes_eqb (lm_data x) data) l | None => false end in
            let msgs' := if waiting then f_msgs f
                         else d_set bytes_eqb (f_msgs f) (mkey addr data) (qmsg_of p now, m_id p) in
            let '(ls', o) := datagram (f_ls f) m addr now (nonempty (g_services (n_reg (f_node f)))) tc in
            match o with
            | OResponse _ =>
                let '(n', outs) := nstep (f_node f) (LResp now (m_answers p)) in
                ({| f_node := n'; f_ls := ls'; f_msgs := f_msgs f |}, send_gate outs)
            | ORespond a packets => respond f ls' msgs' a port packets now rq rd
            | ODeferred => ({| f_node := f_node f; f_ls := ls'; f_msgs := msgs' |}, [])
            | _ => ({| f_node := f_node f; f_ls := ls'; f_msgs := f_msgs f |}, [])
            end
        end
  | FTimer addr port now rq rd =>
      let '(ls', o) := respond_query (f_ls f) None addr in
      match o with
      | ORespond a packets => respond f ls' (f_msgs f) a port packets now rq rd
      | _ => (f, [])
      end
  | FNode nl => let '(n', outs) := nstep (f_node f) nl in (with_node f n', outs)
  end.

Fixpoint frun (f : fnode) (ls : list flabel) : list (list nout) :=
  match ls with
  | [] => []
  | l :: rest => let '(f', outs) := fstep f l in outs :: frun f' rest
  end.

Fixpoint fstate (f : fnode) (ls : list flabel) : fnode :=
  match ls with
  | [] => f
  | l :: rest => fstate (fst (fstep f l)) rest
  end.
