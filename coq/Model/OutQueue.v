(* OutQueue: zeroconf._handlers.multicast_outgoing_queue.MulticastOutgoingQueue as a labelled
   transition system (M9): async_add at arrival time, async_ready when one of the pending
   loop.call_at timers fires. Answers are a dict keyed by record identity (abstract ids here;
   the payload - the additionals - rides along). Timers are never cancelled by the code. *)
From ZC Require Import Model.Base Model.Dict Gen.Const Gen.Sites.

Definition answers := list (Z * list Z).        (* record id -> additionals *)

Definition a_update (a b : answers) : answers :=          (* dict.update *)
  fold_left (fun acc kv => d_set Z.eqb acc (fst kv) (snd kv)) b a.
Definition a_remove_keys (a : answers) (ks : answers) : answers :=   (* pop(record, None) for each *)
  fold_left (fun acc kv => d_del Z.eqb acc (fst kv)) ks a.

Record group := { g_after : Z; g_before : Z; g_answers : answers }.

Record oq := {
  q_groups : list group;
  q_timers : list Z;               (* deadlines (ms) of pending async_ready callbacks *)
  q_additional : Z;                (* 0 for out_queue, 1000 for out_delay_queue *)
  q_aggregation : Z                (* 500 / 200 *)
}.

Definition oq_init (additional aggregation : Z) : oq :=
  {| q_groups := []; q_timers := []; q_additional := additional; q_aggregation := aggregation |}.

Fixpoint replace_last (gs : list group) (f : group -> group) : list group :=
  match gs with
  | [] => []
  | [g] => [f g]
  | g :: r => g :: replace_last r f
  end.

(* async_add(now, answers) executed at loop time [tnow] with random draw [rnd] in the interval *)
Definition async_add :=
  Eval cbv beta iota delta [sop_apply site_oq_merge] in
  fun (q : oq) (now tnow rnd : Z) (a : answers) =>
  let random_delay := rnd + q_additional q in
  let send_after := now + random_delay in
  let send_before := now + q_aggregation q + q_additional q in
  match q_groups q with
  | [] =>
      {| q_groups := [{| g_after := send_after; g_before := send_before; g_answers := a |}];
         q_timers := q_timers q ++ [tnow + random_delay];
         q_additional := q_additional q; q_aggregation := q_aggregation q |}
  | gs =>
      let lastg := last gs {| g_after := 0; g_before := 0; g_answers := [] |} in
      if sop_apply site_oq_merge send_after (g_after lastg) then
        {| q_groups := replace_last gs (fun g => {| g_after := g_after g; g_before := g_before g;
                                                     g_answers := a_update (g_answers g) a |});
           q_timers := q_timers q; q_additional := q_additional q; q_aggregation := q_aggregation q |}
      else
        {| q_groups := gs ++ [{| g_after := send_after; g_before := send_before; g_answers := a |}];
           q_timers := q_timers q; q_additional := q_additional q; q_aggregation := q_aggregation q |}
  end.

Definition pop_due :=
  Eval cbv beta iota delta [sop_apply site_oq_ready_due] in
  fix pop_due (gs : list group) (now : Z) (acc : answers) {struct gs} : list group * answers :=
  match gs with
  | g :: r => if sop_apply site_oq_ready_due (g_after g) now then pop_due r now (a_update acc (g_answers g)) else (gs, acc)
  | [] => ([], acc)
  end.

(* async_ready() run at time [now]; returns the new state and what is sent (None = nothing) *)
Definition async_ready_body :=
  Eval cbv beta iota delta [sop_apply site_oq_ready_wait] in
  fun (q : oq) (now : Z) =>
  match q_groups q with
  | g0 :: _ :: _ =>
      if sop_apply site_oq_ready_wait (g_before g0) now then
        ({| q_groups := q_groups q; q_timers := q_timers q ++ [now + (g_before g0 - now)];
            q_additional := q_additional q; q_aggregation := q_aggregation q |}, None)
      else
        let '(rest, sent) := pop_due (q_groups q) now [] in
        let timers := match rest with g :: _ => q_timers q ++ [now + (g_after g - now)] | [] => q_timers q end in
        ({| q_groups := map (fun g => {| g_after := g_after g; g_before := g_before g;
                                         g_answers := a_remove_keys (g_answers g) sent |}) rest;
            q_timers := timers; q_additional := q_additional q; q_aggregation := q_aggregation q |},
         match sent with [] => None | _ => Some sent end)
  | _ =>
      let '(rest, sent) := pop_due (q_groups q) now [] in
      let timers := match rest with g :: _ => q_timers q ++ [now + (g_after g - now)] | [] => q_timers q end in
      ({| q_groups := map (fun g => {| g_after := g_after g; g_before := g_before g;
                                       g_answers := a_remove_keys (g_answers g) sent |}) rest;
          q_timers := timers; q_additional := q_additional q; q_aggregation := q_aggregation q |},
       match sent with [] => None | _ => Some sent end)
  end.

Fixpoint remove_one (l : list Z) (x : Z) : list Z :=
  match l with [] => [] | y :: r => if y =? x then r else y :: remove_one r x end.

(* labels of the LTS *)
Inductive qlabel :=
| QAdd (now tnow rnd : Z) (a : answers)     (* a query handled at loop time tnow; `now` is the first packet's arrival time *)
| QFire (deadline tnow : Z).                (* the pending timer with this deadline runs at loop time tnow >= deadline *)

Definition qstep (q : oq) (l : qlabel) : option (oq * option (Z * answers)) :=
  match l with
  | QAdd now tnow rnd a => Some (async_add q now tnow rnd a, None)
  | QFire d tnow =>
      if existsb (Z.eqb d) (q_timers q) && (d <=? tnow) then
        let q' := {| q_groups := q_groups q; q_timers := remove_one (q_timers q) d;
                     q_additional := q_additional q; q_aggregation := q_aggregation q |} in
        let '(q'', sent) := async_ready_body q' tnow in
        Some (q'', match sent with Some s => Some (tnow, s) | None => None end)
      else None
  end.

Fixpoint qrun (q : oq) (ls : list qlabel) (trace : list (Z * answers)) : option (oq * list (Z * answers)) :=
  match ls with
  | [] => Some (q, trace)
  | l :: r =>
      match qstep q l with
      | Some (q', Some s) => qrun q' r (trace ++ [s])
      | Some (q', None) => qrun q' r trace
      | None => None
      end
  end.

(* the punctual scheduler used for correspondence runs: adds at their times, every timer exactly at its deadline,
   earliest deadline first, adds before timers are not tied (the harness generates tie-free schedules) *)
Fixpoint min_list (l : list Z) (m : Z) : Z := match l with [] => m | x :: r => min_list r (Z.min m x) end.

Fixpoint punctual (fuel : nat) (q : oq) (adds : list (Z * Z * Z * answers)) (horizon : Z) (trace : list (Z * answers))
  : list (Z * answers) :=
  match fuel with
  | O => trace
  | S f =>
      let next_timer := match q_timers q with [] => None | t :: r => Some (min_list r t) end in
      match adds, next_timer with
      | [], None => trace
      | (now, tnow, rnd, a) :: rest, None => punctual f (async_add q now tnow rnd a) rest horizon trace
      | [], Some d =>
          if horizon <? d then trace else
          match qstep q (QFire d d) with
          | Some (q', Some s) => punctual f q' [] horizon (trace ++ [s])
          | Some (q', None) => punctual f q' [] horizon trace
          | None => trace
          end
      | (now, tnow, rnd, a) :: rest, Some d =>
          if d <? tnow then
            match qstep q (QFire d d) with
            | Some (q', Some s) => punctual f q' adds horizon (trace ++ [s])
            | Some (q', None) => punctual f q' adds horizon trace
            | None => trace
            end
          else punctual f (async_add q now tnow rnd a) rest horizon trace
      end
  end.
