(* Register: the life cycle of a registered service in _core.py.
   async_check_service (probing, conflict detection, renaming) as a coroutine that is resumed turn by turn,
   _async_broadcast_service (three announcements / three goodbyes) as a task, async_register_service,
   async_update_service, async_unregister_service (after the C08 repair: the withdrawn records are also
   removed from the two outgoing queues) and generate_unregister_all_services.
   A service is a value (Respond.svc); info.name is rewritten by renaming. *)
From ZC Require Import Model.Base Model.PyRec Model.Dict Model.Re Model.Names Model.Cache Model.Respond Gen.Const Gen.Sites Gen.DnsPure.

(* ---- str(n) for the '-N' suffix ---- *)
Fixpoint dec_digits (fuel : nat) (n : Z) (acc : text) : text :=
  match fuel with
  | O => acc
  | S f => if n <? 10 then (48 + n) :: acc else dec_digits f (n / 10) ((48 + n mod 10) :: acc)
  end.
Definition dec (n : Z) : text := dec_digits (S (Z.to_nat (Z.log2 n))) n [].

Definition with_name (s : svc) (name : text) : svc :=
  {| s_type := s_type s; s_name := name; s_server := s_server s; s_port := s_port s; s_weight := s_weight s;
     s_priority := s_priority s; s_text := s_text s; s_host_ttl := s_host_ttl s; s_other_ttl := s_other_ttl s;
     s_v4 := s_v4 s; s_v6 := s_v6 s |}.
Definition with_ttl (s : svc) (ttl : Z) : svc :=
  {| s_type := s_type s; s_name := s_name s; s_server := s_server s; s_port := s_port s; s_weight := s_weight s;
     s_priority := s_priority s; s_text := s_text s; s_host_ttl := ttl; s_other_ttl := ttl;
     s_v4 := s_v4 s; s_v6 := s_v6 s |}.

(* instance_name_from_service_info *)
Definition instance_name (strict : bool) (s : svc) : result text :=
  bind (service_type_name strict (s_name s)) (fun service_name =>
  if negb (endswith (s_type s) service_name) then Raise BadTypeInName
  else Ok (drop_last (length service_name + 1) (s_name s))).

(* ---- async_check_service ---- *)
Record chk := {
  ck_svc : svc;            (* info, with the name as renamed so far *)
  ck_instance : text;      (* instance_name, computed once *)
  ck_num : Z;              (* next_instance_number *)
  ck_next : Z;             (* next_time *)
  ck_i : Z;                (* probes sent since the last rename *)
  ck_allow : bool; ck_strict : bool
}.

Inductive chk_out :=
| CProbe (now : Z) (question : pyrec) (authority : pyrec)
| CWait (ms : Z)
| CRaise (e : exn)
| CDone.

Definition probe_question (s : svc) : pyrec :=
  {| p_kind := KQuestion; p_name := s_type s; p_type_ := C_TYPE_PTR; p_class_ := C_CLASS_IN_UNIQUE;
     p_ttl := 0; p_created := 0; p_address := []; p_scope_id := None; p_cpu := []; p_os := []; p_alias := []; p_text := [];
     p_priority := 0; p_weight := 0; p_port := 0; p_server := []; p_next_name := []; p_rdtypes := [] |}.

Definition HYPHEN : Z := 45.

(* the inner `while cache.current_entry_with_name_and_alias(info.type, info.name)` loop; None = fuel exhausted *)
Fixpoint rename_loop (fuel : nat) (c : cache) (now : Z) (k : chk) : option (result chk) :=
  match current_entry_with_name_and_alias c now (s_type (ck_svc k)) (s_name (ck_svc k)) with
  | None => Some (Ok k)
  | Some _ =>
      if negb (ck_allow k) then Some (Raise NonUniqueName) else
      match fuel with
      | O => None
      | S f =>
          let name' := ck_instance k ++ [HYPHEN] ++ dec (ck_num k) ++ [DOT] ++ s_type (ck_svc k) in
          match service_type_name (ck_strict k) name' with
          | Raise e => Some (Raise e)
          | Ok _ =>
              rename_loop f c now {| ck_svc := with_name (ck_svc k) name'; ck_instance := ck_instance k;
                                     ck_num := ck_num k + 1; ck_next := now; ck_i := 0;
                                     ck_allow := ck_allow k; ck_strict := ck_strict k |}
          end
      end
  end.

Definition rename_fuel (c : cache) (k : chk) : nat := S (S (length (entries_with_name c (s_type (ck_svc k))))).

(* the body of `while i < _REGISTER_BROADCASTS` from the point where the coroutine (re)starts with `now` fresh,
   up to the next await / raise / return.  The cache cannot change inside a turn. *)
Definition check_loop :=
  Eval cbv beta iota delta [sop_apply site_reg_probe_count site_reg_probe_wait] in
  fix check_loop (fuel : nat) (c : cache) (now : Z) (k : chk) (acc : list chk_out) {struct fuel} : chk * list chk_out :=
  match fuel with
  | O => (k, acc ++ [CRaise OtherError])
  | S f =>
      if negb (sop_apply site_reg_probe_count (ck_i k) C_REGISTER_BROADCASTS) then (k, acc ++ [CDone]) else
      match rename_loop (rename_fuel c k) c now k with
      | None => (k, acc ++ [CRaise OtherError])
      | Some (Raise e) => (k, acc ++ [CRaise e])
      | Some (Ok k1) =>
          if sop_apply site_reg_probe_wait now (ck_next k1) then (k1, acc ++ [CWait (ck_next k1 - now)])
          else
            check_loop f c now
              {| ck_svc := ck_svc k1; ck_instance := ck_instance k1; ck_num := ck_num k1;
                 ck_next := ck_next k1 + C_CHECK_TIME; ck_i := ck_i k1 + 1;
                 ck_allow := ck_allow k1; ck_strict := ck_strict k1 |}
              (acc ++ [CProbe now (probe_question (ck_svc k1)) (dns_pointer (ck_svc k1))])
      end
  end.

(* at most 3 probes per rename-free stretch, and every rename uses up a cached pointer *)
Definition check_fuel (c : cache) (k : chk) : nat := 4 * (rename_fuel c k + 1).

Definition check_turn (c : cache) (now : Z) (k : chk) : chk * list chk_out := check_loop (check_fuel c k) c now k [].

Definition check_start (c : cache) (now : Z) (s : svc) (allow strict cooperating : bool) : result (chk * list chk_out) :=
  bind (instance_name strict s) (fun inst =>
  let k := {| ck_svc := s; ck_instance := inst; ck_num := 2; ck_next := now; ck_i := 0; ck_allow := allow; ck_strict := strict |} in
  if cooperating then Ok (k, [CDone]) else Ok (check_turn c now k)).

(* ---- _async_broadcast_service ---- *)
Definition broadcast_records (s : svc) (override_ttl : option Z) (with_addresses : bool) : list pyrec :=
  let s' := match override_ttl with Some t => with_ttl s t | None => s end in
  [dns_pointer s'; dns_service s'; dns_text s'] ++ (if with_addresses then address_and_nsec s' else []).

Record bcast := { bc_svc : svc; bc_ttl : option Z; bc_addresses : bool; bc_interval : Z; bc_left : Z }.
Inductive bc_out := BSend (now : Z) (records : list pyrec) | BSleep (ms : Z) | BEnd.

(* one resumption of the task: send, then sleep unless it was the last one *)
Definition bcast_turn (b : bcast) (now : Z) : bcast * list bc_out :=
  if bc_left b <=? 0 then (b, [BEnd]) else
  let b' := {| bc_svc := bc_svc b; bc_ttl := bc_ttl b; bc_addresses := bc_addresses b; bc_interval := bc_interval b;
               bc_left := bc_left b - 1 |} in
  (b', BSend now (broadcast_records (bc_svc b) (bc_ttl b) (bc_addresses b))
       :: (if bc_left b' <=? 0 then [BEnd] else [BSleep (bc_interval b)])).

Definition announce_task (s : svc) : bcast :=
  {| bc_svc := s; bc_ttl := None; bc_addresses := true; bc_interval := C_REGISTER_TIME; bc_left := C_REGISTER_BROADCASTS |}.

(* async_register_service once the check has returned: registry.async_add, then the announcement task *)
Definition register_finish (g : registry) (k : chk) : result (registry * bcast) :=
  bind (reg_add g (ck_svc k)) (fun g' => Ok (g', announce_task (ck_svc k))).

(* async_update_service *)
Definition update_service (g : registry) (s : svc) : result (registry * bcast) :=
  bind (reg_update g s) (fun g' => Ok (g', announce_task s)).

(* async_unregister_service: registry removal; addresses are withdrawn only if no other service uses the host;
   returns the goodbye task and the records that are taken out of the outgoing queues *)
Definition unregister_service (g : registry) (s : svc) : registry * bcast * list pyrec :=
  let g' := reg_remove g (s_key s) in
  let shared := nonempty (get_infos g' (g_servers g') (s_server_key s)) in
  (g',
   {| bc_svc := s; bc_ttl := Some 0; bc_addresses := negb shared; bc_interval := C_UNREGISTER_TIME; bc_left := C_REGISTER_BROADCASTS |},
   broadcast_records s None (negb shared)).

(* generate_unregister_all_services: one message with the goodbyes of every service; the registry ends up empty *)
Definition all_services (g : registry) : list svc := map snd (g_services g).
Definition unregister_all (g : registry) : registry * list pyrec :=
  (fold_left (fun g s => reg_remove g (s_key s)) (all_services g) g,
   flat_map (fun s => broadcast_records s (Some 0) true) (all_services g)).
