(* Listener: zeroconf._listener.AsyncListener - the oversize guard, the duplicate-packet guard and the
   deferral of truncated (TC) queries - as a labelled transition system. The decoded message is
   abstracted to the flags the listener looks at (they come from Model.WireDec in the composed node). *)
From ZC Require Import Model.Base Model.Dict Gen.Const Gen.Sites.

Record lmsg := {
  lm_data : bytes;
  lm_valid : bool; lm_is_query : bool; lm_truncated : bool; lm_has_qu : bool
}.

Record lstate := {
  ls_data : option bytes;                        (* self.data *)
  ls_last_time : Z;
  ls_last_msg : option bool;                     (* self.last_message is not None; its has_qu_question() *)
  ls_deferred : list (text * list lmsg);         (* self._deferred: addr -> packets *)
  ls_timers : list (text * Z)                    (* self._timers: addr -> deadline of the pending _respond_query *)
}.
Definition lstate_init : lstate :=
  {| ls_data := None; ls_last_time := 0; ls_last_msg := None; ls_deferred := []; ls_timers := [] |}.

Inductive lout :=
| OOversize | ODuplicate | OInvalid
| OResponse (m : lmsg)                            (* record_manager.async_updates_from_response *)
| ONoRegistry
| ODeferred                                       (* truncated query held back (or an identical continuation ignored) *)
| ORespond (addr : text) (packets : list lmsg).   (* query_handler.handle_assembled_query(packets, addr, ...) *)

Definition opt_bytes_eqb (a : option bytes) (b : bytes) : bool :=
  match a with Some x => bytes_eqb x b | None => false end.

(* the duplicate guard of _process_datagram_at_time *)
Definition is_duplicate :=
  Eval cbv beta iota delta [sop_apply site_listener_dup_window] in
  fun (s : lstate) (data : bytes) (now : Z) =>
  opt_bytes_eqb (ls_data s) data
  && sop_apply site_listener_dup_window (now - C_DUPLICATE_PACKET_SUPPRESSION_INTERVAL) (ls_last_time s)
  && match ls_last_msg s with Some has_qu => negb has_qu | None => false end.

Definition set_deferred (s : lstate) (d : list (text * list lmsg)) (t : list (text * Z)) : lstate :=
  {| ls_data := ls_data s; ls_last_time := ls_last_time s; ls_last_msg := ls_last_msg s; ls_deferred := d; ls_timers := t |}.

(* _respond_query(msg, addr): cancel the timer, pop the deferred packets, append msg *)
Definition respond_query (s : lstate) (msg : option lmsg) (addr : text) : lstate * lout :=
  let packets := match d_get text_eqb (ls_deferred s) addr with Some l => l | None => [] end in
  let packets := match msg with Some m => packets ++ [m] | None => packets end in
  (set_deferred s (d_del text_eqb (ls_deferred s) addr) (d_del text_eqb (ls_timers s) addr), ORespond addr packets).

(* datagram_received(data, (addr, port)) at time now; [m] is what DNSIncoming makes of data; tc_delay the draw in 400..500 *)
Definition datagram :=
  Eval cbv beta iota delta [sop_apply site_listener_oversize] in
  fun (s : lstate) (m : lmsg) (addr : text) (now : Z) (has_entries : bool) (tc_delay : Z) =>
  let data := lm_data m in
  if sop_apply site_listener_oversize (Z.of_nat (length data)) C_MAX_MSG_ABSOLUTE then (s, OOversize)
  else if is_duplicate s data now then (s, ODuplicate)
  else
    let s1 := {| ls_data := Some data; ls_last_time := now; ls_last_msg := Some (lm_has_qu m);
                 ls_deferred := ls_deferred s; ls_timers := ls_timers s |} in
    if negb (lm_valid m) then (s1, OInvalid)
    else if negb (lm_is_query m) then (s1, OResponse m)
    else if negb has_entries then (s1, ONoRegistry)
    else if negb (lm_truncated m) then respond_query s1 (Some m) addr
    else
      let deferred := match d_get text_eqb (ls_deferred s1) addr with Some l => l | None => [] end in
      if existsb (fun x => bytes_eqb (lm_data x) data) deferred then (s1, ODeferred)
      else (set_deferred s1 (d_set text_eqb (ls_deferred s1) addr (deferred ++ [m]))
                         (d_set text_eqb (ls_timers s1) addr (now + tc_delay)), ODeferred).

(* the TC timer of addr fires at time now >= its deadline *)
Definition tc_fire (s : lstate) (addr : text) (now : Z) : option (lstate * lout) :=
  match d_get text_eqb (ls_timers s) addr with
  | Some d => if d <=? now then Some (respond_query s None addr) else None
  | None => None
  end.
