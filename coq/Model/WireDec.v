(* WireDec: zeroconf._protocol.incoming.DNSIncoming, statement by statement.
   A state monad with exceptions carries (offset, name cache); the recursion of
   _decode_labels_at_offset costs one Python frame per pointer hop, [frames] of which are available. *)
From ZC Require Import Model.Base Model.PyRec Model.Dict Model.Utf8 Gen.Const Gen.Sites Gen.Shapes.

Record dstate := { d_off : Z; d_cache : list (Z * list text) }.

(* outcome of a step that may raise: the state survives the exception (name-cache entries made by
   completed inner frames persist; the caller decides what happens to the offset) *)
Inductive dres (A : Type) := DOk (a : A) (s : dstate) | DErr (e : exn) (s : dstate).
Arguments DOk {A} a s.
Arguments DErr {A} e s.

Definition M (A : Type) := dstate -> dres A.
Definition ret {A} (a : A) : M A := fun s => DOk a s.
Definition raise {A} (e : exn) : M A := fun s => DErr e s.
Definition mbind {A B} (m : M A) (f : A -> M B) : M B :=
  fun s => match m s with DOk a s' => f a s' | DErr e s' => DErr e s' end.
Notation "x <- m ;; k" := (mbind m (fun x => k)) (at level 61, m at next level, right associativity).
Definition get_off : M Z := fun s => DOk (d_off s) s.
Definition set_off (o : Z) : M unit := fun s => DOk tt {| d_off := o; d_cache := d_cache s |}.
Definition get_cache : M (list (Z * list text)) := fun s => DOk (d_cache s) s.
Definition set_cache (c : list (Z * list text)) : M unit := fun s => DOk tt {| d_off := d_off s; d_cache := c |}.

Section Dec.
  Variable data : bytes.
  Variable now : Z.
  Variable scope : option Z.
  Variable frames : nat.                 (* Python stack frames available to the pointer recursion *)

  Definition dlen : Z := Z.of_nat (length data).

  (* view[i] for i >= 0 *)
  Definition byte_at (i : Z) : M Z :=
    if i <? 0 then raise IndexError else
    match nth_error data (Z.to_nat i) with Some b => ret b | None => raise IndexError end.

  (* data[a:b] (slicing never raises, it truncates) *)
  Definition slice (a b : Z) : bytes :=
    if (a <? 0) || (b <=? a) then [] else firstn (Z.to_nat (b - a)) (skipn (Z.to_nat a) data).

  Definition short_at (i : Z) : M Z :=
    hi <- byte_at i ;; lo <- byte_at (i + 1) ;; ret (hi * 256 + lo).

  Definition cache_get_labels (c : list (Z * list text)) (k : Z) : option (list text) := d_get Z.eqb c k.

  (* one frame of _decode_labels_at_offset; [hops] bounds the recursion (frames left) *)
  Definition decode_labels :=
    Eval cbv beta match delta [sop_apply site_dec_in_packet site_dec_is_label site_dec_is_label_rhs site_dec_is_reserved site_dec_is_reserved_rhs site_dec_link_beyond site_dec_pointer_budget site_dec_label_budget] in
    fix decode_labels (hops : nat) (off : Z) (labels : list text) (seen : list Z) {struct hops} : M (Z * list text * list Z) :=
    match hops with
    | O => raise RecursionError
    | S hops' =>
        (fix loop (fuel : nat) (off : Z) (labels : list text) (seen : list Z) {struct fuel}
           : M (Z * list text * list Z) :=
           match fuel with
           | O => raise OtherError                     (* out of fuel: proved unreachable (C02_total), off grows by >= 1 per turn *)
           | S fuel' =>
               if negb (sop_apply site_dec_in_packet off dlen) then raise IncomingDecodeError   (* "Corrupt packet" *)
               else
                 length <- byte_at off ;;
                 if length =? 0 then ret (off + C_DNS_COMPRESSION_HEADER_LEN, labels, seen)
                 else if sop_apply site_dec_is_label length site_dec_is_label_rhs then
                   let label_idx := off + C_DNS_COMPRESSION_HEADER_LEN in
                   loop fuel' (off + C_DNS_COMPRESSION_HEADER_LEN + length)
                        (labels ++ [utf8_decode_replace (slice label_idx (label_idx + length))]) seen
                 else if sop_apply site_dec_is_reserved length site_dec_is_reserved_rhs then raise IncomingDecodeError
                 else
                   link_data <- byte_at (off + 1) ;;
                   let link := (Z.land length 63) * 256 + link_data in
                   if sop_apply site_dec_link_beyond link dlen then raise IncomingDecodeError
                   else if link =? off then raise IncomingDecodeError
                   else if existsb (Z.eqb link) seen then raise IncomingDecodeError
                   else
                     c <- get_cache ;;
                     r <- (match cache_get_labels c link with
                           | Some (l0 :: ls) => ret (l0 :: ls, seen)
                           | _ =>
                               if (sop_apply site_dec_pointer_budget (Z.of_nat (List.length seen)) C_MAX_DNS_LABELS) then raise IncomingDecodeError
                               else
                                 let seen' := seen ++ [link] in
                                 x <- decode_labels hops' link [] seen' ;;
                                 let '(_, linked, seen'') := x in
                                 c' <- get_cache ;;
                                 _ <- set_cache (d_set Z.eqb c' link linked) ;;
                                 ret (linked, seen'')
                           end) ;;
                     let '(linked, seen2) := r in
                     let labels' := labels ++ linked in
                     if sop_apply site_dec_label_budget (Z.of_nat (List.length labels')) C_MAX_DNS_LABELS then raise IncomingDecodeError
                     else ret (off + C_DNS_COMPRESSION_POINTER_LEN, labels', seen2)
           end) (S (length data)) off labels seen
    end.

  Fixpoint join_labels (labels : list text) : text :=
    match labels with
    | [] => []
    | [l] => l
    | l :: r => l ++ 46 :: join_labels r
    end.

  (* _read_name *)
  Definition read_name : M text :=
    Eval cbv beta match delta [sop_apply site_dec_name_limit] in
    orig <- get_off ;;
    x <- decode_labels frames orig [] [] ;;
    let '(off', labels, _) := x in
    _ <- set_off off' ;;
    c <- get_cache ;;
    _ <- set_cache (d_set Z.eqb c orig labels) ;;
    let name := join_labels labels ++ [46] in
    if sop_apply site_dec_name_limit (Z.of_nat (length name)) C_MAX_NAME_LENGTH then raise IncomingDecodeError else ret name.

  Definition read_string (n : Z) : M bytes :=
    o <- get_off ;; _ <- set_off (o + n) ;; ret (slice o (o + n)).

  Definition read_character_string : M text :=
    o <- get_off ;;
    n <- byte_at o ;;
    _ <- set_off (o + 1 + n) ;;
    ret (utf8_decode_replace (slice (o + 1) (o + 1 + n))).

  (* one window of _read_bitmap: the set bits of bytes[offset+2 : offset+2+len] *)
  Fixpoint bits_of_byte (byte : Z) (bit : nat) (base : Z) : list Z :=
    match bit with
    | O => []
    | S b' =>
        let k := Z.of_nat (8 - bit) in
        (if Z.testbit byte (7 - k) then [k + base] else []) ++ bits_of_byte byte b' base
    end.

  Fixpoint bits_of_bytes (bs : bytes) (i : Z) (window : Z) : list Z :=
    match bs with
    | [] => []
    | b :: r => bits_of_byte b 8 (window * 256 + i * 8) ++ bits_of_bytes r (i + 1) window
    end.

  Definition read_bitmap_loop :=

    Eval cbv beta match delta [sop_apply site_dec_bitmap_more] in

    fix read_bitmap_loop (fuel : nat) (endo : Z) (acc : list Z) {struct fuel} : M (list Z) :=
    match fuel with
    | O => raise OtherError                           (* out of fuel: proved unreachable (C02_total) *)
    | S f =>
        o <- get_off ;;
        if negb (sop_apply site_dec_bitmap_more o endo) then ret acc else
        window <- byte_at o ;;
        blen <- byte_at (o + 1) ;;
        _ <- set_off (o + 2 + blen) ;;
        read_bitmap_loop f endo (acc ++ bits_of_bytes (slice (o + 2) (o + 2 + blen)) 0 window)
    end.

  Definition mk_rec (k : kind) (name : text) (ty cl ttl : Z) : pyrec :=
    {| p_kind := k; p_name := name; p_type_ := ty; p_class_ := cl; p_ttl := ttl; p_created := now;
       p_address := []; p_scope_id := None; p_cpu := []; p_os := []; p_alias := []; p_text := [];
       p_priority := 0; p_weight := 0; p_port := 0; p_server := []; p_next_name := []; p_rdtypes := [] |}.

  Definition with_address (r : pyrec) (a : bytes) (sc : option Z) : pyrec :=
    {| p_kind := p_kind r; p_name := p_name r; p_type_ := p_type_ r; p_class_ := p_class_ r; p_ttl := p_ttl r;
       p_created := p_created r; p_address := a; p_scope_id := sc; p_cpu := p_cpu r; p_os := p_os r;
       p_alias := p_alias r; p_text := p_text r; p_priority := p_priority r; p_weight := p_weight r;
       p_port := p_port r; p_server := p_server r; p_next_name := p_next_name r; p_rdtypes := p_rdtypes r |}.
  Definition with_alias (r : pyrec) (a : text) : pyrec :=
    {| p_kind := p_kind r; p_name := p_name r; p_type_ := p_type_ r; p_class_ := p_class_ r; p_ttl := p_ttl r;
       p_created := p_created r; p_address := p_address r; p_scope_id := p_scope_id r; p_cpu := p_cpu r; p_os := p_os r;
       p_alias := a; p_text := p_text r; p_priority := p_priority r; p_weight := p_weight r;
       p_port := p_port r; p_server := p_server r; p_next_name := p_next_name r; p_rdtypes := p_rdtypes r |}.
  Definition with_text (r : pyrec) (t : bytes) : pyrec :=
    {| p_kind := p_kind r; p_name := p_name r; p_type_ := p_type_ r; p_class_ := p_class_ r; p_ttl := p_ttl r;
       p_created := p_created r; p_address := p_address r; p_scope_id := p_scope_id r; p_cpu := p_cpu r; p_os := p_os r;
       p_alias := p_alias r; p_text := t; p_priority := p_priority r; p_weight := p_weight r;
       p_port := p_port r; p_server := p_server r; p_next_name := p_next_name r; p_rdtypes := p_rdtypes r |}.
  Definition with_srv (r : pyrec) (pr w po : Z) (srv : text) : pyrec :=
    {| p_kind := p_kind r; p_name := p_name r; p_type_ := p_type_ r; p_class_ := p_class_ r; p_ttl := p_ttl r;
       p_created := p_created r; p_address := p_address r; p_scope_id := p_scope_id r; p_cpu := p_cpu r; p_os := p_os r;
       p_alias := p_alias r; p_text := p_text r; p_priority := pr; p_weight := w;
       p_port := po; p_server := srv; p_next_name := p_next_name r; p_rdtypes := p_rdtypes r |}.
  Definition with_hinfo (r : pyrec) (cpu os : text) : pyrec :=
    {| p_kind := p_kind r; p_name := p_name r; p_type_ := p_type_ r; p_class_ := p_class_ r; p_ttl := p_ttl r;
       p_created := p_created r; p_address := p_address r; p_scope_id := p_scope_id r; p_cpu := cpu; p_os := os;
       p_alias := p_alias r; p_text := p_text r; p_priority := p_priority r; p_weight := p_weight r;
       p_port := p_port r; p_server := p_server r; p_next_name := p_next_name r; p_rdtypes := p_rdtypes r |}.
  Definition with_nsec (r : pyrec) (next : text) (types : list Z) : pyrec :=
    {| p_kind := p_kind r; p_name := p_name r; p_type_ := p_type_ r; p_class_ := p_class_ r; p_ttl := p_ttl r;
       p_created := p_created r; p_address := p_address r; p_scope_id := p_scope_id r; p_cpu := p_cpu r; p_os := p_os r;
       p_alias := p_alias r; p_text := p_text r; p_priority := p_priority r; p_weight := p_weight r;
       p_port := p_port r; p_server := p_server r; p_next_name := next; p_rdtypes := types |}.

  (* _read_record *)
  Definition read_record (domain : text) (ty cl ttl rdlen : Z) : M (option pyrec) :=
    if ty =? C_TYPE_A then
      a <- read_string 4 ;; ret (Some (with_address (mk_rec KAddress domain ty cl ttl) a None))
    else if (ty =? C_TYPE_CNAME) || (ty =? C_TYPE_PTR) then
      n <- read_name ;; ret (Some (with_alias (mk_rec KPointer domain ty cl ttl) n))
    else if ty =? C_TYPE_TXT then
      t <- read_string rdlen ;; ret (Some (with_text (mk_rec KText domain ty cl ttl) t))
    else if ty =? C_TYPE_SRV then
      o <- get_off ;;
      _ <- set_off (o + 6) ;;
      pr <- short_at o ;; w <- short_at (o + 2) ;; po <- short_at (o + 4) ;;
      n <- read_name ;;
      ret (Some (with_srv (mk_rec KService domain ty cl ttl) pr w po n))
    else if ty =? C_TYPE_HINFO then
      cpu <- read_character_string ;; os <- read_character_string ;;
      ret (Some (with_hinfo (mk_rec KHinfo domain ty cl ttl) cpu os))
    else if ty =? C_TYPE_AAAA then
      a <- read_string 16 ;; ret (Some (with_address (mk_rec KAddress domain ty cl ttl) a scope))
    else if ty =? C_TYPE_NSEC then
      name_start <- get_off ;;
      n <- read_name ;;
      bm <- read_bitmap_loop (S (length data)) (name_start + rdlen) [] ;;
      ret (Some (with_nsec (mk_rec KNsec domain ty cl ttl) n bm))
    else
      o <- get_off ;; _ <- set_off (o + rdlen) ;; ret None.

  Definition catches (e : exn) : bool := decode_catches e.   (* DECODE_EXCEPTIONS, regenerated *)

  (* _read_others: n records; an escaping exception ends the loop, keeping what was read *)
  Fixpoint read_others (n : nat) (acc : list pyrec) : dstate -> (list pyrec * option exn * dstate) :=
    fun s =>
    match n with
    | O => (acc, None, s)
    | S n' =>
        match (domain <- read_name ;;
               o <- get_off ;;
               _ <- set_off (o + 10) ;;
               ty <- short_at o ;; cl <- short_at (o + 2) ;;
               t1 <- short_at (o + 4) ;; t2 <- short_at (o + 6) ;;
               len <- short_at (o + 8) ;;
               ret (domain, ty, cl, t1 * 65536 + t2, len, o + 10 + len)) s with
        | DErr e s' => (acc, Some e, s')
        | DOk (domain, ty, cl, ttl, len, endo) s1 =>
            match read_record domain ty cl ttl len s1 with
            | DOk (Some r) s2 => read_others n' (acc ++ [r]) s2
            | DOk None s2 => read_others n' acc s2
            | DErr e s2 =>
                if catches e
                then read_others n' acc {| d_off := endo; d_cache := d_cache s2 |}
                else (acc, Some e, s2)
            end
        end
    end.

  Fixpoint read_questions (n : nat) (acc : list pyrec) : dstate -> (list pyrec * option exn * dstate) :=
    fun s =>
    match n with
    | O => (acc, None, s)
    | S n' =>
        match (name <- read_name ;;
               o <- get_off ;;
               _ <- set_off (o + 4) ;;
               ty <- short_at o ;; cl <- short_at (o + 2) ;;
               ret (mk_rec KQuestion name ty cl 0)) s with
        | DErr e s' => (acc, Some e, s')
        | DOk q s' => read_questions n' (acc ++ [q]) s'
        end
    end.

  Record parsed := {
    m_valid : bool; m_id : Z; m_flags : Z;
    m_nq : Z; m_nans : Z; m_nauth : Z; m_nadd : Z;
    m_questions : list pyrec; m_answers : list pyrec;
    m_escaped : option exn          (* an exception that is NOT in DECODE_EXCEPTIONS leaves the constructor / answers() *)
  }.

  Definition escapes (e : option exn) : option exn :=
    match e with Some x => if catches x then None else Some x | None => None end.

  (* DNSIncoming(data) followed by .answers() *)
  Definition parse : parsed :=
    let s0 := {| d_off := 0; d_cache := [] |} in
    match (id <- short_at 0 ;; fl <- short_at 2 ;; nq <- short_at 4 ;; na <- short_at 6 ;;
           nau <- short_at 8 ;; nad <- short_at 10 ;; _ <- set_off 12 ;; ret (id, fl, nq, na, nau, nad)) s0 with
    | DErr e _ =>
        (* _read_header assigns field by field: fields read before the IndexError keep their value *)
        let g i := match short_at i s0 with DOk v _ => v | DErr _ _ => 0 end in
        let ok i := match short_at i s0 with DOk _ _ => true | DErr _ _ => false end in
        {| m_valid := false; m_id := g 0; m_flags := if ok 0 then g 2 else 0;
           m_nq := if ok 2 then g 4 else 0; m_nans := if ok 4 then g 6 else 0;
           m_nauth := if ok 6 then g 8 else 0; m_nadd := if ok 8 then g 10 else 0;
           m_questions := []; m_answers := []; m_escaped := escapes (Some e) |}
    | DOk (id, fl, nq, na, nau, nad) s1 =>
        let '(qs, qe, s2) := read_questions (Z.to_nat nq) [] s1 in
        match escapes qe with
        | Some e =>      (* the constructor itself raised: there is no object to ask for answers *)
            {| m_valid := false; m_id := id; m_flags := fl; m_nq := nq; m_nans := na; m_nauth := nau; m_nadd := nad;
               m_questions := qs; m_answers := []; m_escaped := Some e |}
        | None =>
            (* _read_others runs in the constructor when there are no questions, otherwise (or after a
               failed question section, from wherever the offset was left) on the first answers() call *)
            let '(ans, ae, s3) := read_others (Z.to_nat (na + nau + nad)) [] s2 in
            {| m_valid := match qe with
                          | Some _ => false
                          | None => if nq =? 0 then (match ae with None => true | Some _ => false end) else true
                          end;
               m_id := id; m_flags := fl; m_nq := nq; m_nans := na; m_nauth := nau; m_nadd := nad;
               m_questions := qs; m_answers := ans; m_escaped := escapes ae |}
        end
    end.
End Dec.
