(* Names: zeroconf._utils.name.service_type_name, statement by statement.
   Regex predicates and the trailer strings come from Gen (regenerated from const.py). *)
From ZC Require Import Model.Base Model.Re Model.Utf8 Gen.Const Gen.Shapes.

Definition DOT : Z := 46.
Definition len (s : text) : Z := Z.of_nat (length s).

(* str.split('.') *)
Fixpoint split_dot (s : text) : list text :=
  match s with
  | [] => [[]]
  | c :: s' =>
      if c =? DOT then [] :: split_dot s'
      else match split_dot s' with
           | h :: t => (c :: h) :: t
           | [] => [[c]]
           end
  end.

(* '.'.join(l) *)
Fixpoint join_dot (l : list text) : text :=
  match l with
  | [] => []
  | [x] => x
  | x :: r => x ++ DOT :: join_dot r
  end.

(* s.endswith(suf) *)
Definition endswith (s suf : text) : bool :=
  (length suf <=? length s)%nat && text_eqb (skipn (length s - length suf) s) suf.

(* s[:-n] and s[-n:] for 0 < n <= len s *)
Definition drop_last (n : nat) (s : text) : text := firstn (length s - n) s.
Definition take_last (n : nat) (s : text) : text := skipn (length s - n) s.

(* list.pop() *)
Definition pop {A} (l : list A) : result (list A * A) :=
  match rev l with
  | [] => Raise IndexError
  | x :: r => Ok (rev r, x)
  end.

(* s[0], s[-1] *)
Definition first_cp (s : text) : result Z := match s with [] => Raise IndexError | c :: _ => Ok c end.
Definition last_cp (s : text) : result Z := match rev s with [] => Raise IndexError | c :: _ => Ok c end.

(* '--' in s *)
Fixpoint has_double_hyphen (s : text) : bool :=
  match s with
  | a :: ((b :: _) as s') => ((a =? 45) && (b =? 45)) || has_double_hyphen s'
  | _ => false
  end.

Definition SUB : text := [95; 115; 117; 98].   (* '_sub' *)

(* the checks applied to the service label (strict or has_protocol branch) *)
Definition check_service (strict : bool) (type_ : text) (remaining : list text)
  : result (list text * text) :=
  bind (pop remaining) (fun '(remaining, service_name) =>
  if negb (nonempty service_name) then Raise BadTypeInName else
  if ((length remaining =? 1)%nat && (match remaining with r0 :: _ => negb (nonempty r0) | [] => false end))
  then Raise BadTypeInName else
  bind (first_cp service_name) (fun c0 =>
  if negb (c0 =? 95) then Raise BadTypeInName else
  let test := tl service_name in
  if negb (nonempty test) then Raise BadTypeInName else          (* added by the IndexError fix *)
  if strict && (15 <? len test) then Raise BadTypeInName else
  if has_double_hyphen test then Raise BadTypeInName else
  bind (first_cp test) (fun t0 =>
  bind (last_cp test) (fun tl_ =>
  if (t0 =? 45) || (tl_ =? 45) then Raise BadTypeInName else
  if negb (re_HAS_A_TO_Z test) then Raise BadTypeInName else
  if negb ((if strict then re_HAS_ONLY_A_TO_Z_NUM_HYPHEN else re_HAS_ONLY_A_TO_Z_NUM_HYPHEN_UNDERSCORE) test)
  then Raise BadTypeInName else
  Ok (remaining, service_name))))).

(* the _sub / instance part *)
Definition check_instance (remaining : list text) : result unit :=
  bind (match rev remaining with
        | last :: r =>
            if text_eqb last SUB then
              let remaining := rev r in
              match remaining with
              | [] => Raise BadTypeInName
              | r0 :: _ => if negb (nonempty r0) then Raise BadTypeInName else Ok remaining
              end
            else Ok remaining
        | [] => Ok remaining
        end) (fun remaining =>
  let remaining := match remaining with _ :: _ :: _ => [join_dot remaining] | _ => remaining end in
  match remaining with
  | [] => Ok tt
  | r0 :: _ =>
      bind (utf8_len r0) (fun length =>
      if 63 <? length then Raise BadTypeInName else
      if re_HAS_ASCII_CONTROL_CHARS r0 then Raise BadTypeInName else Ok tt)
  end).

Definition service_type_name (strict : bool) (type_ : text) : result text :=
  if 256 <? len type_ then Raise BadTypeInName else
  let tcp := C_TCP_PROTOCOL_LOCAL_TRAILER in
  let udp := C_NONTCP_PROTOCOL_LOCAL_TRAILER in
  let loc := C_LOCAL_TRAILER in
  bind (if endswith type_ tcp || endswith type_ udp
        then Ok (split_dot (drop_last (length tcp) type_), take_last (length tcp) type_, true)
        else if strict then Raise BadTypeInName
        else if endswith type_ loc
        then Ok (split_dot (drop_last (length loc) type_), take_last (length loc - 1) type_, false)
        else Raise BadTypeInName)
       (fun '(remaining, trailer, has_protocol) =>
  bind (if strict || has_protocol then check_service strict type_ remaining
        else Ok (remaining, []))
       (fun '(remaining, service_name) =>
  bind (check_instance remaining) (fun _ => Ok (service_name ++ trailer)))).
