(* Re: the three regex shapes const.py uses, as combinators over a character-class predicate.
   The class predicates themselves are regenerated from the pattern strings (Gen/Shapes.v). *)
From ZC Require Import Model.Base.

Definition in_range (lo hi c : Z) : bool := (lo <=? c) && (c <=? hi).

(* re.compile('[cls]').search(s) *)
Definition re_any (cls : Z -> bool) (s : text) : bool := existsb cls s.

Definition nonempty {A} (l : list A) : bool := match l with [] => false | _ => true end.

(* re.compile('^[cls]+\Z').search(s) *)
Definition re_plus_end (cls : Z -> bool) (s : text) : bool := nonempty s && forallb cls s.

(* re.compile('^[cls]+$').search(s): without re.MULTILINE `$` also matches just before a
   trailing newline *)
Definition re_plus_dollar (cls : Z -> bool) (s : text) : bool :=
  re_plus_end cls s ||
  match rev s with
  | 10 :: r => re_plus_end cls (rev r)
  | _ => false
  end.
