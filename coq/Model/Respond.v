(* Respond: ServiceRegistry (registry.py), the records a ServiceInfo generates (info.py) and
   QueryHandler.async_response / _QueryResponse (query_handler.py), statement by statement.
   The per-ServiceInfo record memo is not modelled: the registry holds values and records are
   recomputed; stale memos would show up in the correspondence check (C03 "after update"). *)
From ZC Require Import Model.Base Model.PyRec Model.Dict Model.Re Model.Cache Gen.Const Gen.Sites Gen.Extra Gen.DnsPure.

Record svc := {
  s_type : text; s_name : text; s_server : text;
  s_port : Z; s_weight : Z; s_priority : Z; s_text : bytes;
  s_host_ttl : Z; s_other_ttl : Z;
  s_v4 : list bytes; s_v6 : list bytes
}.
Definition s_key (s : svc) : text := lower (s_name s).
Definition s_server_key (s : svc) : text := lower (s_server s).

(* ---- registry ---- *)
Record registry := {
  g_services : list (text * svc);
  g_types : list (text * list text);
  g_servers : list (text * list text)
}.
Definition empty_registry : registry := {| g_services := []; g_types := []; g_servers := [] |}.

Definition idx_append (i : list (text * list text)) (k name : text) : list (text * list text) :=
  match d_get text_eqb i k with
  | Some l => d_set text_eqb i k (l ++ [name])
  | None => i ++ [(k, [name])]
  end.

Fixpoint remove_first (l : list text) (x : text) : list text :=
  match l with [] => [] | y :: r => if text_eqb y x then r else y :: remove_first r x end.

(* _remove_from_index (after the C03 repair): drop the bucket once it is empty *)
Definition idx_remove_name (i : list (text * list text)) (k name : text) : list (text * list text) :=
  match d_get text_eqb i k with
  | Some l => let l' := remove_first l name in
              if nonempty l' then d_set text_eqb i k l' else d_del text_eqb i k
  | None => i
  end.

Definition reg_add (g : registry) (s : svc) : result registry :=
  if d_mem text_eqb (g_services g) (s_key s) then Raise ServiceNameAlreadyRegistered
  else Ok {| g_services := g_services g ++ [(s_key s, s)];
             g_types := idx_append (g_types g) (lower (s_type s)) (s_key s);
             g_servers := idx_append (g_servers g) (s_server_key s) (s_key s) |}.

(* _remove([info]): keyed by info.key; the OLD info's type / server index entries are removed *)
Definition reg_remove (g : registry) (key : text) : registry :=
  match d_get text_eqb (g_services g) key with
  | None => g
  | Some old =>
      {| g_services := d_del text_eqb (g_services g) key;
         g_types := idx_remove_name (g_types g) (lower (s_type old)) key;
         g_servers := idx_remove_name (g_servers g) (s_server_key old) key |}
  end.

Definition reg_update (g : registry) (s : svc) : result registry := reg_add (reg_remove g (s_key s)) s.

Definition get_infos (g : registry) (i : list (text * list text)) (k : text) : list svc :=
  match d_get text_eqb i k with
  | None => []
  | Some names => flat_map (fun n => match d_get text_eqb (g_services g) n with Some s => [s] | None => [] end) names
  end.
Definition get_types (g : registry) : list text := map fst (g_types g).

(* ---- records of a ServiceInfo (created = 0.0) ---- *)
Definition blank (k : kind) (name : text) (ty cl ttl : Z) : pyrec :=
  {| p_kind := k; p_name := name; p_type_ := ty; p_class_ := cl; p_ttl := ttl; p_created := 0;
     p_address := []; p_scope_id := None; p_cpu := []; p_os := []; p_alias := []; p_text := [];
     p_priority := 0; p_weight := 0; p_port := 0; p_server := []; p_next_name := []; p_rdtypes := [] |}.

Definition set_alias (r : pyrec) (a : text) : pyrec :=
  {| p_kind := p_kind r; p_name := p_name r; p_type_ := p_type_ r; p_class_ := p_class_ r; p_ttl := p_ttl r;
     p_created := p_created r; p_address := p_address r; p_scope_id := p_scope_id r; p_cpu := p_cpu r; p_os := p_os r;
     p_alias := a; p_text := p_text r; p_priority := p_priority r; p_weight := p_weight r; p_port := p_port r;
     p_server := p_server r; p_next_name := p_next_name r; p_rdtypes := p_rdtypes r |}.
Definition set_text (r : pyrec) (t : bytes) : pyrec :=
  {| p_kind := p_kind r; p_name := p_name r; p_type_ := p_type_ r; p_class_ := p_class_ r; p_ttl := p_ttl r;
     p_created := p_created r; p_address := p_address r; p_scope_id := p_scope_id r; p_cpu := p_cpu r; p_os := p_os r;
     p_alias := p_alias r; p_text := t; p_priority := p_priority r; p_weight := p_weight r; p_port := p_port r;
     p_server := p_server r; p_next_name := p_next_name r; p_rdtypes := p_rdtypes r |}.
Definition set_address (r : pyrec) (a : bytes) : pyrec :=
  {| p_kind := p_kind r; p_name := p_name r; p_type_ := p_type_ r; p_class_ := p_class_ r; p_ttl := p_ttl r;
     p_created := p_created r; p_address := a; p_scope_id := p_scope_id r; p_cpu := p_cpu r; p_os := p_os r;
     p_alias := p_alias r; p_text := p_text r; p_priority := p_priority r; p_weight := p_weight r; p_port := p_port r;
     p_server := p_server r; p_next_name := p_next_name r; p_rdtypes := p_rdtypes r |}.
Definition set_srv (r : pyrec) (pr w po : Z) (srv : text) : pyrec :=
  {| p_kind := p_kind r; p_name := p_name r; p_type_ := p_type_ r; p_class_ := p_class_ r; p_ttl := p_ttl r;
     p_created := p_created r; p_address := p_address r; p_scope_id := p_scope_id r; p_cpu := p_cpu r; p_os := p_os r;
     p_alias := p_alias r; p_text := p_text r; p_priority := pr; p_weight := w; p_port := po;
     p_server := srv; p_next_name := p_next_name r; p_rdtypes := p_rdtypes r |}.
Definition set_nsec (r : pyrec) (nx : text) (ts : list Z) : pyrec :=
  {| p_kind := p_kind r; p_name := p_name r; p_type_ := p_type_ r; p_class_ := p_class_ r; p_ttl := p_ttl r;
     p_created := p_created r; p_address := p_address r; p_scope_id := p_scope_id r; p_cpu := p_cpu r; p_os := p_os r;
     p_alias := p_alias r; p_text := p_text r; p_priority := p_priority r; p_weight := p_weight r; p_port := p_port r;
     p_server := p_server r; p_next_name := nx; p_rdtypes := ts |}.

Definition dns_pointer (s : svc) : pyrec :=
  set_alias (blank KPointer (s_type s) C_TYPE_PTR C_CLASS_IN (s_other_ttl s)) (s_name s).
Definition dns_service (s : svc) : pyrec :=
  set_srv (blank KService (s_name s) C_TYPE_SRV C_CLASS_IN_UNIQUE (s_host_ttl s)) (s_priority s) (s_weight s) (s_port s) (s_server s).
Definition dns_text (s : svc) : pyrec :=
  set_text (blank KText (s_name s) C_TYPE_TXT C_CLASS_IN_UNIQUE (s_other_ttl s)) (s_text s).
Definition dns_addresses (s : svc) : list pyrec :=
  map (fun a => set_address (blank KAddress (s_server s) C_TYPE_A C_CLASS_IN_UNIQUE (s_host_ttl s)) a) (s_v4 s)
  ++ map (fun a => set_address (blank KAddress (s_server s) C_TYPE_AAAA C_CLASS_IN_UNIQUE (s_host_ttl s)) a) (s_v6 s).
Definition dns_nsec (s : svc) (missing : list Z) : pyrec :=
  set_nsec (blank KNsec (s_name s) C_TYPE_NSEC C_CLASS_IN_UNIQUE (s_host_ttl s)) (s_name s) (sorted missing).

Definition missing_types (seen : list Z) : list Z :=
  filter (fun t => negb (existsb (Z.eqb t) seen)) C_ADDRESS_RECORD_TYPES.

Definition address_and_nsec (s : svc) : list pyrec :=
  let addrs := dns_addresses s in
  let missing := missing_types (map p_type_ addrs) in
  addrs ++ (if nonempty missing then [dns_nsec s missing] else []).

(* ---- answer sets: dict record -> set of additionals ---- *)
Definition answer_set := list (pyrec * list pyrec).
Definition as_set (a : answer_set) (r : pyrec) (adds : list pyrec) : answer_set := d_set gen_eq a r adds.

(* DNSRRSet(answers).suppresses(record) : last duplicate wins for the TTL *)
Definition kn_lookup (known : list pyrec) : list (pyrec * pyrec) := d_of_list gen_eq (fun r => r) known.
Definition suppresses (known : list pyrec) (r : pyrec) : bool :=
  match d_get gen_eq (kn_lookup known) r with
  | None => false
  | Some other => DNSRRSet_suppresses_cmp other r
  end.

Inductive strategy :=
| SEnum (types : list text)
| SPointer (services : list svc)
| SAddress (services : list svc)
| SService (s : svc)
| SText (s : svc).

Definition enum_pointer (stype : text) : pyrec :=
  set_alias (blank KPointer C_SERVICE_TYPE_ENUMERATION_NAME C_TYPE_PTR C_CLASS_IN C_DNS_OTHER_TTL) stype.

Definition add_address_answers (known : list pyrec) (qtype : Z) (a : answer_set) (s : svc) : answer_set :=
  let addrs := dns_addresses s in
  let answers := filter (fun d => (p_type_ d =? qtype) && negb (suppresses known d)) addrs in
  let additionals0 := filter (fun d => negb (p_type_ d =? qtype)) addrs in
  let missing := missing_types (map p_type_ addrs) in
  if nonempty answers then
    let additionals := if nonempty missing then additionals0 ++ [dns_nsec s missing] else additionals0 in
    fold_left (fun acc ans => as_set acc ans additionals) answers a
  else if existsb (Z.eqb qtype) missing then as_set a (dns_nsec s missing) []
  else a.

Definition answer_question (known : list pyrec) (qtype : Z) (st : strategy) : answer_set :=
  match st with
  | SEnum types =>
      fold_left (fun acc t => let p := enum_pointer t in if suppresses known p then acc else as_set acc p []) types []
  | SPointer services =>
      fold_left (fun acc s => let p := dns_pointer s in
                              if suppresses known p then acc
                              else as_set acc p ([dns_service s; dns_text s] ++ address_and_nsec s)) services []
  | SAddress services => fold_left (add_address_answers known qtype) services []
  | SService s => let r := dns_service s in if suppresses known r then [] else as_set [] r (address_and_nsec s)
  | SText s => let r := dns_text s in if suppresses known r then [] else as_set [] r []
  end.

(* _get_answer_strategies *)
Definition get_strategies (g : registry) (q : pyrec) : list strategy :=
  let lname := lower (p_name q) in
  let ty := p_type_ q in
  if (ty =? C_TYPE_PTR) && text_eqb lname C_SERVICE_TYPE_ENUMERATION_NAME then
    match get_types g with [] => [] | types => [SEnum types] end
  else
    (if (ty =? C_TYPE_PTR) || (ty =? C_TYPE_ANY)
     then match get_infos g (g_types g) lname with [] => [] | l => [SPointer l] end else [])
    ++ (if (ty =? C_TYPE_A) || (ty =? C_TYPE_AAAA) || (ty =? C_TYPE_ANY)
        then match get_infos g (g_servers g) lname with [] => [] | l => [SAddress l] end else [])
    ++ (if (ty =? C_TYPE_SRV) || (ty =? C_TYPE_TXT) || (ty =? C_TYPE_ANY)
        then match d_get text_eqb (g_services g) lname with
             | None => []
             | Some s => (if (ty =? C_TYPE_SRV) || (ty =? C_TYPE_ANY) then [SService s] else [])
                         ++ (if (ty =? C_TYPE_TXT) || (ty =? C_TYPE_ANY) then [SText s] else [])
             end
        else []).

(* ---- _QueryResponse ---- *)
Record qresp := {
  q_additionals : answer_set;
  q_ucast : list pyrec; q_mcast_now : list pyrec; q_mcast_aggregate : list pyrec; q_mcast_last_second : list pyrec
}.
Definition sadd (s : list pyrec) (r : pyrec) : list pyrec := if existsb (fun x => gen_eq x r) s then s else s ++ [r].

Definition has_mcast_within_one_quarter_ttl (c : cache) (now : Z) (r : pyrec) : bool :=
  match async_get_unique c r with Some e => DNSRecord_is_recent e now | None => false end.
Definition has_mcast_record_in_last_second :=
  Eval cbv beta iota delta [sop_apply site_resp_last_second] in
  fun (c : cache) (now : Z) (r : pyrec) =>
  match async_get_unique c r with Some e => sop_apply site_resp_last_second (now - DNSRecord_created e) C_ONE_SECOND | None => false end.

Definition respond_immediate (t : Z) : bool := existsb (Z.eqb t) C_RESPOND_IMMEDIATE_TYPES.

Definition add_qu (c : cache) (now : Z) (is_probe : bool) (qr : qresp) (answers : answer_set) : qresp :=
  fold_left (fun qr ra =>
    let '(r, adds) := ra in
    let u1 := if is_probe then sadd (q_ucast qr) r else q_ucast qr in
    let recent := has_mcast_within_one_quarter_ttl c now r in
    {| q_additionals := as_set (q_additionals qr) r adds;
       q_ucast := if negb recent then u1 else if negb is_probe then sadd u1 r else u1;
       q_mcast_now := if negb recent then sadd (q_mcast_now qr) r else q_mcast_now qr;
       q_mcast_aggregate := q_mcast_aggregate qr; q_mcast_last_second := q_mcast_last_second qr |}) answers qr.

Definition add_ucast (qr : qresp) (answers : answer_set) : qresp :=
  {| q_additionals := fold_left (fun acc ra => as_set acc (fst ra) (snd ra)) answers (q_additionals qr);
     q_ucast := fold_left (fun acc ra => sadd acc (fst ra)) answers (q_ucast qr);
     q_mcast_now := q_mcast_now qr; q_mcast_aggregate := q_mcast_aggregate qr;
     q_mcast_last_second := q_mcast_last_second qr |}.

Definition add_mcast (c : cache) (now : Z) (is_probe : bool) (questions : list pyrec) (qr : qresp) (answers : answer_set) : qresp :=
  let qr0 := {| q_additionals := fold_left (fun acc ra => as_set acc (fst ra) (snd ra)) answers (q_additionals qr);
                q_ucast := q_ucast qr; q_mcast_now := q_mcast_now qr; q_mcast_aggregate := q_mcast_aggregate qr;
                q_mcast_last_second := q_mcast_last_second qr |} in
  fold_left (fun qr ra =>
    let r := fst ra in
    if is_probe then
      {| q_additionals := q_additionals qr; q_ucast := q_ucast qr; q_mcast_now := sadd (q_mcast_now qr) r;
         q_mcast_aggregate := q_mcast_aggregate qr; q_mcast_last_second := q_mcast_last_second qr |}
    else if has_mcast_record_in_last_second c now r then
      {| q_additionals := q_additionals qr; q_ucast := q_ucast qr; q_mcast_now := q_mcast_now qr;
         q_mcast_aggregate := q_mcast_aggregate qr; q_mcast_last_second := sadd (q_mcast_last_second qr) r |}
    else if (match questions with [q] => respond_immediate (p_type_ q) | _ => false end) then
      {| q_additionals := q_additionals qr; q_ucast := q_ucast qr; q_mcast_now := sadd (q_mcast_now qr) r;
         q_mcast_aggregate := q_mcast_aggregate qr; q_mcast_last_second := q_mcast_last_second qr |}
    else
      {| q_additionals := q_additionals qr; q_ucast := q_ucast qr; q_mcast_now := q_mcast_now qr;
         q_mcast_aggregate := sadd (q_mcast_aggregate qr) r; q_mcast_last_second := q_mcast_last_second qr |})
    answers qr0.

(* one incoming query datagram as the responder sees it *)
Record qmsg := { qm_questions : list pyrec; qm_answers : list pyrec; qm_is_probe : bool; qm_now : Z }.

Record question_answers := {
  qa_ucast : answer_set; qa_mcast_now : answer_set; qa_mcast_aggregate : answer_set; qa_mcast_last_second : answer_set
}.

Definition with_additionals (qr : qresp) (rs : list pyrec) : answer_set :=
  map (fun r => (r, match d_get gen_eq (q_additionals qr) r with Some a => a | None => [] end)) rs.

(* async_response *)
Definition async_response (g : registry) (c : cache) (msgs : list qmsg) (ucast_source : bool) : option question_answers :=
  let strategies := flat_map (fun m => flat_map (fun q => map (fun st => (q, st)) (get_strategies g q)) (qm_questions m)) msgs in
  match strategies, msgs with
  | [], _ => None
  | _, [] => None
  | _, m0 :: _ =>
      let is_probe := existsb qm_is_probe msgs in
      let known := flat_map (fun m => if qm_is_probe m then [] else qm_answers m) msgs in
      let now := qm_now (last msgs m0) in
      let questions := qm_questions m0 in
      let qr0 := {| q_additionals := []; q_ucast := []; q_mcast_now := []; q_mcast_aggregate := []; q_mcast_last_second := [] |} in
      let qr := fold_left (fun qr qs =>
                  let '(q, st) := qs in
                  let answers := answer_question known (p_type_ q) st in
                  let is_unicast := DNSEntry_unique q in
                  if negb ucast_source && is_unicast then add_qu c now is_probe qr answers
                  else
                    let qr1 := if ucast_source then add_ucast qr answers else qr in
                    add_mcast c now is_probe questions qr1 answers) strategies qr0 in
      Some {| qa_ucast := with_additionals qr (q_ucast qr); qa_mcast_now := with_additionals qr (q_mcast_now qr);
              qa_mcast_aggregate := with_additionals qr (q_mcast_aggregate qr);
              qa_mcast_last_second := with_additionals qr (q_mcast_last_second qr) |}
  end.
