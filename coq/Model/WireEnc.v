(* WireEnc: zeroconf._protocol.outgoing.DNSOutgoing, statement by statement.
   The chunk list `data` is kept as one reversed byte list (appending = consing); positions that
   the code expresses as chunk indexes (_replace_short, rollback) are byte positions here. *)
From ZC Require Import Model.Base Model.PyRec Model.Dict Model.Re Model.Utf8 Model.Names Gen.Const Gen.Sites Gen.DnsPure Gen.Shapes.

Record enc := {
  e_rev : bytes;                  (* packet body so far (after the header), reversed *)
  e_size : Z;                     (* self.size: 12 + bytes written *)
  e_names : list (text * Z);      (* self.names *)
  e_allow_long : bool
}.

Definition enc_init : enc := {| e_rev := []; e_size := C_DNS_PACKET_HEADER_LEN; e_names := []; e_allow_long := true |}.

Definition put (st : enc) (bs : bytes) : enc :=
  {| e_rev := rev_append bs (e_rev st); e_size := e_size st + Z.of_nat (length bs);
     e_names := e_names st; e_allow_long := e_allow_long st |}.

(* BYTE_TABLE[value] *)
Definition write_byte (st : enc) (v : Z) : result enc :=
  if (v <? 0) || (255 <? v) then Raise IndexError else Ok (put st [v]).

(* PACK_SHORT / PACK_LONG raise struct.error outside their range *)
Definition write_short (st : enc) (v : Z) : result enc :=
  if (v <? 0) || (65535 <? v) then Raise StructError else Ok (put st [v / 256; v mod 256]).
Definition write_int (st : enc) (v : Z) : result enc :=
  if (v <? 0) || (4294967295 <? v) then Raise StructError
  else Ok (put st [v / 16777216; (v / 65536) mod 256; (v / 256) mod 256; v mod 256]).

Definition write_string (st : enc) (b : bytes) : enc := put st b.

(* _write_utf: the rejection test is regenerated from the source (Gen.Shapes.write_utf_rejects) *)
Definition write_utf (st : enc) (s : text) : result enc :=
  bind (utf8_encode s) (fun u =>
  let n := Z.of_nat (length u) in
  if write_utf_rejects n then Raise NamePartTooLong
  else bind (write_byte st n) (fun st' => Ok (write_string st' u))).

Definition write_character_string :=
  Eval cbv beta match delta [sop_apply sop_mirror sop_negate site_enc_string_limit site_enc_string_limit_rhs] in
  fun (st : enc) (b : bytes) =>
  let n := Z.of_nat (length b) in
  if sop_apply (sop_mirror site_enc_string_limit) site_enc_string_limit_rhs n then Raise NamePartTooLong
  else bind (write_byte st n) (fun st' => Ok (write_string st' b)).

Definition names_get (st : enc) (n : text) : Z :=
  match d_get text_eqb (e_names st) n with Some i => i | None => 0 end.
Definition names_set (st : enc) (n : text) (i : Z) : enc :=
  {| e_rev := e_rev st; e_size := e_size st; e_names := d_set text_eqb (e_names st) n i;
     e_allow_long := e_allow_long st |}.

Definition write_link (st : enc) (index : Z) : result enc :=
  bind (write_byte st (Z.lor (Z.shiftr index 8) 192)) (fun st' => write_byte st' (Z.land index 255)).

Definition utf8_len_or0 (s : text) : Z := match utf8_len s with Ok n => n | Raise _ => 0 end.

(* the loop `for count in range(1, len(labels))` over the remaining labels *)
Fixpoint write_name_rest (st : enc) (start_size name_length : Z) (labels : list text) : result enc :=
  match labels with
  | [] => write_byte st 0
  | l :: rest =>
      let partial := join_dot labels in
      let index := names_get st partial in
      if negb (index =? 0) then write_link st index
      else
        bind (utf8_len partial) (fun plen =>
        let st1 := names_set st partial (start_size + name_length - plen) in
        bind (write_utf st1 l) (fun st2 => write_name_rest st2 start_size name_length rest))
  end.

Definition strip_dot (name : text) : text :=
  match rev name with
  | 46 :: r => rev r
  | _ => name
  end.

Definition write_name (st : enc) (name0 : text) : result enc :=
  let name := strip_dot name0 in
  let index := names_get st name in
  if negb (index =? 0) then write_link st index
  else
    let start_size := e_size st in
    match split_dot name with
    | [] => Raise IndexError
    | l0 :: rest =>
        let st1 := names_set st name start_size in
        bind (write_utf st1 l0) (fun st2 =>
        match rest with
        | [] => write_byte st2 0
        | _ => bind (utf8_len name) (fun nlen => write_name_rest st2 start_size nlen rest)
        end)
    end.

(* _write_record_class *)
Definition write_record_class (multicast : bool) (st : enc) (r : pyrec) : result enc :=
  let c := DNSEntry_class_ r in
  if DNSEntry_unique r && multicast then write_short st (Z.lor c C_CLASS_UNIQUE) else write_short st c.

(* DNSNsec.write: bitmap over window 0 (rdtypes are sorted by the constructor) *)
Fixpoint nsec_bitmap (types : list Z) (bitmap : list Z) (total : Z) : result (list Z * Z) :=
  match types with
  | [] => Ok (bitmap, total)
  | t :: rest =>
      if 255 <? t then Raise ValueError else
      if t <? 0 then Raise IndexError else
      let byte := t / 8 in
      let bit := Z.shiftr 128 (t mod 8) in
      let bitmap' := firstn (Z.to_nat byte) bitmap
                     ++ [Z.lor (nth (Z.to_nat byte) bitmap 0) bit] ++ skipn (S (Z.to_nat byte)) bitmap in
      nsec_bitmap rest bitmap' (byte + 1)
  end.

(* record.write(out) per class *)
Definition write_rdata (st : enc) (r : pyrec) : result enc :=
  match p_kind r with
  | KAddress => Ok (write_string st (p_address r))
  | KHinfo =>
      bind (utf8_encode (p_cpu r)) (fun cpu =>
      bind (write_character_string st cpu) (fun st1 =>
      bind (utf8_encode (p_os r)) (fun os => write_character_string st1 os)))
  | KPointer => write_name st (p_alias r)
  | KText => Ok (write_string st (p_text r))
  | KService =>
      bind (write_short st (p_priority r)) (fun s1 =>
      bind (write_short s1 (p_weight r)) (fun s2 =>
      bind (write_short s2 (p_port r)) (fun s3 => write_name s3 (p_server r))))
  | KNsec =>
      bind (nsec_bitmap (sorted (p_rdtypes r)) (repeat 0 32) 0) (fun '(bitmap, total) =>
      if total =? 0 then Raise ValueError else
      let out_bytes := firstn (Z.to_nat total) bitmap in
      bind (write_name st (p_next_name r)) (fun s1 =>
      bind (write_byte s1 0) (fun s2 =>
      bind (write_byte s2 (Z.of_nat (length out_bytes))) (fun s3 => Ok (write_string s3 out_bytes)))))
  | KQuestion => Raise OtherError
  end.

(* _check_data_limit_or_rollback *)
Definition check_limit_or_rollback :=
  Eval cbv beta iota delta [sop_apply site_enc_fits sop_mirror sop_negate site_enc_rollback_names] in
  fun (st : enc) (start : enc) =>
  let limit := if e_allow_long st then C_MAX_MSG_ABSOLUTE else C_MAX_MSG_TYPICAL in
  if sop_apply site_enc_fits (e_size st) limit
  then ({| e_rev := e_rev st; e_size := e_size st; e_names := e_names st; e_allow_long := false |}, true)
  else ({| e_rev := e_rev start; e_size := e_size start;
           e_names := filter (fun ni => sop_apply (sop_negate site_enc_rollback_names) (snd ni) (e_size start)) (e_names st);
           e_allow_long := false |}, false).

Definition write_question (multicast : bool) (st : enc) (q : pyrec) : result (enc * bool) :=
  bind (write_name st (p_name q)) (fun s1 =>
  bind (write_short s1 (p_type_ q)) (fun s2 =>
  bind (write_record_class multicast s2 q) (fun s3 => Ok (check_limit_or_rollback s3 st)))).

(* _write_ttl: record.ttl if now == 0 else int(get_remaining_ttl(now)) *)
Definition ttl_field (r : pyrec) (now : Z) : Z :=
  if now =? 0 then p_ttl r else q_int (DNSRecord_get_remaining_ttl r now).

(* replace the two placeholder bytes that sit [n] bytes below the top of the reversed buffer *)
Definition patch_short (rv : bytes) (n : nat) (v : Z) : bytes :=
  firstn n rv ++ [v mod 256; v / 256] ++ skipn (n + 2) rv.

Definition write_record (multicast : bool) (st : enc) (r : pyrec) (now : Z) : result (enc * bool) :=
  bind (write_name st (p_name r)) (fun s1 =>
  bind (write_short s1 (p_type_ r)) (fun s2 =>
  bind (write_record_class multicast s2 r) (fun s3 =>
  bind (write_int s3 (ttl_field r now)) (fun s4 =>
  bind (write_short s4 0) (fun s5 =>
  bind (write_rdata s5 r) (fun s6 =>
  let rdlen := e_size s6 - e_size s5 in
  if (rdlen <? 0) || (65535 <? rdlen) then Raise StructError else
  let s7 := {| e_rev := patch_short (e_rev s6) (Z.to_nat rdlen) rdlen; e_size := e_size s6;
               e_names := e_names s6; e_allow_long := e_allow_long s6 |} in
  Ok (check_limit_or_rollback s7 st))))))).

(* the three `_write_*_from_offset` loops: stop at the first entry that does not fit *)
Fixpoint write_questions (multicast : bool) (st : enc) (qs : list pyrec) (n : nat) : result (enc * nat) :=
  match qs with
  | [] => Ok (st, n)
  | q :: rest =>
      bind (write_question multicast st q) (fun '(st', fit) =>
      if fit then write_questions multicast st' rest (S n) else Ok (st', n))
  end.

Fixpoint write_records (multicast : bool) (st : enc) (rs : list (pyrec * Z)) (n : nat) : result (enc * nat) :=
  match rs with
  | [] => Ok (st, n)
  | (r, now) :: rest =>
      bind (write_record multicast st r now) (fun '(st', fit) =>
      if fit then write_records multicast st' rest (S n) else Ok (st', n))
  end.

Record out_msg := {
  o_flags : Z; o_multicast : bool; o_id : Z;
  o_questions : list pyrec;
  o_answers : list (pyrec * Z);       (* (record, now) as stored by add_answer_at_time *)
  o_authorities : list pyrec;
  o_additionals : list pyrec
}.

(* add_answer_at_time keeps the record iff now == 0 or it has not expired at now *)
Definition add_answer_at_time (answers : list (pyrec * Z)) (r : pyrec) (now : Z) : list (pyrec * Z) :=
  if (now =? 0) || negb (DNSRecord_is_expired r now) then answers ++ [(r, now)] else answers.

Definition is_query (flags : Z) : bool := Z.land flags C_FLAGS_QR_MASK =? C_FLAGS_QR_QUERY.

Definition short_bytes (v : Z) : bytes := [(v / 256) mod 256; v mod 256].

(* packets(): one iteration per datagram; fuel = number of entries + 1 (each iteration but the last
   makes progress, i.e. consumes at least one entry) *)
Definition counts := (nat * nat * nat * nat)%type.

Fixpoint packets_loop (fuel : nat) (m : out_msg) (qs : list pyrec) (ans : list (pyrec * Z))
         (auth adds : list pyrec) (acc : list (bytes * counts)) : result (list (bytes * counts)) :=
  match fuel with
  | O => Raise OtherError                     (* out of fuel: proved unreachable *)
  | S fuel' =>
      let mc := o_multicast m in
      bind (write_questions mc enc_init qs 0) (fun '(s1, nq) =>
      bind (write_records mc s1 ans 0) (fun '(s2, na) =>
      bind (write_records mc s2 (map (fun r => (r, 0)) auth) 0) (fun '(s3, nau) =>
      bind (write_records mc s3 (map (fun r => (r, 0)) adds) 0) (fun '(s4, nad) =>
      let made_progress := nonempty (e_rev s4) in
      let qs' := skipn nq qs in
      let ans' := skipn na ans in
      let auth' := skipn nau auth in
      let adds' := skipn nad adds in
      let more := nonempty qs' || nonempty ans' || nonempty auth' || nonempty adds' in
      let flags := if more && is_query (o_flags m) then Z.lor (o_flags m) C_FLAGS_TC else o_flags m in
      if (flags <? 0) || (65535 <? flags) || (o_id m <? 0) || (65535 <? o_id m) then Raise StructError else
      let header := short_bytes (if mc then 0 else o_id m) ++ short_bytes flags
                    ++ short_bytes (Z.of_nat nq) ++ short_bytes (Z.of_nat na)
                    ++ short_bytes (Z.of_nat nau) ++ short_bytes (Z.of_nat nad) in
      let pkt := (header ++ rev (e_rev s4), (nq, na, nau, nad)) in
      if negb made_progress then Ok (acc ++ [pkt])
      else if more then packets_loop fuel' m qs' ans' auth' adds' (acc ++ [pkt])
      else Ok (acc ++ [pkt])))))
  end.

(* packets() together with, per datagram, how many entries of each section it carries *)
Definition packets_info (m : out_msg) : result (list (bytes * counts)) :=
  packets_loop (S (length (o_questions m) + length (o_answers m) + length (o_authorities m) + length (o_additionals m)))
               m (o_questions m) (o_answers m) (o_authorities m) (o_additionals m) [].

Definition packets (m : out_msg) : result (list bytes) :=
  match packets_info m with Ok ps => Ok (map fst ps) | Raise e => Raise e end.
