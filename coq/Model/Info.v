(* Info: ServiceInfo as a resolver (info.py): _process_record_threadsafe, _load_from_cache, and the
   async_request loop as a labelled transition system. Addresses are kept as packed bytes (4 = IPv4,
   16 = IPv6, anything else is rejected like ip_address() does); IPv6 scope ids are not modelled. *)
From ZC Require Import Model.Base Model.PyRec Model.Dict Model.Re Model.Cache Model.Query Gen.Const Gen.Sites Gen.DnsPure.

Record sinfo := {
  si_name : text; si_key : text;
  si_server : option text; si_server_key : option text;
  si_port : option Z; si_weight : Z; si_priority : Z;
  si_text : bytes;
  si_v4 : list bytes; si_v6 : list bytes
}.

Definition sinfo_init (name : text) : sinfo :=
  {| si_name := name; si_key := lower name; si_server := None; si_server_key := None; si_port := None;
     si_weight := 0; si_priority := 0; si_text := []; si_v4 := []; si_v6 := [] |}.

(* _is_complete: text is never None (it starts as b''), so: at least one address *)
Definition is_complete (i : sinfo) : bool := nonempty (si_v4 i) || nonempty (si_v6 i).

Definition ip_version (a : bytes) : option Z :=
  if (length a =? 4)%nat then Some 4 else if (length a =? 16)%nat then Some 6 else None.

Definition mem_bytes (a : bytes) (l : list bytes) : bool := existsb (bytes_eqb a) l.
Definition remove_bytes (a : bytes) (l : list bytes) : list bytes := filter (fun x => negb (bytes_eqb a x)) l.

(* insert at the front / move to the front; returns (list, newly added?) *)
Definition lifo_insert (a : bytes) (l : list bytes) : list bytes * bool :=
  if negb (mem_bytes a l) then (a :: l, true)
  else match l with
       | x :: _ => if bytes_eqb a x then (l, false) else (a :: remove_bytes a l, false)
       | [] => (l, false)
       end.

(* _get_ip_addresses_from_cache_lifo *)
Definition addresses_from_cache (c : cache) (now : Z) (server_key : option text) (ty : Z) (want : Z) : list bytes :=
  match server_key with
  | None => []
  | Some k =>
      rev (fold_left (fun acc r =>
                        if DNSRecord_is_expired r now then acc
                        else match ip_version (p_address r) with
                             | Some _ => if mem_bytes (p_address r) acc then acc else acc ++ [p_address r]
                             | None => acc
                             end)
                     (get_all_by_details c k ty C_CLASS_IN) [])
  end.

Definition opt_text_eqb (a b : option text) : bool :=
  match a, b with Some x, Some y => text_eqb x y | None, None => true | _, _ => false end.

(* _process_record_threadsafe: returns (info, updated?) *)
Definition process_record (c : cache) (now : Z) (i : sinfo) (r : pyrec) : sinfo * bool :=
  if DNSRecord_is_expired r now then (i, false) else
  let rkey_ := lower (p_name r) in
  if kind_eqb (p_kind r) KAddress && opt_text_eqb (Some rkey_) (si_server_key i) then
    match ip_version (p_address r) with
    | None => (i, false)
    | Some 4 =>
        let '(l, added) := lifo_insert (p_address r) (si_v4 i) in
        ({| si_name := si_name i; si_key := si_key i; si_server := si_server i; si_server_key := si_server_key i;
            si_port := si_port i; si_weight := si_weight i; si_priority := si_priority i; si_text := si_text i;
            si_v4 := l; si_v6 := si_v6 i |}, added)
    | Some _ =>
        let '(l, added) := lifo_insert (p_address r) (si_v6 i) in
        ({| si_name := si_name i; si_key := si_key i; si_server := si_server i; si_server_key := si_server_key i;
            si_port := si_port i; si_weight := si_weight i; si_priority := si_priority i; si_text := si_text i;
            si_v4 := si_v4 i; si_v6 := l |}, added)
    end
  else if negb (text_eqb rkey_ (si_key i)) then (i, false)
  else if kind_eqb (p_kind r) KText then
    ({| si_name := si_name i; si_key := si_key i; si_server := si_server i; si_server_key := si_server_key i;
        si_port := si_port i; si_weight := si_weight i; si_priority := si_priority i; si_text := p_text r;
        si_v4 := si_v4 i; si_v6 := si_v6 i |}, true)
  else if kind_eqb (p_kind r) KService then
    let new_key := Some (lower (p_server r)) in
    let changed := negb (opt_text_eqb (si_server_key i) new_key) in
    ({| si_name := p_name r; si_key := lower (p_name r); si_server := Some (p_server r); si_server_key := new_key;
        si_port := Some (p_port r); si_weight := p_weight r; si_priority := p_priority r; si_text := si_text i;
        si_v4 := if changed then addresses_from_cache c now new_key C_TYPE_A 4 else si_v4 i;
        si_v6 := if changed then addresses_from_cache c now new_key C_TYPE_AAAA 6 else si_v6 i |}, true)
  else (i, false).

Definition process_records (c : cache) (now : Z) (i : sinfo) (rs : list pyrec) : sinfo * bool :=
  fold_left (fun acc r => let '(i', u) := process_record c now (fst acc) r in (i', snd acc || u)) rs (i, false).

(* _load_from_cache *)
Definition load_from_cache (c : cache) (now : Z) (i : sinfo) : sinfo :=
  let original := si_server_key i in
  let i1 := match get_by_details c (si_name i) C_TYPE_SRV C_CLASS_IN with
            | Some r => fst (process_record c now i r) | None => i end in
  let i2 := match get_by_details c (si_name i1) C_TYPE_TXT C_CLASS_IN with
            | Some r => fst (process_record c now i1 r) | None => i1 end in
  if opt_text_eqb original (si_server_key i2) then
    let addrs k ty := match k with Some s => get_all_by_details c s ty C_CLASS_IN | None => [] end in
    let i3 := fst (process_records c now i2 (addrs (si_server_key i2) C_TYPE_A)) in
    fst (process_records c now i3 (addrs (si_server_key i3) C_TYPE_AAAA))
  else i2.

(* ---- async_request as a state machine ---- *)
Record req := {
  rq_info : sinfo;
  rq_next : Z; rq_last : Z; rq_delay : Z; rq_first : bool;
  rq_forced : option bool;              (* question_type: Some true = QU, Some false = QM *)
  rq_done : option bool                 (* Some result once returned *)
}.

Inductive rq_out :=
| RSend (now : Z) (qu : bool) (m : query_msg)
| RReturn (now : Z) (result : bool).

(* one turn of the `while not self._is_complete` loop at time now; [rnd] is the 20..120 draw *)
Definition loop_turn :=
  Eval cbv beta iota delta [sop_apply site_info_deadline site_info_next_due site_info_delay_floor] in
  fun (c : cache) (h : history) (r : req) (now rnd : Z) =>
  if is_complete (rq_info r) then
    ({| rq_info := rq_info r; rq_next := rq_next r; rq_last := rq_last r; rq_delay := rq_delay r; rq_first := rq_first r;
        rq_forced := rq_forced r; rq_done := Some true |}, h, [RReturn now true])
  else if sop_apply site_info_deadline (rq_last r) now then
    ({| rq_info := rq_info r; rq_next := rq_next r; rq_last := rq_last r; rq_delay := rq_delay r; rq_first := rq_first r;
        rq_forced := rq_forced r; rq_done := Some false |}, h, [RReturn now false])
  else if sop_apply site_info_next_due (rq_next r) now then
    let qu := if rq_first r then match rq_forced r with Some b => b | None => true end else false in
    let server := match si_server (rq_info r) with Some s => s | None => si_name (rq_info r) end in
    let '(m, h') := generate_request_query c h now (si_name (rq_info r)) server qu in
    let sends := match qm_qs m with [] => [] | _ => [RSend now qu m] end in
    ({| rq_info := rq_info r; rq_next := now + rq_delay r + rnd; rq_last := rq_last r;
        rq_delay := if negb qu && sop_apply site_info_delay_floor (rq_delay r) C_DUPLICATE_QUESTION_INTERVAL then C_DUPLICATE_QUESTION_INTERVAL else rq_delay r;
        rq_first := false; rq_forced := rq_forced r; rq_done := None |}, h', sends)
  else (r, h, []).

(* async_request(zc, timeout, question_type) called at now *)
Definition request_start (c : cache) (h : history) (name : text) (now timeout rnd : Z) (forced : option bool)
  : req * history * list rq_out :=
  let i := load_from_cache c now (sinfo_init name) in
  if is_complete i then
    ({| rq_info := i; rq_next := now; rq_last := now + timeout; rq_delay := C_LISTENER_TIME; rq_first := true;
        rq_forced := forced; rq_done := Some true |}, h, [RReturn now true])
  else
    loop_turn c h {| rq_info := i; rq_next := now; rq_last := now + timeout; rq_delay := C_LISTENER_TIME; rq_first := true;
                     rq_forced := forced; rq_done := None |} now rnd.

(* the time the coroutine sleeps until (unless notified earlier) *)
Definition wake_at (r : req) : Z := Z.min (rq_next r) (rq_last r).

(* async_update_records handles the address records of a batch last (after the C07 repair): an SRV record that follows them in the
   same packet is seen first *)
Definition addresses_last (news : list pyrec) : list pyrec :=
  filter (fun r => negb (kind_eqb (p_kind r) KAddress)) news ++ filter (fun r => kind_eqb (p_kind r) KAddress) news.

(* a batch of record updates reaches the listener (phase 1 cache c1); the coroutine is woken only if something changed *)
Definition request_update (c1 : cache) (now : Z) (r : req) (news : list pyrec) : req * bool :=
  match rq_done r with
  | Some _ => (r, false)
  | None =>
      let '(i', updated) := process_records c1 now (rq_info r) (addresses_last news) in
      ({| rq_info := i'; rq_next := rq_next r; rq_last := rq_last r; rq_delay := rq_delay r; rq_first := rq_first r;
          rq_forced := rq_forced r; rq_done := None |}, updated)
  end.
