(* Base: shared conventions of every model layer (DESIGN §4).
   Definitions only + the handful of characterising lemmas every layer needs. *)
From Coq Require Export ZArith List Bool Lia.
Export ListNotations.
Open Scope Z_scope.

(* M3: a Python str is a list of code points, bytes a list of 0..255 *)
Definition text := list Z.
Definition bytes := list Z.

Fixpoint list_eqb {A : Type} (eqb : A -> A -> bool) (a b : list A) : bool :=
  match a, b with
  | [], [] => true
  | x :: a', y :: b' => eqb x y && list_eqb eqb a' b'
  | _, _ => false
  end.

Lemma list_eqb_eq {A} (eqb : A -> A -> bool) :
  (forall x y, eqb x y = true <-> x = y) ->
  forall a b, list_eqb eqb a b = true <-> a = b.
Proof.
  intros H a; induction a as [|x a IH]; intros [|y b]; simpl; split; intro E;
    try reflexivity; try discriminate.
  - apply andb_true_iff in E as [E1 E2]. apply H in E1. apply IH in E2. congruence.
  - inversion E; subst. apply andb_true_iff; split; [apply H | apply IH]; reflexivity.
Qed.

Definition text_eqb : text -> text -> bool := list_eqb Z.eqb.
Definition bytes_eqb : bytes -> bytes -> bool := list_eqb Z.eqb.

Lemma text_eqb_eq a b : text_eqb a b = true <-> a = b.
Proof. apply list_eqb_eq. intros; apply Z.eqb_eq. Qed.

Lemma text_eqb_refl a : text_eqb a a = true.
Proof. apply text_eqb_eq; reflexivity. Qed.

Definition optZ_eqb (a b : option Z) : bool :=
  match a, b with
  | None, None => true
  | Some x, Some y => x =? y
  | _, _ => false
  end.

Lemma optZ_eqb_eq a b : optZ_eqb a b = true <-> a = b.
Proof.
  destruct a, b; simpl; split; intro H; try discriminate; try reflexivity.
  - apply Z.eqb_eq in H; congruence.
  - inversion H; apply Z.eqb_refl.
Qed.

(* str.lower(): modelled as ASCII lower-casing (DESIGN §9 "modelled rather than verified");
   generators only emit code points on which CPython's lower() agrees. *)
Definition lower_cp (c : Z) : Z := if (65 <=? c) && (c <=? 90) then c + 32 else c.
Definition lower (s : text) : text := map lower_cp s.

Lemma lower_cp_idem c : lower_cp (lower_cp c) = lower_cp c.
Proof.
  unfold lower_cp.
  destruct ((65 <=? c) && (c <=? 90)) eqn:E; [|rewrite E; reflexivity].
  apply andb_true_iff in E as [E1 E2]. apply Z.leb_le in E1, E2.
  destruct ((65 <=? c + 32) && (c + 32 <=? 90)) eqn:E'; [|reflexivity].
  apply andb_true_iff in E' as [E3 E4]. apply Z.leb_le in E3, E4. lia.
Qed.

Lemma lower_idem s : lower (lower s) = lower s.
Proof. unfold lower. rewrite map_map. apply map_ext. apply lower_cp_idem. Qed.

(* M6: Python exceptions on the modelled paths *)
Inductive exn :=
| IndexError | IncomingDecodeError | NamePartTooLong | BadTypeInName | ValueError
| RecursionError | KeyError | AssertionError | ServiceNameAlreadyRegistered
| NonUniqueName | NotRunning | StructError | UnicodeError | OtherError.

Inductive result (A : Type) := Ok (a : A) | Raise (e : exn).
Arguments Ok {A} a.
Arguments Raise {A} e.

Definition bind {A B} (r : result A) (f : A -> result B) : result B :=
  match r with Ok a => f a | Raise e => Raise e end.

Definition exn_code (e : exn) : Z :=
  match e with
  | IndexError => 1 | IncomingDecodeError => 2 | NamePartTooLong => 3 | BadTypeInName => 4
  | ValueError => 5 | RecursionError => 6 | KeyError => 7 | AssertionError => 8
  | ServiceNameAlreadyRegistered => 9 | NonUniqueName => 10 | NotRunning => 11
  | StructError => 12 | UnicodeError => 13 | OtherError => 99
  end.

(* Universal observable value used by the correspondence check: the harness prints the
   implementation's observation as a [val] literal, the model computes its own, and they are
   compared inside Coq with [val_eqb]. *)
Inductive val := VZ (z : Z) | VL (l : list val).

Fixpoint val_eqb (a b : val) {struct a} : bool :=
  match a, b with
  | VZ x, VZ y => x =? y
  | VL xs, VL ys =>
      (fix go (xs ys : list val) {struct xs} : bool :=
         match xs, ys with
         | [], [] => true
         | x :: xs', y :: ys' => val_eqb x y && go xs' ys'
         | _, _ => false
         end) xs ys
  | _, _ => false
  end.

Definition VB (b : bool) : val := VZ (if b then 1 else 0).
Definition VT (s : list Z) : val := VL (map VZ s).
Definition VO {A} (f : A -> val) (o : option A) : val :=
  match o with None => VL [] | Some a => VL [f a] end.
Definition VR {A} (f : A -> val) (r : result A) : val :=
  match r with Ok a => VL [VZ 0; f a] | Raise e => VL [VZ 1; VZ (exn_code e)] end.

(* corr: indices (and model outputs) of the cases on which model and implementation differ *)
Fixpoint mismatches {I : Type} (run : I -> val) (n : Z) (cases : list (I * val)) : list (Z * val) :=
  match cases with
  | [] => []
  | (i, expected) :: rest =>
      let got := run i in
      if val_eqb got expected then mismatches run (n + 1) rest
      else (n, got) :: mismatches run (n + 1) rest
  end.

(* finite sweeps (memory: coq-sweep-recipe) *)
Fixpoint all_below (n : nat) (P : Z -> bool) : bool :=
  match n with O => true | S k => P (Z.of_nat k) && all_below k P end.

Lemma all_below_spec n P :
  all_below n P = true -> forall i, 0 <= i < Z.of_nat n -> P i = true.
Proof.
  induction n as [|k IH]; intros H i Hi; [lia|].
  cbn [all_below] in H. apply andb_true_iff in H as [H1 H2].
  destruct (Z.eq_dec i (Z.of_nat k)) as [->|Hne]; [exact H1|].
  apply IH; [exact H2|lia].
Qed.
