(* Browser: _ServiceBrowserBase as a record-update listener (pending-callback de-duplication) composed with
   the cache (Model.Ingest) and its QueryScheduler (Model.Sched). One label = one handler
   invocation of the real loop: a response datagram, the periodic purge, the scheduler timer. *)
From ZC Require Import Model.Base Model.PyRec Model.Dict Model.Re Model.Names Model.Cache Model.Ingest Model.Sched
  Gen.Const Gen.DnsPure.

Inductive change := Added | Removed | Updated.
Definition change_code (c : change) : Z := match c with Added => 1 | Removed => 2 | Updated => 3 end.
Definition change_eqb (a b : change) : bool := change_code a =? change_code b.

(* _pending_handlers: dict (name, type) -> change, insertion ordered *)
Definition pkey := (text * text)%type.
Definition pkey_eqb (a b : pkey) : bool := text_eqb (fst a) (fst b) && text_eqb (snd a) (snd b).
Definition pending := list (pkey * change).

(* _enqueue_callback: Added always wins, Removed unless an Added is pending, Updated only if nothing is pending *)
Definition enqueue (p : pending) (c : change) (type_ name : text) : pending :=
  let key := (name, type_) in
  let cur := d_get pkey_eqb p key in
  let ok := match c with
            | Added => true
            | Removed => match cur with Some Added => false | _ => true end
            | Updated => match cur with None => true | Some _ => false end
            end in
  if ok then d_set pkey_eqb p key c else p.

(* labels[start:] with Python's negative-index rule *)
Definition py_slice_from {A} (l : list A) (start : Z) : list A :=
  let n := Z.of_nat (length l) in
  let s := if start <? 0 then Z.max 0 (n + start) else Z.min start n in
  skipn (Z.to_nat s) l.

Definition starts_with_underscore (l : text) : bool := match l with 95 :: _ => true | _ => false end.

(* possible_types(name) *)
Fixpoint possible_types_loop (labels : list text) (lc : Z) (count : nat) (n : nat) : list text :=
  match n with
  | O => []
  | S n' =>
      let parts := py_slice_from labels (lc - Z.of_nat count - 4) in
      match parts with
      | p0 :: _ => if starts_with_underscore p0 then join_dot parts :: possible_types_loop labels lc (S count) n' else []
      | [] => []
      end
  end.
Definition possible_types (name : text) : list text :=
  let labels := split_dot name in
  possible_types_loop labels (Z.of_nat (length labels)) 0 (length labels).

Definition inter_types (types : list text) (cands : list text) : list text :=
  filter (fun t => existsb (text_eqb t) cands) types.

(* calls the browser makes on its scheduler while processing one batch of updates *)
Inductive sched_call := CResched (alias name : text) (created ttl : Z) | CCancel (alias : text).

Definition dedup_texts (l : list text) : list text :=
  fold_left (fun acc x => if existsb (text_eqb x) acc then acc else acc ++ [x]) l [].

(* async_update_records for one RecordUpdate; c1 = the cache as the listener sees it (phase 1) *)
Definition browser_update (types : list text) (now : Z) (c1 : cache) (st : pending * list sched_call) (new : pyrec) (old_is_none : bool)
  : pending * list sched_call :=
  let '(p, calls) := st in
  if p_type_ new =? C_TYPE_PTR then
    fold_left (fun acc type_ =>
      let '(p, calls) := acc in
      if old_is_none then (enqueue p Added type_ (p_alias new), calls ++ [CResched (p_alias new) (p_name new) (p_created new) (p_ttl new)])
      else if DNSRecord_is_expired new now then (enqueue p Removed type_ (p_alias new), calls ++ [CCancel (p_alias new)])
      else (p, calls ++ [CResched (p_alias new) (p_name new) (p_created new) (p_ttl new)]))
      (inter_types types (possible_types (p_name new))) (p, calls)
  else if negb old_is_none || DNSRecord_is_expired new now then (p, calls)
  else
    let names := if existsb (Z.eqb (p_type_ new)) C_ADDRESS_RECORD_TYPES
                 then dedup_texts (map p_name (entries_with_server c1 (p_name new)))
                 else [p_name new] in
    (fold_left (fun p name =>
       fold_left (fun p type_ => enqueue p Updated type_ name) (inter_types types (possible_types name)) p) names p, calls).

Definition apply_calls (s : sched) (calls : list sched_call) : sched :=
  fold_left (fun s c => match c with
                        | CResched a n cr ttl => reschedule_ptr_first_refresh s a n cr ttl
                        | CCancel a => cancel_ptr_refresh s a
                        end) calls s.

(* the node: cache + one browser (types, scheduler) *)
Record bnode := { bn_cache : cache; bn_sched : sched; bn_types : list text; bn_on : bool (* registered as a listener *) }.

Inductive blabel :=
| BResp (now : Z) (answers : list pyrec)
| BPurge (now : Z)
| BStart (now rnd : Z)                (* query_scheduler.start *)
| BFire (now : Z).                     (* the scheduler's timer *)

Record bobs := { bo_callbacks : list (pkey * change); bo_sends : list ssend }.

Definition run_updates (n : bnode) (now : Z) (c1 : cache) (ups : list (pyrec * bool)) : sched * list (pkey * change) :=
  if negb (bn_on n) then (bn_sched n, []) else
  let '(p, calls) := fold_left (fun st u => browser_update (bn_types n) now c1 st (fst u) (snd u)) ups ([], []) in
  (apply_calls (bn_sched n) calls, p).

Definition bstep (n : bnode) (l : blabel) : option (bnode * bobs) :=
  match l with
  | BResp now answers =>
      let r := ingest now answers (bn_cache n) in
      match i_final r with
      | Raise _ => None
      | Ok c' =>
          let ups := map (fun u => (u_new u, match u_old u with None => true | Some _ => false end)) (i_updates r) in
          let '(s', p) := run_updates n now (i_phase1 r) ups in
          Some ({| bn_cache := c'; bn_sched := s'; bn_types := bn_types n; bn_on := bn_on n |}, {| bo_callbacks := p; bo_sends := [] |})
      end
  | BPurge now =>
      let r := purge now (bn_cache n) in
      match pg_final r with
      | Raise _ => None
      | Ok c' =>
          let ups := map (fun x => (x, false)) (pg_expired r) in
          let '(s', p) := run_updates n now c' ups in
          Some ({| bn_cache := c'; bn_sched := s'; bn_types := bn_types n; bn_on := bn_on n |}, {| bo_callbacks := p; bo_sends := [] |})
      end
  | BStart now rnd =>
      match sstep (bn_types n) false (bn_sched n) (LStart now rnd) with
      | Some (s', _) => Some ({| bn_cache := bn_cache n; bn_sched := s'; bn_types := bn_types n; bn_on := bn_on n |}, {| bo_callbacks := []; bo_sends := [] |})
      | None => None
      end
  | BFire now =>
      match sstep (bn_types n) false (bn_sched n) (LFire now) with
      | Some (s', out) => Some ({| bn_cache := bn_cache n; bn_sched := s'; bn_types := bn_types n; bn_on := bn_on n |}, {| bo_callbacks := []; bo_sends := out |})
      | None => None
      end
  end.

(* registration of the browser as a listener: cached, unexpired records that answer its questions are replayed as (record, None) *)
Definition answered_by (qname : text) (qtype qclass : Z) (r : pyrec) : bool :=
  (qclass =? DNSEntry_class_ r) && ((qtype =? p_type_ r) || (qtype =? C_TYPE_ANY)) && text_eqb qname (p_name r).

(* (since the repair 8ab9054 async_add_listener first reaps the expired records, the way the periodic cleanup does, while the new listener
   is not registered yet: nothing is reported to it; [Raise] cannot happen on a cache satisfying the index invariant) *)
Definition blisten (n0 : bnode) (now : Z) : bnode * bobs :=
  let c0 := match pg_final (purge now (bn_cache n0)) with Ok c' => c' | Raise _ => bn_cache n0 end in
  let n := {| bn_cache := c0; bn_sched := bn_sched n0; bn_types := bn_types n0; bn_on := true |} in
  let recs := flat_map (fun t => filter (fun r => negb (DNSRecord_is_expired r now) && answered_by t C_TYPE_PTR C_CLASS_IN r)
                                        (entries_with_name (bn_cache n) t)) (bn_types n) in
  match recs with
  | [] => (n, {| bo_callbacks := []; bo_sends := [] |})
  | _ =>
      let '(s', p) := run_updates n now (bn_cache n) (map (fun r => (r, true)) recs) in
      ({| bn_cache := bn_cache n; bn_sched := s'; bn_types := bn_types n; bn_on := bn_on n |}, {| bo_callbacks := p; bo_sends := [] |})
  end.
