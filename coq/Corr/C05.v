(* Correspondence driver for C05 / C06: a history of response datagrams, purges and listener
   changes run through Model.Ingest, observed exactly where the harness observes the real
   RecordManager / DNSCache / engine purge. *)
From ZC Require Import Model.Base Model.PyRec Model.Dict Model.Re Model.Cache Model.Ingest Gen.Const Gen.DnsPure.

Definition vrec (r : pyrec) : val :=
  VL [VZ (kind_code (p_kind r)); VT (p_name r); VZ (p_type_ r); VZ (DNSEntry_class_ r); VB (DNSEntry_unique r);
      VZ (p_ttl r); VZ (p_created r);
      VL [VT (p_address r); VO VZ (p_scope_id r); VT (p_cpu r); VT (p_os r); VT (p_alias r); VT (p_text r);
          VZ (p_priority r); VZ (p_weight r); VZ (p_port r); VT (p_server r); VT (p_next_name r);
          VL (map VZ (sorted (p_rdtypes r)))]].

Record probes := {
  pr_names : list text;
  pr_details : list (text * Z * Z);
  pr_recs : list pyrec;
  pr_servers : list text;
  pr_alias : list (text * text)
}.

Definition dump (p : probes) (c : cache) : val :=
  VL (map (fun n => VL (map vrec (entries_with_name c n))) (pr_names p)).

Definition probe (p : probes) (c : cache) (now : Z) : val :=
  VL [ dump p c;
       VL (map (fun d => let '(n, t, cl) := d in
                 VL [VO vrec (get_by_details c n t cl); VL (map vrec (get_all_by_details c n t cl));
                     VL (map vrec (async_all_by_details c n t cl))]) (pr_details p));
       VL (map (fun r => VL [VO vrec (cache_get c r); VO vrec (async_get_unique c r)]) (pr_recs p));
       VL (map (fun s => VL (map vrec (entries_with_server c s))) (pr_servers p));
       VL (map (fun n => VB (existsb (text_eqb (lower n)) (names c))) (pr_names p));
       VZ (Z.of_nat (length (names c)));
       VL (map (fun na => VO vrec (current_entry_with_name_and_alias c now (fst na) (snd na))) (pr_alias p)) ].

(* reactions of listeners inside callbacks: (listener, phase 1|2, command) *)
Inductive event :=
| Resp (now : Z) (answers : list pyrec) (reactions : list (Z * Z * lcmd))
| Purge (now : Z)
| Listen (cmd : lcmd).

Definition react_of (rs : list (Z * Z * lcmd)) (phase : Z) (l : Z) : list lcmd :=
  map snd (filter (fun x => (fst (fst x) =? l) && (snd (fst x) =? phase)) rs).

Definition vupdate (c1 : cache) (u : update) : val :=
  VL [vrec (u_new u); VO vrec (old_as_seen c1 u)].

Definition step (p : probes) (st : cache * list Z) (e : event) : (cache * list Z) * val :=
  let '(c, ls) := st in
  match e with
  | Listen cmd => ((c, apply_lcmd ls cmd), VL [VZ 2])
  | Purge now =>
      let r := purge now c in
      match pg_final r with
      | Raise ex => ((c, ls), VL [VZ 9; VZ (exn_code ex)])
      | Ok c' =>
          ((c', ls), VL [VZ 1; VL (map vrec (pg_expired r)); VL (map VZ (sorted ls)); probe p c' now])
      end
  | Resp now answers reactions =>
      let r := ingest now answers c in
      match i_final r with
      | Raise ex => ((c, ls), VL [VZ 9; VZ (exn_code ex)])
      | Ok c' =>
          if i_called r then
            let '(called1, ls1) := fanout ls (react_of reactions 1) in
            let '(called2, ls2) := fanout ls1 (react_of reactions 2) in
            ((c', ls2),
             VL [VZ 0; VZ 1; VL (map (vupdate (i_phase1 r)) (i_updates r));
                 VL (map VZ (sorted called1)); dump p (i_phase1 r);
                 VL (map VZ (sorted called2)); dump p c';
                 VB (i_notify r); probe p c' now])
          else ((c', ls), VL [VZ 0; VZ 0; probe p c' now])
      end
  end.

Fixpoint run_events (p : probes) (st : cache * list Z) (es : list event) : list val :=
  match es with
  | [] => []
  | e :: es' => let '(st', o) := step p st e in o :: run_events p st' es'
  end.

Definition c05_run (p : probes) (i : list Z * list event) : val :=
  VL (run_events p (empty_cache, fst i) (snd i)).
