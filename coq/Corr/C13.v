From ZC Require Import Model.Base Model.PyRec Model.Dict Model.Cache Model.Ingest Model.Respond Model.Query Model.ValSet Gen.DnsPure Corr.C05 Corr.C02 Corr.C03.

Definition vhist (h : history) : val :=
  VSet (map (fun e => VL [vq (fst e); VZ (fst (snd e)); VSet (map vrec_ident (snd (snd e)))]) h).

Definition vknown (r : pyrec) : val := VL [vrec_ident r; VZ (p_created r)].
Definition vqmsg (m : query_msg) : val :=
  VL [VSet (map vq (qm_qs m)); VSet (map vknown (qm_known m)); VZ (qm_time m)].

(* preloaded history entries: (question, time, known) *)
Definition mk_hist (es : list (pyrec * Z * list pyrec)) : history :=
  fold_left (fun h e => hist_add h (fst (fst e)) (snd (fst e)) (snd e)) es [].

Record c13_in := {
  k_cache : list (Z * list pyrec); k_hist : list (pyrec * Z * list pyrec); k_now : Z;
  k_types : list text; k_multicast : bool; k_qtype : option bool;            (* browser query *)
  k_lookup : option (text * text * bool)                                      (* or a lookup: name, server, qu *)
}.

Definition c13_run (i : c13_in) : val :=
  let c := build_cache (k_cache i) in
  let h := mk_hist (k_hist i) in
  match k_lookup i with
  | Some (name, server, qu) =>
      let '(m, h') := generate_request_query c h (k_now i) name server qu in
      VL [VL [vqmsg m]; vhist h']
  | None =>
      let '(ms, h') := generate_service_query c h (k_now i) (k_types i) (k_multicast i) (k_qtype i) in
      VL [VSet (map vqmsg ms); vhist h']
  end.

(* responder side: history after async_response *)
Definition c13_resp_run (i : list rop * list (pyrec * Z * list pyrec) * list qmsg) : val :=
  let '(ops, hs, msgs) := i in
  let '(g, _) := fold_left apply_rop ops (empty_registry, []) in
  vhist (respond_history_update g (mk_hist hs) msgs).
