(* Correspondence driver for C20: what the model predicts for one ordered pair of objects.
   h = (hash(a) == hash(b)) as observed on the implementation (hash values themselves are opaque). *)
From ZC Require Import Model.Base Model.PyRec Model.Dict Gen.DnsPure Proofs.C20_identity.

Definition atoms_eqb (a b : list atom) : bool := list_eqb atom_eqb a b.

Definition c20_run (i : pyrec * pyrec * bool) : val :=
  let '(a, b, h) := i in
  let m := atoms_eqb (gen_hashkey a) (gen_hashkey b) in
  VL [ VB (gen_eq a b);                                   (* a == b *)
       VB (if kind_eqb (p_kind a) (p_kind b) then Bool.eqb m h else implb m h);
       VB (d_mem gen_eq (d_of_list gen_eq (fun x => x) [b]) a);   (* a in {b} *)
       VB (match p_kind a, p_kind b with
           | KQuestion, _ | _, KQuestion => false
           | _, _ => rrset_suppresses [b] a end) ].

(* one row of the exhaustive pair matrix: a = nth i vocab, against every b of vocab;
   hrow = the implementation's hash(a) == hash(b) per column *)
Fixpoint c20_cols (a : pyrec) (bs : list pyrec) (hs : list bool) : list val :=
  match bs, hs with
  | b :: bs', h :: hs' => c20_run (a, b, h) :: c20_cols a bs' hs'
  | _, _ => []
  end.

Definition c20_row (vocab : list pyrec) (i : Z * list bool) : val :=
  match nth_error vocab (Z.to_nat (fst i)) with
  | Some a => VL (c20_cols a vocab (snd i))
  | None => VL []
  end.
