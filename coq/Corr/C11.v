From ZC Require Import Model.Base Model.PyRec Model.Dict Model.Cache Model.Ingest Model.Respond Model.Route Model.WireEnc Model.ValSet Gen.DnsPure Corr.C05 Corr.C02 Corr.C03.

Definition vout_msg (m : out_msg) : val :=
  VL [VZ (o_id m); VZ (o_flags m); VB (o_multicast m); VL (map vq (o_questions m));
      VSet (map (fun rn => vrec_ident (fst rn)) (o_answers m)); VSet (map vrec_ident (o_additionals m))].

Definition vkeys (a : answer_set) : val := VSet (map (fun ra => vrec_ident (fst ra)) a).

Definition vaction (a : action) : val :=
  match a with
  | AUnicast addr port m => VL [VZ 1; VT addr; VZ port; vout_msg m]
  | AMulticast m => VL [VZ 2; vout_msg m]
  | AQueue now s => VL [VZ 3; VZ now; vkeys s]
  | ADelayQueue now s => VL [VZ 4; VZ now; vkeys s]
  end.

Record c11_in := { j_ops : list rop; j_cache : list (Z * list pyrec); j_msgs : list qmsg; j_id : Z; j_addr : text; j_port : Z }.

Definition c11_run (i : c11_in) : val :=
  let '(g, _) := fold_left apply_rop (j_ops i) (empty_registry, []) in
  VL (map vaction (handle_assembled_query g (build_cache (j_cache i)) (j_msgs i) (j_id i) (j_addr i) (j_port i))).
