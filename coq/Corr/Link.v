(* C07's Coq half needs no driver of its own: the sender is replayed through Corr/Node.v (C08/C09/C17), the receiving cache through
   Corr/C05.v and Corr/C04.v, the lookup through Corr/C18.v; this file only makes Model/Link.v part of the checked build. *)
From ZC Require Import Model.Base Model.Node Model.Link.
