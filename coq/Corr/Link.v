From ZC Require Import Model.Base Model.Node.
