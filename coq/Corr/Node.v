(* Correspondence driver for the node LTS (C08, C09, C17): replay the labels logged from a real instance. *)
From ZC Require Import Model.Base Model.PyRec Model.Dict Model.Cache Model.Respond Model.Route Model.WireEnc Model.Register Model.Node
  Model.ValSet Gen.DnsPure Corr.C05 Corr.C02 Corr.C03.

Definition vnmsg (m : out_msg) : val :=
  VL [VZ (o_id m); VZ (o_flags m); VL (map vq (o_questions m));
      VSet (map (fun rn => vrec_ident (fst rn)) (o_answers m)); VSet (map vrec_ident (o_authorities m));
      VSet (map vrec_ident (o_additionals m))].

Definition vnout (o : nout) : val :=
  match o with
  | OSend now dest m => VL [VZ 1; VZ now; match dest with None => VL [] | Some (a, p) => VL [VT a; VZ p] end; vnmsg m]
  | OWait ms => VL [VZ 2; VZ ms]
  | ORaise e => VL [VZ 3; VZ (exn_code e)]
  | OChecked => VL [VZ 4]
  | ORegistered names => VL [VZ 5; VSet (map VT names)]
  | OWithdrawn names rs => VL [VZ 6; VSet (map VT names); VSet (map vrec_ident rs)]
  | OEnd => VL [VZ 7]
  end.

Definition node_run (ls : list nlabel) : val :=
  VL (map (fun outs => VL (map vnout outs)) (nrun node_init ls)).
