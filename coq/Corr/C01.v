(* Correspondence driver for the wire encoder (C01, C14): byte-exact packets, then each packet through the decoder model. *)
From ZC Require Import Model.Base Model.PyRec Model.WireEnc Model.WireDec Corr.C05 Corr.C02.

(* the harness hands over the records exactly as it calls add_question / add_answer_at_time / add_authorative_answer /
   add_additional_answer; the expiry filter of add_answer_at_time is part of the model *)
Record raw_msg := {
  r_flags : Z; r_multicast : bool; r_id : Z;
  r_questions : list pyrec; r_answers : list (pyrec * Z); r_authorities : list pyrec; r_additionals : list pyrec
}.

Definition build (m : raw_msg) : out_msg :=
  {| o_flags := r_flags m; o_multicast := r_multicast m; o_id := r_id m; o_questions := r_questions m;
     o_answers := fold_left (fun acc rn => add_answer_at_time acc (fst rn) (snd rn)) (r_answers m) [];
     o_authorities := r_authorities m; o_additionals := r_additionals m |}.

Definition c01_run (m : raw_msg) : val :=
  match packets (build m) with
  | Raise e => VL [VZ 1; VZ (exn_code e)]
  | Ok ps => VL [VZ 0; VL (map VT ps)]
  end.
