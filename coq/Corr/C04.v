(* Correspondence driver for C04 / C10: replay the logged handler invocations of one browsing host through Model.Browser *)
From ZC Require Import Model.Base Model.PyRec Model.Dict Model.Cache Model.Ingest Model.Sched Model.Browser Model.ValSet.

Inductive xlabel := XL (l : blabel) | XListen (now : Z).

Definition vobs (o : bobs) : val :=
  VL [VSet (map (fun kc => VL [VT (fst (fst kc)); VT (snd (fst kc)); VZ (change_code (snd kc))]) (bo_callbacks o));
      VL (map (fun s => VL [VZ (ss_now s); VB (ss_qu_first s); VSet (map VT (ss_types s))]) (bo_sends o))].

Fixpoint xrun (n : bnode) (ls : list xlabel) : list val :=
  match ls with
  | [] => []
  | XListen now :: r => let '(n', o) := blisten n now in vobs o :: xrun n' r
  | XL l :: r =>
      match bstep n l with
      | Some (n', o) => vobs o :: xrun n' r
      | None => [VL [VZ (-1)]]           (* label not enabled in the model *)
      end
  end.

(* input: browsed types, scheduler delay, question_type is None, labels *)
Definition c04_run (i : list text * Z * bool * list xlabel) : val :=
  let '(types, delay, qnone, ls) := i in
  VL (xrun {| bn_cache := empty_cache; bn_sched := sched_init delay qnone; bn_types := types; bn_on := false |} ls).
