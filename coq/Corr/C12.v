From ZC Require Import Model.Base Model.Dict Model.OutQueue Model.ValSet.
Definition vans (a : answers) : val := VSet (map (fun kv => VL [VZ (fst kv); VSet (map VZ (snd kv))]) a).
(* input: (additional, aggregation), adds (arrival now, loop time, random draw, answers) in time order, horizon *)
Definition c12_run (i : (Z * Z) * list (Z * Z * Z * answers) * Z) : val :=
  let '(cfg, adds, horizon) := i in
  VL (map (fun s => VL [VZ (fst s); vans (snd s)])
          (punctual (4 * length adds + 8) (oq_init (fst cfg) (snd cfg)) adds horizon [])).
