(* Correspondence driver for the responder (C03, C11 classification): registry ops, then one query. *)
From ZC Require Import Model.Base Model.PyRec Model.Dict Model.Cache Model.Ingest Model.Respond Model.ValSet Gen.DnsPure Corr.C05.

Inductive rop := RAdd (s : svc) | RUpdate (s : svc) | RRemove (name : text).

Definition apply_rop (st : registry * list Z) (o : rop) : registry * list Z :=
  let '(g, log) := st in
  match o with
  | RAdd s => match reg_add g s with Ok g' => (g', log ++ [0]) | Raise e => (g, log ++ [exn_code e]) end
  | RUpdate s => match reg_update g s with Ok g' => (g', log ++ [0]) | Raise e => (g, log ++ [exn_code e]) end
  | RRemove n => (reg_remove g (lower n), log ++ [0])
  end.

Definition vaset (a : answer_set) : val :=
  VSet (map (fun ra => VL [vrec (fst ra); VSet (map vrec (snd ra))]) a).

(* which of several equal-but-differently-spelled records survives de-duplication depends on Python set order:
   constructed messages are compared up to identity (names lower-cased where identity ignores case) *)
Definition vrec_ident (r : pyrec) : val :=
  VL [VZ (kind_code (p_kind r)); VT (lower (p_name r)); VZ (p_type_ r); VZ (DNSEntry_class_ r); VB (DNSEntry_unique r);
      VZ (p_ttl r);
      VL [VT (p_address r); VT (lower (p_alias r)); VT (p_text r); VZ (p_priority r); VZ (p_weight r); VZ (p_port r);
          VT (lower (p_server r)); VT (p_next_name r); VL (map VZ (sorted (p_rdtypes r)))]].

(* _add_answers_additionals as sets: every answer, and every additional that is not itself an answer, once *)
Definition constructed (a : answer_set) : val :=
  let answers := map fst a in
  let adds := fold_left (fun acc ra => fold_left (fun acc x => if existsb (fun y => gen_eq y x) (answers ++ acc) then acc else acc ++ [x])
                                                 (snd ra) acc) a [] in
  VL [VSet (map vrec_ident answers); VSet (map vrec_ident adds)].

Record c03_in := {
  i_ops : list rop;
  i_cache : list (Z * list pyrec);      (* response datagrams that populate the cache (sightings of own records) *)
  i_msgs : list qmsg;
  i_ucast_source : bool
}.

Definition build_cache (dgs : list (Z * list pyrec)) : cache :=
  fold_left (fun c d => match i_final (ingest (fst d) (snd d) c) with Ok c' => c' | Raise _ => c end) dgs empty_cache.

Definition c03_run (i : c03_in) : val :=
  let '(g, log) := fold_left apply_rop (i_ops i) (empty_registry, []) in
  VL [ VL (map VZ log);
       VSet (map VT (get_types g));
       match async_response g (build_cache (i_cache i)) (i_msgs i) (i_ucast_source i) with
       | None => VL []
       | Some qa => VL [vaset (qa_ucast qa); vaset (qa_mcast_now qa); vaset (qa_mcast_aggregate qa);
                        vaset (qa_mcast_last_second qa);
                        constructed (qa_ucast qa); constructed (qa_mcast_now qa); constructed (qa_mcast_aggregate qa);
                        constructed (qa_mcast_last_second qa)]
       end ].
