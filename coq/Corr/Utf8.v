From ZC Require Import Model.Base Model.Utf8.
Definition utf8_dec_run (b : bytes) : val := VT (utf8_decode_replace b).
Definition utf8_enc_run (s : text) : val := VR VT (utf8_encode s).
