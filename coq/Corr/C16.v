From ZC Require Import Model.Base Model.Dict Model.Listener.
Inductive llabel := LDgram (m : lmsg) (addr : text) (now : Z) (has_entries : bool) (tc_delay : Z) | LTcFire (addr : text) (now : Z).
Definition vmsg (m : lmsg) : val := VT (lm_data m).
Definition vout (o : lout) : val :=
  match o with
  | OOversize => VL [VZ 1] | ODuplicate => VL [VZ 2] | OInvalid => VL [VZ 3]
  | OResponse m => VL [VZ 4; vmsg m] | ONoRegistry => VL [VZ 5] | ODeferred => VL [VZ 6]
  | ORespond a ps => VL [VZ 7; VT a; VL (map vmsg ps)]
  end.
Fixpoint lrun (s : lstate) (ls : list llabel) : list val :=
  match ls with
  | [] => []
  | LDgram m a now he tc :: r => let '(s', o) := datagram s m a now he tc in vout o :: lrun s' r
  | LTcFire a now :: r =>
      match tc_fire s a now with Some (s', o) => vout o :: lrun s' r | None => [VL [VZ (-1)]] end
  end.
Definition c16_run (ls : list llabel) : val := VL (lrun lstate_init ls).
