(* Correspondence driver for the wire decoder (C02, also used by C01/C14/C15). *)
From ZC Require Import Model.Base Model.PyRec Model.WireDec Gen.DnsPure Corr.C05.

Definition vq (q : pyrec) : val :=
  VL [VT (p_name q); VZ (p_type_ q); VZ (DNSEntry_class_ q); VB (DNSEntry_unique q)].

Definition vparsed (p : parsed) : val :=
  match m_escaped p with
  | Some e => VL [VZ 1; VZ (exn_code e)]
  | None => VL [VZ 0; VB (m_valid p); VZ (m_id p); VZ (m_flags p); VZ (m_nq p); VZ (m_nans p); VZ (m_nauth p);
                VZ (m_nadd p); VL (map vq (m_questions p)); VL (map vrec (m_answers p))]
  end.

(* input: datagram, scope_id; now is fixed to 1000 by the harness; 200 frames are always enough after the hop bound *)
Definition c02_run (i : bytes * option Z) : val := vparsed (parse (fst i) 1000 (snd i) 200%nat).

From ZC Require Import Spec.Rfc1035.
(* the Coq strict parser against the harness's independent Python strict parser (lib/rfc1035.py) *)
Definition c02_strict_run (d : bytes) : val :=
  match strict_parse d 1000 with
  | None => VL []
  | Some m => VL [VZ (s_id m); VZ (s_flags m); VL [VZ (s_nq m); VZ (s_nan m); VZ (s_nau m); VZ (s_nad m)];
                  VL (map vq (s_questions m)); VL (map vrec (s_records m)); VB (s_supported m)]
  end.
