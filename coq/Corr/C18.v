From ZC Require Import Model.Base Model.PyRec Model.Dict Model.Cache Model.Ingest Model.Query Model.Info Model.ValSet Gen.DnsPure Corr.C05 Corr.C02 Corr.C03 Corr.C13.

Inductive ilabel :=
| IPreload (now : Z) (answers : list pyrec)             (* a response before the lookup starts *)
| IStart (name : text) (now timeout rnd : Z) (forced : option bool)
| IResp (now : Z) (answers : list pyrec)                (* a response while the lookup is running (or after) *)
| ITurn (now rnd : Z)                                   (* the coroutine resumes: one turn of the loop *)
| IPurge (now : Z).                                     (* the periodic 10 s cache cleanup *)

Definition vout (o : rq_out) : val :=
  match o with
  | RSend now qu m => VL [VZ 1; VZ now; VB qu; VSet (map vq (qm_qs m)); VSet (map vknown (qm_known m))]
  | RReturn now b => VL [VZ 2; VZ now; VB b]
  end.

Definition vinfo (i : sinfo) : val :=
  VL [VT (si_name i); VO VT (si_server i); VO VZ (si_port i); VZ (si_weight i); VZ (si_priority i); VT (si_text i);
      VL (map VT (si_v4 i)); VL (map VT (si_v6 i))].

Record istate := { is_cache : cache; is_hist : history; is_req : option req }.

Fixpoint irun (s : istate) (ls : list ilabel) : list val :=
  match ls with
  | [] => [match is_req s with Some r => vinfo (rq_info r) | None => VL [] end]
  | IPreload now answers :: rest =>
      let c' := match i_final (ingest now answers (is_cache s)) with Ok c => c | Raise _ => is_cache s end in
      irun {| is_cache := c'; is_hist := is_hist s; is_req := is_req s |} rest
  | IStart name now timeout rnd forced :: rest =>
      let '(r, h, outs) := request_start (is_cache s) (is_hist s) name now timeout rnd forced in
      VL (map vout outs) :: irun {| is_cache := is_cache s; is_hist := h; is_req := Some r |} rest
  | IResp now answers :: rest =>
      let ir := ingest now answers (is_cache s) in
      let c' := match i_final ir with Ok c => c | Raise _ => is_cache s end in
      let r' := match is_req s with
                | Some r => Some (fst (request_update (i_phase1 ir) now r (map u_new (i_updates ir))))
                | None => None
                end in
      irun {| is_cache := c'; is_hist := is_hist s; is_req := r' |} rest
  | IPurge now :: rest =>
      let c' := match pg_final (purge now (is_cache s)) with Ok c => c | Raise _ => is_cache s end in
      irun {| is_cache := c'; is_hist := is_hist s; is_req := is_req s |} rest
  | ITurn now rnd :: rest =>
      match is_req s with
      | Some r =>
          match rq_done r with
          | Some _ => [VL [VZ (-1)]]
          | None =>
              let '(r', h, outs) := loop_turn (is_cache s) (is_hist s) r now rnd in
              VL (map vout outs) :: irun {| is_cache := is_cache s; is_hist := h; is_req := Some r' |} rest
          end
      | None => [VL [VZ (-1)]]
      end
  end.

Definition c18_run (ls : list ilabel) : val :=
  VL (irun {| is_cache := empty_cache; is_hist := []; is_req := None |} ls).
