(* Correspondence driver for the byte-level front of the instance (C15): replay datagrams, timers and node labels. *)
From ZC Require Import Model.Base Model.PyRec Model.Dict Model.Cache Model.Respond Model.Route Model.WireEnc Model.Register Model.Node Model.Front
  Model.ValSet Gen.DnsPure Corr.C05 Corr.C02 Corr.C03 Corr.Node.

(* the last observation is the cache the instance ends up with *)
Definition front_run (ls : list flabel) : val :=
  VL (map (fun outs => VL (map vnout outs)) (frun fnode_init ls)
      ++ [VSet (map vrec (all_records (n_cache (f_node (fstate fnode_init ls)))))]).
