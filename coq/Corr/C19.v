From ZC Require Import Model.Base Model.Names Model.Txt.

Definition c19_name_run (i : bool * text) : val :=
  VR VT (service_type_name (fst i) (snd i)).

Definition vprops (d : props) : val :=
  VL (map (fun kv => VL [VT (fst kv); VO VT (snd kv)]) d).

(* input: the dict after the caller's str->utf-8 conversion; output: (text or ValueError,
   library decode of that text, RFC reading of that text) *)
Definition c19_txt_run (d : props) : val :=
  match txt_encode d with
  | Raise e => VL [VZ 1; VZ (exn_code e)]
  | Ok b => VL [VZ 0; VT b; VO vprops (txt_decode b); VO vprops (rfc_txt_parse b)]
  end.

(* arbitrary TXT bytes -> library decode *)
Definition c19_txt_decode_run (b : bytes) : val := VO vprops (txt_decode b).

From ZC Require Import Spec.Rfc6763Name.
(* the label-based specification evaluated on the same inputs (sanity run before proving) *)
Definition c19_spec_run (i : bool * text) : val :=
  match spec_type (fst i) (snd i) with
  | Some t => VL [VZ 0; VT t]
  | None => VL [VZ 1; VZ 4]
  end.
