From ZC Require Import Model.Base Model.Route.
Example C11_placeholder : True. Proof. exact I. Qed.
