(* C11 - replies are routed and formatted as RFC 6762 sections 5.4, 6 and 6.7 require. Statements only.
   Model/Respond.v (classification into unicast / multicast-now / aggregate / last-second) and Model/Route.v (handle_assembled_query,
   the construct_outgoing helpers), tied to the real QueryHandler by the correspondence check. Vocabulary: Proofs/C11_lemmas.v
   (recent, last_second, inset, answers_of, response, only_in, qm_class, multicast_actions ...). *)
From ZC Require Import Model.Base Model.PyRec Model.Dict Model.Cache Model.Respond Model.Route Model.WireEnc Gen.Const Gen.Extra Gen.DnsPure
  Proofs.C11_lemmas Proofs.C11_route.

(* "seen multicast within a quarter of its TTL" / "less than a second ago", read off the cache *)
Theorem C11_recent : forall c now r,
  (recent c now r = true <-> exists e, async_get_unique c r = Some e /\ p_created e + 250 * p_ttl e > now) /\
  (last_second c now r = true <-> exists e, async_get_unique c r = Some e /\ now - p_created e < 1000).
Proof. intros; split; [apply recent_spec | apply last_second_spec]. Qed.

(* a query from a source port other than 5353 gets a unicast reply to that address and port, echoing the id and the questions of
   the first packet, with no cache-flush bits - in addition to the normal multicast handling of every answer *)
Theorem C11_legacy : forall g c m0 ms first_id addr port qa,
  port <> C_MDNS_PORT -> response g c (m0 :: ms) port = Some qa -> qa_ucast qa <> [] ->
  (exists m rest,
     handle_assembled_query g c (m0 :: ms) first_id addr port = AUnicast addr port m :: rest /\
     o_id m = first_id /\ o_questions m = qm_questions m0 /\ o_multicast m = false /\
     o_flags m = 33792 /\ o_answers m = map (fun r => (r, 0)) (keys (qa_ucast qa)) /\
     rest = multicast_actions qa (qm_now m0) /\ rest <> []) /\
  (forall a, inset a (qa_ucast qa) <-> inset a (qa_mcast_now qa ++ qa_mcast_aggregate qa ++ qa_mcast_last_second qa)).
Proof. exact legacy_unicast. Qed.

Theorem C11_unicast_no_flush_bit : forall st r, write_record_class false st r = write_short st (DNSEntry_class_ r).
Proof. exact unicast_class_without_flush_bit. Qed.

(* a QU question from port 5353 (not a probe): unicast alone when the record was multicast within a quarter of its TTL, otherwise
   multicast at once and no unicast *)
Theorem C11_qu : forall g c m q qa,
  qm_questions m = [q] -> DNSEntry_unique q = true -> qm_is_probe m = false ->
  response g c [m] C_MDNS_PORT = Some qa ->
  qa_mcast_aggregate qa = [] /\ qa_mcast_last_second qa = [] /\
  forall r, In r (answers_of g [m] q) ->
    (recent c (qm_now m) r = true ->
       inset r (qa_ucast qa) /\ ~ inset r (qa_mcast_now qa) /\ ~ inset r (qa_mcast_aggregate qa) /\ ~ inset r (qa_mcast_last_second qa)) /\
    (recent c (qm_now m) r = false -> inset r (qa_mcast_now qa) /\ ~ inset r (qa_ucast qa)).
Proof. exact qu_routing. Qed.

(* probes (from port 5353) are answered at once: QU probes by unicast, plus multicast when the record was not recently multicast;
   QM probes by multicast *)
Theorem C11_probe : forall g c m q qa,
  qm_questions m = [q] -> qm_is_probe m = true ->
  response g c [m] C_MDNS_PORT = Some qa ->
  qa_mcast_aggregate qa = [] /\ qa_mcast_last_second qa = [] /\
  (DNSEntry_unique q = true -> forall r, In r (answers_of g [m] q) ->
       inset r (qa_ucast qa) /\ (inset r (qa_mcast_now qa) <-> recent c (qm_now m) r = false)) /\
  (DNSEntry_unique q = false -> qa_ucast qa = [] /\ forall r, In r (answers_of g [m] q) -> inset r (qa_mcast_now qa)).
Proof. exact probe_routing_partial. Qed.

(* a probe from another port is a legacy query: unicast and multicast at once, whatever the QU bit says *)
Theorem C11_probe_legacy : forall g c m q qa port,
  port <> C_MDNS_PORT -> qm_questions m = [q] -> qm_is_probe m = true -> response g c [m] port = Some qa ->
  qa_mcast_aggregate qa = [] /\ qa_mcast_last_second qa = [] /\
  forall r, In r (answers_of g [m] q) -> inset r (qa_ucast qa) /\ inset r (qa_mcast_now qa).
Proof. exact probe_routing_legacy. Qed.

(* an ordinary QM question from port 5353 is never answered by unicast; each answer goes to exactly one multicast class:
   held back one second if seen less than a second ago, else at once for a single SRV / A / AAAA / NSEC question, else aggregated *)
Theorem C11_qm : forall g c m q qa,
  qm_questions m = [q] -> DNSEntry_unique q = false -> qm_is_probe m = false ->
  response g c [m] C_MDNS_PORT = Some qa ->
  qa_ucast qa = [] /\ forall r, In r (answers_of g [m] q) -> only_in r qa (qm_class c (qm_now m) q r).
Proof. exact qm_routing. Qed.

(* every multicast reply: id 0, response + authoritative flags, no question section; cache-flush bit exactly on unique records,
   and of a service's records exactly the pointers are shared *)
Theorem C11_mcast_fmt : forall a, let m := construct_multicast a in
  o_id m = 0 /\ o_flags m = 33792 /\ o_multicast m = true /\ o_questions m = [] /\ o_authorities m = [] /\
  o_answers m = map (fun r => (r, 0)) (keys a).
Proof. exact multicast_format. Qed.

Theorem C11_flush_bit : forall st r,
  0 <= DNSEntry_class_ r < 32768 /\
  write_record_class true st r = write_short st (DNSEntry_class_ r + (if DNSEntry_unique r then 32768 else 0)) /\
  Z.testbit (DNSEntry_class_ r + (if DNSEntry_unique r then 32768 else 0)) 15 = DNSEntry_unique r.
Proof. exact multicast_class_flush_bit. Qed.

Theorem C11_service_flush_bits : forall s,
  DNSEntry_unique (dns_pointer s) = false /\ DNSEntry_unique (dns_service s) = true /\ DNSEntry_unique (dns_text s) = true /\
  (forall r, In r (dns_addresses s) -> p_class_ r = C_CLASS_IN_UNIQUE /\ DNSEntry_unique r = true) /\
  (forall missing, p_class_ (dns_nsec s missing) = C_CLASS_IN_UNIQUE /\ DNSEntry_unique (dns_nsec s missing) = true) /\
  (forall t, DNSEntry_unique (enum_pointer t) = false).
Proof. exact service_record_flush_bits. Qed.

Theorem C11_silent : forall g c msgs first_id addr port,
  response g c msgs port = None -> handle_assembled_query g c msgs first_id addr port = [].
Proof. exact no_action_without_answers. Qed.

Print Assumptions C11_recent.
Print Assumptions C11_legacy.
Print Assumptions C11_unicast_no_flush_bit.
Print Assumptions C11_qu.
Print Assumptions C11_probe.
Print Assumptions C11_probe_legacy.
Print Assumptions C11_qm.
Print Assumptions C11_mcast_fmt.
Print Assumptions C11_flush_bit.
Print Assumptions C11_service_flush_bits.
Print Assumptions C11_silent.
Print Assumptions response_routing.
