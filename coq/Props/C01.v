(* C01 - wire codec round trip: what is encoded is exactly what any decoder recovers. Statements only.
From Coq Require Import Lia ZifyBool.
   packets_info : Model/WireEnc.v mirrors DNSOutgoing (compression dictionary, rollback, multi-packet loop; the label
   limit test is regenerated from the source), byte-exact against the code on every run.
   strict_parse : Spec/Rfc1035.v, an independent strict RFC 1035 parser. parse : Model/WireDec.v mirrors DNSIncoming. *)
From ZC Require Import Model.Base Model.PyRec Model.Dict Model.Utf8 Model.Names Model.WireEnc Model.WireDec Spec.Rfc1035
  Gen.Const Gen.Shapes Proofs.C01_utf8 Proofs.C01_defs Proofs.C01_record Proofs.C01_packets.

(* Every datagram the builder emits for a well-formed message is accepted by the strict RFC 1035 parser, uses only
   supported types, has header counts equal to the entries it carries, and yields exactly the expected images of
   consecutive slices of the four sections: names spelled as given, type, class, the cache-flush / QU bit iff the
   message is multicast, TTL (or remaining TTL), rdata - in order, none lost, duplicated or invented within what
   was written, however name compression and rollback at the size limits fall. *)
Theorem C01_roundtrip_strict : forall m ps now', wf_msg m -> packets_info m = Ok ps ->
  Forall2 (packet_ok now') ps
    (expected_stream (o_multicast m) now' (o_questions m) (o_answers m) (o_authorities m) (o_additionals m) (map snd ps)).
Proof. exact packets_roundtrip. Qed.
Print Assumptions C01_roundtrip_strict.

(* UTF-8: every Unicode text comes back from its encoding *)
Theorem C01_utf8 : forall s b, scalar_text s = true -> utf8_encode s = Ok b ->
  utf8_decode_replace b = s /\ Forall (fun x => 0 <= x < 256) b.
Proof. intros s b H E. split; [exact (utf8_roundtrip s b H E) | exact (utf8_bytes_range s b H E)]. Qed.
Print Assumptions C01_utf8.

(* The only way a label is refused is the limit test read from the source: with the repaired code, more than 63 bytes *)
Theorem C01_label_limit : forall n, write_utf_rejects n = (63 <? n).
Proof. intro n. unfold write_utf_rejects, cmp_apply, write_utf_reject_op, write_utf_reject_bound. lia. Qed.
Print Assumptions C01_label_limit.

(* ... and the library's own decoder recovers exactly the same from every emitted datagram: the message is marked valid, nothing
   escapes, questions, records and the four counts are the expected ones (no hypothesis on payload bytes is needed). *)
From ZC Require Import Proofs.C01_library.
Theorem C01_roundtrip_library : forall m ps now' frames, wf_msg m -> (130 <= frames)%nat -> packets_info m = Ok ps ->
  Forall2 (fun pkt exp =>
             let p := parse (fst pkt) now' None frames in
             m_valid p = true /\ m_escaped p = None /\ m_questions p = fst exp /\ m_answers p = snd exp /\
             (let '(nq, na, nau, nad) := snd pkt in
              m_nq p = Z.of_nat nq /\ m_nans p = Z.of_nat na /\ m_nauth p = Z.of_nat nau /\ m_nadd p = Z.of_nat nad))
          ps (expected_stream (o_multicast m) now' (o_questions m) (o_answers m) (o_authorities m) (o_additionals m) (map snd ps)).
Proof. exact packets_roundtrip_library. Qed.
Print Assumptions C01_roundtrip_library.

(* every byte emitted is a byte, provided the caller's raw payload (addresses, TXT) consists of bytes *)
Theorem C01_bytes_range : forall m ps, wf_msg m -> wf_payload m -> packets_info m = Ok ps ->
  Forall (fun p => Forall (fun b => 0 <= b < 256) (fst p)) ps.
Proof. exact packets_bytes_range_partial. Qed.
Print Assumptions C01_bytes_range.
