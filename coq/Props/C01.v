From ZC Require Import Model.Base Model.WireEnc Model.WireDec.
Example C01_placeholder : True. Proof. exact I. Qed.
