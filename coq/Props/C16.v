From ZC Require Import Model.Base Model.Listener.
Example C16_placeholder : True. Proof. exact I. Qed.
