(* C16 - back-to-back duplicate datagrams change nothing. Statements only.
   Model/Listener.v: AsyncListener's oversize guard, duplicate guard and TC deferral (tied to the real class by replaying logged
   datagram / timer labels). Vocabulary (after, outcome, fits, train, distinct_by_bytes ...): Proofs/C16_listener.v. *)
From ZC Require Import Model.Base Model.Dict Model.Listener Proofs.C16_listener Proofs.C16_history.

(* delivering a datagram without QU question twice in immediate succession - from any source address - is delivering it once:
   the second copy is dropped and the state is exactly the state after the first *)
Theorem C16_idem : forall s m a a' t he he' tc tc',
  lm_has_qu m = false -> fits m ->
  datagram (after s m a t he tc) m a' t he' tc' = (after s m a t he tc, ODuplicate).
Proof. exact duplicate_ignored_same_time. Qed.

(* ... and so is any repeat less than one second after a processed first copy; exactly 1000 ms later it is processed again *)
Theorem C16_window : forall s m a a' t t' he he' tc tc',
  lm_has_qu m = false -> fits m -> outcome s m a t he tc <> ODuplicate -> t' - t < 1000 ->
  datagram (after s m a t he tc) m a' t' he' tc' = (after s m a t he tc, ODuplicate).
Proof. exact duplicate_ignored. Qed.

Theorem C16_window_exact : forall s data now,
  is_duplicate s data now = true
  <-> ls_data s = Some data /\ now - 1000 < ls_last_time s /\ ls_last_msg s = Some false.
Proof. exact window_exact. Qed.

(* datagrams with a QU question are exempt: a processed one is processed again when repeated (the source of the open finding
   C16-qu-double-mcast: the statement allows only the unicast reply to double) *)
Theorem C16_qu_exempt : forall s m a a' t t' he he' tc tc',
  lm_has_qu m = true -> fits m -> outcome s m a t he tc <> ODuplicate ->
  outcome (after s m a t he tc) m a' t' he' tc' <> ODuplicate
  /\ outcome (after s m a t he tc) m a' t' he' tc' <> OOversize.
Proof. exact qu_processed_again_partial. Qed.

(* oversize datagrams are ignored (C15) *)
Theorem C16_oversize : forall s m a t he tc,
  Z.of_nat (length (lm_data m)) > 8966 -> datagram s m a t he tc = (s, OOversize).
Proof. exact oversize_ignored. Qed.

(* truncated queries (C12): an identical continuation is ignored; the train from one source is answered once - when its timer
   fires or when a complete query from that source arrives - with exactly the distinct packets in arrival order *)
Theorem C16_tc_identical : forall s m a t tc l x,
  tc_query m -> outcome s m a t true tc <> ODuplicate ->
  d_get text_eqb (ls_deferred s) a = Some l -> In x l -> lm_data x = lm_data m ->
  outcome s m a t true tc = ODeferred
  /\ ls_deferred (after s m a t true tc) = ls_deferred s
  /\ ls_timers (after s m a t true tc) = ls_timers s.
Proof. exact tc_identical_ignored. Qed.

Theorem C16_tc_timer : forall a s es s' dl,
  wf s -> deferred_for s a = [] -> es <> [] -> train a s es s' -> train_deadline es = Some dl ->
  (forall now, now < dl -> tc_fire s' a now = None)
  /\ (forall now, dl <= now ->
        exists s'', tc_fire s' a now = Some (s'', ORespond a (distinct_by_bytes (map ar_msg es)))
          /\ d_get text_eqb (ls_deferred s'') a = None /\ timer_for s'' a = None
          /\ (forall now', tc_fire s'' a now' = None)).
Proof. exact tc_answered_once_timer. Qed.

Theorem C16_tc_query : forall a s es s' m now tc,
  wf s -> deferred_for s a = [] -> train a s es s' -> full_query m ->
  outcome s' m a now true tc <> ODuplicate ->
  exists s'', datagram s' m a now true tc = (s'', ORespond a (distinct_by_bytes (map ar_msg es) ++ [m]))
    /\ d_get text_eqb (ls_deferred s'') a = None /\ timer_for s'' a = None
    /\ (forall now', tc_fire s'' a now' = None).
Proof. exact tc_answered_once_query. Qed.

(* the property at the level of whole histories: take ANY sequence of datagrams and TC-timer firings on one socket, none of the datagrams
   carrying a QU question, and follow every datagram by any number of back-to-back copies (same bytes, same instant; any source address,
   registry state and TC draw). The listener ends in the same state and hands exactly the same things, in the same order, to the record
   manager and the query handler: the copies only ever produce ODuplicate (or OOversize). *)
Theorem C16_history : forall es es' s,
  Doubling es es' -> Forall no_qu es ->
  fst (lev_run s es') = fst (lev_run s es)
  /\ filter effective (snd (lev_run s es')) = filter effective (snd (lev_run s es)).
Proof. exact doubling_changes_nothing. Qed.

(* sharp: with a QU question the copy is handled again (open finding C16-qu-double-mcast) *)
Theorem C16_history_qu_refuted : exists es es' s,
  Doubling es es' /\ filter effective (snd (lev_run s es')) <> filter effective (snd (lev_run s es)).
Proof. exact doubling_qu_counterexample. Qed.

Print Assumptions C16_history.
Print Assumptions C16_history_qu_refuted.
Print Assumptions C16_idem.
Print Assumptions C16_window.
Print Assumptions C16_window_exact.
Print Assumptions C16_qu_exempt.
Print Assumptions C16_oversize.
Print Assumptions C16_tc_identical.
Print Assumptions C16_tc_timer.
Print Assumptions C16_tc_query.

(* ---- the model's comparisons are the ones the source writes now (Gen/Sites.v is regenerated from /repo on every run) ---- *)
From ZC Require Import Gen.Const Gen.Sites Proofs.Sites_C16.
Theorem C16_site_duplicate_guard : forall s data now,
  is_duplicate s data now =
  opt_bytes_eqb (ls_data s) data
  && sop_apply site_listener_dup_window (now - C_DUPLICATE_PACKET_SUPPRESSION_INTERVAL) (ls_last_time s)
  && match ls_last_msg s with Some has_qu => negb has_qu | None => false end.
Proof. exact tie_is_duplicate. Qed.
Theorem C16_site_oversize : forall s m addr now he tc,
  (sop_apply site_listener_oversize (Z.of_nat (length (lm_data m))) site_listener_oversize_rhs = true ->
   datagram s m addr now he tc = (s, OOversize)) /\
  (snd (datagram s m addr now he tc) = OOversize ->
   sop_apply site_listener_oversize (Z.of_nat (length (lm_data m))) site_listener_oversize_rhs = true).
Proof. intros; split; [apply tie_oversize_drops | apply tie_oversize_only]. Qed.
Theorem C16_site_counts : sites_C16_counts. Proof. exact sites_C16_counts_ok. Qed.
Print Assumptions C16_site_duplicate_guard.
Print Assumptions C16_site_oversize.
Print Assumptions C16_site_counts.
