(* C13 - queries carry known answers and are not needlessly repeated. Statements only.
   Model/Query.v: QuestionHistory, generate_service_query with its bucketing, the lookup's request query and the responder's
   history update - tied to the real functions by the correspondence check. Vocabulary: Proofs/C13_query.v (ptr_entry, asked_names,
   suppressed_by, record_sent, request_parts, recorded, known_set, last_time). *)
From ZC Require Import Model.Base Model.PyRec Model.Dict Model.Cache Model.Respond Model.Query Gen.Const Gen.DnsPure Proofs.C13_query.
From Coq Require Import Permutation.

(* known answers = exactly the matching cached records with more than half of their TTL left *)
Theorem C13_known_fresh : forall c now name ty r,
  In r (fresh_known c now name ty) <->
  In r (get_all_by_details c name ty C_CLASS_IN) /\ p_created r + 500 * p_ttl r > now.
Proof. exact fresh_known_In. Qed.

(* a browser query asks one PTR question per type, in order, each with exactly its fresh known answers and the decided QU bit *)
Theorem C13_known : forall c h now types qu qs h',
  service_questions c h now types qu = (qs, h') ->
  (exists ts, subseq ts types /\ qs = map (ptr_entry c now qu) ts) /\
  Forall (fun e => In (p_name (fst e)) types /\ p_type_ (fst e) = C_TYPE_PTR /\ DNSEntry_unique (fst e) = qu /\
                   snd e = fresh_known c now (p_name (fst e)) C_TYPE_PTR) qs.
Proof. exact known_exact. Qed.

(* a QM question is omitted iff the same question was asked (or heard as responder) within the previous 999 ms with a known-answer
   list that contains nothing this instance does not know itself *)
Theorem C13_suppress : forall c now types h qs h' t,
  NoDup (map lower types) -> service_questions c h now types false = (qs, h') -> In t types ->
  (~ In t (asked_names qs) <-> suppressed_by h now (mkq t C_TYPE_PTR false) (fresh_known c now t C_TYPE_PTR)).
Proof. exact suppress_iff. Qed.

(* QU questions are never omitted and never recorded *)
Theorem C13_qu_never : forall c now types h qs h',
  service_questions c h now types true = (qs, h') -> qs = map (ptr_entry c now true) types /\ h' = h.
Proof. exact qu_never. Qed.

(* every question travels in exactly one outgoing message together with all of its known answers, stamped with the query time (so that the
   remaining TTL is written); messages with several questions stay within 1448 bytes of estimated payload; no message is empty.
   When a single question's known answers do not fit, DNSOutgoing splits it with the TC bit: C14_headers / C14_partition. *)
Theorem C13_split : forall c h now types multicast qtype msgs h',
  generate_service_query c h now types multicast qtype = (msgs, h') ->
  let qs := fst (service_questions c h now types (qu_decision multicast qtype)) in
  h' = snd (service_questions c h now types (qu_decision multicast qtype)) /\
  Permutation (flat_map qm_qs msgs) (map fst qs) /\
  (forall q known, In (q, known) qs -> exists m, In m msgs /\ In q (qm_qs m) /\ incl known (qm_known m) /\ qm_time m = now) /\
  (forall m, In m msgs -> qm_qs m <> []).
Proof. exact bucketing_msgs. Qed.

(* the history only ever learns this instance's own QM questions ... *)
Theorem C13_history_own : forall c h now types qs h',
  service_questions c h now types false = (qs, h') ->
  h' = record_sent now h qs /\
  (forall q, hist_get h' q = match find (fun e => gen_eq (fst e) q) (rev qs) with
                             | Some e => Some (now, snd e) | None => hist_get h q end) /\
  (forall q, (forall e, In e qs -> gen_eq (fst e) q = false) -> hist_get h' q = hist_get h q) /\
  (forall e, In e qs -> exists known, hist_get h' (fst e) = Some (now, known)).
Proof. exact history_after. Qed.

(* ... and the QM questions it answered as a responder *)
Theorem C13_history_responder : forall g h msgs q,
  hist_get (respond_history_update g h msgs) q <> hist_get h q ->
  exists q', In q' (flat_map qm_questions msgs) /\ gen_eq q' q = true /\ DNSEntry_unique q' = false /\
             get_strategies g q' <> [] /\ hist_get (respond_history_update g h msgs) q = Some (last_time msgs, known_set msgs).
Proof. exact responder_history_only. Qed.

(* a lookup asks SRV / TXT only when it has no fresh answer cached, A / AAAA always, with their known answers *)
Theorem C13_lookup : forall c h now name server qu m h',
  generate_request_query c h now name server qu = (m, h') ->
  let suppressed n ty := suppressed_by h now (mkq n ty false) (fresh_known c now n ty) in
  (In (mkq name C_TYPE_SRV qu) (qm_qs m) <-> fresh_known c now name C_TYPE_SRV = [] /\ (qu = true \/ ~ suppressed name C_TYPE_SRV)) /\
  (In (mkq name C_TYPE_TXT qu) (qm_qs m) <-> fresh_known c now name C_TYPE_TXT = [] /\ (qu = true \/ ~ suppressed name C_TYPE_TXT)) /\
  (In (mkq server C_TYPE_A qu) (qm_qs m)    <-> qu = true \/ ~ suppressed server C_TYPE_A) /\
  (In (mkq server C_TYPE_AAAA qu) (qm_qs m) <-> qu = true \/ ~ suppressed server C_TYPE_AAAA) /\
  (In (mkq server C_TYPE_A qu) (qm_qs m)    -> incl (fresh_known c now server C_TYPE_A) (qm_known m)) /\
  (In (mkq server C_TYPE_AAAA qu) (qm_qs m) -> incl (fresh_known c now server C_TYPE_AAAA) (qm_known m)) /\
  (forall q, In q (qm_qs m) -> q = mkq name C_TYPE_SRV qu \/ q = mkq name C_TYPE_TXT qu \/
                               q = mkq server C_TYPE_A qu \/ q = mkq server C_TYPE_AAAA qu) /\
  (qu = true -> h' = h) /\ (qu = false -> h' = record_sent now h (request_parts c h now name server false)) /\
  qm_time m = now.
Proof. exact request_query. Qed.

Theorem C13_history_expiry : forall h now e, In e (hist_expire h now) <-> In e h /\ now - fst (snd e) <= 999.
Proof. exact hist_expire_spec. Qed.

Print Assumptions C13_known_fresh.
Print Assumptions C13_known.
Print Assumptions C13_suppress.
Print Assumptions C13_qu_never.
Print Assumptions C13_split.
Print Assumptions C13_history_own.
Print Assumptions C13_history_responder.
Print Assumptions C13_lookup.
Print Assumptions C13_history_expiry.
Print Assumptions bucketing_bytes.

(* ---- the model's comparisons are the ones the source writes now (Gen/Sites.v is regenerated from /repo on every run) ---- *)
From ZC Require Import Gen.Sites Proofs.Sites_C13.
Theorem C13_site_suppresses : forall h q now known,
  hist_suppresses h q now known =
  match hist_get h q with
  | None => false
  | Some (than, prev) => if sop_apply site_hist_suppress_age (now - than) site_hist_suppress_age_rhs then false else subset_ident prev known
  end.
Proof. exact tie_hist_suppresses. Qed.
Theorem C13_site_expire : forall h now,
  hist_expire h now = filter (fun e => negb (sop_apply site_hist_expire_age (now - fst (snd e)) site_hist_expire_age_rhs)) h.
Proof. exact tie_hist_expire. Qed.
Theorem C13_site_ops : sites_C13_ops. Proof. exact sites_C13_ops_ok. Qed.
Print Assumptions C13_site_suppresses.
Print Assumptions C13_site_expire.
Print Assumptions C13_site_ops.
