From ZC Require Import Model.Base Model.Query.
Example C13_placeholder : True. Proof. exact I. Qed.
