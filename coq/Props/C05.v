From ZC Require Import Model.Base Model.Cache Model.Ingest.
Example C05_placeholder : True. Proof. exact I. Qed.
