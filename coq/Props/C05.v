(* C05 - record cache: all lookup paths agree with an RFC 6762 section 10 model. Statements only.
   Model.Cache / Model.Ingest mirror _cache.py / record_manager.py / the engine purge (tied to the
   code by the correspondence check on identical histories); identity and lifetime predicates are
   regenerated from _dns.py. Spec.CacheSpec: flat view, invariant, histories. *)
From ZC Require Import Model.Base Model.PyRec Model.Dict Model.Re Model.Cache Model.Ingest Gen.Const Gen.DnsPure
  Spec.CacheSpec Proofs.C20_identity Proofs.C05_cache.
From Coq Require Import Permutation.

(* Every history of response datagrams and purges - any records, any instants - runs without KeyError
   and ends in a cache whose two indexes are well-formed and mirror each other (same live objects). *)
Theorem C05_refines : forall h, exists c, hrun empty_cache h = Ok c /\ Inv c.
Proof. exact history_inv. Qed.
Print Assumptions C05_refines.

(* Under the invariant every lookup path is a filter of one flat list of records: by name, by
   name/type/class (all, and the newest one), by exact record, by SRV host, list of names. *)
Theorem C05_lookups : forall c, Inv c ->
  (forall n, entries_with_name c n = filter (fun r => text_eqb (rkey r) (lower n)) (flat c)) /\
  (forall n t cl, async_all_by_details c n t cl
                  = filter (fun r => text_eqb (rkey r) (lower n) && details_match t cl r) (flat c)) /\
  (forall n t cl, get_by_details c n t cl = hd_error (rev (get_all_by_details c n t cl))) /\
  (forall r, async_get_unique c r = find (fun x => gen_eq x r) (flat c)) /\
  (forall r, p_kind r <> KQuestion -> cache_get c r = find (fun x => gen_eq x r) (flat c)) /\
  (forall s, Permutation (entries_with_server c s)
                         (filter (fun r => is_service r && text_eqb (skey r) (lower s)) (flat c))) /\
  (forall k, In k (names c) <-> exists r, In r (flat c) /\ rkey r = k).
Proof.
  intros c H. repeat split.
  - intro n; apply entries_with_name_flat; exact H.
  - intros n t cl; apply all_by_details_flat; exact H.
  - intros n t cl; apply get_by_details_last.
  - intro r; apply get_unique_flat; exact H.
  - intros r K; apply cache_get_flat; assumption.
  - intro s; apply entries_with_server_flat; exact H.
  - apply names_flat; exact H.
  - apply names_flat; exact H.
Qed.
Print Assumptions C05_lookups.

(* A purge removes exactly the records whose TTL has fully elapsed (created + 1000 ttl <= now, the
   predicate regenerated from DNSRecord.is_expired), reports each exactly once, keeps all others. *)
Theorem C05_purge : forall now c, Inv c ->
  exists c', pg_final (purge now c) = Ok c' /\
    pg_expired (purge now c) = filter (fun r => DNSRecord_is_expired r now) (flat c) /\
    flat c' = filter (fun r => negb (DNSRecord_is_expired r now)) (flat c) /\
    NoDup (pg_expired (purge now c)) /\
    (forall r, DNSRecord_is_expired r now = true <-> expires_at r <= now).
Proof.
  intros now c H. destruct (purge_exact now c H) as (c' & A & B & C & D).
  exists c'. repeat split; try assumption; apply expired_iff.
Qed.
Print Assumptions C05_purge.

(* A cached record is never purged before created + 1000 ttl of its CURRENT lifetime - which a refresh
   sets to (arrival time, received ttl) (C06_cached) - so a refreshed record outlives its old deadline. *)
Theorem C05_no_early : forall now c r, Inv c -> In r (flat c) -> now < expires_at r ->
  exists c', pg_final (purge now c) = Ok c' /\ In r (flat c').
Proof. exact no_early_purge. Qed.
Print Assumptions C05_no_early.

(* non-vacuity: the history that exposed the key/value defect of the pinned tree - the same TXT record
   twice in one datagram, refreshed later - keeps the record alive past its first deadline *)
Example C05_example :
  let txt ttl now := {| p_kind := KText; p_name := [120;46]; p_type_ := 16; p_class_ := 1; p_ttl := ttl;
                        p_created := now; p_address := []; p_scope_id := None; p_cpu := []; p_os := [];
                        p_alias := []; p_text := [1;97]; p_priority := 0; p_weight := 0; p_port := 0;
                        p_server := []; p_next_name := []; p_rdtypes := [] |} in
  match hrun empty_cache [HResp 1000 [txt 20 1000; txt 20 1000]; HResp 16000 [txt 120 16000]; HPurge 31000] with
  | Ok c => map lifetime (flat c) = [(16000, 120)]
  | Raise _ => False
  end.
Proof. vm_compute. reflexivity. Qed.
