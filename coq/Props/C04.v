From ZC Require Import Model.Base Model.Browser.
Example C04_placeholder : True. Proof. exact I. Qed.
