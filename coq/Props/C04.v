(* C04 - browser callbacks alternate add/remove and always match the cache. Statements only.
   Model/Browser.v: the browser as a record-update listener (pending-callback de-duplication) composed with the cache
   (Model.Ingest) - tied to the real AsyncServiceBrowser by replaying every logged handler invocation through the model.
   Vocabulary and hypotheses: Proofs/C04_defs.v (brun, live_after, cached_instances, events_of, alternates, hyp). *)
From ZC Require Import Model.Base Model.PyRec Model.Dict Model.Cache Model.Ingest Model.Sched Model.Browser Gen.Const
  Proofs.C04_enqueue Proofs.C04_defs Proofs.C04_browser Proofs.C04_listen.

(* hyp types ls: browsed types pairwise different when lower-cased; every datagram as decoded; every PTR record has class IN and
   an owner name that is exactly a browsed type or matches none (even up to case); no two PTR targets in one datagram differ only
   in letter case. The browser is registered from the start on an empty cache (C04_live_listen covers a later start). *)

(* at every quiescent point: the instances reported Added and not since Removed are - case-insensitively - exactly the pointer
   records of that type held in the cache, and Added is never delivered for an instance already reported *)
Theorem C04_live : forall types s ls n cbs,
  hyp types ls -> brun (bnode_init types s) ls = Some (n, cbs) ->
  forall ty, In ty types ->
    (forall k, In k (live_after cbs ty) <-> In k (cached_instances (bn_cache n) ty)) /\ NoDup (live_after cbs ty).
Proof. exact Proofs.C04_browser.C04_live. Qed.

(* for every (type, instance) the Added / Removed callbacks alternate, starting with Added *)
Theorem C04_alternate : forall types s ls n cbs,
  hyp types ls -> brun (bnode_init types s) ls = Some (n, cbs) ->
  forall ty k, alternates false (events_of cbs ty k).
Proof. exact Proofs.C04_browser.C04_alternate. Qed.

(* callbacks are delivered after the records of the triggering datagram are in the cache *)
Theorem C04_after : forall types s ls now answers n cbs n' o,
  hyp types (ls ++ [BResp now answers]) -> brun (bnode_init types s) ls = Some (n, cbs) ->
  bstep n (BResp now answers) = Some (n', o) ->
  forall name ty, In ((name, ty), Added) (bo_callbacks o) -> In (lower name) (cached_instances (bn_cache n') ty).
Proof. exact Proofs.C04_browser.C04_after. Qed.

(* the de-duplication rule of one datagram: Added beats Removed beats Updated *)
Theorem C04_precedence : forall (ops : list op) (name ty : text),
  d_get pkey_eqb (enqueue_all [] ops) (name, ty)
  = if enqueued Added ty name ops then Some Added
    else if enqueued Removed ty name ops then Some Removed
    else if enqueued Updated ty name ops then Some Updated else None.
Proof. exact enqueue_precedence. Qed.

Print Assumptions C04_live.
Print Assumptions C04_alternate.
Print Assumptions C04_after.
Print Assumptions C04_precedence.
(* a browser created later, on whatever cache the instance has by then (Proofs/C04_listen.v). Since the repair 8ab9054 (expired records are
   reaped before a listener with questions is added) this needs no restriction on that cache: the property's carve-out "browsers created
   while no expired-but-unpurged pointer record of their types is cached" is no longer needed - before the repair such a browser never
   reported the instance (Example listen_stale_node_not_no_stale / listen_purges_stale; finding C07-expired-unpurged-browser) *)
Check C04_live_listen.
Check C04_alternate_listen.
Check listen_purges_stale.
Print Assumptions C04_live_listen.
Print Assumptions C04_alternate_listen.
