(* C17 - shutdown is complete and quiet. Statements only.
   Model/Node.v: every transmission of the node passes the `done` gate (Zeroconf.async_send returns at once when done); LUnregisterAll /
   LGoodbyeAll = async_unregister_all_services; LClose = _close().  Tied to the real instance by label replay: registration coroutines,
   announcement tasks, queue timers and deferred queries keep producing labels after the close (Corr/Node.v).
   What the model cannot exhibit and the oracle of props/c17.py observes instead: user callbacks (browser, lookup) after the close, and
   exceptions raised by timers left behind. *)
From ZC Require Import Model.Base Model.PyRec Model.Dict Model.Cache Model.Respond Model.Route Model.WireEnc Model.OutQueue
  Model.Register Model.Node Gen.Const Gen.Extra Gen.DnsPure Spec.AnswerSpec
  Proofs.C03_reg Proofs.C08_records Proofs.C08_withdraw Proofs.C17_shutdown.

(* once done, whatever happens next - datagrams, queue timers, deferred queries, registration coroutines and announcement tasks that
   were in progress, further API calls - nothing is transmitted, and the instance stays done *)
Theorem C17_closed_quiet : forall n ls, n_done n = true ->
  (forall outs o, In outs (nrun n ls) -> In o outs -> is_send o = false) /\ n_done (nstate n ls) = true.
Proof. exact closed_quiet. Qed.

(* closing emits nothing by itself, and closing again is a no-op *)
Theorem C17_close_idempotent : forall n t t',
  snd (nstep n (LClose t)) = [] /\ n_done (fst (nstep n (LClose t))) = true /\
  nstep (fst (nstep n (LClose t))) (LClose t') = (fst (nstep n (LClose t)), []).
Proof. exact close_idempotent. Qed.

(* before the sockets close, every registered service is withdrawn: one message with the PTR, SRV, TXT, address and NSEC records of
   every service at TTL 0, sent three times; the registry is empty afterwards and the responder answers nothing *)
Theorem C17_shutdown_goodbyes : forall n now n' outs,
  J (n_reg n) -> n_done n = false ->
  nstep n (LUnregisterAll now) = (n', outs) ->
  let rs := goodbye_all (n_reg n) in
  n_reg n' = empty_registry /\ g_services (n_reg n') = [] /\
  (registered (n_reg n) = [] -> outs = [OEnd]) /\
  (registered (n_reg n) <> [] ->
     outs = [OSend now None (broadcast_msg rs)] /\
     (forall t2 t3, nrun n' [LGoodbyeAll t2; LGoodbyeAll t3] =
                    [[OSend t2 None (broadcast_msg rs)]; [OSend t3 None (broadcast_msg rs)]] /\
                    nstate n' [LGoodbyeAll t2; LGoodbyeAll t3] = n')) /\
  (forall s x, In s (registered (n_reg n)) ->
     In x ([dns_pointer s; dns_service s; dns_text s] ++ address_and_nsec s) -> In (set_ttl 0 x) rs) /\
  (forall r, In r rs -> p_ttl r = 0) /\
  (forall c msgs id addr port, handle_assembled_query (n_reg n') c msgs id addr port = []).
Proof. exact shutdown_goodbyes. Qed.

(* J holds for every registry with a history (Proofs/C03_reg.v J_run) *)
Theorem C17_shutdown_goodbyes_reachable : forall n ops now,
  n_reg n = reg_run ops -> n_done n = false ->
  n_reg (fst (nstep n (LUnregisterAll now))) = empty_registry /\
  (registered (n_reg n) <> [] ->
   snd (nstep n (LUnregisterAll now)) = [OSend now None (broadcast_msg (goodbye_all (n_reg n)))]).
Proof. exact shutdown_goodbyes_reachable. Qed.

(* the whole of async_close, from ANY node state: after the three goodbyes and _close() nothing is sent any more *)
Theorem C17_after_close_sequence : forall n t1 t2 t3 t4 ls outs t d m,
  In outs (skipn 4 (nrun n ([LUnregisterAll t1; LGoodbyeAll t2; LGoodbyeAll t3; LClose t4] ++ ls))) -> ~ In (OSend t d m) outs.
Proof. exact after_close_sequence_no_send. Qed.

Theorem C17_empty_registry_silent : forall c msgs id addr port, handle_assembled_query empty_registry c msgs id addr port = [].
Proof. exact empty_registry_silent. Qed.

Print Assumptions C17_closed_quiet. Print Assumptions C17_close_idempotent. Print Assumptions C17_shutdown_goodbyes.
Print Assumptions C17_shutdown_goodbyes_reachable. Print Assumptions C17_after_close_sequence. Print Assumptions C17_empty_registry_silent.
