From ZC Require Import Model.Base Model.Register Model.Node.
Example C17_placeholder : True. Proof. exact I. Qed.
