(* C20 - Record identity: equal records hash equal; case, TTL and flush bit ignored.
   Statements only. [gen_eq] / [gen_hashkey] / [DNSRRSet_suppresses_cmp] are REGENERATED from
   src/zeroconf/_dns.py on every run (Gen/DnsPure.v); [ident_of] is the specification. *)
From ZC Require Import Model.Base Model.PyRec Model.Dict Gen.DnsPure Proofs.C20_identity.

(* Two records are the same record exactly when kind, owner name (case-insensitively), type,
   class (15 bits) and rdata agree - PTR target and SRV host case-insensitively, IPv6 scope included. *)
Theorem C20_eq_iff_ident : forall a b, gen_eq a b = true <-> ident_of a = ident_of b.
Proof. exact eq_iff_ident. Qed.
Print Assumptions C20_eq_iff_ident.

(* Equal records always have equal hashes. *)
Theorem C20_hash_congruent : forall a b, gen_eq a b = true -> gen_hashkey a = gen_hashkey b.
Proof. exact hash_congruent. Qed.
Print Assumptions C20_hash_congruent.

(* ... and within one kind the hash tuple distinguishes exactly the identities. *)
Theorem C20_hash_exact : forall a b,
  p_kind a = p_kind b -> (gen_hashkey a = gen_hashkey b <-> ident_of a = ident_of b).
Proof. exact hash_exact. Qed.
Print Assumptions C20_hash_exact.

(* TTL, creation time and the cache-flush bit never affect identity (and the bit is really free). *)
Theorem C20_ignores : forall r ttl created u,
  gen_eq r (with_lifetime r ttl created u) = true /\ DNSEntry_unique (with_lifetime r ttl created u) = u.
Proof. intros; split; [apply ignores_lifetime | apply unique_bit_is_settable]. Qed.
Print Assumptions C20_ignores.

(* Records of different kinds are never equal. *)
Theorem C20_kinds_disjoint : forall a b, p_kind a <> p_kind b -> gen_eq a b = false.
Proof. exact kinds_disjoint. Qed.
Print Assumptions C20_kinds_disjoint.

Theorem C20_equivalence :
  (forall a, gen_eq a a = true) /\ (forall a b, gen_eq a b = gen_eq b a) /\
  (forall a b c, gen_eq a b = true -> gen_eq b c = true -> gen_eq a c = true).
Proof. exact (conj eq_refl_ (conj eq_sym_ eq_trans_)). Qed.
Print Assumptions C20_equivalence.

(* Questions are identified by case-insensitive name, type and class. *)
Theorem C20_question : forall p q, p_kind p = KQuestion -> p_kind q = KQuestion ->
  (gen_eq p q = true <->
   lower (p_name p) = lower (p_name q) /\ p_type_ p = p_type_ q /\ class15 p = class15 q).
Proof. exact question_identity. Qed.
Print Assumptions C20_question.

(* Known-answer suppression sees a record only through its identity and TTL, and only ever
   suppresses on the strength of a listed record with the same identity and more than half the TTL. *)
Theorem C20_rrset_lookup : forall records r r',
  ident_of r = ident_of r' -> p_ttl r = p_ttl r' ->
  rrset_suppresses records r = rrset_suppresses records r'.
Proof. exact rrset_depends_on_ident_and_ttl. Qed.
Print Assumptions C20_rrset_lookup.

Theorem C20_rrset_sound : forall records r, rrset_suppresses records r = true ->
  exists other, gen_eq other r = true /\ p_ttl r < 2 * p_ttl other.
Proof. exact rrset_suppresses_sound. Qed.
Print Assumptions C20_rrset_sound.

(* non-vacuity: two PTR records that differ in spelling, TTL, creation time and flush bit *)
Example C20_example :
  let a := {| p_kind := KPointer; p_name := [95;65;46]; p_type_ := 12; p_class_ := 1; p_ttl := 4500;
              p_created := 1; p_address := []; p_scope_id := None; p_cpu := []; p_os := [];
              p_alias := [88;46;95;65;46]; p_text := []; p_priority := 0; p_weight := 0; p_port := 0;
              p_server := []; p_next_name := []; p_rdtypes := [] |} in
  let b := {| p_kind := KPointer; p_name := [95;97;46]; p_type_ := 12; p_class_ := 32769; p_ttl := 0;
              p_created := 9; p_address := []; p_scope_id := None; p_cpu := []; p_os := [];
              p_alias := [120;46;95;97;46]; p_text := []; p_priority := 0; p_weight := 0; p_port := 0;
              p_server := []; p_next_name := []; p_rdtypes := [] |} in
  gen_eq a b = true /\ gen_hashkey a = gen_hashkey b /\ rrset_suppresses [a] b = true
  /\ rrset_suppresses [b] a = false.
Proof. vm_compute. repeat split. Qed.
