(* C12 - reply timing: jitter, aggregation, one-second protection. Statements only.
   Model/OutQueue.v: MulticastOutgoingQueue as a labelled transition system (QAdd = async_add at arrival, QFire = a pending
   loop.call_at timer running async_ready), tied to the real class on the virtual-time loop by the correspondence check.
   The two instances of the code: (additional, aggregation) = (0, 500) for ordinary answers and (1000, 200) for records
   multicast less than a second ago. *)
From ZC Require Import Model.Base Model.Dict Model.OutQueue Proofs.C12_lemmas Proofs.C12_queue.
From Coq Require Import Sorted.

(* a non-empty queue always has a wake-up pending no later than its head's deadline; send_after strictly increases along it *)
Theorem C12_timer_inv : forall additional aggregation ls q tr,
  120 <= aggregation -> Forall add_ok ls ->
  qrun (oq_init additional aggregation) ls [] = Some (q, tr) ->
  (forall g0 r, q_groups q = g0 :: r -> exists d, In d (q_timers q) /\ d <= g_before g0) /\
  StronglySorted after_lt (q_groups q) /\
  Forall (fun g => g_after g <= g_before g) (q_groups q).
Proof. exact timer_inv. Qed.

(* the window for an answer requested once: when timers run punctually and the queue is followed until it is drained, the
   record is multicast, and every batch carrying it leaves within [arrival + 20 + additional, arrival + aggregation + additional] *)
Theorem C12_window : forall additional aggregation t0 ls pre now rnd a post q tr k,
  120 <= aggregation -> ls = pre ++ QAdd now now rnd a :: post ->
  times_sorted t0 ls -> Forall add_ok ls -> punctual_run (oq_init additional aggregation) ls ->
  qrun (oq_init additional aggregation) ls [] = Some (q, tr) -> q_groups q = [] -> In k (keys a) ->
  (forall l, In l pre \/ In l post -> ~ mentions k l) ->
  (exists s b, In (s, b) tr /\ In k (keys b)) /\
  (forall s b, In (s, b) tr -> In k (keys b) -> now + 20 + additional <= s <= now + aggregation + additional).
Proof. exact reply_window. Qed.

(* ordinary answers: 20..500 ms after the query; records seen less than a second ago: 1020..1200 ms *)
Theorem C12_out_queue : forall t0 ls pre now rnd a post q tr k,
  ls = pre ++ QAdd now now rnd a :: post ->
  times_sorted t0 ls -> Forall add_ok ls -> punctual_run (oq_init 0 500) ls ->
  qrun (oq_init 0 500) ls [] = Some (q, tr) -> q_groups q = [] -> In k (keys a) ->
  (forall l, In l pre \/ In l post -> ~ mentions k l) ->
  (exists s b, In (s, b) tr /\ In k (keys b)) /\
  (forall s b, In (s, b) tr -> In k (keys b) -> now + 20 <= s <= now + 500).
Proof. exact instance_out_queue. Qed.

Theorem C12_protected : forall t0 ls pre now rnd a post q tr k,
  ls = pre ++ QAdd now now rnd a :: post ->
  times_sorted t0 ls -> Forall add_ok ls -> punctual_run (oq_init 1000 200) ls ->
  qrun (oq_init 1000 200) ls [] = Some (q, tr) -> q_groups q = [] -> In k (keys a) ->
  (forall l, In l pre \/ In l post -> ~ mentions k l) ->
  (exists s b, In (s, b) tr /\ In k (keys b)) /\
  (forall s b, In (s, b) tr -> In k (keys b) -> now + 1020 <= s <= now + 1200).
Proof. exact instance_out_delay_queue. Qed.

(* aggregation: with several requests every requested record still leaves by its own deadline (upper bound, any number of
   requests), and never before the jitter of some request that asked for it (lower bound, no hypothesis on the run) *)
Theorem C12_upper : forall additional aggregation, 120 <= aggregation ->
  forall t0 ls pre now rnd a post q tr k,
  ls = pre ++ QAdd now now rnd a :: post ->
  times_sorted t0 ls -> Forall add_ok ls -> punctual_run (oq_init additional aggregation) ls ->
  qrun (oq_init additional aggregation) ls [] = Some (q, tr) -> q_groups q = [] -> In k (keys a) ->
  exists mid l post' s b, post = mid ++ l :: post' /\
    emits (oq_init additional aggregation) (pre ++ QAdd now now rnd a :: mid) l s b /\
    In k (keys b) /\ now <= s <= now + aggregation + additional.
Proof. exact window_upper. Qed.

Theorem C12_lower : forall additional aggregation pre l s b k,
  emits (oq_init additional aggregation) pre l s b -> In k (keys b) ->
  exists now tnow rnd a, In (QAdd now tnow rnd a) pre /\ In k (keys a) /\ now + rnd + additional <= s.
Proof. exact window_lower. Qed.

(* never duplicated within a batch; once sent a record is dropped from every pending group *)
Theorem C12_no_dup : forall additional aggregation pre l s b q e q',
  Forall dict_ok pre -> qrun (oq_init additional aggregation) pre [] = Some (q, e) ->
  qstep q l = Some (q', Some (s, b)) ->
  NoDup (keys b) /\ forall g k, In g (q_groups q') -> In k (keys b) -> ~ In k (keys (g_answers g)).
Proof. exact no_dup_partial. Qed.

Print Assumptions C12_timer_inv.
Print Assumptions C12_window.
Print Assumptions C12_out_queue.
Print Assumptions C12_protected.
Print Assumptions C12_upper.
Print Assumptions C12_lower.
Print Assumptions C12_no_dup.

(* ---- the model's comparisons are the ones the source writes now (Gen/Sites.v is regenerated from /repo on every run) ---- *)
From ZC Require Import Model.PyRec Model.Cache Model.Respond Gen.Const Gen.DnsPure Gen.Sites Proofs.Sites_C12.
Theorem C12_site_last_second : forall c now r,
  has_mcast_record_in_last_second c now r =
  match async_get_unique c r with
  | Some e => sop_apply site_resp_last_second (now - DNSRecord_created e) site_resp_last_second_rhs
  | None => false end.
Proof. exact tie_last_second. Qed.
Theorem C12_site_merge : forall q now tnow rnd a g gs,
  q_groups q = g :: gs ->
  let send_after := now + (rnd + q_additional q) in
  let lastg := last (g :: gs) {| g_after := 0; g_before := 0; g_answers := [] |} in
  length (q_groups (async_add q now tnow rnd a)) =
  if sop_apply site_oq_merge send_after (g_after lastg) then length (g :: gs) else S (length (g :: gs)).
Proof. exact tie_async_add_merge. Qed.
Theorem C12_site_due : forall g r now acc,
  pop_due (g :: r) now acc =
  if sop_apply site_oq_ready_due (g_after g) now then pop_due r now (a_update acc (g_answers g)) else (g :: r, acc).
Proof. exact tie_pop_due. Qed.
Theorem C12_site_wait : forall q now g0 g1 gs,
  q_groups q = g0 :: g1 :: gs ->
  sop_apply site_oq_ready_wait (g_before g0) now = true ->
  snd (async_ready_body q now) = None /\ q_groups (fst (async_ready_body q now)) = q_groups q.
Proof. exact tie_ready_wait. Qed.
Theorem C12_site_ops : sites_C12_ops. Proof. exact sites_C12_ops_ok. Qed.
Print Assumptions C12_site_last_second.
Print Assumptions C12_site_merge.
Print Assumptions C12_site_due.
Print Assumptions C12_site_wait.
Print Assumptions C12_site_ops.
