From ZC Require Import Model.Base Model.OutQueue.
Example C12_placeholder : True. Proof. exact I. Qed.
