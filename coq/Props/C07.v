(* C07 - end-to-end discovery converges to the set of registered services. Statements only.
   The property is a statement about several instances and a lossy link; it is decided in two halves.
   (a) Here: the redundancy argument the property rests on, over the models of the sender (Model/Node.v announcement and goodbye tasks),
       of the link (Model/Link.v: per-copy delays of 0..100 ms, reordering, duplication, loss) and of the receiving cache
       (Model/Ingest.v); with C04_live (a browser reports exactly the pointers its cache holds) and C18 for the lookup.
   (b) props/c07.py: 2-5 real instances on a simulated link, every single delivery dropped in turn (see DESIGN.md II.4b).
   Vocabulary (Proofs/C07_recv.v, C07_send.v, C07_net.v, C07_link.v): knows c t s = the cache holds an unexpired pointer type -> name of s;
   Recv c s = cache invariant + every cached record that looks like the pointer of s is that pointer (exact spelling, class IN);
   announce_msgs s a = the three announcements at a, a+225, a+450; goodbye_msgs G g1 g2 g3; fate_ok = delays within 0..100;
   losses = number of messages of which no copy arrives; arrival_ok = a decoded datagram that is an announcement of s, a goodbye of s
   or unrelated to it; svc_ok = TTLs in range (0 < other_ttl < 2^32). *)
From Coq Require Import Permutation.
From ZC Require Import Model.Base Model.PyRec Model.Dict Model.Cache Model.Ingest Model.Respond Model.Register Model.Node Model.Link
  Model.Query Model.Info Gen.Const Gen.DnsPure Spec.CacheSpec Spec.AnswerSpec
  Model.Sched Model.Browser Proofs.C04_defs Proofs.C07_recv Proofs.C07_send Proofs.C07_net Proofs.C07_lookup Proofs.C07_link Proofs.C07_browser
  Model.Route Model.WireEnc Proofs.C11_lemmas Proofs.C11_route Proofs.C18_info Proofs.C07_r1 Proofs.C07_r2 Proofs.C07_r3 Proofs.C07_resolve.

(* of three copies with at most one lost, two arrive - each within 100 ms of being sent *)
Theorem C07_one_loss_two_arrive : forall m1 m2 m3 f1 f2 f3, fate_ok f1 -> fate_ok f2 -> fate_ok f3 -> (losses [f1; f2; f3] <= 1)%nat ->
  let arr := arrives [m1; m2; m3] [f1; f2; f3] in (arr m1 /\ arr m2) \/ (arr m1 /\ arr m3) \/ (arr m2 /\ arr m3).
Proof. exact one_loss_two_arrive. Qed.

(* the receiving cache: the last arrival that mentions the instance decides whether it is known *)
Theorem C07_last_arrival_wins : forall c s ttl l t', Recv c s -> 0 < ttl -> Forall (arrival_ok s ttl) l ->
  (forall t recs, last_mention s l = Some (t, recs) -> announces s recs = true -> t' < t + 1000 * ttl) ->
  knows (receive_all c l) t' s = match last_mention s l with None => knows c t' s | Some (t, recs) => announces s recs end.
Proof. exact last_arrival_wins_partial. Qed.

(* what the sender's announcement task puts on the wire *)
Theorem C07_sender : forall n id s a, n_done n = false -> d_get Z.eqb (n_tasks n) id = Some (announce_task s) ->
  wmsgs_of (concat (nrun n [LBcast id a; LBcast id (a + 225); LBcast id (a + 450)])) = announce_msgs s a.
Proof. exact announce_task_sends. Qed.

(* registration: whatever the delays, duplicates and reordering, and whichever single copy is lost, 550 ms after the first announcement
   every receiver knows the instance (and keeps knowing it for the pointer's TTL) *)
Theorem C07_announcements_converge : forall c s a fates t', Recv c s -> svc_ok s ->
  length fates = 3%nat -> Forall fate_ok fates -> (losses fates <= 1)%nat -> a + 550 <= t' < a + 1000 * s_other_ttl s ->
  knows (receive_all c (deliveries (announce_msgs s a) fates)) t' s = true.
Proof. exact announcements_converge_partial. Qed.

(* withdrawal: when the goodbyes do not overlap the announcements, one lost copy among the six leaves every receiver without the instance *)
Theorem C07_withdrawal_converges : forall c s a g b fates t', Recv c s -> svc_ok s -> a + 450 + 100 < g ->
  length fates = 6%nat -> Forall fate_ok fates -> (losses fates <= 1)%nat -> g + 350 <= t' ->
  knows (receive_all c (deliveries (announce_msgs s a ++ goodbye_msgs (broadcast_records s (Some 0) b) g (g+125) (g+250)) fates)) t' s = false.
Proof. exact withdrawal_converges_partial. Qed.

(* the same for the single goodbye message of a closing instance (all its services in one message, three times) *)
Theorem C07_close_converges : forall c reg s a g fates t', Recv c s -> svc_ok s -> RegInv reg -> In s (all_services reg) ->
  a + 450 + 100 < g -> length fates = 6%nat -> Forall fate_ok fates -> (losses fates <= 1)%nat -> g + 350 <= t' ->
  knows (receive_all c (deliveries (announce_msgs s a ++ goodbye_msgs (snd (unregister_all reg)) g (g+125) (g+250)) fates)) t' s = false.
Proof. exact close_converges_partial. Qed.

(* every cache reached through well-formed arrivals satisfies the receiver hypothesis *)
Theorem C07_receiver_hypothesis_reachable : forall s ttl l, 0 < ttl -> Forall (arrival_ok s ttl) l -> Recv (receive_all empty_cache l) s.
Proof. exact recv_history. Qed.

(* the lookup made from the Added callback: a batch that contains the SRV record of the instance and an address record of its host
   completes the lookup whatever their order in the packet (the C07 repair; C18 gives the rest of the lookup's behaviour) *)
Theorem C07_lookup_batch_order : forall c1 now r news srv adr h,
  rq_done r = None -> In srv news -> p_kind srv = KService -> DNSRecord_is_expired srv now = false ->
  lower (p_name srv) = si_key (rq_info r) -> p_server srv = h ->
  In adr news -> p_kind adr = KAddress -> DNSRecord_is_expired adr now = false -> lower (p_name adr) = lower h ->
  (length (p_address adr) = 4%nat \/ length (p_address adr) = 16%nat) ->
  (forall x, In x news -> p_kind x = KService -> lower (p_name x) = si_key (rq_info r) -> lower (p_server x) = lower h) ->
  let i' := rq_info (fst (request_update c1 now r news)) in
  is_complete i' = true /\ (length (p_address adr) = 4%nat -> In (p_address adr) (si_v4 i')) /\
  (length (p_address adr) = 16%nat -> In (p_address adr) (si_v6 i')).
Proof. exact batch_order_irrelevant. Qed.

(* END TO END, sender task -> lossy link -> receiving cache -> browser callbacks: whatever the announcement task of a live node puts on the
   wire, delivered with any delays, duplicates and order and with any single copy lost, makes a browser of that type (types pairwise
   distinct, the type's name matching no other browsed type) report the instance Added - and after the goodbye task (not overlapping the
   announcements, one loss among the six messages) it is no longer reported *)
Theorem C07_announcement_to_callbacks : forall nd id types sch s a fates,
  n_done nd = false -> d_get Z.eqb (n_tasks nd) id = Some (announce_task s) ->
  types_distinct types -> In (s_type s) types -> name_ok types (s_type s) -> svc_ok s ->
  length fates = 3%nat -> Forall fate_ok fates -> (losses fates <= 1)%nat ->
  let sent := wmsgs_of (concat (nrun nd [LBcast id a; LBcast id (a + 225); LBcast id (a + 450)])) in
  exists n cbs, brun (bnode_init types sch) (labels_of (deliveries sent fates)) = Some (n, cbs) /\
                In (lower (s_name s)) (live_after cbs (s_type s)).
Proof. exact announcement_task_to_callbacks. Qed.

Theorem C07_goodbye_to_callbacks : forall nd id nd' id' types sch s a g b fates,
  n_done nd = false -> d_get Z.eqb (n_tasks nd) id = Some (announce_task s) ->
  n_done nd' = false -> d_get Z.eqb (n_tasks nd') id' = Some (goodbye_task s b) ->
  types_distinct types -> In (s_type s) types -> name_ok types (s_type s) -> svc_ok s ->
  a + 450 + 100 < g ->
  length fates = 6%nat -> Forall fate_ok fates -> (losses fates <= 1)%nat ->
  let sent := wmsgs_of (concat (nrun nd [LBcast id a; LBcast id (a + 225); LBcast id (a + 450)]))
              ++ wmsgs_of (concat (nrun nd' [LBcast id' g; LBcast id' (g + 125); LBcast id' (g + 250)])) in
  exists n cbs, brun (bnode_init types sch) (labels_of (deliveries sent fates)) = Some (n, cbs) /\
                ~ In (lower (s_name s)) (live_after cbs (s_type s)).
Proof. exact goodbye_task_to_callbacks. Qed.

(* THE LOOKUP, END TO END (lossless case): a lookup started with an empty cache asks SRV, TXT, A, AAAA by QU; a node on which the service is
   registered (no service using the instance name as host name; SRV and TXT equally recent on the wire, so that they travel in one
   message) answers with one message - unicast when the records were multicast recently, multicast otherwise - and feeding that message's
   records, stamped with their arrival time, in ANY order to the pending lookup makes it return True with the advertised host, port, TXT,
   weight, priority and exactly the advertised addresses (vocabulary: Proofs/C07_r1..r3: recent = multicast within a quarter of the TTL,
   addr_lengths = v4 addresses 4 bytes, v6 addresses 16 bytes, cached_v4/v6 = live addresses of the host already in the querier's cache) *)
Theorem C07_lookup_end_to_end : forall n s name t0 timeout rnd now id addr rq rd t1 news c1 c h t2 rnd2,
  0 < timeout ->
  RegInv (n_reg n) -> n_done n = false -> In s (registered (n_reg n)) -> lower name = s_key s -> no_host_named_like (n_reg n) s ->
  recent (n_cache n) now (dns_service s) = recent (n_cache n) now (dns_text s) ->
  0 < s_host_ttl s -> 0 < s_other_ttl s -> addr_lengths s -> s_v4 s ++ s_v6 s <> [] ->
  (forall a, In a (cached_v4 c1 t1 s) -> In a (s_v4 s)) -> (forall a, In a (cached_v6 c1 t1 s) -> In a (s_v6 s)) ->
  let r0 := fst (fst (request_start empty_cache [] name t0 timeout rnd None)) in
  exists dest m,
    snd (request_start empty_cache [] name t0 timeout rnd None) = [RSend t0 true (first_query name t0)] /\
    snd (nstep n (LQuery now [lookup_qmsg name now] id addr C_MDNS_PORT rq rd)) = [OSend now dest m] /\
    (dest = if recent (n_cache n) now (dns_service s) then Some (addr, C_MDNS_PORT) else None) /\
    (Permutation news (map (stamp t1) (reply_records m)) ->
     let r1 := fst (request_update c1 t1 r0 news) in
     let i := rq_info r1 in
     loop_turn c h r1 t2 rnd2 = (set_done r1 (Some true), h, [RReturn t2 true]) /\
     si_server i = Some (s_server s) /\ si_port i = Some (s_port s) /\ si_text i = s_text s /\
     si_weight i = s_weight s /\ si_priority i = s_priority s /\
     (forall a, In a (si_v4 i) <-> In a (s_v4 s)) /\ (forall a, In a (si_v6 i) <-> In a (s_v6 s))).
Proof. exact lookup_end_to_end. Qed.

(* when SRV and TXT are not equally recent the reply is split into a unicast and a multicast message; the lookup is complete as soon as it
   has an address: if the SRV message arrives alone first and the coroutine runs before the TXT message, it returns with an empty TXT *)
Check lookup_split_srv_then_txt.
Check lookup_split_txt_then_srv.

(* the recorded finding C07-withdrawal-during-broadcast as a refutation of the statement without the no-overlap hypothesis: unregistered
   50 ms after the first announcement, one copy lost, every other hypothesis met - the instance stays known for its whole TTL *)
Example C07_overlap_refuted :
  let fates := [[0]; [0]; [0]; []; [0]; [0]] in
  let l := deliveries (announce_msgs ex_svc 0 ++ goodbye_msgs (broadcast_records ex_svc (Some 0) true) 50 175 300) fates in
  length fates = 6%nat /\ losses fates = 1%nat /\ forallb (forallb (fun d => (0 <=? d) && (d <=? 100))) fates = true /\
  map fst l = [0; 175; 225; 300; 450] /\
  knows (receive_all empty_cache l) 400 ex_svc = true /\ knows (receive_all empty_cache l) 4000000 ex_svc = true.
Proof. exact withdrawal_overlap_counterexample. Qed.

(* the pinned tree's lookup processed a batch in packet order: address before SRV does not complete, SRV before address does *)
Example C07_packet_order_refuted :
  is_complete (fst (process_records empty_cache 1000 (sinfo_init ex_name) [ex_adr; ex_srv])) = false /\
  is_complete (fst (process_records empty_cache 1000 (sinfo_init ex_name) [ex_srv; ex_adr])) = true.
Proof. exact packet_order_fails. Qed.

Print Assumptions C07_one_loss_two_arrive. Print Assumptions C07_last_arrival_wins. Print Assumptions C07_sender.
Print Assumptions C07_announcements_converge. Print Assumptions C07_withdrawal_converges. Print Assumptions C07_close_converges.
Print Assumptions C07_receiver_hypothesis_reachable. Print Assumptions C07_lookup_batch_order. Print Assumptions C07_overlap_refuted.
Print Assumptions C07_packet_order_refuted. Print Assumptions C07_announcement_to_callbacks. Print Assumptions C07_goodbye_to_callbacks. Print Assumptions C07_lookup_end_to_end.
Print Assumptions lookup_split_srv_then_txt. Print Assumptions lookup_split_txt_then_srv.
