From ZC Require Import Model.Base Model.Node.
Example C07_placeholder : True. Proof. exact I. Qed.
