(* C14 - outgoing messages respect size limits and account for every section entry. Statements only.
   packets_info : Model/WireEnc.v (byte-exact against DNSOutgoing.packets() on every run); the limits 8966 / 1460
   are Gen.Const.C_MAX_MSG_ABSOLUTE / C_MAX_MSG_TYPICAL, regenerated from const.py. *)
From ZC Require Import Model.Base Model.PyRec Model.Dict Model.WireEnc Gen.Const Proofs.C14_sizes.

Theorem C14_abs : forall m ps, packets_info m = Ok ps -> Forall (fun p => plen p <= 8966) ps.
Proof. exact packets_abs_limit. Qed.

Theorem C14_typical : forall m ps, packets_info m = Ok ps ->
  Forall (fun p => plen p <= 1460 \/ nentries (snd p) = 1%nat) ps.
Proof. exact packets_typical_limit. Qed.

(* header: id 0 when multicast, the four counts, and the TC bit exactly on every datagram that does not complete a query
   (the last datagram of a message whose every entry was carried has no TC; responses never have it) *)
Theorem C14_headers : forall m ps, packets_info m = Ok ps ->
  forall i p, nth_error ps i = Some p ->
    firstn 12 (fst p) = header_of m (Nat.eqb (S i) (length ps)
                                     && completeb (o_questions m) (o_answers m) (o_authorities m) (o_additionals m) ps) (snd p)
    /\ 12 <= plen p.
Proof. exact packets_headers_exact. Qed.

(* each entry is carried at most once, in order; exactly once as soon as no datagram is empty of entries *)
Theorem C14_partition : forall m ps, packets_info m = Ok ps ->
  (total cq ps <= length (o_questions m))%nat /\ (total ca ps <= length (o_answers m))%nat /\
  (total cu ps <= length (o_authorities m))%nat /\ (total cd ps <= length (o_additionals m))%nat /\
  (Forall (fun p => (1 <= nentries (snd p))%nat) ps ->
     total cq ps = length (o_questions m) /\ total ca ps = length (o_answers m) /\
     total cu ps = length (o_authorities m) /\ total cd ps = length (o_additionals m)).
Proof. exact packets_partition. Qed.

Theorem C14_nonempty : forall m ps, packets_info m = Ok ps ->
  ps <> [] /\ forall i p, nth_error ps i = Some p -> (S i < length ps)%nat -> (1 <= nentries (snd p))%nat.
Proof. exact packets_nonempty. Qed.

Theorem C14_size_exact : forall m ps, packets_info m = Ok ps ->
  Forall (fun p => exists s, plen p = e_size s /\ e_size s = 12 + Z.of_nat (length (e_rev s))) ps.
Proof. exact size_exact_packets. Qed.

Print Assumptions C14_abs.
Print Assumptions C14_typical.
Print Assumptions C14_headers.
Print Assumptions C14_partition.
Print Assumptions C14_nonempty.
Print Assumptions C14_size_exact.

(* the statement "TC on every datagram except the last" taken literally fails only outside the quantifier: an entry
   that does not fit an empty 8966-byte datagram makes packets() stop with an entry-less datagram that still carries TC *)
Example C14_headers_literal_refuted :
  exists m ps, packets_info m = Ok ps /\
    exists i p, nth_error ps i = Some p /\
      firstn 12 (fst p) <> header_of m (Nat.eqb (S i) (length ps)) (snd p).
Proof. exact packets_headers_counterexample. Qed.

(* ---- the model's comparisons are the ones the source writes now (Gen/Sites.v is regenerated from /repo on every run; the conjuncts,
   with the model line each stands for, are spelled out in Proofs/Sites_ops.v) ---- *)
From ZC Require Import Gen.Sites Proofs.Sites_ops.
Theorem C14_site_ops : sites_C14_ops. Proof. exact sites_C14_ops_ok. Qed.
Print Assumptions C14_site_ops.
From ZC Require Import Proofs.Sites_C14.
Theorem C14_site_check_limit : forall st start,
  check_limit_or_rollback st start =
  let limit := if e_allow_long st then C_MAX_MSG_ABSOLUTE else C_MAX_MSG_TYPICAL in
  if sop_apply site_enc_fits (e_size st) limit
  then ({| e_rev := e_rev st; e_size := e_size st; e_names := e_names st; e_allow_long := false |}, true)
  else ({| e_rev := e_rev start; e_size := e_size start;
           e_names := filter (fun ni => negb (sop_apply site_enc_rollback_names (snd ni) (e_size start))) (e_names st);
           e_allow_long := false |}, false).
Proof. exact tie_check_limit. Qed.
Theorem C14_site_character_string : forall st b,
  write_character_string st b =
  let n := Z.of_nat (length b) in
  if sop_apply site_enc_string_limit n site_enc_string_limit_rhs then Raise NamePartTooLong
  else bind (write_byte st n) (fun st' => Ok (write_string st' b)).
Proof. exact tie_character_string. Qed.
Print Assumptions C14_site_check_limit. Print Assumptions C14_site_character_string.
