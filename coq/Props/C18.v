From ZC Require Import Model.Base Model.Info.
Example C18_placeholder : True. Proof. exact I. Qed.
