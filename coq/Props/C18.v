(* C18 - service-info lookup: bounded, cache-first, never from expired data. Statements only.
   Model/Info.v: ServiceInfo._process_record_threadsafe, _load_from_cache and the async_request loop as a state machine whose steps
   are the coroutine's turns and the record-update listener's deliveries; tied to the real AsyncServiceInfo by label replay
   (Corr/C18.v). Vocabulary (Proofs/C18_info.v): lookup = request_start followed by a list of steps (Turn cache now rnd | Update cache
   now records); lookup_punctual = times never decrease and no turn happens later than the coroutine's own wake-up time
   wake_at = min(next query, deadline); live_kind r now k = r is of kind k and not expired at now. *)
From ZC Require Import Model.Base Model.PyRec Model.Dict Model.Cache Model.Query Model.Info Gen.Const Gen.DnsPure Proofs.C18_info.

(* returns no later than its timeout (every legal timeout is non-negative; a negative one returns at once) *)
Theorem C18_bounded : forall c h name t0 timeout forced rnd0 steps r' h' outs t b,
  0 <= timeout -> lookup_punctual c h name t0 timeout forced rnd0 steps ->
  lookup c h name t0 timeout forced rnd0 steps = (r', h', outs) -> In (RReturn t b) outs -> t <= t0 + timeout.
Proof. exact bounded_partial. Qed.

Theorem C18_bounded_any_timeout : forall c h name t0 timeout forced rnd0 steps r' h' outs t b,
  lookup_punctual c h name t0 timeout forced rnd0 steps ->
  lookup c h name t0 timeout forced rnd0 steps = (r', h', outs) -> In (RReturn t b) outs -> t <= Z.max t0 (t0 + timeout).
Proof. exact bounded_general. Qed.

(* a failure is reported exactly at the deadline, and a turn at the wake-up time always makes progress (returns or queries) *)
Theorem C18_false_at_deadline : forall c h name t0 timeout forced rnd0 steps r' h' outs t,
  0 <= timeout -> lookup_punctual c h name t0 timeout forced rnd0 steps ->
  lookup c h name t0 timeout forced rnd0 steps = (r', h', outs) -> In (RReturn t false) outs -> t = t0 + timeout.
Proof. exact false_return_exact. Qed.

Theorem C18_deadline_turn_returns : forall c h name t0 timeout forced rnd0 steps r' h' outs c' rnd,
  lookup c h name t0 timeout forced rnd0 steps = (r', h', outs) -> is_complete (rq_info r') = false ->
  loop_turn c' h' r' (rq_last r') rnd = (set_done r' (Some false), h', [RReturn (t0 + timeout) false]).
Proof. exact timeout_exact. Qed.

(* it succeeds iff by then it knows at least one address *)
Theorem C18_success_iff : forall c h name t0 timeout forced rnd0 steps r' h' outs t b,
  lookup c h name t0 timeout forced rnd0 steps = (r', h', outs) -> In (RReturn t b) outs ->
  (b = true <-> is_complete (rq_info r') = true) /\ (b = false -> t0 + timeout <= t) /\ rq_done r' = Some b /\
  (forall t2 b2, In (RReturn t2 b2) outs -> b2 = b).
Proof. exact return_iff_lookup. Qed.

Theorem C18_complete_iff_address : forall i, is_complete i = true <-> si_v4 i <> [] \/ si_v6 i <> [].
Proof. exact complete_iff. Qed.

(* never from expired data: an expired record changes nothing; host/port/priority/weight only from a live SRV of the instance; TXT only
   from a live TXT of the instance; addresses only from live address records of the current host (or, on a host change, from the live
   cached address records of the new host) *)
Theorem C18_expired_ignored : forall c now i r, DNSRecord_is_expired r now = true -> process_record c now i r = (i, false).
Proof. exact expired_ignored. Qed.

Theorem C18_srv_source : forall c now i r i' u,
  process_record c now i r = (i', u) -> srv_fields i' <> srv_fields i ->
  live_kind r now KService /\ lower (p_name r) = si_key i /\ srv_fields i' = (Some (p_server r), Some (p_port r), p_weight r, p_priority r).
Proof. exact sources_service. Qed.

Theorem C18_txt_source : forall c now i r i' u,
  process_record c now i r = (i', u) -> si_text i' <> si_text i -> live_kind r now KText /\ lower (p_name r) = si_key i /\ si_text i' = p_text r.
Proof. exact sources_text. Qed.

Theorem C18_v4_source : forall c now i r i' u a,
  process_record c now i r = (i', u) -> In a (si_v4 i') ->
  In a (si_v4 i) \/ learnt_from_address now i r a \/ learnt_from_new_host c now i r C_TYPE_A a.
Proof. exact sources_v4. Qed.

Theorem C18_v6_source : forall c now i r i' u a,
  process_record c now i r = (i', u) -> In a (si_v6 i') ->
  In a (si_v6 i) \/ learnt_from_address now i r a \/ learnt_from_new_host c now i r C_TYPE_AAAA a.
Proof. exact sources_v6. Qed.

Theorem C18_cache_addresses_live : forall c now k ty v a,
  In a (addresses_from_cache c now (Some k) ty v) ->
  exists x, In x (get_all_by_details c k ty C_CLASS_IN) /\ p_address x = a /\ DNSRecord_is_expired x now = false.
Proof. exact addresses_from_cache_sound. Qed.

(* cache first: when the cache already suffices nothing is transmitted and the history is untouched *)
Theorem C18_cache_first : forall c h name now timeout rnd forced r h' outs,
  is_complete (load_from_cache c now (sinfo_init name)) = true ->
  request_start c h name now timeout rnd forced = (r, h', outs) ->
  outs = [RReturn now true] /\ h' = h /\ (forall t qu m, ~ In (RSend t qu m) outs) /\ rq_done r = Some true /\
  rq_info r = load_from_cache c now (sinfo_init name).
Proof. exact cache_first_outputs. Qed.

(* first QU (unless a type is forced), then QM; what a query contains is C13_request *)
Theorem C18_question_types : forall c h name t0 timeout forced rnd0 steps r h1 o0 r' h' o,
  request_start c h name t0 timeout rnd0 forced = (r, h1, o0) -> run r h1 steps = (r', h', o) ->
  (forall t qu m, In (RSend t qu m) o0 -> qu = first_question_type forced /\ t = t0) /\
  (forall t qu m, In (RSend t qu m) o -> qu = false).
Proof. exact question_types. Qed.

(* pacing: consecutive query turns are at least 220 ms apart, from the third on at least 1019 ms (draws are 20..120) *)
Theorem C18_pacing : forall c h name t0 timeout forced rnd0 steps k a b,
  Forall draw_ok (Turn c t0 rnd0 :: steps) ->
  nth_error (lookup_query_times c h name t0 timeout forced rnd0 steps) k = Some a ->
  nth_error (lookup_query_times c h name t0 timeout forced rnd0 steps) (S k) = Some b ->
  a + 220 <= b /\ ((2 <= k)%nat -> a + 1019 <= b).
Proof. exact pacing. Qed.

Theorem C18_sends_only_at_query_turns : forall c h name t0 timeout forced rnd0 steps r' h' outs t qu m,
  lookup c h name t0 timeout forced rnd0 steps = (r', h', outs) -> In (RSend t qu m) outs ->
  In t (lookup_query_times c h name t0 timeout forced rnd0 steps).
Proof. exact lookup_sends_at_query_times. Qed.

(* non-vacuity: a lookup against an empty cache that times out (punctually) after one query *)
Example C18_example :
  let name := [120; 46; 95; 116; 46; 95; 116; 99; 112; 46; 108; 111; 99; 97; 108; 46] in
  exists r h outs, lookup empty_cache [] name 1000 200 None 20 [Turn empty_cache 1200 20] = (r, h, outs) /\
                   In (RReturn 1200 false) outs /\ (exists m, In (RSend 1000 true m) outs).
Proof. vm_compute. do 3 eexists. split; [reflexivity|]. split; [right; left; reflexivity|]. eexists. left. reflexivity. Qed.

Print Assumptions C18_bounded. Print Assumptions C18_bounded_any_timeout. Print Assumptions C18_false_at_deadline.
Print Assumptions C18_deadline_turn_returns. Print Assumptions C18_success_iff. Print Assumptions C18_complete_iff_address.
Print Assumptions C18_expired_ignored. Print Assumptions C18_srv_source. Print Assumptions C18_txt_source.
Print Assumptions C18_v4_source. Print Assumptions C18_v6_source. Print Assumptions C18_cache_addresses_live.
Print Assumptions C18_cache_first. Print Assumptions C18_question_types. Print Assumptions C18_pacing.
Print Assumptions C18_sends_only_at_query_turns.

(* ---- the model's comparisons are the ones the source writes now (Gen/Sites.v is regenerated from /repo on every run) ---- *)
From ZC Require Import Gen.Sites Proofs.Sites_C18.
Theorem C18_site_deadline : forall c h r now rnd,
  is_complete (rq_info r) = false -> sop_apply site_info_deadline (rq_last r) now = true ->
  snd (loop_turn c h r now rnd) = [RReturn now false].
Proof. exact tie_loop_deadline. Qed.
Theorem C18_site_idle : forall c h r now rnd,
  is_complete (rq_info r) = false -> sop_apply site_info_deadline (rq_last r) now = false ->
  sop_apply site_info_next_due (rq_next r) now = false ->
  loop_turn c h r now rnd = (r, h, []).
Proof. exact tie_loop_idle. Qed.
Theorem C18_site_query : forall c h r now rnd,
  is_complete (rq_info r) = false -> sop_apply site_info_deadline (rq_last r) now = false ->
  sop_apply site_info_next_due (rq_next r) now = true ->
  let qu := if rq_first r then match rq_forced r with Some b => b | None => true end else false in
  let r' := fst (fst (loop_turn c h r now rnd)) in
  rq_next r' = now + rq_delay r + rnd /\
  rq_delay r' = (if negb qu && sop_apply site_info_delay_floor (rq_delay r) site_info_delay_floor_rhs
                 then site_info_delay_floor_rhs else rq_delay r).
Proof. exact tie_loop_query. Qed.
Theorem C18_site_counts : sites_C18_counts. Proof. exact sites_C18_counts_ok. Qed.
Print Assumptions C18_site_deadline. Print Assumptions C18_site_idle. Print Assumptions C18_site_query. Print Assumptions C18_site_counts.
