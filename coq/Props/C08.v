From ZC Require Import Model.Base Model.Register Model.Node.
Example C08_placeholder : True. Proof. exact I. Qed.
