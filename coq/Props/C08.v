(* C08 - withdrawn services stay withdrawn: complete goodbyes, no resurrection. Statements only.
   Model/Register.v unregister_service, Model/OutQueue.v, and the node LTS Model/Node.v (registry + responder + both outgoing queues +
   tasks), tied to the real instance by label replay (Corr/Node.v).  Vocabulary (Proofs/C08_withdraw.v, C08_queue.v, C08_records.v):
   server_shared g' s = another service left in g' uses the host of s; withdrawn_records g s = the records async_unregister_service
   takes out of the queues (PTR, SRV, TXT, and the address / NSEC records when the host is no longer used); calm l = a label that
   neither registers nor updates a service; InternInv = the interning table has no two entries of one identity, queue groups are dicts,
   queued ids are in the table; tasks_ok W n / bye_ok W n = every unfinished announcement task / the shutdown message of n carries no
   record of W with a positive TTL (the node is settled: no announcement of the service is still in flight). *)
From ZC Require Import Model.Base Model.PyRec Model.Dict Model.Cache Model.Respond Model.Route Model.WireEnc Model.OutQueue
  Model.Register Model.Node Gen.Const Gen.Extra Gen.DnsPure Spec.AnswerSpec
  Proofs.C03_reg Proofs.C08_queue Proofs.C08_records Proofs.C08_withdraw.

(* what is said goodbye to: the registry entry goes; three messages 125 ms apart; every record with TTL 0; PTR, SRV, TXT always, address
   and NSEC records iff no remaining service uses the host; the records taken out of the queues are the same identities *)
Theorem C08_goodbye_content : forall g s g' task withdrawn,
  unregister_service g s = (g', task, withdrawn) ->
  let with_addr := negb (server_shared g' s) in
  let goodbye := broadcast_records s (Some 0) with_addr in
  g' = reg_remove g (s_key s) /\
  (forall t1 t2 t3 t4, bcast_run task [t1; t2; t3; t4] =
     [[BSend t1 goodbye; BSleep 125]; [BSend t2 goodbye; BSleep 125]; [BSend t3 goodbye; BEnd]; [BEnd]]) /\
  (RegInv g' -> (with_addr = true <-> forall s', In s' (registered g') -> s_server_key s' <> s_server_key s)) /\
  (forall r, In r goodbye -> p_ttl r = 0) /\
  (In (dns_pointer (with_ttl s 0)) goodbye /\ In (dns_service (with_ttl s 0)) goodbye /\ In (dns_text (with_ttl s 0)) goodbye) /\
  (forall x, In x (address_and_nsec (with_ttl s 0)) -> (In x goodbye <-> with_addr = true)) /\
  withdrawn = broadcast_records s None with_addr /\
  goodbye = map (set_ttl 0) withdrawn /\
  Forall2 (fun gb w => gen_eq w gb = true) goodbye withdrawn.
Proof. exact goodbye_content. Qed.

(* the queues: once stripped, a withdrawn id is neither an answer nor an additional of anything queued, and stays out as long as
   nothing that mentions it is added; so the queue never emits it again *)
Theorem C08_queue_stripped : forall (K : list Z) (q : oq) (ops : list qop),
  QDict q -> Forall (qop_free_adds K) ops ->
  forall a k adds, In a (snd (qops_run (strip_queue K q) ops)) -> In (k, adds) a ->
    ~ In k K /\ forall x, In x adds -> ~ In x K.
Proof. exact stripped_ids_never_emitted. Qed.

(* THE property, node level: from a settled node, after async_unregister_service nothing the node ever sends again - answers computed
   from the remaining registry, whatever was waiting in the aggregation or protection queue, later withdrawals, shutdown - carries a
   withdrawn record with a positive TTL, as long as no service is registered or updated again *)
Theorem C08_no_resurrection : forall n id now key s n1 outs,
  RegInv (n_reg n) -> InternInv n ->
  d_get text_eqb (g_services (n_reg n)) key = Some s ->
  nstep n (LUnregister id now key) = (n1, outs) ->
  let W := withdrawn_records (n_reg n) s in
  lower (s_type s) <> C_SERVICE_TYPE_ENUMERATION_NAME ->
  tasks_ok W n -> bye_ok W n ->
  forall ls, Forall calm ls ->
  forall outs' t d m r,
    In outs' (nrun n1 ls) -> In (OSend t d m) outs' ->
    In r (map fst (o_answers m) ++ o_additionals m) -> p_ttl r > 0 ->
    forall w, In w W -> gen_eq w r = false.
Proof. exact no_resurrection. Qed.

Theorem C08_withdrawn_records : forall g s w,
  In w (withdrawn_records g s) <->
  w = dns_pointer s \/ w = dns_service s \/ w = dns_text s \/
  (server_shared (reg_remove g (s_key s)) s = false /\ In w (address_and_nsec s)).
Proof. exact withdrawn_records_spec. Qed.

(* the settled-node hypothesis cannot be dropped: a service unregistered while its own announcements are still in flight is announced
   again after the goodbye (the recorded finding C07-withdrawal-during-broadcast) *)
Theorem C08_unsettled_refuted :
  ~ (forall n id now key s n1 outs,
       RegInv (n_reg n) -> InternInv n ->
       d_get text_eqb (g_services (n_reg n)) key = Some s ->
       nstep n (LUnregister id now key) = (n1, outs) ->
       lower (s_type s) <> C_SERVICE_TYPE_ENUMERATION_NAME ->
       forall ls, Forall calm ls ->
       forall outs' t d m r,
         In outs' (nrun n1 ls) -> In (OSend t d m) outs' ->
         In r (map fst (o_answers m) ++ o_additionals m) -> p_ttl r > 0 ->
         forall w, In w (withdrawn_records (n_reg n) s) -> gen_eq w r = false).
Proof. exact no_resurrection_refuted. Qed.

(* the history on which the pinned tree (and the first repair) resurrected a withdrawn AAAA record as an additional now lets nothing
   withdrawn out: two services on one host, s1 with A + AAAA, s2 with the AAAA only; a query queues "A, additional AAAA"; s1 then s2 unregistered *)
Example C08_additional_history :
  map (map (resurrects cxb_W)) (nrun cxb_n (LUnregister 4 5020 (s_key cxb_s2) :: cxb_later)) =
  [[false]; [false; false]; [false; false]; [false; false]; [false]].
Proof. exact cxb_no_resurrection. Qed.

Print Assumptions C08_goodbye_content. Print Assumptions C08_queue_stripped. Print Assumptions C08_no_resurrection.
Print Assumptions C08_withdrawn_records. Print Assumptions C08_unsettled_refuted. Print Assumptions C08_additional_history.
