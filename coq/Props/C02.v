(* C02 - the decoder is total, bounded and faithful on arbitrary datagrams. Statements only.
   parse : Model/WireDec.v mirrors DNSIncoming(data) + .answers() (tied to the code by the correspondence check on
   every generated datagram); decode_catches = the DECODE_EXCEPTIONS tuple regenerated from incoming.py. *)
From ZC Require Import Model.Base Model.PyRec Model.Dict Model.Utf8 Model.WireDec Gen.Const Gen.Shapes Proofs.C02_total.

(* For every byte string, no exception other than the classes the decoder itself catches leaves the constructor or
   answers(): the pointer recursion needs at most 129 frames (hop bound of the repaired code) and no structural fuel ever
   runs out - per name at most 129 frames x (len + 1) loop turns, whatever the compression graph looks like. *)
Theorem C02_total : forall data now scope frames,
  Forall (fun b => 0 <= b < 256) data -> (130 <= frames)%nat ->
  m_escaped (parse data now scope frames) = None.
Proof. exact parse_total_bytes. Qed.
Print Assumptions C02_total.

(* every name handed out - owners, PTR/CNAME targets, SRV hosts, NSEC next names - is at most 253 characters *)
Theorem C02_names : forall data now scope frames,
  Forall (fun r => Forall (fun n => Z.of_nat (length n) <= 253) (names_of r))
         (m_questions (parse data now scope frames) ++ m_answers (parse data now scope frames)).
Proof. exact parse_names. Qed.
Print Assumptions C02_names.
