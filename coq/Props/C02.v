(* C02 - the decoder is total, bounded and faithful on arbitrary datagrams. Statements only.
   parse : Model/WireDec.v mirrors DNSIncoming(data) + .answers() (tied to the code by the correspondence check on
   every generated datagram); decode_catches = the DECODE_EXCEPTIONS tuple regenerated from incoming.py. *)
From ZC Require Import Model.Base Model.PyRec Model.Dict Model.Utf8 Model.WireDec Gen.Const Gen.Shapes Proofs.C02_total.

(* For every byte string, no exception other than the classes the decoder itself catches leaves the constructor or
   answers(): the pointer recursion needs at most 129 frames (hop bound of the repaired code) and no structural fuel ever
   runs out - per name at most 129 frames x (len + 1) loop turns, whatever the compression graph looks like. *)
Theorem C02_total : forall data now scope frames,
  Forall (fun b => 0 <= b < 256) data -> (130 <= frames)%nat ->
  m_escaped (parse data now scope frames) = None.
Proof. exact parse_total_bytes. Qed.
Print Assumptions C02_total.

(* every name handed out - owners, PTR/CNAME targets, SRV hosts, NSEC next names - is at most 253 characters *)
Theorem C02_names : forall data now scope frames,
  Forall (fun r => Forall (fun n => Z.of_nat (length n) <= 253) (names_of r))
         (m_questions (parse data now scope frames) ++ m_answers (parse data now scope frames)).
Proof. exact parse_names. Qed.
Print Assumptions C02_names.

(* Whenever the strict RFC 1035 parser accepts a datagram, the library decoder marks it valid and returns the same id, flags,
   counts, questions and records (unsupported record types are skipped identically by both, so no side condition on types). *)
From ZC Require Import Spec.Rfc1035 Proofs.C02_strict.
Theorem C02_strict : forall data now frames m,
  Forall (fun b => 0 <= b < 256) data -> (130 <= frames)%nat ->
  strict_parse data now = Some m -> s_supported m = true ->
  let p := parse data now None frames in
  m_valid p = true /\ m_escaped p = None /\
  m_id p = s_id m /\ m_flags p = s_flags m /\
  m_nq p = s_nq m /\ m_nans p = s_nan m /\ m_nauth p = s_nau m /\ m_nadd p = s_nad m /\
  m_questions p = s_questions m /\ m_answers p = s_records m.
Proof. exact parse_agrees_with_strict. Qed.
Print Assumptions C02_strict.

(* non-vacuity: a response with a compressed PTR target is accepted by the strict parser *)
Example C02_example :
  let d := [0;0;132;0;0;0;0;1;0;0;0;0; 1;97;5;108;111;99;97;108;0; 0;12;0;1; 0;0;0;120; 0;4; 1;98;192;14] in
  match strict_parse d 7 with Some m => s_supported m = true /\ length (s_records m) = 1%nat | None => False end.
Proof. vm_compute. split; reflexivity. Qed.

(* ---- the model's comparisons are the ones the source writes now (Gen/Sites.v is regenerated from /repo on every run; the conjuncts,
   with the model line each stands for, are spelled out in Proofs/Sites_ops.v) ---- *)
From ZC Require Import Gen.Sites Proofs.Sites_ops.
Theorem C02_site_ops : sites_C02_ops. Proof. exact sites_C02_ops_ok. Qed.
Print Assumptions C02_site_ops.
