From ZC Require Import Model.Base Model.WireDec.
Example C02_placeholder : True. Proof. exact I. Qed.
