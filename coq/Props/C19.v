(* C19 - service names are validated per RFC 6763 and TXT properties round-trip. Statements only.
   service_type_name : Model/Names.v (regex classes and trailer strings regenerated from const.py);
   spec_type         : Spec/Rfc6763Name.v, the documented grammar on the label view of a name. *)
From ZC Require Import Model.Base Model.Re Model.Utf8 Model.Names Model.Dict Model.Txt Spec.Rfc6763Name
  Proofs.C19_names Proofs.C19_txt.

(* The validator accepts exactly the documented forms, returns the service type, and rejects everything
   else with BadTypeInNameException and no other error - for every Unicode text (no lone surrogates). *)
Theorem C19_validator : forall strict s, scalar_text s = true ->
  service_type_name strict s =
  match spec_type strict s with Some t => Ok t | None => Raise BadTypeInName end.
Proof. exact validator_matches_spec. Qed.
Print Assumptions C19_validator.

(* A well-formed properties dictionary (distinct keys without '=', items of at most 255 bytes) encodes to
   TXT bytes that the library decodes to the same keys and values, an empty value read back as no value. *)
Theorem C19_txt_lib : forall d, wf_props d = true ->
  exists b, txt_encode d = Ok b /\ txt_decode b = Some (map (fun kv => (fst kv, norm_empty (snd kv))) d).
Proof. exact txt_roundtrip_lib. Qed.
Print Assumptions C19_txt_lib.

(* ... and that an independent RFC 6763 section 6 reader decodes to exactly the given dictionary. *)
Theorem C19_txt_rfc : forall d, wf_props d = true -> forallb (fun kv => nonempty (fst kv)) d = true ->
  exists b, txt_encode d = Ok b /\ rfc_txt_parse b = Some d.
Proof. exact txt_roundtrip_rfc. Qed.
Print Assumptions C19_txt_rfc.

(* Encoding fails exactly when an item exceeds 255 bytes, and then with ValueError. *)
Theorem C19_txt_err : forall d,
  (txt_encode d = Raise ValueError <-> existsb (fun kv => negb (item_fits kv)) d = true) /\
  (forall e, txt_encode d = Raise e -> e = ValueError).
Proof. exact txt_encode_error. Qed.
Print Assumptions C19_txt_err.

(* Decoding any TXT byte string terminates with a dictionary (the loop's fuel always suffices). *)
Theorem C19_txt_decode_total : forall b, exists d, txt_decode b = Some d.
Proof. exact txt_decode_total. Qed.
Print Assumptions C19_txt_decode_total.

(* non-vacuity: a dotted, non-ASCII instance in front of a valid type; a subtype; a dict that meets wf_props *)
Example C19_example_name :
  scalar_text [77;233;46;120;46;95;104;116;116;112;46;95;116;99;112;46;108;111;99;97;108;46] = true /\
  service_type_name true [77;233;46;120;46;95;104;116;116;112;46;95;116;99;112;46;108;111;99;97;108;46]
  = Ok [95;104;116;116;112;46;95;116;99;112;46;108;111;99;97;108;46] /\
  service_type_name true [95;46;95;116;99;112;46;108;111;99;97;108;46] = Raise BadTypeInName /\
  service_type_name true [95;97;10;46;95;116;99;112;46;108;111;99;97;108;46] = Raise BadTypeInName.
Proof. vm_compute. repeat split. Qed.

Example C19_example_txt :
  wf_props [([97], Some [49]); ([98], None); ([99], Some [])] = true /\
  txt_encode [([97], Some [49]); ([98], None); ([99], Some [])] = Ok [3;97;61;49;1;98;2;99;61].
Proof. vm_compute. repeat split. Qed.
