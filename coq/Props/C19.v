From ZC Require Import Model.Base Model.Names Model.Txt.
Example C19_placeholder : True. Proof. exact I. Qed.
