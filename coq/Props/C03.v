(* C03 - the responder answers exactly what is registered, minus what the querier knows. Statements only.
   Model/Respond.v mirrors ServiceRegistry, the records of a ServiceInfo and QueryHandler.async_response (tied to the
   code by the correspondence check); Spec/AnswerSpec.v: candidates = comprehension over the flat list of services. *)
From ZC Require Import Model.Base Model.PyRec Model.Dict Model.Re Model.Cache Model.Respond Gen.Const Gen.Extra Gen.DnsPure
  Spec.AnswerSpec Proofs.C20_identity Proofs.C03_respond.
From Coq Require Import Permutation.

(* every registry reached by any register / update / unregister sequence has mutually consistent indexes and advertises
   exactly the types of registered services (no empty bucket survives - the C03 repair) *)
Theorem C03_reg_inv : forall ops, RegInv (reg_run ops).
Proof. exact reg_run_inv. Qed.

Theorem C03_unique_names : forall g s, d_mem text_eqb (g_services g) (s_key s) = true ->
  reg_add g s = Raise ServiceNameAlreadyRegistered.
Proof. exact reg_add_duplicate. Qed.

(* the records offered - in whichever routing class - are, up to record identity, exactly the candidates of the questions
   that the querier does not list with more than half the TTL; known-answer lists containing NSEC records are outside
   the claim (as in the property), and C03_nsec_gap shows why: the NSEC branch never consults the known answers *)
Theorem C03_answers : forall g c msgs ucast a, RegInv g ->
  (forall k, In k (known_answers msgs) -> p_kind k <> KNsec) ->
  ((exists r, In r (map fst (all_answers (async_response g c msgs ucast))) /\ gen_eq r a = true) <->
   (exists m q r, In m msgs /\ In q (qm_questions m) /\ In r (candidates (registered g) q) /\
                  suppresses (known_answers msgs) r = false /\ gen_eq r a = true)).
Proof. exact response_exact_no_known_nsec. Qed.

(* completeness holds with no side condition at all: every unsuppressed candidate is offered *)
Theorem C03_complete : forall g c msgs ucast a, RegInv g ->
  (exists m q r, In m msgs /\ In q (qm_questions m) /\ In r (candidates (registered g) q) /\
                 suppresses (known_answers msgs) r = false /\ gen_eq r a = true) ->
  (exists r, In r (map fst (all_answers (async_response g c msgs ucast))) /\ gen_eq r a = true).
Proof. exact response_exact_complete. Qed.

Theorem C03_suppression : forall known r, suppresses known r = true ->
  exists k, In k known /\ gen_eq k r = true /\ p_ttl r < 2 * p_ttl k.
Proof. exact suppresses_spec. Qed.

Theorem C03_ttl : forall svcs q r, In r (candidates svcs q) ->
  (p_name r = C_SERVICE_TYPE_ENUMERATION_NAME /\ p_ttl r = C_DNS_OTHER_TTL) \/
  exists s, In s svcs /\
    ((p_kind r = KPointer \/ p_kind r = KText) /\ p_ttl r = s_other_ttl s \/
     (p_kind r = KService \/ p_kind r = KAddress \/ p_kind r = KNsec) /\ p_ttl r = s_host_ttl s).
Proof. exact candidate_ttls. Qed.

Theorem C03_additional : forall g c msgs ucast r adds x, RegInv g ->
  In (r, adds) (all_answers (async_response g c msgs ucast)) -> In x adds ->
  exists s, In s (registered g) /\ In x (own_additionals s).
Proof. exact additionals_own. Qed.

Theorem C03_case : forall g q q', lower (p_name q) = lower (p_name q') -> p_type_ q = p_type_ q' ->
  get_strategies g q = get_strategies g q'.
Proof. exact response_case_insensitive. Qed.

Print Assumptions C03_reg_inv.
Print Assumptions C03_unique_names.
Print Assumptions C03_answers.
Print Assumptions C03_complete.
Print Assumptions C03_suppression.
Print Assumptions C03_ttl.
Print Assumptions C03_additional.
Print Assumptions C03_case.
