(* C09 - registration probes first, detects conflicts, then announces completely. Statements only.
   Model/Register.v: async_check_service as a coroutine resumed turn by turn (the cache is arbitrary between turns and fixed inside one),
   _async_broadcast_service as a task, register_finish = registry.async_add + announcement task; composed into Model/Node.v and tied to
   the real instance by label replay (Corr/Node.v).  Vocabulary (Proofs/C09_turn.v, C09_run.v): taken_at / free_at c now s = the cache holds
   (does not hold) an unexpired pointer type -> name of s; probe_of now s = CProbe now (QU PTR question for the type) (pointer type -> name);
   run c0 t0 s allow strict [(c1,t1);...] = check_start followed by one check_turn per element (defined only while the previous output
   ended in CWait and times do not decrease); events = every output tagged with the cache of its turn and the name in force;
   on_time = no turn later than the wake-up the coroutine asked for; punctual = exactly then; cand inst ty n = inst-n.ty. *)
From ZC Require Import Model.Base Model.PyRec Model.Dict Model.Names Model.Cache Model.Respond Model.Register Gen.Const Gen.DnsPure
  Spec.AnswerSpec Proofs.C03_reg Proofs.C09_dec Proofs.C09_turn Proofs.C09_run Proofs.C09_register.

(* no conflict and a punctual loop: exactly probe, wait 175, probe, wait 175, probe, done - with the name unchanged *)
Theorem C09_quiet_run : forall c0 t0 s allow strict ts tr,
  run c0 t0 s allow strict ts = Some tr -> (forall st, In st tr -> free_at (st_cache st) (st_now st) s) -> punctual tr ->
  length tr = S (length ts) /\ (length tr <= 3)%nat /\ map step_view tr = firstn (length tr) (quiet_steps t0 s).
Proof. exact quiet_run. Qed.

(* whatever happened before (conflicts, renames, early wake-ups): a registration that completes has sent three probes for the final name
   175 ms apart, nothing but waits in between, the name was free in the cache at each of the three instants, and the check returns in the
   very turn of the third probe (announcements can only follow it) *)
Theorem C09_three_probes : forall c0 now0 s allow strict ts tr0 stf,
  run c0 now0 s allow strict ts = Some (tr0 ++ [stf]) -> on_time (tr0 ++ [stf]) -> ends_with (st_outs stf) CDone ->
  let sf := ck_svc (st_state stf) in
  exists pre c1 t1 w1 c2 t2 w2 c3 t3,
    events (tr0 ++ [stf]) = pre ++ [probe_ev c1 t1 sf] ++ w1 ++ [probe_ev c2 t2 sf] ++ w2 ++ [probe_ev c3 t3 sf; (c3, sf, CDone)] /\
    only_waits sf w1 /\ only_waits sf w2 /\
    t1 < t2 < t3 /\ t1 + 175 <= t2 /\ t2 + 175 <= t3 /\ t2 = t1 + 175 /\ t3 = t2 + 175 /\
    free_at c1 t1 sf /\ free_at c2 t2 sf /\ free_at c3 t3 sf.
Proof. exact done_after_three_probes_partial. Qed.

(* the same without any assumption on the schedule: late turns can only stretch the gaps (or send overdue probes back to back) *)
Theorem C09_three_probes_any_schedule : forall c0 now0 s allow strict ts tr0 stf,
  run c0 now0 s allow strict ts = Some (tr0 ++ [stf]) -> ends_with (st_outs stf) CDone ->
  let sf := ck_svc (st_state stf) in
  exists pre c1 t1 w1 c2 t2 w2 c3 t3,
    events (tr0 ++ [stf]) = pre ++ [probe_ev c1 t1 sf] ++ w1 ++ [probe_ev c2 t2 sf] ++ w2 ++ [probe_ev c3 t3 sf; (c3, sf, CDone)] /\
    only_waits sf w1 /\ only_waits sf w2 /\ t1 + 175 <= t2 /\ t1 + 350 <= t3 /\ t2 <= t3 /\
    free_at c1 t1 sf /\ free_at c2 t2 sf /\ free_at c3 t3 sf.
Proof. exact done_after_three_probes_any_schedule. Qed.

(* a name that is advertised in the cache at the last probe check is never registered *)
Theorem C09_never_registers_taken_name : forall c0 now0 s allow strict ts tr0 stf,
  run c0 now0 s allow strict ts = Some (tr0 ++ [stf]) -> ends_with (st_outs stf) CDone ->
  current_entry_with_name_and_alias (st_cache stf) (st_now stf) (s_type (ck_svc (st_state stf))) (s_name (ck_svc (st_state stf))) = None.
Proof. exact never_registers_taken_name. Qed.

(* every probe is a QU PTR question for the type with the proposed pointer as authority, sent only for a name that is free at that instant *)
Theorem C09_probe_shape : forall c now k k' outs t q auth, check_turn c now k = (k', outs) -> In (CProbe t q auth) outs ->
  t = now /\ q = probe_question (ck_svc k') /\ auth = dns_pointer (ck_svc k') /\
  p_name q = s_type (ck_svc k) /\ p_type_ q = C_TYPE_PTR /\ p_class_ q = C_CLASS_IN_UNIQUE /\
  current_entry_with_name_and_alias c now (s_type (ck_svc k')) (s_name (ck_svc k')) = None.
Proof. exact turn_probes. Qed.

(* conflict without permission to rename: NonUniqueNameException, nothing sent *)
Theorem C09_conflict_raises : forall c now k, ck_i k < 3 -> taken_at c now (ck_svc k) -> ck_allow k = false ->
  check_turn c now k = (k, [CRaise NonUniqueName]).
Proof. exact turn_conflict_no_rename. Qed.

(* conflict with permission: the first free '-N' suffix from the running number on; every candidate passed over was taken; probing restarts
   for the new name in the same turn *)
Theorem C09_conflict_renames : forall c now k k' outs,
  ck_i k < 3 -> taken_at c now (ck_svc k) -> ck_allow k = true -> check_turn c now k = (k', outs) -> (forall e, ~ In (CRaise e) outs) ->
  exists N, ck_num k <= N /\ ck_num k' = N + 1 /\
    ck_svc k' = with_name (ck_svc k) (cand (ck_instance k) (s_type (ck_svc k)) N) /\
    s_name (ck_svc k') <> s_name (ck_svc k) /\
    (forall j, ck_num k <= j < N -> name_taken c now (s_type (ck_svc k)) (cand (ck_instance k) (s_type (ck_svc k)) j)) /\
    free_at c now (ck_svc k') /\
    (forall t q auth, In (CProbe t q auth) outs -> t = now /\ q = probe_question (ck_svc k') /\ auth = dns_pointer (ck_svc k')) /\
    In (probe_of now (ck_svc k')) outs.
Proof. exact turn_rename_partial. Qed.

(* the loops of the model never run out of fuel (the '-N' suffixes are pairwise different decimal numerals) *)
Theorem C09_dec_injective : forall a b, 0 <= a -> 0 <= b -> dec a = dec b -> a = b.
Proof. exact dec_inj. Qed.
Theorem C09_fuel : forall c now k, 2 <= ck_num k -> 0 <= ck_i k -> ~ In (CRaise OtherError) (snd (check_turn c now k)).
Proof. exact turn_never_out_of_fuel. Qed.

(* announcements: three messages 225 ms apart, each with the PTR, SRV, TXT, every address and the NSEC record (iff an address family is
   missing); cache-flush bit on every record but the shared PTR *)
Theorem C09_announce_three : forall s a1 a2 a3, let recs := broadcast_records s None true in
  announce_task s = announce_left s 3 /\
  bcast_turn (announce_left s 3) a1 = (announce_left s 2, [BSend a1 recs; BSleep 225]) /\
  bcast_turn (announce_left s 2) a2 = (announce_left s 1, [BSend a2 recs; BSleep 225]) /\
  bcast_turn (announce_left s 1) a3 = (announce_left s 0, [BSend a3 recs; BEnd]) /\
  (forall a, bcast_turn (announce_left s 0) a = (announce_left s 0, [BEnd])).
Proof. exact announce_three. Qed.

Theorem C09_announce_content : forall s, broadcast_records s None true =
  [dns_pointer s; dns_service s; dns_text s] ++ map (a_record s) (s_v4 s) ++ map (aaaa_record s) (s_v6 s) ++ nsec_part s.
Proof. exact broadcast_records_content. Qed.

Theorem C09_nsec_iff : forall s,
  (exists r, In r (broadcast_records s None true) /\ p_kind r = KNsec) <-> (s_v4 s = [] \/ s_v6 s = []).
Proof. exact nsec_iff_family_missing. Qed.

Theorem C09_flush_bits : forall s ov b, exists p rest, broadcast_records s ov b = p :: rest /\
  p_kind p = KPointer /\ DNSEntry_unique p = false /\ (forall r, In r rest -> DNSEntry_unique r = true).
Proof. exact broadcast_unique_flags. Qed.

(* one instance never holds the same name twice *)
Theorem C09_one_name_once : forall g k,
  (register_finish g k = Raise ServiceNameAlreadyRegistered <-> In (lower (s_name (ck_svc k))) (map fst (g_services g))) /\
  (forall e, register_finish g k = Raise e -> e = ServiceNameAlreadyRegistered).
Proof. exact register_finish_fails_iff. Qed.

Theorem C09_registry_stays_consistent : forall ops k g' b, register_finish (reg_run ops) k = Ok (g', b) ->
  g' = reg_run (ops ++ [OpAdd (ck_svc k)]) /\ RegInv g' /\ NoDup (map fst (g_services g')).
Proof. exact register_finish_reachable. Qed.

(* the sketch "every turn's gap is 175" is false for late turns: overdue probes go out back to back *)
Example C09_late_turn_refuted :
  option_map (map st_outs) (run empty_cache 0 run_svc false true [(empty_cache, 1000)]) =
  Some [[probe_of 0 run_svc; CWait 175]; [probe_of 1000 run_svc; probe_of 1000 run_svc; CDone]].
Proof. exact late_turn_sends_probes_back_to_back. Qed.

Print Assumptions C09_quiet_run. Print Assumptions C09_three_probes. Print Assumptions C09_three_probes_any_schedule.
Print Assumptions C09_never_registers_taken_name. Print Assumptions C09_probe_shape. Print Assumptions C09_conflict_raises.
Print Assumptions C09_conflict_renames. Print Assumptions C09_dec_injective. Print Assumptions C09_fuel.
Print Assumptions C09_announce_three. Print Assumptions C09_announce_content. Print Assumptions C09_nsec_iff.
Print Assumptions C09_flush_bits. Print Assumptions C09_one_name_once. Print Assumptions C09_registry_stays_consistent.
Print Assumptions C09_late_turn_refuted.

(* ---- the model's comparisons are the ones the source writes now (Gen/Sites.v is regenerated from /repo on every run; the conjuncts,
   with the model line each stands for, are spelled out in Proofs/Sites_ops.v) ---- *)
From ZC Require Import Gen.Sites Proofs.Sites_ops.
Theorem C09_site_ops : sites_C09_ops. Proof. exact sites_C09_ops_ok. Qed.
Print Assumptions C09_site_ops.
From ZC Require Import Proofs.Sites_C09.
Theorem C09_site_check_loop : forall f c now k acc,
  check_loop (S f) c now k acc =
  if negb (sop_apply site_reg_probe_count (ck_i k) site_reg_probe_count_rhs) then (k, acc ++ [CDone]) else
  match rename_loop (rename_fuel c k) c now k with
  | None => (k, acc ++ [CRaise OtherError])
  | Some (Raise e) => (k, acc ++ [CRaise e])
  | Some (Ok k1) =>
      if sop_apply site_reg_probe_wait now (ck_next k1) then (k1, acc ++ [CWait (ck_next k1 - now)])
      else
        check_loop f c now
          {| ck_svc := ck_svc k1; ck_instance := ck_instance k1; ck_num := ck_num k1;
             ck_next := ck_next k1 + C_CHECK_TIME; ck_i := ck_i k1 + 1;
             ck_allow := ck_allow k1; ck_strict := ck_strict k1 |}
          (acc ++ [CProbe now (probe_question (ck_svc k1)) (dns_pointer (ck_svc k1))])
  end.
Proof. exact tie_check_loop. Qed.
Print Assumptions C09_site_check_loop.
