From ZC Require Import Model.Base Model.Register Model.Node Model.Front.
Example C15_placeholder : True. Proof. exact I. Qed.
