(* C15 - a running instance survives any datagram stream. Statements only.
   Model/Front.v: AsyncListener.datagram_received (size guard, duplicate guard, DNSIncoming = WireDec.parse, dispatch, deferral of
   truncated queries) in front of the node LTS (Model/Node.v) and the encoder (WireEnc.packets) behind it; an [ORaise e] in the output
   of a datagram / timer label is an exception that would leave the handler and reach the event loop.  Tied to the real instance by
   byte-level label replay incl. the final cache (Corr/Front.v).
   Vocabulary (Proofs/C15_front.v, C15_svc.v): is_byte b = 0 <= b < 256; wire_label f l = l is a datagram of bytes, or the reassembly
   timer of an address that has one pending; RegEncodable g = every record of every registered service can be written by the encoder
   (names <= 253 chars without lone surrogates and with labels <= 63 UTF-8 bytes, 16-bit port/weight/priority, 32-bit TTLs; sufficient
   field-level condition: svc_fields_encodable); run_ok = a run of datagrams, pending timers and node labels that keep RegEncodable. *)
From ZC Require Import Model.Base Model.PyRec Model.Dict Model.Cache Model.Ingest Model.Respond Model.Route Model.WireDec Model.WireEnc
  Model.OutQueue Model.Register Model.Listener Model.Node Model.Front Gen.Const Gen.DnsPure Spec.CacheSpec Spec.AnswerSpec
  Proofs.C01_defs Proofs.C01_record Proofs.C11_lemmas Proofs.C11_route Proofs.C15_enc Proofs.C15_resp Proofs.C15_svc Proofs.C15_front
  Proofs.C15_a1 Proofs.C15_a2 Proofs.C15_a3 Proofs.C15_a4 Proofs.C15_a5 Proofs.C15_alive.

(* THE property: along every legitimate run, whatever bytes arrive next (and whichever pending reassembly timer fires), no exception
   leaves the handler; the invariants (listener bookkeeping, registry, cache, encodability) hold again afterwards; the registry is untouched *)
Theorem C15_no_exception_escapes : forall ls, run_ok fnode_init ls ->
  let f := fstate fnode_init ls in
  (FInv f /\ RegInv (n_reg (f_node f)) /\ Inv (n_cache (f_node f)) /\ RegEncodable (n_reg (f_node f))) /\
  forall l, wire_label f l ->
    let f' := fst (fstep f l) in
    (forall e, ~ In (ORaise e) (snd (fstep f l))) /\
    FInv f' /\ RegInv (n_reg (f_node f')) /\ Inv (n_cache (f_node f')) /\ RegEncodable (n_reg (f_node f')) /\
    n_reg (f_node f') = n_reg (f_node f).
Proof. exact no_exception_escapes. Qed.

(* datagrams over 8966 bytes are ignored: no output, no state change whatsoever; 8966 bytes are still processed *)
Theorem C15_oversize_ignored : forall f data addr port now tc rq rd,
  C_MAX_MSG_ABSOLUTE < Z.of_nat (length data) -> fstep f (FDatagram data addr port now tc rq rd) = (f, []).
Proof. exact oversize_ignored. Qed.

Theorem C15_at_limit_processed : forall f data addr port now tc rq rd, Forall is_byte data ->
  Z.of_nat (length data) <= C_MAX_MSG_ABSOLUTE -> is_duplicate (f_ls f) data now = false ->
  ls_data (f_ls (fst (fstep f (FDatagram data addr port now tc rq rd)))) = Some data.
Proof. exact at_limit_processed. Qed.

(* the decoder lets nothing out for any byte string (C02_total at the frame budget of the model) *)
Theorem C15_decoder_contained : forall data now, Forall is_byte data -> m_escaped (parse data now None FRAMES) = None.
Proof. exact decoder_contained. Qed.

(* it keeps working: a datagram or timer never touches the registry, the registrations in progress, the announcement tasks or the
   done flag - whatever arrives, every registered service is still there to be answered for (what is answered: C03, C11) *)
Theorem C15_datagrams_touch_only : forall f l, (match l with FNode _ => False | _ => True end) ->
  let n := f_node f in let n' := f_node (fst (fstep f l)) in
  n_reg n' = n_reg n /\ n_checks n' = n_checks n /\ n_tasks n' = n_tasks n /\ n_bye n' = n_bye n /\ n_done n' = n_done n.
Proof. exact datagrams_touch_only. Qed.

(* the listener's deferred-packet bookkeeping never leaves a timer without packets: `packets[0]` cannot fail *)
Theorem C15_no_index_error : forall f l, FInv f -> timer_ok f l ->
  In (ORaise IndexError) (snd (fstep f l)) -> exists m, packets m = Raise IndexError.
Proof. exact no_index_error. Qed.

Theorem C15_listener_invariant : FInv fnode_init /\ forall f l, FInv f -> FInv (fst (fstep f l)).
Proof. exact (conj FInv_init FInv_step). Qed.

(* the model's silent fallbacks (cache left unchanged when ingestion or purge raises) are never taken along a run *)
Theorem C15_fallbacks_never_taken : forall ls, run_ok fnode_init ls ->
  let c := n_cache (f_node (fstate fnode_init ls)) in
  (forall now answers, exists c', i_final (ingest now answers c) = Ok c' /\ Inv c') /\
  (forall now, exists c', pg_final (purge now c) = Ok c' /\ Inv c').
Proof. exact fallbacks_never_taken. Qed.

(* everything the encoder can raise, for any message; what is sent in reply to a query is writable, except that the echo of a
   question received with invalid UTF-8 may exceed a label - which only happens in unicast replies and is dropped (the C15 repair) *)
Theorem C15_encoder_raises_only : forall m e, packets m = Raise e ->
  In e [NamePartTooLong; UnicodeError; IndexError; StructError; ValueError; OtherError].
Proof. exact packets_raises_only. Qed.

Theorem C15_replies_encodable : forall n now msgs id addr port rq rd, RegInv (n_reg n) -> RegEncodable (n_reg n) -> QueryOk msgs id ->
  (forall t dest m, In (OSend t dest m) (snd (nstep n (LQuery now msgs id addr port rq rd))) ->
     match dest with None => exists ps, packets m = Ok ps
     | Some _ => (exists ps, packets m = Ok ps) \/ packets m = Raise NamePartTooLong end) /\
  (forall e, ~ In (ORaise e) (send_gate (snd (nstep n (LQuery now msgs id addr port rq rd))))).
Proof. exact (proj2 (proj2 encoder_contained)). Qed.

Theorem C15_encodable_services : forall s, svc_fields_ok s -> Forall rec_encodable (svc_records s).
Proof. exact svc_fields_encodable. Qed.

(* ... AND THE INSTANCE KEEPS WORKING: after any legitimate run (any datagram stream), the datagram that encodes a well-formed SRV question
   for a registered service (any letter case), arriving from the mDNS port, not a byte-identical repeat within the duplicate window and with
   no truncated query of that source pending, is answered: multicast at once - or, when the record was multicast less than a second ago,
   queued in the protected queue, from which the next LReady at or after now + 1200 ms sends it *)
Theorem C15_still_answered : forall ls s name addr now tc rq rd,
  run_ok fnode_init ls ->
  let f := fstate fnode_init ls in  let n := f_node f in
  In s (registered (n_reg n)) -> n_done n = false -> wf_name name -> lower name = s_key s ->
  let data := query_bytes (mkq name C_TYPE_SRV) in
  is_duplicate (f_ls f) data now = false -> d_get text_eqb (ls_deferred (f_ls f)) addr = None ->
  let l := FDatagram data addr C_MDNS_PORT now tc rq rd in  let n' := f_node (fst (fstep f l)) in
  (last_second (n_cache n) now (dns_service s) = false /\
   snd (fstep f l) = [OSend now None (srv_multicast s)] /\ o_answers (srv_multicast s) = [(dns_service s, 0)] /\
   ttl_field (dns_service s) 0 = s_host_ttl s /\ (exists ps, packets (srv_multicast s) = Ok ps) /\ n' = n)
  \/
  (last_second (n_cache n) now (dns_service s) = true /\
   snd (fstep f l) = [] /\ n_q n' = n_q n /\
   exists k ids, names_id (n_tbl n') k (dns_service s) /\ n_qd n' = async_add (n_qd n) now now rd [(k, ids)] /\ queued k (n_qd n')).
Proof. exact still_answered. Qed.

Theorem C15_still_answered_in_time : forall ls T0 s name addr now tc rq rd,
  run_ok fnode_init ls -> timed_run T0 ls -> end_time T0 ls <= now -> 20 <= rq <= 120 -> 20 <= rd <= 120 ->
  let f := fstate fnode_init ls in  let n := f_node f in
  In s (registered (n_reg n)) -> n_done n = false -> wf_name name -> lower name = s_key s ->
  let data := query_bytes (mkq name C_TYPE_SRV) in
  is_duplicate (f_ls f) data now = false -> d_get text_eqb (ls_deferred (f_ls f)) addr = None ->
  let l := FDatagram data addr C_MDNS_PORT now tc rq rd in  let f' := fst (fstep f l) in
  snd (fstep f l) = [OSend now None (srv_multicast s)] \/
  forall t, now + 1200 <= t ->
    exists m x, snd (fstep f' (FNode (LReady true t))) = [OSend t None m] /\ In (x, 0) (o_answers m) /\
                gen_eq x (dns_service s) = true /\ o_multicast m = true.
Proof. exact still_answered_in_time. Qed.

(* the same query from a legacy source port is answered by unicast at once, with the question echoed *)
Theorem C15_still_answered_unicast : forall ls s name addr port now tc rq rd,
  run_ok fnode_init ls ->
  let f := fstate fnode_init ls in  let n := f_node f in
  In s (registered (n_reg n)) -> n_done n = false -> wf_name name -> lower name = s_key s -> port <> C_MDNS_PORT ->
  let data := query_bytes (mkq name C_TYPE_SRV) in
  is_duplicate (f_ls f) data now = false -> d_get text_eqb (ls_deferred (f_ls f)) addr = None ->
  let l := FDatagram data addr port now tc rq rd in  let um := srv_unicast s now name 0 in
  o_answers um = [(dns_service s, 0)] /\ o_questions um = [q_seen now name C_TYPE_SRV] /\ o_id um = 0 /\ o_multicast um = false /\
  (exists ps, packets um = Ok ps) /\
  exists rest, snd (fstep f l) = OSend now (Some (addr, port)) um :: rest /\
    (rest = [OSend now None (srv_multicast s)] \/
     rest = [] /\ exists k, names_id (n_tbl (f_node (fst (fstep f l)))) k (dns_service s) /\ queued k (n_qd (f_node (fst (fstep f l))))).
Proof. exact still_answered_unicast. Qed.

(* the datagram in question: what the encoder makes of a one-question query is decoded back to exactly that question *)
Theorem C15_query_datagram : forall name ty now, wf_name name -> In ty [C_TYPE_SRV; C_TYPE_TXT; C_TYPE_A; C_TYPE_AAAA; C_TYPE_PTR; C_TYPE_ANY] ->
  let q := mkq name ty in  let m := query_msg q in  let data := query_bytes q in
  packets m = Ok [data] /\ Forall is_byte data /\ Z.of_nat (length data) <= C_MAX_MSG_ABSOLUTE /\
  let p := parse data now None FRAMES in  let lm := lmsg_of data p in
  m_valid p = true /\ m_escaped p = None /\ m_id p = 0 /\
  lm_valid lm = true /\ lm_is_query lm = true /\ lm_truncated lm = false /\ lm_has_qu lm = false /\
  m_questions p = [q_seen now name ty] /\ m_answers p = [] /\
  qmsg_of p now = {| qm_questions := [q_seen now name ty]; qm_answers := []; qm_is_probe := false; qm_now := now |}.
Proof. exact query_datagram. Qed.

(* the hypotheses are needed and satisfiable *)
Example C15_example_run :
  let ls := [ex_register ex_host; FDatagram ex_query [49] 5353 1000 450 20 20] in
  run_ok fnode_init ls /\
  (exists m, snd (fstep (fstate fnode_init [ex_register ex_host]) (FDatagram ex_query [49] 5353 1000 450 20 20)) = [OSend 1000 None m]) /\
  (exists m1 m2, snd (fstep (fstate fnode_init [ex_register ex_host]) (FDatagram ex_query [49] 1234 1000 450 20 20))
             = [OSend 1000 (Some ([49], 1234)) m1; OSend 1000 None m2]).
Proof. exact ex_run. Qed.

Example C15_unencodable_service_refuted :
  let bad_host := repeat 65533 22 ++ [46;108;111;99;97;108;46] in
  let f := fstate fnode_init [ex_register bad_host] in
  snd (fstep fnode_init (ex_register bad_host)) = [OChecked; ORegistered [ex_name]] /\
  snd (fstep f (FDatagram ex_query [49] 5353 1000 450 20 20)) = [ORaise NamePartTooLong].
Proof. exact ex_unencodable_service_escapes. Qed.

Example C15_bad_question_dropped :
  let f := fstate fnode_init [ex_register ex_host] in snd (fstep f (FDatagram ex_query_bad [49] 1234 1000 450 20 20)) = [].
Proof. exact ex_bad_question_dropped. Qed.

Example C15_timer_side_condition : snd (fstep fnode_init (FTimer [49] 5353 1000 20 20)) = [ORaise IndexError].
Proof. exact timer_not_pending_raises. Qed.

Print Assumptions C15_no_exception_escapes. Print Assumptions C15_oversize_ignored. Print Assumptions C15_at_limit_processed.
Print Assumptions C15_decoder_contained. Print Assumptions C15_datagrams_touch_only. Print Assumptions C15_no_index_error.
Print Assumptions C15_listener_invariant. Print Assumptions C15_fallbacks_never_taken. Print Assumptions C15_encoder_raises_only.
Print Assumptions C15_replies_encodable. Print Assumptions C15_encodable_services. Print Assumptions C15_example_run.
Print Assumptions C15_still_answered. Print Assumptions C15_still_answered_in_time. Print Assumptions C15_still_answered_unicast.
Print Assumptions C15_query_datagram. Print Assumptions C15_unencodable_service_refuted. Print Assumptions C15_bad_question_dropped. Print Assumptions C15_timer_side_condition.
