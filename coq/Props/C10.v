From ZC Require Import Model.Base Model.Browser.
Example C10_placeholder : True. Proof. exact I. Qed.
