(* C10 - the browser keeps learned services alive: refresh queries, rate limit, liveness. Statements only.
   Model/Sched.v: QueryScheduler as a labelled transition system (including the two repairs made to the code), tied to the real
   scheduler by replaying the logged handler invocations of a browsing host (shared with C04). Vocabulary: Proofs/C10_defs.v
   (trun = timed run built from sstep, fires, refresh_passes, punctual, well_timed, live, post_startup, refreshed_by, rescue_chain). *)
From ZC Require Import Model.Base Model.Dict Model.Sched Gen.Const Proofs.C10_defs Proofs.C10_steps Proofs.C10_sched.

(* the four start-up queries: after a random delay, then 1 s, 4 s and 9 s apart; the first is QU exactly when no question type is
   forced; after the fourth the refresh timer is armed one inter-query delay later. Pointer events interleaved anywhere do not matter. *)
Theorem C10_startup : forall types delay qnone t0 rnd ls es,
  trun types (sched_init delay qnone) ((LStart t0 rnd, t0) :: ls) = Some es ->
  Forall ptr_or_fire (map fst ls) -> punctual es ->
  forall i e, (i < 4)%nat -> nth_error (fires es) i = Some e ->
    pass_kind e = Some TStartup /\ e_time e = startup_time t0 rnd i /\
    e_out e = [startup_send types qnone t0 rnd i] /\
    (i = 3%nat -> sc_next_run (e_post e) = Some (e_time e + delay, TReady) /\
                  sc_min_next (e_post e) = e_time e + delay).
Proof. exact start_up. Qed.

(* after start-up successive queries are at least the configured delay apart - for every label order, late timers included *)
Theorem C10_rate : forall types delay qnone t0 rnd ls es,
  trun types (sched_init delay qnone) ((LStart t0 rnd, t0) :: ls) = Some es ->
  Forall ptr_or_fire (map fst ls) -> well_timed es ->
  spaced delay (map ss_now (skipn 4 (trace es))).
Proof. exact rate_limit_trace. Qed.

(* the scheduler keeps running for as long as the browser is active *)
Theorem C10_live : forall types s t0 rnd ls s' tr,
  ~ In LStop ls -> srun types s (LStart t0 rnd :: ls) [] = Some (s', tr) ->
  sc_next_run s' <> None.
Proof. exact liveness. Qed.

(* every pointer that stays unrefreshed and unwithdrawn is asked for at its scheduled instant (75 % of the TTL, then +10 % steps),
   at most one inter-query delay late, and the next rescue query is scheduled iff it falls before the expiry *)
Theorem C10_refresh : forall types delay qnone t0 rnd ls1 ls2 es1 es2 q,
  0 <= delay -> 0 <= t0 + rnd ->
  trun types (sched_init delay qnone) ((LStart t0 rnd, t0) :: ls1) = Some es1 ->
  Forall ptr_or_fire (map fst ls1) -> well_timed es1 -> (4 <= length (fires es1))%nat ->
  let s := final (sched_init delay qnone) es1 in
  live s q -> last_time t0 es1 <= sq_when q ->
  trun types s ls2 = Some es2 -> punctual es2 ->
  Forall (untouched (sq_alias q)) (map fst ls2) ->
  (exists e, In e es2 /\ sq_when q + delay < e_time e) ->
  exists es3 e es4, es2 = es3 ++ e :: es4 /\ refreshed_by q e /\ rescue_chain q e /\
    sq_when q <= e_time e <= sq_when q + delay.
Proof. exact refresh_on_time_run. Qed.

(* the general bound, with no assumption on when the query was scheduled: the rate limit may hold it until sc_min_next *)
Theorem C10_refresh_general : forall types s q ls es,
  WF s -> post_startup s -> live s q -> trun types s ls = Some es -> punctual es ->
  Forall (untouched (sq_alias q)) (map fst ls) ->
  (exists e, In e es /\ Z.max (sq_when q + sc_delay s) (sc_min_next s) < e_time e) ->
  exists es1 e es2, es = es1 ++ e :: es2 /\ live (e_pre e) q /\ refreshed_by q e /\ rescue_chain q e /\
    sq_when q <= e_time e <= Z.max (sq_when q + sc_delay s) (sc_min_next s).
Proof. exact refresh_on_time_general. Qed.

(* refreshed or withdrawn pointers cause no query on their old schedule *)
Theorem C10_cancelled : forall types s ls es c,
  WF s -> trun types s ls = Some es -> In c (sc_heap s) -> sq_cancelled c = true ->
  forall e x, In e es -> In x (e_ready e) -> sq_id x <> sq_id c.
Proof. exact cancelled_silent. Qed.

(* a refresh whose 75 % point lies within the inter-query delay of the scheduled one keeps the schedule (no churn), and only then:
   the result is the old scheduler with that one entry re-timed - it takes over TTL and expiry of the refreshed record; ids, times,
   heap order, alias table, fresh counter and armed timer are as before *)
Theorem C10_no_churn : forall s a n created ttl,
  (exists cur, registered_query s a = Some cur /\ Z.abs (created + 750 * ttl - sq_when cur) <= sc_delay s) <->
  (exists id, d_get text_eqb (sc_by_alias s) a = Some id /\ find_id (sc_heap s) id <> None /\
     reschedule_ptr_first_refresh s a n created ttl =
       with_heap_alias_fresh s (retime_id (sc_heap s) id ttl (created + 1000 * ttl)) (sc_by_alias s) (sc_fresh s)).
Proof. exact no_churn. Qed.

(* ... and the query registered for the alias afterwards carries the TTL and expiry of the refreshed record, at the old time *)
Theorem C10_no_churn_takes_ttl : forall s a n created ttl cur,
  registered_query s a = Some cur -> Z.abs (created + 750 * ttl - sq_when cur) <= sc_delay s ->
  exists cur', registered_query (reschedule_ptr_first_refresh s a n created ttl) a = Some cur' /\
    sq_ttl cur' = ttl /\ sq_expire cur' = created + 1000 * ttl /\
    sq_when cur' = sq_when cur /\ sq_id cur' = sq_id cur /\
    sq_alias cur' = sq_alias cur /\ sq_name cur' = sq_name cur /\ sq_cancelled cur' = sq_cancelled cur.
Proof. exact no_churn_takes_ttl. Qed.

Print Assumptions C10_startup.
Print Assumptions C10_rate.
Print Assumptions C10_live.
Print Assumptions C10_refresh.
Print Assumptions C10_refresh_general.
Print Assumptions C10_cancelled.
Print Assumptions C10_no_churn.
Print Assumptions C10_no_churn_takes_ttl.

(* non-vacuity: PTR ttl 4500 learned at 20 s, PTR ttl 1200 at 60 s, delay 10 s - the history on which the unrepaired code sent
   nothing for the second pointer before it expired - yields a refresh query at 960 000 ms *)
Check two_pointers.
Check refresh_on_time_applies.

(* ---- the model's comparisons are the ones the source writes now (Gen/Sites.v is regenerated from /repo on every run; the conjuncts,
   with the model line each stands for, are spelled out in Proofs/Sites_ops.v) ---- *)
From ZC Require Import Gen.Sites Proofs.Sites_ops.
Theorem C10_site_ops : sites_C10_ops. Proof. exact sites_C10_ops_ok. Qed.
Print Assumptions C10_site_ops.
From ZC Require Import Proofs.Sites_C10.
Theorem C10_site_rescue : forall s q now,
  schedule_rescue s q now =
  let next := now + (sq_ttl q * 1000 * C_RESCUE_RECORD_RETRY_TTL_PERCENTAGE_num) / C_RESCUE_RECORD_RETRY_TTL_PERCENTAGE_den in
  if sop_apply site_sched_rescue_past_expiry next (sq_expire q) then s
  else push s (sq_alias q) (sq_name q) (sq_ttl q) (sq_expire q) next.
Proof. exact tie_schedule_rescue. Qed.
Theorem C10_site_no_churn : forall s alias name created ttl id cur,
  d_get text_eqb (sc_by_alias s) alias = Some id -> find_id (sc_heap s) id = Some cur ->
  let refresh := created + C_EXPIRE_REFRESH_TIME_PERCENT * ttl * 10 in
  let expire := created + 100 * ttl * 10 in
  reschedule_ptr_first_refresh s alias name created ttl =
  if sop_apply site_sched_no_churn_1 (- sc_delay s) (refresh - sq_when cur) && sop_apply site_sched_no_churn_2 (refresh - sq_when cur) (sc_delay s)
  then with_heap_alias_fresh s (retime_id (sc_heap s) id ttl expire) (sc_by_alias s) (sc_fresh s)
  else push (with_heap_alias_fresh s (cancel_id (sc_heap s) id) (d_del text_eqb (sc_by_alias s) alias) (sc_fresh s))
            alias name ttl expire refresh.
Proof. exact tie_no_churn. Qed.
Theorem C10_site_rearm : forall s when_ armed k,
  (sc_min_next s =? 0) = false -> sc_next_run s = Some (armed, k) ->
  rearm_if_due_earlier s when_ =
  if sop_apply site_sched_rearm (Z.max when_ (sc_min_next s)) armed
  then {| sc_heap := sc_heap s; sc_by_alias := sc_by_alias s; sc_next_run := Some (Z.max when_ (sc_min_next s), TReady);
          sc_startup_sent := sc_startup_sent s; sc_delay := sc_delay s; sc_first_qu := sc_first_qu s;
          sc_fresh := sc_fresh s; sc_stopped := sc_stopped s; sc_min_next := sc_min_next s |}
  else s.
Proof. exact tie_rearm. Qed.
Print Assumptions C10_site_rescue. Print Assumptions C10_site_no_churn. Print Assumptions C10_site_rearm.
