(* C06 - response ingestion and the record-update listener contract. Statements only.
   ingest : Model/Ingest.v mirrors RecordManager.async_updates_from_response phase by phase (tied to
   the code by the correspondence check); vocabulary: Spec/IngestSpec.v; invariant: Spec/CacheSpec.v. *)
From ZC Require Import Model.Base Model.PyRec Model.Dict Model.Re Model.Cache Model.Ingest Gen.Const Gen.DnsPure
  Spec.CacheSpec Spec.IngestSpec Proofs.C06_ingest.

Section Statements.
  Variables (now : Z) (answers : list pyrec) (c : cache).
  Hypothesis HInv : Inv c.                          (* any reachable cache: C05_refines *)
  Hypothesis Hwf : wf_answers now answers.          (* records as decoded: created = arrival time, 0 <= ttl < 2^32 *)
  Local Notation R := (ingest now answers c).

  (* ingestion never raises and ends in a well-formed cache *)
  Theorem C06_total : exists c', i_final R = Ok c' /\ Inv c'.
  Proof. exact (ingest_total now answers c HInv Hwf). Qed.

  (* each record with non-zero TTL ends up cached with creation time = arrival time and the received TTL
     (pointer records raised to the 1125 s floor) - that of its last non-zero occurrence in the datagram -
     unless it was cached before and the same datagram also withdraws it *)
  Theorem C06_cached : forall c' r, i_final R = Ok c' -> In r answers -> p_ttl r <> 0 ->
    (in_cache c r = true -> has_goodbye answers r = false) ->
    exists x a, async_get_unique c' r = Some x /\ last_nonzero answers r = Some a /\
                p_created x = now /\ p_ttl x = p_ttl (floorr a).
  Proof. exact (ingest_cached now answers c HInv Hwf). Qed.

  (* each zero-TTL record that was cached is removed; a zero-TTL record of an unknown identity does nothing *)
  Theorem C06_goodbye : forall c' r, i_final R = Ok c' ->
    (has_goodbye answers r = true -> in_cache c r = true -> in_cache c' r = false) /\
    (in_cache c r = false -> last_nonzero answers r = None -> in_cache c' r = false).
  Proof.
    intros c' r H. split.
    - exact (ingest_goodbye now answers c HInv Hwf c' r H).
    - exact (ingest_goodbye_uncached now answers c HInv Hwf c' r H).
  Qed.

  (* every other cached record stays; a cache-flush record makes those of the same name, type and class
     that are older than one second - and only those - expire one second later; the rest are untouched *)
  Theorem C06_flush_untouched : forall c' x, i_final R = Ok c' -> In x (flat c) -> listed answers x = false ->
    exists x', async_get_unique c' x = Some x' /\
               lifetime x' = if flushed now answers x then (now, 1) else lifetime x.
  Proof. exact (ingest_others now answers c HInv Hwf). Qed.

  (* nothing is invented *)
  Theorem C06_no_invention : forall c' x, i_final R = Ok c' -> In x (flat c') ->
    (exists y, In y (flat c) /\ gen_eq y x = true) \/ (exists a, In a answers /\ gen_eq a x = true /\ p_ttl a <> 0).
  Proof. exact (ingest_no_invention now answers c HInv Hwf). Qed.

  (* the listener contract: called iff there is something to report; the (new, previous) pairs in datagram
     order; previous is the cached copy iff one existed; while listeners run the first time no new record
     has been added and no withdrawn record removed, refreshed TTLs and flush marks already visible *)
  Theorem C06_contract :
    i_called R = nonempty (i_updates R) /\
    map u_new (i_updates R) = reported now c answers /\
    (forall u, In u (i_updates R) -> (u_old u <> None <-> in_cache c (u_new u) = true)) /\
    (forall u e, In u (i_updates R) -> u_old u = Some e ->
       gen_eq e (u_new u) = true /\ exists y, In y (flat c) /\ gen_eq y e = true) /\
    (forall r, in_cache (i_phase1 R) r = in_cache c r) /\
    (forall x, In x (flat c) ->
       exists x1, async_get_unique (i_phase1 R) x = Some x1 /\
         lifetime x1 = match last_nonzero answers x with
                       | Some a => (now, p_ttl (floorr a))
                       | None => if negb (listed answers x) && flushed now answers x then (now, 1) else lifetime x
                       end).
  Proof.
    destruct (ingest_contract now answers c HInv Hwf) as (A & B & C & D & E).
    exact (conj A (conj B (conj C (conj D (conj E (ingest_phase1_lifetimes now answers c HInv Hwf)))))).
  Qed.
End Statements.

(* every listener registered when a phase starts is called exactly once in it; listeners added from inside a
   callback are not called in that phase, removed ones still are (the set is copied before iterating) *)
Theorem C06_reentrant : forall ls react, fst (fanout ls react) = ls.
Proof. reflexivity. Qed.

Print Assumptions C06_total.
Print Assumptions C06_cached.
Print Assumptions C06_goodbye.
Print Assumptions C06_flush_untouched.
Print Assumptions C06_no_invention.
Print Assumptions C06_contract.
Print Assumptions C06_reentrant.

(* non-vacuity: a datagram with a refreshed PTR (TTL below the floor) and a cache-flush address record on a non-empty cache *)
Definition ex_mk k n t cl ttl cr a := {| p_kind := k; p_name := n; p_type_ := t; p_class_ := cl; p_ttl := ttl; p_created := cr;
       p_address := a; p_scope_id := None; p_cpu := []; p_os := []; p_alias := [120]; p_text := []; p_priority := 0;
       p_weight := 0; p_port := 0; p_server := []; p_next_name := []; p_rdtypes := [] |}.
Definition ex_c0 := match i_final (ingest 1000 [ex_mk KPointer [116] 12 1 4500 1000 []; ex_mk KAddress [104] 1 1 120 1000 [1;2;3;4]] empty_cache)
            with Ok c => c | Raise _ => empty_cache end.
Definition ex_dg := [ex_mk KPointer [116] 12 1 10 5000 []; ex_mk KAddress [104] 1 32769 120 5000 [1;2;3;5]].

Example C06_example_wf : wf_answers 5000 ex_dg.
Proof.
  intros r H. unfold ex_dg in H. cbn [In] in H. destruct H as [H | [H | H]]; [subst r | subst r | contradiction];
    cbn; (split; [reflexivity | split; [lia | discriminate]]).
Qed.

Example C06_example :
  i_called (ingest 5000 ex_dg ex_c0) = true /\ length (i_updates (ingest 5000 ex_dg ex_c0)) = 2%nat /\
  match i_final (ingest 5000 ex_dg ex_c0) with
  | Ok c' => map lifetime (flat c') = [(5000, 1); (5000, 120); (5000, 1125)]
  | Raise _ => False
  end.
Proof. vm_compute. repeat split; reflexivity. Qed.

(* ---- the model's comparisons are the ones the source writes now (Gen/Sites.v is regenerated from /repo on every run) ---- *)
From ZC Require Import Gen.Sites Proofs.Sites_C06.
Theorem C06_site_ptr_floor : forall r,
  apply_ptr_floor r =
  if negb (p_ttl r =? 0) && (p_type_ r =? C_TYPE_PTR) && sop_apply site_ingest_ptr_min_ttl (p_ttl r) C_DNS_PTR_MIN_TTL
  then set_lifetime r (p_created r) C_DNS_PTR_MIN_TTL else r.
Proof. exact tie_ptr_floor. Qed.
Theorem C06_site_flush_age : forall now answers c name ty cl,
  mark_one now answers c (name, ty, cl) =
  fold_left (fun c r =>
               if sop_apply site_cache_flush_age (now - DNSRecord_created r) site_cache_flush_age_rhs
                  && negb (existsb (fun a => gen_eq a r) answers)
               then cache_set_lifetime c r now 1 else c)
            (async_all_by_details c name ty cl) c.
Proof. exact tie_mark_one. Qed.
Theorem C06_site_counts : sites_C06_counts. Proof. exact sites_C06_counts_ok. Qed.
Print Assumptions C06_site_ptr_floor.
Print Assumptions C06_site_flush_age.
Print Assumptions C06_site_counts.
