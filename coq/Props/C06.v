From ZC Require Import Model.Base Model.Cache Model.Ingest.
Example C06_placeholder : True. Proof. exact I. Qed.
