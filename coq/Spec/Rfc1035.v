(* Rfc1035: an independent, strict RFC 1035 / RFC 6762 message parser (specification side).
   No memo, no tolerance: labels 1..63 bytes fully inside the datagram; compression pointers strictly
   backwards and not into the header; at most 128 pointers and 128 labels per name; name text at most
   253 characters (the figure C02 uses) and 255 octets on the wire; rdata of the supported types
   consumes exactly RDLENGTH; the sections fill the datagram exactly. *)
From ZC Require Import Model.Base Model.PyRec Model.Utf8.

Section Strict.
  Variable data : bytes.
  Variable now : Z.

  Definition slen : Z := Z.of_nat (length data).
  Definition sbyte (i : Z) : option Z := if i <? 0 then None else nth_error data (Z.to_nat i).
  Definition sslice (a n : Z) : option bytes :=
    if (a <? 0) || (n <? 0) || (slen <? a + n) then None
    else Some (firstn (Z.to_nat n) (skipn (Z.to_nat a) data)).
  Definition su16 (i : Z) : option Z :=
    match sbyte i, sbyte (i + 1) with Some h, Some l => Some (h * 256 + l) | _, _ => None end.

  (* labels of the name at [pos]; [hops] pointers may still be followed; the end offset is the one
     after the first pointer (or after the terminating zero when no pointer was met) *)
  Fixpoint sname_labels (hops : nat) (pos : Z) (acc : list bytes) (endo : option Z) {struct hops}
    : option (list bytes * Z) :=
    (fix walk (fuel : nat) (pos : Z) (acc : list bytes) (endo : option Z) {struct fuel} : option (list bytes * Z) :=
       match fuel with
       | O => None
       | S fuel' =>
           match sbyte pos with
           | None => None
           | Some n =>
               if n =? 0 then Some (acc, match endo with Some e => e | None => pos + 1 end)
               else if n <? 64 then
                 match sslice (pos + 1) n with
                 | None => None
                 | Some l => walk fuel' (pos + 1 + n) (acc ++ [l]) endo
                 end
               else if n <? 192 then None
               else
                 match sbyte (pos + 1), hops with
                 | Some lo, S hops' =>
                     let target := (n - 192) * 256 + lo in
                     if (target <? pos) && (12 <=? target)
                     then sname_labels hops' target acc (match endo with Some e => Some e | None => Some (pos + 2) end)
                     else None
                 | _, _ => None
                 end
           end
       end) (S (length data)) pos acc endo.

  Fixpoint sjoin (labels : list text) : text :=
    match labels with [] => [] | [l] => l | l :: r => l ++ 46 :: sjoin r end.

  Definition wire_len (labels : list bytes) : Z :=
    fold_right (fun l acc => 1 + Z.of_nat (length l) + acc) 1 labels.

  Definition sname (pos : Z) : option (text * Z) :=
    match sname_labels 128 pos [] None with
    | None => None
    | Some (labels, e) =>
        let name := sjoin (map utf8_decode_replace labels) ++ [46] in
        if (128 <? Z.of_nat (length labels)) || (253 <? Z.of_nat (length name)) || (255 <? wire_len labels)
        then None else Some (name, e)
    end.

  Definition mk (k : kind) (name : text) (ty cl ttl : Z) : pyrec :=
    {| p_kind := k; p_name := name; p_type_ := ty; p_class_ := cl; p_ttl := ttl; p_created := now;
       p_address := []; p_scope_id := None; p_cpu := []; p_os := []; p_alias := []; p_text := [];
       p_priority := 0; p_weight := 0; p_port := 0; p_server := []; p_next_name := []; p_rdtypes := [] |}.

  Definition upd_address (r : pyrec) (a : bytes) := {| p_kind := p_kind r; p_name := p_name r; p_type_ := p_type_ r;
    p_class_ := p_class_ r; p_ttl := p_ttl r; p_created := p_created r; p_address := a; p_scope_id := None;
    p_cpu := []; p_os := []; p_alias := []; p_text := []; p_priority := 0; p_weight := 0; p_port := 0; p_server := [];
    p_next_name := []; p_rdtypes := [] |}.
  Definition upd_alias (r : pyrec) (a : text) := {| p_kind := p_kind r; p_name := p_name r; p_type_ := p_type_ r;
    p_class_ := p_class_ r; p_ttl := p_ttl r; p_created := p_created r; p_address := []; p_scope_id := None;
    p_cpu := []; p_os := []; p_alias := a; p_text := []; p_priority := 0; p_weight := 0; p_port := 0; p_server := [];
    p_next_name := []; p_rdtypes := [] |}.
  Definition upd_text (r : pyrec) (t : bytes) := {| p_kind := p_kind r; p_name := p_name r; p_type_ := p_type_ r;
    p_class_ := p_class_ r; p_ttl := p_ttl r; p_created := p_created r; p_address := []; p_scope_id := None;
    p_cpu := []; p_os := []; p_alias := []; p_text := t; p_priority := 0; p_weight := 0; p_port := 0; p_server := [];
    p_next_name := []; p_rdtypes := [] |}.
  Definition upd_srv (r : pyrec) (pr w po : Z) (s : text) := {| p_kind := p_kind r; p_name := p_name r; p_type_ := p_type_ r;
    p_class_ := p_class_ r; p_ttl := p_ttl r; p_created := p_created r; p_address := []; p_scope_id := None;
    p_cpu := []; p_os := []; p_alias := []; p_text := []; p_priority := pr; p_weight := w; p_port := po; p_server := s;
    p_next_name := []; p_rdtypes := [] |}.
  Definition upd_hinfo (r : pyrec) (cpu os : text) := {| p_kind := p_kind r; p_name := p_name r; p_type_ := p_type_ r;
    p_class_ := p_class_ r; p_ttl := p_ttl r; p_created := p_created r; p_address := []; p_scope_id := None;
    p_cpu := cpu; p_os := os; p_alias := []; p_text := []; p_priority := 0; p_weight := 0; p_port := 0; p_server := [];
    p_next_name := []; p_rdtypes := [] |}.
  Definition upd_nsec (r : pyrec) (nx : text) (ts : list Z) := {| p_kind := p_kind r; p_name := p_name r; p_type_ := p_type_ r;
    p_class_ := p_class_ r; p_ttl := p_ttl r; p_created := p_created r; p_address := []; p_scope_id := None;
    p_cpu := []; p_os := []; p_alias := []; p_text := []; p_priority := 0; p_weight := 0; p_port := 0; p_server := [];
    p_next_name := nx; p_rdtypes := ts |}.

  (* <character-string> inside [off, endo) *)
  Definition scharstr (off endo : Z) : option (text * Z) :=
    if endo <=? off then None else
    match sbyte off with
    | None => None
    | Some n => if endo <? off + 1 + n then None
                else match sslice (off + 1) n with
                     | Some b => Some (utf8_decode_replace b, off + 1 + n)
                     | None => None
                     end
    end.

  Fixpoint sbits (byte : Z) (k : nat) (base : Z) : list Z :=
    match k with
    | O => []
    | S k' => let i := Z.of_nat (8 - k) in
              (if Z.testbit byte (7 - i) then [base + i] else []) ++ sbits byte k' base
    end.
  Fixpoint sbitmap (bs : bytes) (i : Z) (window : Z) : list Z :=
    match bs with [] => [] | b :: r => sbits b 8 (window * 256 + i * 8) ++ sbitmap r (i + 1) window end.

  Fixpoint swindows (fuel : nat) (off endo : Z) (acc : list Z) : option (list Z) :=
    match fuel with
    | O => None
    | S f =>
        if off =? endo then Some acc
        else if endo <? off + 2 then None
        else match sbyte off, sbyte (off + 1) with
             | Some w, Some blen =>
                 if (blen <? 1) || (32 <? blen) || (endo <? off + 2 + blen) then None
                 else match sslice (off + 2) blen with
                      | Some bs => swindows f (off + 2 + blen) endo (acc ++ sbitmap bs 0 w)
                      | None => None
                      end
             | _, _ => None
             end
    end.

  (* one resource record at [off]; None = malformed; Some (None, _) = well-formed record of an unsupported type *)
  Definition srecord (off : Z) : option (option pyrec * Z) :=
    match sname off with
    | None => None
    | Some (name, o) =>
        match su16 o, su16 (o + 2), su16 (o + 4), su16 (o + 6), su16 (o + 8) with
        | Some ty, Some cl, Some t1, Some t2, Some rdlen =>
            let ttl := t1 * 65536 + t2 in
            let rd := o + 10 in
            let endo := rd + rdlen in
            if slen <? endo then None else
            if ty =? 1 then
              if rdlen =? 4 then match sslice rd 4 with Some a => Some (Some (upd_address (mk KAddress name ty cl ttl) a), endo) | None => None end
              else None
            else if ty =? 28 then
              if rdlen =? 16 then match sslice rd 16 with Some a => Some (Some (upd_address (mk KAddress name ty cl ttl) a), endo) | None => None end
              else None
            else if (ty =? 5) || (ty =? 12) then
              match sname rd with
              | Some (target, e) => if e =? endo then Some (Some (upd_alias (mk KPointer name ty cl ttl) target), endo) else None
              | None => None
              end
            else if ty =? 16 then
              match sslice rd rdlen with Some t => Some (Some (upd_text (mk KText name ty cl ttl) t), endo) | None => None end
            else if ty =? 33 then
              match su16 rd, su16 (rd + 2), su16 (rd + 4), sname (rd + 6) with
              | Some pr, Some w, Some po, Some (target, e) =>
                  if (e =? endo) && (7 <=? rdlen) then Some (Some (upd_srv (mk KService name ty cl ttl) pr w po target), endo) else None
              | _, _, _, _ => None
              end
            else if ty =? 13 then
              match scharstr rd endo with
              | Some (cpu, o2) =>
                  match scharstr o2 endo with
                  | Some (os, o3) => if o3 =? endo then Some (Some (upd_hinfo (mk KHinfo name ty cl ttl) cpu os), endo) else None
                  | None => None
                  end
              | None => None
              end
            else if ty =? 47 then
              match sname rd with
              | Some (nx, o2) =>
                  if endo <? o2 then None else
                  match swindows (S (length data)) o2 endo [] with
                  | Some ts => Some (Some (upd_nsec (mk KNsec name ty cl ttl) nx ts), endo)
                  | None => None
                  end
              | None => None
              end
            else Some (None, endo)
        | _, _, _, _, _ => None
        end
    end.

  Fixpoint squestions (n : nat) (off : Z) (acc : list pyrec) : option (list pyrec * Z) :=
    match n with
    | O => Some (acc, off)
    | S n' =>
        match sname off with
        | Some (name, o) =>
            match su16 o, su16 (o + 2) with
            | Some ty, Some cl => squestions n' (o + 4) (acc ++ [mk KQuestion name ty cl 0])
            | _, _ => None
            end
        | None => None
        end
    end.

  Fixpoint srecords (n : nat) (off : Z) (acc : list pyrec) (all_supported : bool) : option (list pyrec * Z * bool) :=
    match n with
    | O => Some (acc, off, all_supported)
    | S n' =>
        match srecord off with
        | Some (Some r, o) => srecords n' o (acc ++ [r]) all_supported
        | Some (None, o) => srecords n' o acc false
        | None => None
        end
    end.

  Record smsg := { s_id : Z; s_flags : Z; s_nq : Z; s_nan : Z; s_nau : Z; s_nad : Z;
                   s_questions : list pyrec; s_records : list pyrec; s_supported : bool }.

  Definition strict_parse : option smsg :=
    match su16 0, su16 2, su16 4, su16 6, su16 8, su16 10 with
    | Some id, Some fl, Some nq, Some na, Some nau, Some nad =>
        match squestions (Z.to_nat nq) 12 [] with
        | Some (qs, o) =>
            match srecords (Z.to_nat (na + nau + nad)) o [] true with
            | Some (rs, o', sup) =>
                if o' =? slen
                then Some {| s_id := id; s_flags := fl; s_nq := nq; s_nan := na; s_nau := nau; s_nad := nad;
                             s_questions := qs; s_records := rs; s_supported := sup |}
                else None
            | None => None
            end
        | None => None
        end
    | _, _, _, _, _, _ => None
    end.
End Strict.
