(* IngestSpec: vocabulary for stating what one response datagram does to the cache (C06). *)
From ZC Require Import Model.Base Model.PyRec Model.Dict Model.Re Model.Cache Model.Ingest Gen.Const Gen.DnsPure Spec.CacheSpec.

Definition floorr (r : pyrec) : pyrec := apply_ptr_floor r.

(* the identity occurs in the datagram *)
Definition listed (answers : list pyrec) (x : pyrec) : bool := existsb (fun a => gen_eq a x) answers.
(* ... with TTL 0 somewhere *)
Definition has_goodbye (answers : list pyrec) (x : pyrec) : bool :=
  existsb (fun a => gen_eq a x && (p_ttl a =? 0)) answers.
(* the last occurrence with a non-zero TTL *)
Definition last_nonzero (answers : list pyrec) (x : pyrec) : option pyrec :=
  find (fun a => gen_eq a x && negb (p_ttl a =? 0)) (rev answers).

(* RFC 6762 10.2: a cache-flush record of the same name, type and class arrived, and x is older than 1 s *)
Definition flushed (now : Z) (answers : list pyrec) (x : pyrec) : bool :=
  existsb (fun a => DNSEntry_unique a && text_eqb (lower (p_name a)) (rkey x)
                    && (p_type_ a =? p_type_ x) && (DNSEntry_class_ a =? DNSEntry_class_ x)) answers
  && (now - p_created x >? 1000).

(* which (floored) records of the datagram are reported to listeners, in datagram order *)
Definition reported (now : Z) (c : cache) (answers : list pyrec) : list pyrec :=
  filter (fun a => negb (p_ttl a =? 0) || in_cache c a) (map floorr answers).
