(* AnswerSpec: "the records of currently registered services that answer the questions", written
   from the property text as comprehensions over the flat list of registered services - no
   indexes, no strategies. *)
From ZC Require Import Model.Base Model.PyRec Model.Dict Model.Re Model.Cache Model.Respond Gen.Const Gen.Extra Gen.DnsPure.
From Coq Require Import Permutation.

Definition registered (g : registry) : list svc := map snd (g_services g).

(* registry histories *)
Inductive regop := OpAdd (s : svc) | OpUpdate (s : svc) | OpRemove (key : text).
Definition reg_step (g : registry) (o : regop) : registry :=
  match o with
  | OpAdd s => match reg_add g s with Ok g' => g' | Raise _ => g end      (* a refused registration changes nothing *)
  | OpUpdate s => match reg_update g s with Ok g' => g' | Raise _ => g end
  | OpRemove k => reg_remove g k
  end.
Definition reg_run (ops : list regop) : registry := fold_left reg_step ops empty_registry.

(* the three indexes are mutually consistent and no empty bucket is advertised *)
Definition RegInv (g : registry) : Prop :=
  NoDup (map fst (g_services g)) /\
  (forall k s, In (k, s) (g_services g) -> k = s_key s) /\
  (forall k, Permutation (get_infos g (g_types g) k)
                         (filter (fun s => text_eqb (lower (s_type s)) k) (registered g))) /\
  (forall k, Permutation (get_infos g (g_servers g) k)
                         (filter (fun s => text_eqb (s_server_key s) k) (registered g))) /\
  (forall t, In t (get_types g) <-> exists s, In s (registered g) /\ lower (s_type s) = t) /\
  NoDup (get_types g).

Definition is_in (t : Z) (l : list Z) : bool := existsb (Z.eqb t) l.

(* what answers one question, given what is registered *)
Definition candidates (svcs : list svc) (q : pyrec) : list pyrec :=
  let n := lower (p_name q) in
  let t := p_type_ q in
  if (t =? C_TYPE_PTR) && text_eqb n C_SERVICE_TYPE_ENUMERATION_NAME then
    map (fun s => enum_pointer (lower (s_type s))) svcs                       (* one PTR per registered type *)
  else
    (if is_in t [C_TYPE_PTR; C_TYPE_ANY]
     then map dns_pointer (filter (fun s => text_eqb (lower (s_type s)) n) svcs) else [])
    ++ (if is_in t [C_TYPE_A; C_TYPE_AAAA]
        then flat_map (fun s =>
               let hits := filter (fun d => p_type_ d =? t) (dns_addresses s) in
               if nonempty hits then hits
               else [dns_nsec s (missing_types (map p_type_ (dns_addresses s)))])   (* the asked address type does not exist *)
             (filter (fun s => text_eqb (s_server_key s) n) svcs)
        else [])
    ++ (if is_in t [C_TYPE_SRV; C_TYPE_ANY]
        then map dns_service (filter (fun s => text_eqb (s_key s) n) svcs) else [])
    ++ (if is_in t [C_TYPE_TXT; C_TYPE_ANY]
        then map dns_text (filter (fun s => text_eqb (s_key s) n) svcs) else []).

(* the records a service may contribute as additionals *)
Definition own_additionals (s : svc) : list pyrec := [dns_service s; dns_text s] ++ address_and_nsec s.

Definition known_answers (msgs : list qmsg) : list pyrec :=
  flat_map (fun m => if qm_is_probe m then [] else qm_answers m) msgs.

Definition all_answers (r : option question_answers) : answer_set :=
  match r with
  | None => []
  | Some qa => qa_ucast qa ++ qa_mcast_now qa ++ qa_mcast_aggregate qa ++ qa_mcast_last_second qa
  end.
