(* Specification of RFC 6763 service names as documented for service_type_name, written on the
   LABEL view of a name (the code works on string suffixes). Corners the documentation leaves
   open follow the code and are marked (*code*). *)
From ZC Require Import Model.Base Model.Re Model.Utf8 Model.Names.

Definition is_letter (c : Z) : bool := in_range 65 90 c || in_range 97 122 c.
Definition is_digit (c : Z) : bool := in_range 48 57 c.
Definition svc_char (strict : bool) (c : Z) : bool :=
  is_letter c || is_digit c || (c =? 45) || (negb strict && (c =? 95)).
Definition is_ctrl (c : Z) : bool := in_range 0 31 c || (c =? 127).

(* service label: leading underscore, letters/digits/hyphens (underscore too when not strict),
   no leading, trailing or double hyphen, at least one letter, at most 15 characters when strict *)
Definition svc_label_ok (strict : bool) (l : text) : bool :=
  match l with
  | 95 :: body =>
      nonempty body
      && (negb strict || (len body <=? 15))
      && negb (has_double_hyphen body)
      && negb (match body with c :: _ => c =? 45 | [] => false end)
      && negb (match rev body with c :: _ => c =? 45 | [] => false end)
      && existsb is_letter body
      && forallb (svc_char strict) body
  | _ => false
  end.

(* what precedes the service label: [<sub>._sub] or an instance name (may contain dots):
   at most 63 utf-8 bytes, no ASCII control characters *)
Definition inst_ok (labels : list text) : bool :=
  match (match rev labels with
         | last :: r =>
             if text_eqb last SUB
             then match rev r with
                  | [] => None                                   (* "_sub requires a subtype name" *)
                  | r0 :: _ => if nonempty r0 then Some (rev r) else None
                  end
             else Some labels
         | [] => Some labels
         end) with
  | None => false
  | Some [] => true
  | Some ls =>
      let j := join_dot ls in
      match utf8_len j with
      | Ok n => (n <=? 63) && negb (existsb is_ctrl j)
      | Raise _ => false
      end
  end.

Definition TCP : text := [95; 116; 99; 112].
Definition UDP : text := [95; 117; 100; 112].
Definition LOCAL : text := [108; 111; 99; 97; 108].

(* labels of the whole name, right to left: "" , "local", [proto, service], instance... *)
Definition spec_type (strict : bool) (s : text) : option text :=
  if 256 <? len s then None else
  match rev (split_dot s) with
  | [] :: loc :: rest =>
      if negb (text_eqb loc LOCAL) then None else
      match rest with
      | [] => None                                               (* bare "local." has no leading dot *)
      | proto :: rest' =>
          if (text_eqb proto TCP || text_eqb proto UDP) && nonempty rest' then
            match rest' with
            | svc :: inst_rev =>
                if svc_label_ok strict svc
                   && negb (match inst_rev with [[]] => true | _ => false end)   (* name starts with '.' *)
                   && inst_ok (rev inst_rev)
                then Some (svc ++ DOT :: proto ++ DOT :: LOCAL ++ [DOT])
                else None
            | [] => None
            end
          else if strict then None
          else if inst_ok (rev rest) then Some (LOCAL ++ [DOT]) else None
      end
  | _ => None
  end.
