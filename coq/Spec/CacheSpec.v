(* CacheSpec: the flat RFC 6762 section 10 view of the two-index cache, the representation
   invariant, and histories. Definitions only (statements live in Props/C05.v, Props/C06.v). *)
From ZC Require Import Model.Base Model.PyRec Model.Dict Model.Re Model.Cache Model.Ingest Gen.Const Gen.DnsPure.
From Coq Require Import Permutation.

(* the flat view: every cached record, bucket by bucket *)
Definition flat (c : cache) : list pyrec := all_records c.
Definition flat_srv (c : cache) : list pyrec := concat (map snd (c_srv c)).

(* pairwise distinct identities *)
Fixpoint distinct_idents (l : list pyrec) : Prop :=
  match l with
  | [] => True
  | x :: l' => (forall y, In y l' -> gen_eq x y = false) /\ distinct_idents l'
  end.

Fixpoint distinct_keys (i : index) : Prop :=
  match i with
  | [] => True
  | (k, _) :: i' => (forall k' b', In (k', b') i' -> k' <> k) /\ distinct_keys i'
  end.

Definition index_ok (keyof : pyrec -> text) (i : index) : Prop :=
  distinct_keys i /\
  forall k b, In (k, b) i -> b <> [] /\ (forall r, In r b -> keyof r = k) /\ distinct_idents b.

(* representation invariant: both indexes well-formed and the service index mirrors the SRV
   records of the main index - the very same objects, lifetimes included *)
Definition Inv (c : cache) : Prop :=
  index_ok rkey (c_main c) /\
  index_ok skey (c_srv c) /\
  (forall r, In r (flat_srv c) <-> (In r (flat c) /\ is_service r = true)).

(* histories: response datagrams and purges at arbitrary instants *)
Inductive hevent := HResp (now : Z) (answers : list pyrec) | HPurge (now : Z).

Definition hstep (c : cache) (e : hevent) : result cache :=
  match e with
  | HResp now answers => i_final (ingest now answers c)
  | HPurge now => pg_final (purge now c)
  end.

Fixpoint hrun (c : cache) (h : list hevent) : result cache :=
  match h with
  | [] => Ok c
  | e :: h' => bind (hstep c e) (fun c' => hrun c' h')
  end.

(* records as they come out of the decoder: created = arrival time, TTL a 32-bit quantity *)
Definition wf_answers (now : Z) (answers : list pyrec) : Prop :=
  forall r, In r answers -> p_created r = now /\ 0 <= p_ttl r < 4294967296 /\ p_kind r <> KQuestion.

Fixpoint wf_history (h : list hevent) : Prop :=
  match h with
  | [] => True
  | HResp now answers :: h' => wf_answers now answers /\ wf_history h'
  | HPurge _ :: h' => wf_history h'
  end.

Definition lifetime (r : pyrec) : Z * Z := (p_created r, p_ttl r).
Definition expires_at (r : pyrec) : Z := p_created r + 1000 * p_ttl r.
