(* C15 (liveness helper 1): the datagram of a well-formed one-question query and what the library decoder makes of it. *)
From Coq Require Import ZArith List Bool Lia ZifyBool.
From ZC Require Import Model.Base Model.PyRec Model.Dict Model.Re Model.Utf8 Model.Names Model.Cache Model.Respond Model.Route
  Model.WireDec Model.WireEnc Model.Listener Model.Node Model.Front
  Spec.Rfc1035 Gen.Const Gen.Extra Gen.DnsPure Gen.Shapes.
From ZC Require Import Proofs.C01_utf8 Proofs.C01_defs Proofs.C01_record Proofs.C01_packets Proofs.C01_library
  Proofs.C14_sizes Proofs.C15_enc Proofs.C15_dec Proofs.C15_front.
Import ListNotations.
Open Scope Z_scope.
Ltac Zify.zify_post_hook ::= Z.to_euclidean_division_equations.

(* ---- a well-formed name (C01) is an encodable name (C15) ---- *)
Lemma scalar_nsur s : scalar_text s = true -> nsur s.
Proof.
  unfold scalar_text, nsur. induction s as [|c s IH]; cbn [forallb]; intro H; [constructor|].
  apply andb_true_iff in H as [Hc Hs]. constructor; [|apply IH; exact Hs].
  unfold is_scalar in Hc. destruct (is_surrogate c); [|reflexivity].
  rewrite andb_false_r in Hc. discriminate Hc.
Qed.

Lemma strip_dot_snoc x : strip_dot (x ++ [46]) = x.
Proof. unfold strip_dot. rewrite rev_app_distr. cbn [rev app]. apply rev_involutive. Qed.

Lemma wf_name_encodable n : wf_name n -> encodable_name n.
Proof.
  intros (ls & -> & Hne & Hl & _ & Hlen & _). unfold encodable_name, name_soft, name_of in *.
  assert (Hns : Forall nsur ls).
  { eapply Forall_impl; [|exact Hl]. intros l (_ & Hs & _). apply scalar_nsur. exact Hs. }
  split; [split; [|exact Hlen]|].
  - apply nsur_app. split; [apply nsur_join; exact Hns|]. constructor; [reflexivity|constructor].
  - rewrite strip_dot_snoc. rewrite split_join; [|exact Hne|apply wf_labels_nodot; exact Hl].
    eapply Forall_impl; [|exact Hl]. intros l (_ & _ & _ & Hu). exact Hu.
Qed.

(* ---- the question and the query message ---- *)
Definition mkq (name : text) (ty : Z) : pyrec := blank KQuestion name ty C_CLASS_IN 0.

Definition query_msg (q : pyrec) : out_msg :=
  {| o_flags := C_FLAGS_QR_QUERY; o_multicast := true; o_id := 0; o_questions := [q];
     o_answers := []; o_authorities := []; o_additionals := [] |}.

(* the bytes of the (single) datagram that DNSOutgoing makes of the query *)
Definition query_bytes (q : pyrec) : bytes :=
  match packets (query_msg q) with Ok [d] => d | _ => [] end.

Lemma mkq_class name ty : DNSEntry_unique (mkq name ty) = false /\ DNSEntry_class_ (mkq name ty) = 1.
Proof. split; reflexivity. Qed.

Lemma write_question_init name ty : wf_name name -> u16 ty ->
  exists st', write_question true enc_init (mkq name ty) = Ok (st', true).
Proof.
  intros Hwf Hty. pose proof (wf_name_encodable name Hwf) as [Hsoft Hlab].
  unfold write_question. change (p_name (mkq name ty)) with name. change (p_type_ (mkq name ty)) with ty.
  assert (Hnr : NR enc_init) by (intros n i []).
  pose proof (write_name_spec NoExn enc_init name Hsoft (encodable_labshort NoExn name (conj Hsoft Hlab)) Hnr
                ltac:(change (e_size enc_init) with 12; lia)) as Hs.
  destruct (write_name enc_init name) as [s1|e]; [|destruct Hs]. cbn [spec] in Hs.
  destruct Hs as (Hnr1 & Hsz1 & Hal1). cbn [bind].
  rewrite (write_short_ok s1 ty Hty). cbn [bind].
  unfold write_record_class. destruct (mkq_class name ty) as [-> ->]. cbn [andb].
  rewrite write_short_ok by (unfold u16; lia). cbn [bind].
  eexists. unfold check_limit_or_rollback. cbn [put e_allow_long e_size length]. rewrite Hal1. cbn [enc_init e_allow_long].
  change (e_size enc_init) with 12 in Hsz1. unfold C_MAX_MSG_ABSOLUTE.
  destruct (e_size s1 + Z.of_nat 2 + Z.of_nat 2 <=? 8966) eqn:E; [reflexivity|lia].
Qed.

Definition query_header : bytes := [0;0;0;0;0;1;0;0;0;0;0;0].

Lemma query_packets_info name ty : wf_name name -> u16 ty ->
  exists body, packets_info (query_msg (mkq name ty)) = Ok [(query_header ++ body, (1, 0, 0, 0)%nat)].
Proof.
  intros Hwf Hty. destruct (write_question_init name ty Hwf Hty) as [st' Hw].
  exists (rev (e_rev st')). unfold packets_info, query_msg. cbn [ o_questions o_answers o_authorities o_additionals length Nat.add].
  cbn [packets_loop]. cbv zeta. cbn [o_multicast write_questions]. rewrite Hw. cbn [bind write_questions write_records map].
  cbn [skipn nonempty orb andb o_flags o_id].
  change ((C_FLAGS_QR_QUERY <? 0) || (65535 <? C_FLAGS_QR_QUERY) || (0 <? 0) || (65535 <? 0)) with false. cbv iota.
  change (short_bytes 0 ++ short_bytes C_FLAGS_QR_QUERY ++ short_bytes (Z.of_nat 1) ++ short_bytes (Z.of_nat 0)
          ++ short_bytes (Z.of_nat 0) ++ short_bytes (Z.of_nat 0)) with query_header.
  destruct (negb (nonempty (e_rev st'))); reflexivity.
Qed.

(* ---- the header as DNSIncoming reads it ---- *)
Lemma query_header_read body :
  (id <- short_at (query_header ++ body) 0 ;; fl <- short_at (query_header ++ body) 2 ;;
   nq <- short_at (query_header ++ body) 4 ;; na <- short_at (query_header ++ body) 6 ;;
   nau <- short_at (query_header ++ body) 8 ;; nad <- short_at (query_header ++ body) 10 ;;
   _ <- set_off 12 ;; ret (id, fl, nq, na, nau, nad)) {| d_off := 0; d_cache := [] |}
  = DOk (0, 0, 1, 0, 0, 0) {| d_off := 12; d_cache := [] |}.
Proof. reflexivity. Qed.

Lemma parse_query_header body now scope frames :
  let p := parse (query_header ++ body) now scope frames in
  m_flags p = 0 /\ m_id p = 0 /\ m_nauth p = 0.
Proof.
  cbv zeta. unfold parse. cbv zeta. rewrite query_header_read.
  destruct (read_questions _ _ _ _ _ _) as [[qs qe] s2].
  destruct (escapes qe); [repeat split; reflexivity|].
  destruct (read_others _ _ _ _ _ _ _) as [[ans ae] s3] || destruct (read_others _ _ _ _ _ _) as [[ans ae] s3]. repeat split; reflexivity.
Qed.

(* the question as DNSIncoming hands it out: created = arrival time *)
Definition q_seen (now : Z) (name : text) (ty : Z) : pyrec := mk now KQuestion name ty C_CLASS_IN 0.

Lemma expected_mkq now name ty : expected_question true now (mkq name ty) = q_seen now name ty.
Proof. reflexivity. Qed.

Theorem query_datagram_a1 : forall name ty now, wf_name name -> u16 ty ->
  let q := mkq name ty in
  let data := query_bytes q in
  packets (query_msg q) = Ok [data] /\ Forall is_byte data /\ Z.of_nat (length data) <= C_MAX_MSG_ABSOLUTE /\
  let p := parse data now None FRAMES in
  m_valid p = true /\ m_escaped p = None /\ m_flags p = 0 /\ m_id p = 0 /\ m_nauth p = 0 /\
  m_questions p = [q_seen now name ty] /\ m_answers p = [].
Proof.
  intros name ty now Hwf Hty q data.
  destruct (query_packets_info name ty Hwf Hty) as [body Hpi]. fold q in Hpi.
  assert (Hp : packets (query_msg q) = Ok [query_header ++ body]) by (unfold packets; rewrite Hpi; reflexivity).
  assert (Hd : data = query_header ++ body) by (unfold data, query_bytes; rewrite Hp; reflexivity).
  rewrite Hd. clear Hd data.
  assert (Hm : wf_msg (query_msg q)).
  { unfold wf_msg, query_msg; cbn [o_questions o_answers o_authorities o_additionals].
    repeat split; try constructor; [exact Hwf|constructor]. }
  assert (Hpl : wf_payload (query_msg q)).
  { unfold wf_payload, query_msg; cbn [o_questions o_answers o_authorities o_additionals]. repeat split; constructor. }
  split; [exact Hp|]. split.
  { pose proof (packets_bytes_range_partial _ _ Hm Hpl Hpi) as HB. inversion HB as [|x l Hx _]; subst. exact Hx. }
  split.
  { pose proof (packets_abs_limit _ _ Hpi) as HB. inversion HB as [|x l Hx _]; subst. unfold plen in Hx. cbn [fst] in Hx.
    unfold C_MAX_MSG_ABSOLUTE. exact Hx. }
  pose proof (packets_roundtrip_library _ _ now FRAMES Hm ltac:(unfold FRAMES; lia) Hpi) as HR.
  cbn [map snd expected_stream expected_parse query_msg o_multicast o_questions o_answers o_authorities o_additionals firstn skipn app] in HR.
  inversion HR as [|x y l l' Hxy _]; subst. cbn [fst snd] in Hxy. cbv zeta in Hxy.
  destruct Hxy as (V & E & Q & A & _).
  destruct (parse_query_header body now None FRAMES) as (F1 & F2 & F3).
  cbv zeta. repeat split; try assumption.
Qed.

Print Assumptions query_datagram_a1.
