(* C07 x C04 - from the sender's announcement / goodbye task to the receiving browser's callbacks.
   The link theorems of C07 (Proofs/C07_link.v: what the receiving CACHE knows after the deliveries of a lossy link) are joined to the
   browser theorems of C04 (Proofs/C04_browser.v: the instances reported Added and not since Removed are exactly the pointers of the type
   in the cache) through one observation: the browser node's BResp step ingests a datagram exactly as Link.receive does.
   1. deliveries_as_labels   deliveries -> browser labels; the run does not fail and ends in the cache receive_all empty_cache deliveries
   2. browser_learns         three announcements, at most one lost: the run does not fail and the instance is reported (Added, not Removed)
   3. browser_forgets        ... followed by three non-overlapping goodbyes, at most one of the six lost: the instance is not reported
   4. b_example              a concrete run (one copy lost, one duplicated, reordered): the callbacks are exactly [Added; Removed]
   What of C04's `hyp` is needed from the sender: `In (s_type s) types` and `name_ok types (s_type s)` (together: the browser's type filter
   maps the pointer's owner name to exactly the browsed type, browses_iff); everything else of `hyp` is PROVED for the sender's messages
   (sender_labels_hyp: records as decoded, the only PTR record is the DNSPointer of class IN owned by s_type s, no case clash). *)
From Coq Require Import ZArith List Bool Lia ZifyBool.
From ZC Require Import Model.Base Model.PyRec Model.Dict Model.Re Model.Names Model.Cache Model.Ingest Model.Sched Model.Browser
  Model.Respond Model.WireEnc Model.Register Model.Node Model.Link Gen.Const Gen.DnsPure Spec.CacheSpec Spec.IngestSpec Spec.AnswerSpec.
From ZC Require Import Proofs.C20_identity Proofs.C05_index Proofs.C05_cache Proofs.C06_lemmas Proofs.C06_ingest.
From ZC Require Import Proofs.C04_enqueue Proofs.C04_defs Proofs.C04_step Proofs.C04_browser.
From ZC Require Import Proofs.C07_link.
Ltac Zify.zify_post_hook ::= Z.to_euclidean_division_equations.

(* ------------------------------------------------------------------ *)
(* 1. deliveries as browser labels *)

(* one arrival = one response datagram handled at its arrival time, the records stamped with it (as Link.receive does) *)
Definition label_of (a : Z * list pyrec) : blabel := BResp (fst a) (map (stamp (fst a)) (snd a)).
Definition labels_of (l : list (Z * list pyrec)) : list blabel := map label_of l.

(* a BResp step that succeeds leaves the cache Link.receive computes; types and the listener flag do not change *)
Lemma bstep_label_cache n0 a n1 o : bstep n0 (label_of a) = Some (n1, o) ->
  bn_cache n1 = receive (bn_cache n0) a /\ bn_types n1 = bn_types n0 /\ bn_on n1 = bn_on n0.
Proof.
  unfold label_of, bstep, receive. intro Hs.
  destruct (i_final (ingest (fst a) (map (stamp (fst a)) (snd a)) (bn_cache n0))) as [c'|e] eqn:E; [|discriminate Hs].
  destruct (run_updates n0 (fst a) _ _) as [s' p]. inversion Hs; subst n1 o. cbn [bn_cache bn_types bn_on]. auto.
Qed.

(* ... and under the cache invariant, with records as decoded, the step does succeed (ingest does not raise: C06 ingest_total) *)
Lemma bstep_label_total n0 a : Inv (bn_cache n0) -> decoded (snd a) ->
  exists n1 o, bstep n0 (label_of a) = Some (n1, o) /\ Inv (bn_cache n1).
Proof.
  intros HInv HD.
  destruct (ingest_total (fst a) (map (stamp (fst a)) (snd a)) (bn_cache n0) HInv (stamp_wf (fst a) (snd a) HD)) as [c' [E HI]].
  unfold label_of, bstep. rewrite E. destruct (run_updates n0 (fst a) _ _) as [s' p].
  eexists. eexists. split; [reflexivity|]. cbn [bn_cache]. exact HI.
Qed.

Lemma receive_all_cons c a l : receive_all c (a :: l) = receive_all (receive c a) l.
Proof. reflexivity. Qed.

Lemma brun_labels_cache : forall l n0 n cbs, brun n0 (labels_of l) = Some (n, cbs) ->
  bn_cache n = receive_all (bn_cache n0) l /\ bn_types n = bn_types n0 /\ bn_on n = bn_on n0.
Proof.
  induction l as [|a l IH]; intros n0 n cbs Hr.
  - cbn [labels_of map brun] in Hr. inversion Hr; subst. auto.
  - cbn [labels_of map brun] in Hr. destruct (bstep n0 (label_of a)) as [[n1 o]|] eqn:Hs; [|discriminate Hr].
    fold (labels_of l) in Hr. destruct (brun n1 (labels_of l)) as [[n2 cbs1]|] eqn:Hr1; [|discriminate Hr].
    inversion Hr; subst n2 cbs. destruct (bstep_label_cache n0 a n1 o Hs) as [Ec [Et Eo]].
    destruct (IH n1 n cbs1 Hr1) as [Ec' [Et' Eo']].
    rewrite receive_all_cons, <- Ec, Ec', Et', Eo', Et, Eo. auto.
Qed.

Lemma brun_labels_total : forall l n0, Inv (bn_cache n0) -> Forall (fun a => decoded (snd a)) l ->
  exists n cbs, brun n0 (labels_of l) = Some (n, cbs).
Proof.
  induction l as [|a l IH]; intros n0 HInv Hall.
  - exists n0, []. reflexivity.
  - inversion Hall as [|a' l' HD Hl]; subst a' l'.
    destruct (bstep_label_total n0 a HInv HD) as [n1 [o [Hs HI]]].
    destruct (IH n1 HI Hl) as [n [cbs Hr]].
    exists n, (bo_callbacks o ++ cbs). cbn [labels_of map brun]. rewrite Hs. fold (labels_of l). rewrite Hr. reflexivity.
Qed.

(* every delivery is a copy of one of the messages *)
Lemma deliveries_recs msgs fates x : In x (deliveries msgs fates) -> exists m, In m msgs /\ snd x = w_recs m.
Proof.
  intro Hx. apply deliveries_in in Hx as [m [f [d [Hmf [_ E]]]]]. exists m. split; [apply (in_combine_l _ _ _ _ Hmf)|].
  subst x. reflexivity.
Qed.

Lemma deliveries_decoded msgs fates : Forall (fun m => decoded (w_recs m)) msgs ->
  Forall (fun a => decoded (snd a)) (deliveries msgs fates).
Proof.
  intro H. rewrite Forall_forall in H. apply Forall_forall. intros x Hx.
  destruct (deliveries_recs msgs fates x Hx) as [m [Hm E]]. rewrite E. apply H. exact Hm.
Qed.

(* Theorem 1.  The deliveries of a link, handed to a browser node (any browsed types, any scheduler state) that starts on the empty
   cache, as one response label per arrival: the run does not fail, and its final cache is the receiving cache of Model.Link.
   Only "records as decoded" (32-bit TTLs, no question objects) is asked of the messages. *)
Theorem deliveries_as_labels : forall types sch msgs fates,
  Forall (fun m => decoded (w_recs m)) msgs ->
  exists n cbs, brun (bnode_init types sch) (labels_of (deliveries msgs fates)) = Some (n, cbs) /\
                bn_cache n = receive_all empty_cache (deliveries msgs fates).
Proof.
  intros types sch msgs fates Hdec.
  destruct (brun_labels_total (deliveries msgs fates) (bnode_init types sch) inv_empty (deliveries_decoded msgs fates Hdec))
    as [n [cbs Hr]].
  exists n, cbs. split; [exact Hr|]. apply (brun_labels_cache _ _ _ _ Hr).
Qed.

(* the same from any node whose cache satisfies the invariant, for any list of decoded arrivals *)
Theorem arrivals_as_labels : forall n0 l, Inv (bn_cache n0) -> Forall (fun a => decoded (snd a)) l ->
  exists n cbs, brun n0 (labels_of l) = Some (n, cbs) /\ bn_cache n = receive_all (bn_cache n0) l.
Proof.
  intros n0 l HInv Hall. destruct (brun_labels_total l n0 HInv Hall) as [n [cbs Hr]].
  exists n, cbs. split; [exact Hr|]. apply (brun_labels_cache _ _ _ _ Hr).
Qed.

(* ------------------------------------------------------------------ *)
(* what of `hyp` is asked of the sender, and what is proved *)

(* the browser's type filter maps the owner name of the pointer of s to exactly its (browsed) type *)
Definition browses (types : list text) (s : svc) : Prop := inter_types types (possible_types (s_type s)) = [s_type s].

Lemma browses_iff types s : browses types s <-> (In (s_type s) types /\ name_ok types (s_type s)).
Proof.
  unfold browses, name_ok. split.
  - intro H. split; [|left; exact H].
    assert (Hin : In (s_type s) (inter_types types (possible_types (s_type s)))) by (rewrite H; left; reflexivity).
    unfold inter_types in Hin. apply filter_In in Hin. exact (proj1 Hin).
  - intros [Hin [H|[_ H]]]; [exact H|]. exfalso. apply (H (s_type s) Hin). reflexivity.
Qed.

(* a sufficient condition that can be read off the list of types: s_type s is browsed once, it is one of the candidate types of its own
   name (it has the shape of a service type), and no OTHER browsed type is a candidate (no browsed super-type of a sub-type) *)
Lemma filter_single {A} (p : A -> bool) (x : A) : forall l, NoDup l -> In x l -> p x = true ->
  (forall y, In y l -> p y = true -> y = x) -> filter p l = [x].
Proof.
  induction l as [|y l IH]; intros ND Hin Px Hu; [destruct Hin|].
  inversion ND as [|y' l' Hn ND']; subst y' l'. cbn [filter].
  destruct Hin as [E|Hin].
  - subst y. rewrite Px. f_equal.
    assert (Hf : forall z, In z l -> p z = false).
    { intros z Hz. destruct (p z) eqn:Pz; [|reflexivity]. exfalso. apply Hn.
      rewrite <- (Hu z (or_intror Hz) Pz). exact Hz. }
    clear -Hf. induction l as [|z l IH]; [reflexivity|]. cbn [filter]. rewrite (Hf z (or_introl eq_refl)).
    apply IH. intros z' Hz'. apply Hf. right. exact Hz'.
  - destruct (p y) eqn:Py.
    + exfalso. apply Hn. rewrite (Hu y (or_introl eq_refl) Py). exact Hin.
    + apply IH; [exact ND'|exact Hin|exact Px|]. intros z Hz. apply Hu. right. exact Hz.
Qed.

Lemma browses_sufficient types s : NoDup types -> In (s_type s) types -> In (s_type s) (possible_types (s_type s)) ->
  (forall t, In t types -> In t (possible_types (s_type s)) -> t = s_type s) -> browses types s.
Proof.
  intros ND Hin Hself Hu. unfold browses, inter_types. apply filter_single; [exact ND|exact Hin| |].
  - apply existsb_exists. exists (s_type s). split; [exact Hself|apply text_eqb_refl].
  - intros t Ht Pt. apply existsb_exists in Pt as [c [Hc E]]. apply text_eqb_eq in E. subst c. apply Hu; assumption.
Qed.

(* a message of the instance: an announcement, or a goodbye (with or without the address records) *)
Definition msg_of (s : svc) (m : wmsg) : Prop :=
  w_recs m = broadcast_records s None true \/ exists b, w_recs m = broadcast_records s (Some 0) b.

(* the records of a broadcast, stamped on arrival, form a datagram as C04 wants it *)
Lemma bcast_datagram_ok types s b t : name_ok types (s_type s) -> decoded (broadcast_records s None b) ->
  datagram_ok types t (map (stamp t) (broadcast_records s None b)).
Proof.
  intros Hname HD. split; [apply stamp_wf; exact HD|]. split.
  - intros r Hr. apply in_map_iff in Hr as [r0 [E Hr0]]. subst r. apply bcast_shape in Hr0 as [Hr0|[Ht _]].
    + subst r0. intros _. split; [reflexivity|]. split; [reflexivity|exact Hname].
    + intro T. exfalso. apply Ht. exact T.
  - intros x y Hx Hy Tx Ty _ _.
    apply in_map_iff in Hx as [x0 [Ex Hx0]]. apply in_map_iff in Hy as [y0 [Ey Hy0]]. subst x y.
    apply bcast_shape in Hx0 as [Hx0|[Ht _]]; [|exfalso; apply Ht; exact Tx].
    apply bcast_shape in Hy0 as [Hy0|[Ht _]]; [|exfalso; apply Ht; exact Ty].
    subst x0 y0. reflexivity.
Qed.

Lemma msg_of_decoded s m : svc_ok s -> msg_of s m -> decoded (w_recs m).
Proof.
  intros Hs [E|[b E]]; rewrite E.
  - exact (proj1 (announce_arrival_ok s 0 true Hs)).
  - exact (proj1 (goodbye_arrival_ok s 1 0 b)).
Qed.

Lemma msg_of_datagram_ok types s m t : name_ok types (s_type s) -> svc_ok s -> msg_of s m ->
  datagram_ok types t (map (stamp t) (w_recs m)).
Proof.
  intros Hname Hs Hm. pose proof (msg_of_decoded s m Hs Hm) as HD. destruct Hm as [E|[b E]]; rewrite E in *.
  - apply bcast_datagram_ok; assumption.
  - rewrite bcast_override in *. apply (bcast_datagram_ok types (with_ttl s 0) b t); assumption.
Qed.

Lemma msg_of_arrival_ok s m t : svc_ok s -> msg_of s m -> arrival_ok s (s_other_ttl s) (t, w_recs m).
Proof.
  intros Hs [E|[b E]]; rewrite E.
  - apply announce_arrival_ok. exact Hs.
  - apply goodbye_arrival_ok.
Qed.

(* PROVED for the sender: the labels made of the deliveries of its messages satisfy the hypotheses of C04 *)
Lemma sender_labels_hyp types s msgs fates :
  types_distinct types -> name_ok types (s_type s) -> svc_ok s -> Forall (msg_of s) msgs ->
  hyp types (labels_of (deliveries msgs fates)).
Proof.
  intros Htd Hname Hs Hmsgs. rewrite Forall_forall in Hmsgs. split; [exact Htd|].
  intros now answers Hin. unfold labels_of in Hin. apply in_map_iff in Hin as [x [E Hx]].
  unfold label_of in E. inversion E; subst now answers.
  destruct (deliveries_recs msgs fates x Hx) as [m [Hm Er]]. rewrite Er.
  apply (msg_of_datagram_ok types s m); [exact Hname|exact Hs|apply Hmsgs; exact Hm].
Qed.

Lemma sender_arrivals_ok s msgs fates : svc_ok s -> Forall (msg_of s) msgs ->
  Forall (arrival_ok s (s_other_ttl s)) (deliveries msgs fates).
Proof.
  intros Hs Hmsgs. rewrite Forall_forall in Hmsgs. apply Forall_forall. intros [t recs] Hx.
  destruct (deliveries_recs msgs fates _ Hx) as [m [Hm Er]]. cbn [snd] in Er. subst recs.
  apply msg_of_arrival_ok; [exact Hs|apply Hmsgs; exact Hm].
Qed.

Lemma sender_msgs_decoded s msgs : svc_ok s -> Forall (msg_of s) msgs -> Forall (fun m => decoded (w_recs m)) msgs.
Proof.
  intros Hs H. rewrite Forall_forall in H. apply Forall_forall. intros m Hm. apply (msg_of_decoded s m Hs). apply H. exact Hm.
Qed.

Lemma announce_msgs_of s a : Forall (msg_of s) (announce_msgs s a).
Proof.
  assert (H : forall t, msg_of s (wm t (broadcast_records s None true))) by (intro t; left; reflexivity).
  unfold announce_msgs. apply Forall_cons; [apply H|]. apply Forall_cons; [apply H|]. apply Forall_cons; [apply H|]. apply Forall_nil.
Qed.

Lemma goodbye_msgs_of s b g1 g2 g3 : Forall (msg_of s) (goodbye_msgs (broadcast_records s (Some 0) b) g1 g2 g3).
Proof.
  assert (H : forall t, msg_of s (wm t (broadcast_records s (Some 0) b))) by (intro t; right; exists b; reflexivity).
  unfold goodbye_msgs. apply Forall_cons; [apply H|]. apply Forall_cons; [apply H|]. apply Forall_cons; [apply H|]. apply Forall_nil.
Qed.

(* the run of the browser on the deliveries of the instance's messages: it does not fail, its cache is the receiving cache of the
   link theorems, and the invariant of C04 holds at its end *)
Lemma sender_run types sch s msgs fates :
  types_distinct types -> name_ok types (s_type s) -> svc_ok s -> Forall (msg_of s) msgs ->
  exists n cbs, brun (bnode_init types sch) (labels_of (deliveries msgs fates)) = Some (n, cbs) /\
                bn_cache n = receive_all empty_cache (deliveries msgs fates) /\
                hyp types (labels_of (deliveries msgs fates)).
Proof.
  intros Htd Hname Hs Hmsgs.
  destruct (deliveries_as_labels types sch msgs fates (sender_msgs_decoded s msgs Hs Hmsgs)) as [n [cbs [Hr Ec]]].
  exists n, cbs. split; [exact Hr|]. split; [exact Ec|]. apply (sender_labels_hyp types s); assumption.
Qed.

(* ------------------------------------------------------------------ *)
(* `knows` versus `cached_instances` *)

(* the unexpired pointer `knows` finds is one of the cached pointers of the type (no invariant needed) *)
Lemma knows_cached c t s : knows c t s = true -> In (lower (s_name s)) (cached_instances c (s_type s)).
Proof.
  unfold knows, current_entry_with_name_and_alias. intro H.
  destruct (find _ (rev (entries_with_name c (s_type s)))) as [x|] eqn:F; [|discriminate H].
  apply find_some in F as [Hx Px]. apply in_rev in Hx.
  apply andb_true_iff in Px as [Px Ax]. apply andb_true_iff in Px as [Tx _].
  apply text_eqb_eq in Ax. unfold DNSEntry_type in Tx.
  unfold cached_instances. apply in_map_iff. exists x. split; [rewrite Ax; reflexivity|].
  apply filter_In. split; assumption.
Qed.

Lemma is_ptr_pointer s : is_ptr (dns_pointer s).
Proof. split; [reflexivity|]. split; reflexivity. Qed.

(* when the cache does not hold the pointer object of s - and its PTR records are DNSPointers of class IN (cache_ok) - no cached
   pointer of the type has a target that lower-cases to the instance name *)
Lemma no_entry_not_cached types c s : Inv c -> cache_ok types c -> ptr_entry c s = None ->
  ~ In (lower (s_name s)) (cached_instances c (s_type s)).
Proof.
  intros HInv Hok Hn Hin. apply (cached_instances_in c _ _ HInv) in Hin as [x [Hx [T [N A]]]].
  destruct (ptr_ok_is_ptr types x (Hok x Hx) T) as [Px _].
  assert (E : gen_eq x (dns_pointer s) = true).
  { apply ptr_gen_eq; [exact Px|apply is_ptr_pointer|rewrite rkey_pointer; exact N|exact A]. }
  unfold ptr_entry in Hn. rewrite (get_unique_flat c _ HInv) in Hn.
  pose proof (find_none _ _ Hn x Hx) as C. cbv beta in C. congruence.
Qed.

(* ------------------------------------------------------------------ *)
(* 2. the browser learns the instance *)

(* Theorem 2.  A browser on `types` (pairwise distinct when lower-cased) among which is the type of s, the type filter mapping that
   name to exactly that type (name_ok, the one clause of `hyp` about the sender that is not provable from the records alone), started
   on the empty cache; the three announcements of s over a link with delays within 0..100 ms, duplication, reordering and at most one
   message lost.  Then the run of the browser over the deliveries does not fail and, at its end, the instance has been reported Added
   and not since Removed. *)
Theorem browser_learns : forall types sch s a fates,
  types_distinct types -> In (s_type s) types -> name_ok types (s_type s) -> svc_ok s ->
  length fates = 3%nat -> Forall fate_ok fates -> (losses fates <= 1)%nat ->
  exists n cbs, brun (bnode_init types sch) (labels_of (deliveries (announce_msgs s a) fates)) = Some (n, cbs) /\
                In (lower (s_name s)) (live_after cbs (s_type s)).
Proof.
  intros types sch s a fates Htd Hin Hname Hs Hlen Hok Hloss.
  destruct (sender_run types sch s (announce_msgs s a) fates Htd Hname Hs (announce_msgs_of s a)) as [n [cbs [Hr [Ec Hh]]]].
  exists n, cbs. split; [exact Hr|].
  destruct (C04_live types sch _ n cbs Hh Hr (s_type s) Hin) as [Hiff _]. apply Hiff. rewrite Ec.
  apply (knows_cached _ (a + 550)).
  apply (announcements_converge_partial empty_cache s a fates (a + 550) (recv_empty s) Hs Hlen Hok Hloss).
  destruct Hs as [Ho _]. lia.
Qed.

(* ------------------------------------------------------------------ *)
(* 3. the browser forgets the instance *)

(* after the announcements and the (non-overlapping) goodbyes the receiving cache does not hold the pointer object at all - not merely
   an expired one: withdrawal_general holds at EVERY instant t', in particular just before a cached copy would expire *)
Lemma withdrawal_no_entry s a g b fates :
  svc_ok s -> a + 450 + 100 < g -> length fates = 6%nat -> Forall fate_ok fates -> (losses fates <= 1)%nat ->
  let l := deliveries (announce_msgs s a ++ goodbye_msgs (broadcast_records s (Some 0) b) g (g + 125) (g + 250)) fates in
  Recv (receive_all empty_cache l) s /\ ptr_entry (receive_all empty_cache l) s = None.
Proof.
  intros Hs Hg Hlen Hok Hloss l.
  assert (Hmsgs : Forall (msg_of s) (announce_msgs s a ++ goodbye_msgs (broadcast_records s (Some 0) b) g (g + 125) (g + 250))).
  { apply Forall_app. split; [apply announce_msgs_of|apply goodbye_msgs_of]. }
  assert (HRl : Recv (receive_all empty_cache l) s).
  { apply (receive_all_recv empty_cache s (s_other_ttl s) l (recv_empty s)); [destruct Hs as [Ho _]; lia|].
    apply sender_arrivals_ok; assumption. }
  split; [exact HRl|].
  assert (HK : forall t', knows (receive_all empty_cache l) t' s = false).
  { intro t'. unfold l. apply withdrawal_general; try assumption; try lia.
    - apply recv_empty.
    - intro t. apply goodbye_arrival_ok.
    - apply bcast_is_goodbye. }
  destruct (ptr_entry (receive_all empty_cache l) s) as [x|] eqn:Px; [|reflexivity]. exfalso.
  pose proof (HK (p_created x + 1000 * p_ttl x - 1)) as K.
  rewrite (knows_pstate _ _ s HRl) in K. unfold pstate in K. rewrite Px in K. cbn [option_map lifetime] in K.
  apply negb_false_iff in K. apply Z.leb_le in K. lia.
Qed.

(* Theorem 3.  The same browser; the three announcements followed by the three goodbyes of the instance (with or without the address
   records, b), the first goodbye sent more than 100 ms after the last announcement (no overlap), at most one of the six messages
   lost.  Then the run does not fail and at its end the instance is NOT among those reported Added and not since Removed.
   The side condition "no other cached pointer whose target lower-cases to the same name" is discharged, not assumed: the browser
   starts on the empty cache and sees only this sender's messages, and the C04 invariant (cache_ok: every PTR record is a DNSPointer
   of class IN) makes such a record THE pointer object of s, which the goodbye has removed. *)
Theorem browser_forgets : forall types sch s a g b fates,
  types_distinct types -> In (s_type s) types -> name_ok types (s_type s) -> svc_ok s ->
  a + 450 + 100 < g ->
  length fates = 6%nat -> Forall fate_ok fates -> (losses fates <= 1)%nat ->
  exists n cbs,
    brun (bnode_init types sch)
         (labels_of (deliveries (announce_msgs s a ++ goodbye_msgs (broadcast_records s (Some 0) b) g (g + 125) (g + 250)) fates))
    = Some (n, cbs) /\
    ~ In (lower (s_name s)) (live_after cbs (s_type s)).
Proof.
  intros types sch s a g b fates Htd Hin Hname Hs Hg Hlen Hok Hloss.
  set (msgs := announce_msgs s a ++ goodbye_msgs (broadcast_records s (Some 0) b) g (g + 125) (g + 250)).
  assert (Hmsgs : Forall (msg_of s) msgs).
  { apply Forall_app. split; [apply announce_msgs_of|apply goodbye_msgs_of]. }
  destruct (sender_run types sch s msgs fates Htd Hname Hs Hmsgs) as [n [cbs [Hr [Ec Hh]]]].
  exists n, cbs. split; [exact Hr|].
  destruct (C04_live types sch _ n cbs Hh Hr (s_type s) Hin) as [Hiff _]. intro Hlive. apply Hiff in Hlive.
  destruct (run_invariant types sch _ n cbs Hh Hr) as [_ [_ [HInv [Hcok _]]]].
  apply (no_entry_not_cached types (bn_cache n) s HInv Hcok); [|exact Hlive].
  rewrite Ec. apply (withdrawal_no_entry s a g b fates Hs Hg Hlen Hok Hloss).
Qed.

(* ------------------------------------------------------------------ *)
(* end to end: the messages are what the sender's tasks put on the wire (Model.Node) *)

Definition goodbye_task (s : svc) (b : bool) : bcast :=
  {| bc_svc := s; bc_ttl := Some 0; bc_addresses := b; bc_interval := C_UNREGISTER_TIME; bc_left := C_REGISTER_BROADCASTS |}.

(* the task unregister_service starts is a goodbye task *)
Lemma unregister_starts_goodbye_task g s : exists b, snd (fst (unregister_service g s)) = goodbye_task s b.
Proof. unfold unregister_service. eexists. reflexivity. Qed.

Lemma goodbye_task_sends : forall n id s b g1 g2 g3, n_done n = false -> d_get Z.eqb (n_tasks n) id = Some (goodbye_task s b) ->
  wmsgs_of (concat (nrun n [LBcast id g1; LBcast id g2; LBcast id g3])) = goodbye_msgs (broadcast_records s (Some 0) b) g1 g2 g3.
Proof.
  intros n id s b g1 g2 g3 Hd Hg. cbn [nrun].
  destruct (nstep n (LBcast id g1)) as [n1 o1] eqn:E1.
  destruct (nstep n1 (LBcast id g2)) as [n2 o2] eqn:E2.
  destruct (nstep n2 (LBcast id g3)) as [n3 o3] eqn:E3.
  destruct (lbcast_step n id (goodbye_task s b) g1 Hd Hg ltac:(reflexivity)) as [D1 [G1 W1]].
  rewrite E1 in D1, G1, W1. cbn [fst snd] in D1, G1, W1.
  destruct (lbcast_step n1 id _ g2 D1 G1 ltac:(reflexivity)) as [D2 [G2 W2]].
  rewrite E2 in D2, G2, W2. cbn [fst snd] in D2, G2, W2.
  destruct (lbcast_step n2 id _ g3 D2 G2 ltac:(reflexivity)) as [_ [_ W3]].
  rewrite E3 in W3. cbn [fst snd] in W3.
  cbn [concat]. rewrite app_nil_r. unfold wmsgs_of in *. rewrite !flat_map_app, W1, W2, W3. reflexivity.
Qed.

(* registration, from the announcement task of the sending node to the callbacks of the receiving browser *)
Theorem announcement_task_to_callbacks : forall nd id types sch s a fates,
  n_done nd = false -> d_get Z.eqb (n_tasks nd) id = Some (announce_task s) ->
  types_distinct types -> In (s_type s) types -> name_ok types (s_type s) -> svc_ok s ->
  length fates = 3%nat -> Forall fate_ok fates -> (losses fates <= 1)%nat ->
  let sent := wmsgs_of (concat (nrun nd [LBcast id a; LBcast id (a + 225); LBcast id (a + 450)])) in
  exists n cbs, brun (bnode_init types sch) (labels_of (deliveries sent fates)) = Some (n, cbs) /\
                In (lower (s_name s)) (live_after cbs (s_type s)).
Proof.
  intros nd id types sch s a fates Hd Ht Htd Hin Hname Hs Hlen Hok Hloss sent.
  unfold sent. rewrite (announce_task_sends nd id s a Hd Ht). apply browser_learns; assumption.
Qed.

(* withdrawal: the announcement task, later the goodbye task (nd' = the sending node when the goodbye task starts) *)
Theorem goodbye_task_to_callbacks : forall nd id nd' id' types sch s a g b fates,
  n_done nd = false -> d_get Z.eqb (n_tasks nd) id = Some (announce_task s) ->
  n_done nd' = false -> d_get Z.eqb (n_tasks nd') id' = Some (goodbye_task s b) ->
  types_distinct types -> In (s_type s) types -> name_ok types (s_type s) -> svc_ok s ->
  a + 450 + 100 < g ->
  length fates = 6%nat -> Forall fate_ok fates -> (losses fates <= 1)%nat ->
  let sent := wmsgs_of (concat (nrun nd [LBcast id a; LBcast id (a + 225); LBcast id (a + 450)]))
              ++ wmsgs_of (concat (nrun nd' [LBcast id' g; LBcast id' (g + 125); LBcast id' (g + 250)])) in
  exists n cbs, brun (bnode_init types sch) (labels_of (deliveries sent fates)) = Some (n, cbs) /\
                ~ In (lower (s_name s)) (live_after cbs (s_type s)).
Proof.
  intros nd id nd' id' types sch s a g b fates Hd Ht Hd' Ht' Htd Hin Hname Hs Hg Hlen Hok Hloss sent.
  unfold sent. rewrite (announce_task_sends nd id s a Hd Ht), (goodbye_task_sends nd' id' s b g (g + 125) (g + 250) Hd' Ht').
  apply browser_forgets; assumption.
Qed.

(* ------------------------------------------------------------------ *)
(* 4. a concrete run *)
Require Import Coq.Strings.String Coq.Strings.Ascii.
Fixpoint txt (s : string) : text :=
  match s with EmptyString => [] | String ch r => Z.of_N (N_of_ascii ch) :: txt r end.

Definition b_type : text := txt "_http._tcp.local.".
Definition b_name : text := txt "Web._http._tcp.local.".
Definition b_svc : svc :=
  {| s_type := b_type; s_name := b_name; s_server := txt "host.local."; s_port := 80; s_weight := 0; s_priority := 0;
     s_text := [0]; s_host_ttl := 120; s_other_ttl := 4500; s_v4 := [[10; 0; 0; 1]]; s_v6 := [] |}.
(* the browser also browses another type *)
Definition b_types : list text := [txt "_ipp._tcp.local."; b_type].

Lemma b_svc_ok : svc_ok b_svc.
Proof. unfold svc_ok. cbn. lia. Qed.

Lemma b_browses : browses b_types b_svc.
Proof. vm_compute. reflexivity. Qed.

Lemma b_types_distinct : types_distinct b_types.
Proof.
  intros t1 t2 [H1|[H1|[]]] [H2|[H2|[]]]; subst t1 t2; intro E; try reflexivity; vm_compute in E; discriminate E.
Qed.

(* announcements at 0, 225, 450: the first arrives twice (at 90 and at 10: duplicated, the copies out of order), the second is lost,
   the third arrives at 455.  Goodbyes at 600, 725, 850: the first is delayed by 100 (arrives at 700), the second by 0 (725), the third
   is duplicated (855, 940).  Six messages, one lost. *)
Definition b_fates : list fate := [[90; 10]; []; [5]; [100]; [0]; [5; 90]].
Definition b_deliveries : list (Z * list pyrec) :=
  deliveries (announce_msgs b_svc 0 ++ goodbye_msgs (broadcast_records b_svc (Some 0) true) 600 725 850) b_fates.

Example b_example :
  List.length b_fates = 6%nat /\ losses b_fates = 1%nat /\ forallb (forallb (fun d => (0 <=? d) && (d <=? 100))) b_fates = true /\
  map fst b_deliveries = [10; 90; 455; 700; 725; 855; 940] /\
  match brun (bnode_init b_types (sched_init 10000 true)) (labels_of b_deliveries) with
  | Some (n, cbs) =>
      cbs = [((b_name, b_type), Added); ((b_name, b_type), Removed)] /\
      live_after cbs b_type = [] /\ cached_instances (bn_cache n) b_type = []
  | None => False
  end /\
  (* after the announcements alone (the same three fates): Added, and reported *)
  match brun (bnode_init b_types (sched_init 10000 true)) (labels_of (deliveries (announce_msgs b_svc 0) [[90; 10]; []; [5]])) with
  | Some (n, cbs) => cbs = [((b_name, b_type), Added)] /\ live_after cbs b_type = [lower b_name]
  | None => False
  end.
Proof. vm_compute. repeat split; reflexivity. Qed.

(* the theorems apply to it *)
Example b_learns : exists n cbs,
  brun (bnode_init b_types (sched_init 10000 true)) (labels_of (deliveries (announce_msgs b_svc 0) [[90; 10]; []; [5]])) = Some (n, cbs) /\
  In (lower b_name) (live_after cbs b_type).
Proof.
  destruct (proj1 (browses_iff b_types b_svc) b_browses) as [Hin Hname].
  apply (browser_learns b_types (sched_init 10000 true) b_svc 0 [[90; 10]; []; [5]] b_types_distinct Hin Hname b_svc_ok).
  - reflexivity.
  - repeat constructor; lia.
  - cbn. lia.
Qed.

Example b_forgets : exists n cbs,
  brun (bnode_init b_types (sched_init 10000 true)) (labels_of b_deliveries) = Some (n, cbs) /\
  ~ In (lower b_name) (live_after cbs b_type).
Proof.
  destruct (proj1 (browses_iff b_types b_svc) b_browses) as [Hin Hname].
  apply (browser_forgets b_types (sched_init 10000 true) b_svc 0 600 true b_fates b_types_distinct Hin Hname b_svc_ok).
  - lia.
  - reflexivity.
  - repeat constructor; lia.
  - cbn. lia.
Qed.

(* name_ok is needed: a browser that also browses the super-type of a sub-type registration gets the pointer under BOTH types from
   its filter, C04's hypothesis fails, and "reported = cached" with it: the instance is reported for a type under which the cache
   holds nothing *)
Definition b_sub_type : text := txt "_printer._sub._http._tcp.local.".
Definition b_sub_svc : svc :=
  {| s_type := b_sub_type; s_name := txt "Web._printer._sub._http._tcp.local."; s_server := txt "host.local."; s_port := 80; s_weight := 0;
     s_priority := 0; s_text := [0]; s_host_ttl := 120; s_other_ttl := 4500; s_v4 := [[10; 0; 0; 1]]; s_v6 := [] |}.
Example name_ok_needed :
  let types := [b_type; b_sub_type] in
  inter_types types (possible_types b_sub_type) = [b_type; b_sub_type] /\
  match brun (bnode_init types (sched_init 10000 true)) (labels_of (deliveries (announce_msgs b_sub_svc 0) [[0]; [0]; [0]])) with
  | Some (n, cbs) => live_after cbs b_type = [lower (s_name b_sub_svc)] /\ cached_instances (bn_cache n) b_type = []
  | None => False
  end.
Proof. vm_compute. repeat split; reflexivity. Qed.

(* ------------------------------------------------------------------ *)
Check deliveries_as_labels.
Check browser_learns.
Check browser_forgets.
Check announcement_task_to_callbacks.
Check goodbye_task_to_callbacks.

Print Assumptions deliveries_as_labels.
Print Assumptions arrivals_as_labels.
Print Assumptions browses_iff.
Print Assumptions browses_sufficient.
Print Assumptions sender_labels_hyp.
Print Assumptions browser_learns.
Print Assumptions browser_forgets.
Print Assumptions goodbye_task_sends.
Print Assumptions announcement_task_to_callbacks.
Print Assumptions goodbye_task_to_callbacks.
Print Assumptions b_example.
Print Assumptions b_learns.
Print Assumptions b_forgets.
Print Assumptions name_ok_needed.
