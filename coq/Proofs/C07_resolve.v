(* C07, the lookup half end to end: "A service-info lookup made from the Added callback resolves the advertised host, port, TXT
   and addresses."
     1. lookup_first_query_partial  - what a lookup that starts with nothing cached asks (Model/Info.v, Model/Query.v)
     2. responder_answers_lookup    - what a node that has the service registered sends back (Model/Node.v: LQuery)
     3. lookup_resolves_*           - what the pending lookup makes of that reply, in any order (Model/Info.v: request_update)
     4. resolve_example             - one concrete run through all three, by computation
   Helpers: C07_r1.v (query, responder, sections of the reply), C07_r2.v (the lookup's record processing). *)
From Coq Require Import ZArith List Bool Lia ZifyBool Permutation.
From ZC Require Import Model.Base Model.PyRec Model.Dict Model.Re Model.Cache Model.Respond Model.Route Model.WireEnc
  Model.OutQueue Model.Query Model.Info Model.Node Model.Link Gen.Const Gen.Extra Gen.DnsPure Spec.AnswerSpec.
From ZC Require Import Proofs.C18_info Proofs.C07_lookup Proofs.C03_reg Proofs.C11_lemmas Proofs.C09_register Proofs.C15_a2
  Proofs.C03_respond Proofs.C07_r1 Proofs.C07_r2 Proofs.C07_r3.
Import ListNotations.
Open Scope Z_scope.
Ltac Zify.zify_post_hook ::= Z.to_euclidean_division_equations.

(* ================================================================================================ *)
(* 1. the first query                                                                                *)

(* As sketched (no condition on the timeout) the statement is false: with timeout <= 0 the lookup gives up at once. *)
Example lookup_first_query_counterexample :
  snd (request_start empty_cache [] [120; 46] 1000 0 20 None) = [RReturn 1000 false].
Proof. vm_compute. reflexivity. Qed.

Theorem lookup_gives_up_without_time : forall name t0 timeout rnd, timeout <= 0 ->
  snd (request_start empty_cache [] name t0 timeout rnd None) = [RReturn t0 false].
Proof. exact lookup_no_time. Qed.

(* With a positive timeout: exactly one message, sent at t0 with the QU bit, asking SRV, TXT, A and AAAA for the instance name
   (the host is not known yet: `server` defaults to the instance name), with no known answers; the history stays empty (QU questions
   are never recorded, C13_qu_never) and the lookup stays pending, next query due 200 ms + draw later. *)
Theorem lookup_first_query_partial : forall name t0 timeout rnd, 0 < timeout ->
  exists m r,
    request_start empty_cache [] name t0 timeout rnd None = (r, [], [RSend t0 true m]) /\
    qm_qs m = [mkq name C_TYPE_SRV true; mkq name C_TYPE_TXT true; mkq name C_TYPE_A true; mkq name C_TYPE_AAAA true] /\
    qm_known m = [] /\ qm_time m = t0 /\ Forall (fun q => DNSEntry_unique q = true) (qm_qs m) /\
    m = first_query name t0 /\ r = pending0 name t0 timeout rnd /\
    rq_done r = None /\ rq_info r = sinfo_init name /\ rq_next r = t0 + 200 + rnd /\ rq_last r = t0 + timeout.
Proof.
  intros name t0 timeout rnd Ht. exists (first_query name t0), (pending0 name t0 timeout rnd).
  split; [exact (lookup_first_query_eq name t0 timeout rnd Ht)|].
  split; [reflexivity|]. split; [reflexivity|]. split; [reflexivity|].
  split; [repeat constructor|]. repeat split.
Qed.

(* ================================================================================================ *)
(* 2. the responder                                                                                  *)

Lemma registered_get g s : RegInv g -> In s (registered g) -> d_get text_eqb (g_services g) (s_key s) = Some s.
Proof. intros HI Hs. apply (services_lookup g (s_key s) s HI). split; [exact Hs|reflexivity]. Qed.

(* A node that is not closed and has s registered receives the lookup's first query from port 5353.  Provided no registered service
   uses the instance name of s as its HOST name (then the A / AAAA questions for the instance name have no answer), the node's state
   does not change and it sends at once:
     - SRV and TXT both seen multicast within a quarter of their TTL (C11_recent; the usual case right after the announcement):
       ONE unicast message to the querier (id echoed, no question section): answers SRV, TXT; additionals: the address records and NSEC;
     - neither: ONE multicast message with the same sections;
     - only one of them recent: that one by unicast, the other by multicast - the address records travel with the SRV record.
   In every case the records are, as a set, exactly dns_service s, dns_text s and address_and_nsec s (duplicates of the same address are
   sent once). *)
Theorem responder_answers_lookup_exact : forall n s name now id addr rq rd,
  RegInv (n_reg n) -> n_done n = false -> In s (registered (n_reg n)) -> lower name = s_key s ->
  no_host_named_like (n_reg n) s ->
  let l := LQuery now [lookup_qmsg name now] id addr C_MDNS_PORT rq rd in
  let U a := construct_unicast a false (lookup_questions name) id in
  let M a := construct_multicast a in
  let to_querier := Some (addr, C_MDNS_PORT) in
  fst (nstep n l) = n /\
  snd (nstep n l) =
    match recent (n_cache n) now (dns_service s), recent (n_cache n) now (dns_text s) with
    | true, true => [OSend now to_querier (U (srv_part s ++ txt_part s))]
    | true, false => [OSend now to_querier (U (srv_part s)); OSend now None (M (txt_part s))]
    | false, true => [OSend now to_querier (U (txt_part s)); OSend now None (M (srv_part s))]
    | false, false => [OSend now None (M (srv_part s ++ txt_part s))]
    end /\
  (forall m, m = U (srv_part s ++ txt_part s) \/ m = M (srv_part s ++ txt_part s) ->
             carries m [dns_service s; dns_text s] (own_additionals s)) /\
  (forall m, m = U (srv_part s) \/ m = M (srv_part s) -> carries m [dns_service s] (dns_service s :: address_and_nsec s)) /\
  (forall m, m = U (txt_part s) \/ m = M (txt_part s) -> carries m [dns_text s] [dns_text s]) /\
  (forall a, o_id (U a) = id /\ o_multicast (U a) = false /\ o_questions (U a) = [] /\ o_flags (U a) = 33792) /\
  (forall a, o_id (M a) = 0 /\ o_multicast (M a) = true /\ o_questions (M a) = [] /\ o_flags (M a) = 33792).
Proof.
  intros n s name now id addr rq rd HI Hd Hs Hn Hno l U M to_querier.
  pose proof (registered_get _ s HI Hs) as Hg. pose proof (no_host_infos _ s HI Hno) as Hh.
  unfold l. rewrite (lookup_nstep n s name now id addr rq rd Hn Hg Hh Hd). cbn [fst snd].
  split; [reflexivity|]. split.
  { unfold lookup_ucast, lookup_mcast.
    destruct (recent (n_cache n) now (dns_service s)), (recent (n_cache n) now (dns_text s)); reflexivity. }
  split; [intros m [-> | ->]; apply carries_both; [left; eexists; eexists; reflexivity|right; reflexivity]|].
  split; [intros m [-> | ->]; apply carries_srv; [left; eexists; eexists; reflexivity|right; reflexivity]|].
  split; [intros m [-> | ->]; apply carries_txt; [left; eexists; eexists; reflexivity|right; reflexivity]|].
  split; intro a; [apply unicast_header|apply multicast_header].
Qed.

(* The same without any assumption about host names: services whose host name is the instance name of s may add address answers (to
   the A / AAAA questions), so the answer sets U (unicast) and M (multicast at once) are no longer fixed - but the SRV record with its
   additionals, and the TXT record, are still in them, each on the side chosen by its own `recent` test; nothing is queued and the node
   does not change.  An additional may be represented by a record of the same identity (the additional section is deduplicated by
   identity against the answers: Model/Route.v answers_additionals). *)
Lemma msg_answers_u a qs id : map fst (o_answers (construct_unicast a false qs id)) = map fst a.
Proof. rewrite unicast_answers, map_map. cbn [fst]. apply map_id. Qed.
Lemma msg_answers_m a : map fst (o_answers (construct_multicast a)) = map fst a.
Proof. rewrite multicast_answers, map_map. cbn [fst]. apply map_id. Qed.

Lemma sent_u (U M : answer_set) now dest (mu : out_msg) (mm : out_msg) x : In x U ->
  In (OSend now dest mu) ((match U with [] => [] | _ => [OSend now dest mu] end) ++ (match M with [] => [] | _ => [OSend now None mm] end)).
Proof. intro H. destruct U; [destruct H|]. left. reflexivity. Qed.
Lemma sent_m (U M : answer_set) now dest (mu : out_msg) (mm : out_msg) x : In x M ->
  In (OSend now None mm) ((match U with [] => [] | _ => [OSend now dest mu] end) ++ (match M with [] => [] | _ => [OSend now None mm] end)).
Proof. intro H. apply in_or_app. right. destruct M; [destruct H|]. left. reflexivity. Qed.

Theorem responder_answers_lookup : forall n s name now id addr rq rd,
  RegInv (n_reg n) -> n_done n = false -> In s (registered (n_reg n)) -> lower name = s_key s ->
  let l := LQuery now [lookup_qmsg name now] id addr C_MDNS_PORT rq rd in
  let rs := recent (n_cache n) now (dns_service s) in
  let rt := recent (n_cache n) now (dns_text s) in
  let dest_of (b : bool) := if b then Some (addr, C_MDNS_PORT) else None in
  fst (nstep n l) = n /\
  exists U M : answer_set,
    snd (nstep n l) =
      (match U with [] => [] | _ => [OSend now (Some (addr, C_MDNS_PORT)) (construct_unicast U false (lookup_questions name) id)] end) ++
      (match M with [] => [] | _ => [OSend now None (construct_multicast M)] end) /\
    In (dns_service s, address_and_nsec s) (if rs then U else M) /\
    In (dns_text s) (map fst (if rt then U else M)) /\
    (* so: the SRV record is answered in one message, whose two sections hold every address record and the NSEC record *)
    (exists m, In (OSend now (dest_of rs) m) (snd (nstep n l)) /\ In (dns_service s) (map fst (o_answers m)) /\
               (rs = rt -> In (dns_text s) (map fst (o_answers m))) /\
               forall x, In x (address_and_nsec s) -> exists y, In y (reply_records m) /\ gen_eq y x = true) /\
    (* and the TXT record is answered (in the same message when rs = rt, since there is at most one message per destination) *)
    (exists m, In (OSend now (dest_of rt) m) (snd (nstep n l)) /\ In (dns_text s) (map fst (o_answers m))).
Proof.
  intros n s name now id addr rq rd HI Hd Hs Hn l rs rt dest_of.
  pose proof (registered_get _ s HI Hs) as Hg.
  destruct (general_response (n_reg n) (n_cache n) s name now Hn Hg) as (qr & Er & I1 & I2 & I3 & I4 & I5).
  pose proof (general_nstep n name now id addr rq rd qr Hd Er I4 I5) as En. fold l in En.
  set (U := with_additionals qr (q_ucast qr)) in *. set (M := with_additionals qr (q_mcast_now qr)) in *.
  assert (Eo : snd (nstep n l) =
      (match U with [] => [] | _ => [OSend now (Some (addr, C_MDNS_PORT)) (construct_unicast U false (lookup_questions name) id)] end) ++
      (match M with [] => [] | _ => [OSend now None (construct_multicast M)] end)).
  { rewrite En. cbn [snd]. clearbody U M. destruct U, M; reflexivity. }
  split; [rewrite En; reflexivity|]. rewrite Eo.
  fold rs in I2. fold rt in I3.
  assert (HS : In (dns_service s, address_and_nsec s) (if rs then U else M)).
  { destruct rs; apply with_additionals_in; assumption. }
  assert (HT : In (dns_text s) (map fst (if rt then U else M))).
  { destruct rt; apply with_additionals_key; assumption. }
  exists U, M. split; [reflexivity|]. split; [exact HS|]. split; [exact HT|]. split.
  - destruct rs.
    + exists (construct_unicast U false (lookup_questions name) id). split; [apply (sent_u U M _ _ _ _ _ HS)|].
      destruct (answer_in_message U _ _ HS) as [A1 A2]. rewrite answers_additionals_eq in A1. cbn [fst] in A1.
      split; [rewrite msg_answers_u; exact A1|]. split.
      * intro E. rewrite <- E in HT. rewrite msg_answers_u. exact HT.
      * intros x Hx. rewrite unicast_records. apply A2. exact Hx.
    + exists (construct_multicast M). split; [apply (sent_m U M _ (Some (addr, C_MDNS_PORT)) (construct_unicast U false (lookup_questions name) id) _ _ HS)|].
      destruct (answer_in_message M _ _ HS) as [A1 A2]. rewrite answers_additionals_eq in A1. cbn [fst] in A1.
      split; [rewrite msg_answers_m; exact A1|]. split.
      * intro E. rewrite <- E in HT. rewrite msg_answers_m. exact HT.
      * intros x Hx. rewrite multicast_records. apply A2. exact Hx.
  - destruct rt.
    + apply in_map_iff in HT as (e & Ee & He). exists (construct_unicast U false (lookup_questions name) id).
      split; [apply (sent_u U M _ _ _ _ _ He)|]. rewrite msg_answers_u. rewrite <- Ee. apply in_map. exact He.
    + apply in_map_iff in HT as (e & Ee & He). exists (construct_multicast M).
      split; [apply (sent_m U M _ (Some (addr, C_MDNS_PORT)) (construct_unicast U false (lookup_questions name) id) _ _ He)|].
      rewrite msg_answers_m. rewrite <- Ee. apply in_map. exact He.
Qed.

(* ================================================================================================ *)
(* 3. the lookup resolves                                                                            *)

Lemma request_update_pending c1 now r news : rq_done r = None ->
  rq_info (fst (request_update c1 now r news)) = fst (process_records c1 now (rq_info r) (addresses_last news)) /\
  snd (request_update c1 now r news) = snd (process_records c1 now (rq_info r) (addresses_last news)).
Proof.
  intro Hd. unfold request_update. rewrite Hd. destruct (process_records c1 now (rq_info r) (addresses_last news)) as [i' u].
  split; reflexivity.
Qed.

Lemma complete_turn c h r now rnd : is_complete (rq_info r) = true ->
  loop_turn c h r now rnd = (set_done r (Some true), h, [RReturn now true]).
Proof. intro Hc. unfold loop_turn. rewrite Hc. reflexivity. Qed.

(* the general step: a pending lookup that has not seen the SRV record yet (it may already have the TXT data, txt) is handed a batch
   made of records of s, stamped with the arrival time, that holds at least the SRV record and every address record, in any order *)
Theorem lookup_batch_resolves : forall c1 t1 r news s name txt,
  rq_done r = None -> rq_info r = unres name txt -> lower name = s_key s ->
  0 < s_host_ttl s -> addr_lengths s -> reply_batch t1 s news ->
  let r1 := fst (request_update c1 t1 r news) in
  let i := rq_info r1 in
  snd (request_update c1 t1 r news) = true /\ rq_done r1 = None /\
  (exists v4 v6, i = res s (si_text i) v4 v6) /\ txt_ok t1 s news txt (si_text i) /\
  (forall a, In a (si_v4 i) <-> In a (s_v4 s) \/ In a (cached_v4 c1 t1 s)) /\
  (forall a, In a (si_v6 i) <-> In a (s_v6 s) \/ In a (cached_v6 c1 t1 s)).
Proof.
  intros c1 t1 r news s name txt Hd Hi Hn Hh Hl Hb r1 i.
  destruct (request_update_pending c1 t1 r news Hd) as [Ei Eu]. fold r1 in Ei. fold i in Ei.
  destruct (request_update_fields c1 t1 r news) as (_ & _ & _ & _ & _ & Ed). fold r1 in Ed.
  destruct (batch_resolves c1 t1 s name news txt Hn Hh Hl Hb) as (txt' & v4 & v6 & E & T & I4 & I6).
  rewrite Hi in Ei, Eu. rewrite E in Ei.
  split.
  { rewrite Eu. unfold process_records. destruct Hb as (_ & Hsrv & _).
    apply (batch_updates c1 t1 s); [exact Hh|cbn [unres si_key]; exact Hn|].
    unfold addresses_last. apply in_or_app. left. apply filter_In. split; [exact Hsrv|reflexivity]. }
  split; [rewrite Ed; exact Hd|].
  rewrite Ei. cbn [res si_text si_v4 si_v6]. split; [exists v4, v6; reflexivity|]. split; [exact T|]. split; assumption.
Qed.

Lemma perm_reply_batch t1 s m news :
  (forall y, In y (reply_records m) <-> In y (own_additionals s)) ->
  Permutation news (map (stamp t1) (reply_records m)) ->
  reply_batch t1 s news /\ In (stamp t1 (dns_text s)) news.
Proof.
  intros Hm Hp.
  assert (Hin : forall y, In y news <-> In y (map (stamp t1) (own_additionals s))).
  { intro y. split; intro H.
    - apply (Permutation_in _ Hp) in H. apply in_map_iff in H as (x & <- & Hx). apply in_map. apply Hm. exact Hx.
    - apply (Permutation_in _ (Permutation_sym Hp)). apply in_map_iff in H as (x & <- & Hx). apply in_map. apply Hm. exact Hx. }
  split; [split; [|split]|].
  - intros y Hy. apply Hin. exact Hy.
  - apply Hin. apply in_map. left. reflexivity.
  - intros x Hx. apply Hin. apply in_map. unfold own_additionals. apply in_or_app. right. exact Hx.
  - apply Hin. apply in_map. right. left. reflexivity.
Qed.

(* The reply in one message (both answers unicast, or both multicast): ANY permutation of its answers ++ additionals, stamped with the
   arrival time t1, as one batch, with ANY phase-1 cache c1.  The lookup is woken, is complete, and its next turn - at any time t2,
   the deadline is not even consulted - returns true; host, port, TXT, weight and priority are those of s; the addresses are those of
   s PLUS whatever live addresses of the host the cache c1 already held (the SRV record pulls them in: C18_v4_source).
   Side conditions: positive TTLs (a record with TTL 0 is expired on arrival and ignored, C18_expired_ignored), well-formed
   addresses (4 / 16 bytes), and at least one address (else the lookup is not complete). *)
Theorem lookup_resolves_any_cache : forall c1 t1 r news s name m c h t2 rnd,
  rq_done r = None -> rq_info r = sinfo_init name -> lower name = s_key s ->
  0 < s_host_ttl s -> 0 < s_other_ttl s -> addr_lengths s -> s_v4 s ++ s_v6 s <> [] ->
  (forall y, In y (reply_records m) <-> In y (own_additionals s)) ->
  Permutation news (map (stamp t1) (reply_records m)) ->
  let r1 := fst (request_update c1 t1 r news) in
  let i := rq_info r1 in
  snd (request_update c1 t1 r news) = true /\ is_complete i = true /\
  loop_turn c h r1 t2 rnd = (set_done r1 (Some true), h, [RReturn t2 true]) /\
  si_name i = s_name s /\ si_server i = Some (s_server s) /\ si_port i = Some (s_port s) /\ si_text i = s_text s /\
  si_weight i = s_weight s /\ si_priority i = s_priority s /\
  (forall a, In a (si_v4 i) <-> In a (s_v4 s) \/ In a (cached_v4 c1 t1 s)) /\
  (forall a, In a (si_v6 i) <-> In a (s_v6 s) \/ In a (cached_v6 c1 t1 s)).
Proof.
  intros c1 t1 r news s name m c h t2 rnd Hd Hi Hn Hh Ho Hl Hne Hm Hp r1 i.
  destruct (perm_reply_batch t1 s m news Hm Hp) as [Hb Ht].
  rewrite <- (unres_init name) in Hi.
  destruct (lookup_batch_resolves c1 t1 r news s name [] Hd Hi Hn Hh Hl Hb) as (U & _ & (v4 & v6 & E) & (T1 & _ & _) & I4 & I6).
  fold r1 in E, T1, I4, I6. fold i in E, T1, I4, I6.
  assert (Hc : is_complete i = true).
  { apply complete_iff. destruct (s_v4 s) as [|a l4] eqn:E4.
    - destruct (s_v6 s) as [|a l6] eqn:E6; [elim Hne; reflexivity|]. right. intro Z.
      assert (Ha : In a (si_v6 i)) by (apply I6; left; left; reflexivity). rewrite Z in Ha. destruct Ha.
    - left. intro Z. assert (Ha : In a (si_v4 i)) by (apply I4; left; left; reflexivity). rewrite Z in Ha. destruct Ha. }
  split; [exact U|]. split; [exact Hc|]. split; [apply complete_turn; exact Hc|].
  split; [rewrite E; reflexivity|]. split; [rewrite E; reflexivity|]. split; [rewrite E; reflexivity|].
  split; [exact (T1 Ht Ho)|]. split; [rewrite E; reflexivity|]. split; [rewrite E; reflexivity|]. split; assumption.
Qed.

(* "exactly the addresses of s" is false for an arbitrary cache c1: a live address record of the host that the querier's cache holds
   from elsewhere is adopted too *)
Definition cx_name : text := [97; 46; 95; 116; 46].
Definition cx_svc : svc :=
  {| s_type := [95; 116; 46]; s_name := cx_name; s_server := [104; 46]; s_port := 80; s_weight := 0; s_priority := 0; s_text := [1; 120];
     s_host_ttl := 120; s_other_ttl := 4500; s_v4 := [[10; 0; 0; 1]]; s_v6 := [] |}.
Definition cx_foreign : pyrec := set_lifetime (a_record cx_svc [10; 0; 0; 99]) 900 120.
Definition cx_cache : cache := fst (cache_add empty_cache cx_foreign).
Definition cx_req : req := pending0 cx_name 1000 3000 20.

Example lookup_resolves_counterexample :
  let news := map (stamp 1100) (own_additionals cx_svc) in
  si_v4 (rq_info (fst (request_update cx_cache 1100 cx_req news))) = [[10; 0; 0; 1]; [10; 0; 0; 99]] /\
  s_v4 cx_svc = [[10; 0; 0; 1]] /\
  si_v4 (rq_info (fst (request_update empty_cache 1100 cx_req news))) = [[10; 0; 0; 1]].
Proof. vm_compute. repeat split; reflexivity. Qed.

(* the strongest form with "exactly": the cache holds no live address of the host that s does not have (in particular: an empty
   cache, or a cache that knows nothing about the host) *)
Theorem lookup_resolves_partial : forall c1 t1 r news s name m c h t2 rnd,
  rq_done r = None -> rq_info r = sinfo_init name -> lower name = s_key s ->
  0 < s_host_ttl s -> 0 < s_other_ttl s -> addr_lengths s -> s_v4 s ++ s_v6 s <> [] ->
  (forall a, In a (cached_v4 c1 t1 s) -> In a (s_v4 s)) -> (forall a, In a (cached_v6 c1 t1 s) -> In a (s_v6 s)) ->
  (forall y, In y (reply_records m) <-> In y (own_additionals s)) ->
  Permutation news (map (stamp t1) (reply_records m)) ->
  let r1 := fst (request_update c1 t1 r news) in
  let i := rq_info r1 in
  snd (request_update c1 t1 r news) = true /\ is_complete i = true /\
  loop_turn c h r1 t2 rnd = (set_done r1 (Some true), h, [RReturn t2 true]) /\
  si_name i = s_name s /\ si_server i = Some (s_server s) /\ si_port i = Some (s_port s) /\ si_text i = s_text s /\
  si_weight i = s_weight s /\ si_priority i = s_priority s /\
  (forall a, In a (si_v4 i) <-> In a (s_v4 s)) /\ (forall a, In a (si_v6 i) <-> In a (s_v6 s)).
Proof.
  intros c1 t1 r news s name m c h t2 rnd Hd Hi Hn Hh Ho Hl Hne C4 C6 Hm Hp r1 i.
  destruct (lookup_resolves_any_cache c1 t1 r news s name m c h t2 rnd Hd Hi Hn Hh Ho Hl Hne Hm Hp)
    as (A1 & A2 & A3 & A4 & A5 & A6 & A7 & A8 & A9 & I4 & I6).
  fold r1 in A2, A3, A4, A5, A6, A7, A8, A9, I4, I6. fold i in A2, A4, A5, A6, A7, A8, A9, I4, I6.
  repeat (split; [assumption|]). split; intro a.
  - rewrite I4. split; [intros [H|H]; [exact H|apply C4; exact H]|intro H; left; exact H].
  - rewrite I6. split; [intros [H|H]; [exact H|apply C6; exact H]|intro H; left; exact H].
Qed.

Lemma cached_empty t1 s : cached_v4 empty_cache t1 s = [] /\ cached_v6 empty_cache t1 s = [].
Proof. split; reflexivity. Qed.

(* in particular with nothing cached (the lookup started from an empty cache) *)
Corollary lookup_resolves_empty_cache : forall t1 r news s name m c h t2 rnd,
  rq_done r = None -> rq_info r = sinfo_init name -> lower name = s_key s ->
  0 < s_host_ttl s -> 0 < s_other_ttl s -> addr_lengths s -> s_v4 s ++ s_v6 s <> [] ->
  (forall y, In y (reply_records m) <-> In y (own_additionals s)) ->
  Permutation news (map (stamp t1) (reply_records m)) ->
  let r1 := fst (request_update empty_cache t1 r news) in
  let i := rq_info r1 in
  snd (request_update empty_cache t1 r news) = true /\ is_complete i = true /\
  loop_turn c h r1 t2 rnd = (set_done r1 (Some true), h, [RReturn t2 true]) /\
  si_name i = s_name s /\ si_server i = Some (s_server s) /\ si_port i = Some (s_port s) /\ si_text i = s_text s /\
  si_weight i = s_weight s /\ si_priority i = s_priority s /\
  (forall a, In a (si_v4 i) <-> In a (s_v4 s)) /\ (forall a, In a (si_v6 i) <-> In a (s_v6 s)).
Proof.
  intros t1 r news s name m c h t2 rnd Hd Hi Hn Hh Ho Hl Hne Hm Hp.
  apply (lookup_resolves_partial empty_cache t1 r news s name m c h t2 rnd Hd Hi Hn Hh Ho Hl Hne); try assumption;
    intros a Ha; destruct (cached_empty t1 s) as [E4 E6]; [rewrite E4 in Ha|rewrite E6 in Ha]; destruct Ha.
Qed.

(* ---- the reply split over two messages (exactly one of SRV / TXT was recently multicast; host TTL 120 s and other TTL 4500 s make
   "TXT recent, SRV not" the normal state from 30 s to 1125 s after the last announcement): the two batches in either order ---- *)

Lemma perm_srv_batch t1 s m news :
  (forall y, In y (reply_records m) <-> In y (dns_service s :: address_and_nsec s)) ->
  Permutation news (map (stamp t1) (reply_records m)) ->
  reply_batch t1 s news /\ ~ In (stamp t1 (dns_text s)) news.
Proof.
  intros Hm Hp.
  assert (Hin : forall y, In y news <-> In y (map (stamp t1) (dns_service s :: address_and_nsec s))).
  { intro y. split; intro H.
    - apply (Permutation_in _ Hp) in H. apply in_map_iff in H as (x & <- & Hx). apply in_map. apply Hm. exact Hx.
    - apply (Permutation_in _ (Permutation_sym Hp)). apply in_map_iff in H as (x & <- & Hx). apply in_map. apply Hm. exact Hx. }
  split; [split; [|split]|].
  - intros y Hy. apply Hin in Hy. apply in_map_iff in Hy as (x & <- & Hx). apply in_map. unfold own_additionals. cbn [app].
    destruct Hx as [Hx|Hx]; [left; exact Hx|right; right; exact Hx].
  - apply Hin. apply in_map. left. reflexivity.
  - intros x Hx. apply Hin. apply in_map. right. exact Hx.
  - intro H. apply Hin in H. apply in_map_iff in H as (x & E & Hx). destruct Hx as [<-|Hx]; [apply (f_equal p_kind) in E; discriminate E|].
    rewrite address_and_nsec_content in Hx.
    apply in_app_or in Hx as [Hx|Hx]; [apply in_map_iff in Hx as (a & <- & _); apply (f_equal p_kind) in E; discriminate E|].
    apply in_app_or in Hx as [Hx|Hx]; [apply in_map_iff in Hx as (a & <- & _); apply (f_equal p_kind) in E; discriminate E|].
    unfold nsec_part in Hx. destruct (s_v4 s), (s_v6 s); [| | |destruct Hx];
      (destruct Hx as [<-|[]]; apply (f_equal p_kind) in E; discriminate E).
Qed.

(* TXT message first, then the SRV message: everything is resolved when the lookup completes *)
Theorem lookup_split_txt_then_srv : forall cT tT cS tS r newsS s name mS c h t2 rnd,
  rq_done r = None -> rq_info r = sinfo_init name -> lower name = s_key s ->
  0 < s_host_ttl s -> 0 < s_other_ttl s -> addr_lengths s -> s_v4 s ++ s_v6 s <> [] ->
  (forall y, In y (reply_records mS) <-> In y (dns_service s :: address_and_nsec s)) ->
  Permutation newsS (map (stamp tS) (reply_records mS)) ->
  let rT := fst (request_update cT tT r [stamp tT (dns_text s)]) in
  let r1 := fst (request_update cS tS rT newsS) in
  let i := rq_info r1 in
  is_complete (rq_info rT) = false /\ rq_done rT = None /\
  snd (request_update cS tS rT newsS) = true /\ is_complete i = true /\
  loop_turn c h r1 t2 rnd = (set_done r1 (Some true), h, [RReturn t2 true]) /\
  si_name i = s_name s /\ si_server i = Some (s_server s) /\ si_port i = Some (s_port s) /\ si_text i = s_text s /\
  si_weight i = s_weight s /\ si_priority i = s_priority s /\
  (forall a, In a (si_v4 i) <-> In a (s_v4 s) \/ In a (cached_v4 cS tS s)) /\
  (forall a, In a (si_v6 i) <-> In a (s_v6 s) \/ In a (cached_v6 cS tS s)).
Proof.
  intros cT tT cS tS r newsS s name mS c h t2 rnd Hd Hi Hn Hh Ho Hl Hne Hm Hp rT r1 i.
  destruct (perm_srv_batch tS s mS newsS Hm Hp) as [Hb _].
  destruct (request_update_pending cT tT r [stamp tT (dns_text s)] Hd) as [EiT _]. fold rT in EiT.
  destruct (request_update_fields cT tT r [stamp tT (dns_text s)]) as (_ & _ & _ & _ & _ & EdT). fold rT in EdT. rewrite Hd in EdT.
  rewrite Hi, <- (unres_init name), (txt_batch_unres cT tT s name [] Hn Ho) in EiT. cbn [fst] in EiT.
  destruct (lookup_batch_resolves cS tS rT newsS s name (s_text s) EdT EiT Hn Hh Hl Hb) as (U & _ & (v4 & v6 & E) & (_ & T2 & _) & I4 & I6).
  fold r1 in E, T2, I4, I6. fold i in E, T2, I4, I6.
  assert (Hc : is_complete i = true).
  { apply complete_iff. destruct (s_v4 s) as [|a l4] eqn:E4.
    - destruct (s_v6 s) as [|a l6] eqn:E6; [elim Hne; reflexivity|]. right. intro Z.
      assert (Ha : In a (si_v6 i)) by (apply I6; left; left; reflexivity). rewrite Z in Ha. destruct Ha.
    - left. intro Z. assert (Ha : In a (si_v4 i)) by (apply I4; left; left; reflexivity). rewrite Z in Ha. destruct Ha. }
  split; [rewrite EiT; reflexivity|]. split; [exact EdT|].
  split; [exact U|]. split; [exact Hc|]. split; [apply complete_turn; exact Hc|].
  split; [rewrite E; reflexivity|]. split; [rewrite E; reflexivity|]. split; [rewrite E; reflexivity|].
  split; [exact (T2 eq_refl)|]. split; [rewrite E; reflexivity|]. split; [rewrite E; reflexivity|]. split; assumption.
Qed.

(* SRV message first: the lookup is complete at once - a turn that runs before the TXT message arrives returns true with the TXT
   data still empty (TXT is NOT resolved in that interleaving); if the TXT message gets there first, it is taken *)
Theorem lookup_split_srv_then_txt : forall cT tT cS tS r newsS s name mS c h t2 rnd,
  rq_done r = None -> rq_info r = sinfo_init name -> lower name = s_key s ->
  0 < s_host_ttl s -> 0 < s_other_ttl s -> addr_lengths s -> s_v4 s ++ s_v6 s <> [] ->
  (forall y, In y (reply_records mS) <-> In y (dns_service s :: address_and_nsec s)) ->
  Permutation newsS (map (stamp tS) (reply_records mS)) ->
  let rS := fst (request_update cS tS r newsS) in
  let r2 := fst (request_update cT tT rS [stamp tT (dns_text s)]) in
  let i := rq_info r2 in
  (is_complete (rq_info rS) = true /\ si_text (rq_info rS) = [] /\
   loop_turn c h rS t2 rnd = (set_done rS (Some true), h, [RReturn t2 true])) /\
  snd (request_update cT tT rS [stamp tT (dns_text s)]) = true /\ is_complete i = true /\
  loop_turn c h r2 t2 rnd = (set_done r2 (Some true), h, [RReturn t2 true]) /\
  si_name i = s_name s /\ si_server i = Some (s_server s) /\ si_port i = Some (s_port s) /\ si_text i = s_text s /\
  si_weight i = s_weight s /\ si_priority i = s_priority s /\
  (forall a, In a (si_v4 i) <-> In a (s_v4 s) \/ In a (cached_v4 cS tS s)) /\
  (forall a, In a (si_v6 i) <-> In a (s_v6 s) \/ In a (cached_v6 cS tS s)).
Proof.
  intros cT tT cS tS r newsS s name mS c h t2 rnd Hd Hi Hn Hh Ho Hl Hne Hm Hp rS r2 i.
  destruct (perm_srv_batch tS s mS newsS Hm Hp) as [Hb HnT].
  rewrite <- (unres_init name) in Hi.
  destruct (lookup_batch_resolves cS tS r newsS s name [] Hd Hi Hn Hh Hl Hb) as (_ & EdS & (v4 & v6 & E) & (_ & _ & T3) & I4 & I6).
  fold rS in EdS, E, T3, I4, I6.
  assert (HcS : is_complete (rq_info rS) = true).
  { apply complete_iff. destruct (s_v4 s) as [|a l4] eqn:E4.
    - destruct (s_v6 s) as [|a l6] eqn:E6; [elim Hne; reflexivity|]. right. intro Z.
      assert (Ha : In a (si_v6 (rq_info rS))) by (apply I6; left; left; reflexivity). rewrite Z in Ha. destruct Ha.
    - left. intro Z. assert (Ha : In a (si_v4 (rq_info rS))) by (apply I4; left; left; reflexivity). rewrite Z in Ha. destruct Ha. }
  specialize (T3 HnT).
  destruct (request_update_pending cT tT rS [stamp tT (dns_text s)] EdS) as [Ei Eu]. fold r2 in Ei. fold i in Ei.
  rewrite E, (txt_batch_res cT tT s _ v4 v6 Ho) in Ei, Eu. cbn [fst snd] in Ei, Eu.
  assert (E4 : si_v4 i = si_v4 (rq_info rS)) by (rewrite Ei, E; reflexivity).
  assert (E6 : si_v6 i = si_v6 (rq_info rS)) by (rewrite Ei, E; reflexivity).
  assert (Hc : is_complete i = true) by (unfold is_complete in HcS |- *; rewrite E4, E6; exact HcS).
  split; [split; [exact HcS|split; [exact T3|apply complete_turn; exact HcS]]|].
  split; [exact Eu|]. split; [exact Hc|]. split; [apply complete_turn; exact Hc|].
  split; [rewrite Ei; reflexivity|]. split; [rewrite Ei; reflexivity|]. split; [rewrite Ei; reflexivity|].
  split; [rewrite Ei; reflexivity|]. split; [rewrite Ei; reflexivity|]. split; [rewrite Ei; reflexivity|].
  split; intro a; [rewrite E4; apply I4|rewrite E6; apply I6].
Qed.

(* ================================================================================================ *)
(* 1 + 2 + 3 together: the unsplit case                                                              *)

(* the query the responder sees is the query the lookup sent *)
Lemma query_as_seen name t0 now : qm_questions (lookup_qmsg name now) = qm_qs (first_query name t0) /\
  qm_answers (lookup_qmsg name now) = qm_known (first_query name t0) /\ qm_is_probe (lookup_qmsg name now) = false.
Proof. repeat split. Qed.

Theorem lookup_end_to_end : forall n s name t0 timeout rnd now id addr rq rd t1 news c1 c h t2 rnd2,
  (* the lookup *)
  0 < timeout ->
  (* the responder *)
  RegInv (n_reg n) -> n_done n = false -> In s (registered (n_reg n)) -> lower name = s_key s -> no_host_named_like (n_reg n) s ->
  recent (n_cache n) now (dns_service s) = recent (n_cache n) now (dns_text s) ->
  (* the service *)
  0 < s_host_ttl s -> 0 < s_other_ttl s -> addr_lengths s -> s_v4 s ++ s_v6 s <> [] ->
  (* the querier's cache when the reply arrives *)
  (forall a, In a (cached_v4 c1 t1 s) -> In a (s_v4 s)) -> (forall a, In a (cached_v6 c1 t1 s) -> In a (s_v6 s)) ->
  let r0 := fst (fst (request_start empty_cache [] name t0 timeout rnd None)) in
  exists dest m,
    snd (request_start empty_cache [] name t0 timeout rnd None) = [RSend t0 true (first_query name t0)] /\
    snd (nstep n (LQuery now [lookup_qmsg name now] id addr C_MDNS_PORT rq rd)) = [OSend now dest m] /\
    (dest = if recent (n_cache n) now (dns_service s) then Some (addr, C_MDNS_PORT) else None) /\
    (Permutation news (map (stamp t1) (reply_records m)) ->
     let r1 := fst (request_update c1 t1 r0 news) in
     let i := rq_info r1 in
     loop_turn c h r1 t2 rnd2 = (set_done r1 (Some true), h, [RReturn t2 true]) /\
     si_server i = Some (s_server s) /\ si_port i = Some (s_port s) /\ si_text i = s_text s /\
     si_weight i = s_weight s /\ si_priority i = s_priority s /\
     (forall a, In a (si_v4 i) <-> In a (s_v4 s)) /\ (forall a, In a (si_v6 i) <-> In a (s_v6 s))).
Proof.
  intros n s name t0 timeout rnd now id addr rq rd t1 news c1 c h t2 rnd2 Ht HI Hd Hs Hn Hno Hrec Hh Ho Hl Hne C4 C6 r0.
  pose proof (lookup_first_query_eq name t0 timeout rnd Ht) as E0.
  assert (Er0 : r0 = pending0 name t0 timeout rnd) by (unfold r0; rewrite E0; reflexivity).
  destruct (responder_answers_lookup_exact n s name now id addr rq rd HI Hd Hs Hn Hno) as (_ & Eo & Cb & _).
  rewrite <- Hrec in Eo.
  set (a := srv_part s ++ txt_part s) in *.
  exists (if recent (n_cache n) now (dns_service s) then Some (addr, C_MDNS_PORT) else None),
         (if recent (n_cache n) now (dns_service s) then construct_unicast a false (lookup_questions name) id else construct_multicast a).
  split; [rewrite E0; reflexivity|].
  split; [rewrite Eo; destruct (recent (n_cache n) now (dns_service s)); reflexivity|]. split; [reflexivity|].
  intros Hp r1 i.
  assert (Hm : forall y, In y (reply_records (if recent (n_cache n) now (dns_service s)
                                              then construct_unicast a false (lookup_questions name) id else construct_multicast a))
                         <-> In y (own_additionals s)).
  { destruct (recent (n_cache n) now (dns_service s)); [apply (Cb _ (or_introl eq_refl))|apply (Cb _ (or_intror eq_refl))]. }
  assert (Hd0 : rq_done r0 = None) by (rewrite Er0; reflexivity).
  assert (Hi0 : rq_info r0 = sinfo_init name) by (rewrite Er0; reflexivity).
  destruct (lookup_resolves_partial c1 t1 r0 news s name _ c h t2 rnd2 Hd0 Hi0 Hn Hh Ho Hl Hne C4 C6 Hm Hp)
    as (_ & _ & A3 & _ & A5 & A6 & A7 & A8 & A9 & I4 & I6).
  fold r1 in A3, A5, A6, A7, A8, A9, I4, I6. fold i in A5, A6, A7, A8, A9, I4, I6.
  repeat (split; [assumption|]). exact I6.
Qed.

(* ================================================================================================ *)
(* 4. a concrete run                                                                                 *)

Definition ex_iname : text := [97; 46; 95; 116; 46; 108; 46].                 (* "a._t.l." *)
Definition ex_qname : text := [65; 46; 95; 116; 46; 108; 46].                 (* "A._t.l.": the lookup spells it differently *)
Definition ex_v6 : bytes := [254; 128; 0; 0; 0; 0; 0; 0; 0; 0; 0; 0; 0; 0; 0; 7].
Definition ex_svc : svc :=
  {| s_type := [95; 116; 46; 108; 46]; s_name := ex_iname; s_server := [104; 46; 108; 46]; s_port := 8080; s_weight := 3; s_priority := 2;
     s_text := [3; 107; 61; 118]; s_host_ttl := 120; s_other_ttl := 4500; s_v4 := [[10; 0; 0; 1]]; s_v6 := [ex_v6] |}.
Definition ex_node : node :=
  set_reg node_init (match reg_add empty_registry ex_svc with Ok g => g | Raise _ => empty_registry end) [] [].

(* the lookup's first query ... *)
Definition ex_start := request_start empty_cache [] ex_qname 1000 3000 20 None.
Definition ex_query : list query_msg := flat_map (fun o => match o with RSend _ _ m => [m] | _ => [] end) (snd ex_start).
(* ... as the responder sees it, answered by the node at 1003 ... *)
Definition ex_seen : list qmsg :=
  map (fun m => {| qm_questions := qm_qs m; qm_answers := qm_known m; qm_is_probe := false; qm_now := 1003 |}) ex_query.
Definition ex_reply : list (list pyrec) :=
  flat_map (fun o => match o with OSend _ _ m => [reply_records m] | _ => [] end)
           (snd (nstep ex_node (LQuery 1003 ex_seen 0 [113] C_MDNS_PORT 20 20))).
(* ... and its records, stamped on arrival at 1010, handed to the lookup in REVERSED order (addresses and NSEC first, SRV last) *)
Definition ex_news : list pyrec := rev (map (stamp 1010) (concat ex_reply)).
Definition ex_r0 : req := fst (fst ex_start).
Definition ex_r1 : req := fst (request_update empty_cache 1010 ex_r0 ex_news).
Definition ex_turn := loop_turn empty_cache [] ex_r1 1010 20.

Example resolve_example :
  map qm_qs ex_query = [lookup_questions ex_qname] /\ map qm_known ex_query = [[]] /\
  (exists m, snd (nstep ex_node (LQuery 1003 ex_seen 0 [113] C_MDNS_PORT 20 20)) = [OSend 1003 None m] /\
             map fst (o_answers m) = [dns_service ex_svc; dns_text ex_svc] /\
             o_additionals m = [a_record ex_svc [10; 0; 0; 1]; aaaa_record ex_svc ex_v6]) /\
  map p_kind ex_news = [KAddress; KAddress; KText; KService] /\
  snd (request_update empty_cache 1010 ex_r0 ex_news) = true /\
  snd ex_turn = [RReturn 1010 true] /\ rq_done (fst (fst ex_turn)) = Some true /\
  rq_info (fst (fst ex_turn)) =
    {| si_name := ex_iname; si_key := ex_iname; si_server := Some [104; 46; 108; 46]; si_server_key := Some [104; 46; 108; 46];
       si_port := Some 8080; si_weight := 3; si_priority := 2; si_text := [3; 107; 61; 118];
       si_v4 := [[10; 0; 0; 1]]; si_v6 := [ex_v6] |}.
Proof. vm_compute. repeat split. eexists. repeat split. Qed.

(* ---- every side condition is needed ---- *)
Definition with_ttls (s : svc) (h o : Z) : svc :=
  {| s_type := s_type s; s_name := s_name s; s_server := s_server s; s_port := s_port s; s_weight := s_weight s; s_priority := s_priority s;
     s_text := s_text s; s_host_ttl := h; s_other_ttl := o; s_v4 := s_v4 s; s_v6 := s_v6 s |}.
Definition with_addrs (s : svc) (v4 v6 : list bytes) : svc :=
  {| s_type := s_type s; s_name := s_name s; s_server := s_server s; s_port := s_port s; s_weight := s_weight s; s_priority := s_priority s;
     s_text := s_text s; s_host_ttl := s_host_ttl s; s_other_ttl := s_other_ttl s; s_v4 := v4; s_v6 := v6 |}.
(* the records of s (all of them, in sending order), stamped at 1010, handed to the pending lookup of the example *)
Definition feed (s : svc) : sinfo := rq_info (fst (request_update empty_cache 1010 ex_r0 (map (stamp 1010) (own_additionals s)))).

Example side_conditions_needed :
  (* host TTL 0: SRV and address records are expired on arrival - nothing but the TXT data is learnt *)
  (si_server (feed (with_ttls ex_svc 0 4500)) = None /\ is_complete (feed (with_ttls ex_svc 0 4500)) = false) /\
  (* other TTL 0: the TXT record is expired on arrival - the lookup completes with empty TXT data *)
  (is_complete (feed (with_ttls ex_svc 120 0)) = true /\ si_text (feed (with_ttls ex_svc 120 0)) = []) /\
  (* a 16-byte address registered as IPv4 and a 4-byte one as IPv6 end up in the other list *)
  (si_v4 (feed (with_addrs ex_svc [ex_v6] [[10; 0; 0; 1]])) = [[10; 0; 0; 1]] /\ si_v6 (feed (with_addrs ex_svc [ex_v6] [[10; 0; 0; 1]])) = [ex_v6]) /\
  (* an address that is neither 4 nor 16 bytes long is dropped *)
  (si_v4 (feed (with_addrs ex_svc [[1; 2; 3]] [])) = [] /\ is_complete (feed (with_addrs ex_svc [[1; 2; 3]] [])) = false) /\
  (* no address: host and port are known but the lookup is not complete *)
  (si_server (feed (with_addrs ex_svc [] [])) = Some [104; 46; 108; 46] /\ is_complete (feed (with_addrs ex_svc [] [])) = false).
Proof. vm_compute. repeat split; reflexivity. Qed.

(* a host named like the instance (excluded by no_host_named_like in responder_answers_lookup_exact): the A question for the instance
   name is answered too - the address record and the NSEC record move from the additional to the answer section *)
Definition hc_svc : svc :=
  {| s_type := [95; 116; 46; 108; 46]; s_name := ex_iname; s_server := ex_iname; s_port := 8080; s_weight := 3; s_priority := 2;
     s_text := [3; 107; 61; 118]; s_host_ttl := 120; s_other_ttl := 4500; s_v4 := [[10; 0; 0; 1]]; s_v6 := [] |}.
Definition hc_node : node :=
  set_reg node_init (match reg_add empty_registry hc_svc with Ok g => g | Raise _ => empty_registry end) [] [].

Example host_named_like_instance :
  exists m, snd (nstep hc_node (LQuery 1003 [lookup_qmsg ex_qname 1003] 0 [113] C_MDNS_PORT 20 20)) = [OSend 1003 None m] /\
            map fst (o_answers m) = [dns_service hc_svc; dns_text hc_svc; a_record hc_svc [10; 0; 0; 1]; dns_nsec hc_svc [C_TYPE_AAAA]] /\
            o_additionals m = [].
Proof. vm_compute. eexists. repeat split. Qed.

Print Assumptions lookup_first_query_partial.
Print Assumptions lookup_gives_up_without_time.
Print Assumptions responder_answers_lookup.
Print Assumptions responder_answers_lookup_exact.
Print Assumptions lookup_batch_resolves.
Print Assumptions lookup_resolves_any_cache.
Print Assumptions lookup_resolves_partial.
Print Assumptions lookup_resolves_empty_cache.
Print Assumptions lookup_split_txt_then_srv.
Print Assumptions lookup_split_srv_then_txt.
Print Assumptions lookup_end_to_end.
Print Assumptions lookup_resolves_counterexample.
Print Assumptions resolve_example.
Print Assumptions lookup_first_query_counterexample.
Print Assumptions side_conditions_needed.
Print Assumptions host_named_like_instance.
