(* C05 helpers: list facts, identity facts and generic index (dict of buckets) lemmas. *)
From ZC Require Import Model.Base Model.PyRec Model.Dict Model.Re Model.Cache Model.Ingest Gen.Const Gen.DnsPure Spec.CacheSpec Proofs.C20_identity.
From Coq Require Import Permutation.

(* ------------------------------------------------------------------ *)
(* identity facts *)

Lemma gen_eq_kind x y : gen_eq x y = true -> p_kind x = p_kind y.
Proof.
  intro H. destruct (kind_eqb (p_kind x) (p_kind y)) eqn:E.
  - apply kind_eqb_eq; exact E.
  - rewrite kinds_disjoint in H; [discriminate|]. intro K. apply kind_eqb_eq in K. congruence.
Qed.

Lemma gen_eq_rkey x y : gen_eq x y = true -> rkey x = rkey y.
Proof.
  intro H. apply eq_iff_ident in H. unfold ident_of in H. unfold rkey, DNSEntry_key.
  destruct (p_kind x), (p_kind y); inversion H; auto.
Qed.

Lemma is_service_kind x : is_service x = true <-> p_kind x = KService.
Proof. unfold is_service. apply kind_eqb_eq. Qed.

Lemma gen_eq_service x y : gen_eq x y = true -> is_service x = is_service y.
Proof. intro H. unfold is_service. rewrite (gen_eq_kind _ _ H). reflexivity. Qed.

Lemma gen_eq_skey x y : gen_eq x y = true -> is_service x = true -> skey x = skey y.
Proof.
  intros H K. apply is_service_kind in K. apply eq_iff_ident in H. unfold ident_of in H.
  rewrite K in H. unfold skey, DNSService_server_key.
  destruct (p_kind y); inversion H; auto.
Qed.

Lemma ident_set_lifetime x a b : ident_of (set_lifetime x a b) = ident_of x.
Proof. reflexivity. Qed.

Lemma gen_eq_sl_l x a b y : gen_eq (set_lifetime x a b) y = gen_eq x y.
Proof. apply eq_congr_l. apply ident_set_lifetime. Qed.

Lemma gen_eq_sl_r x a b y : gen_eq y (set_lifetime x a b) = gen_eq y x.
Proof. rewrite eq_sym_, gen_eq_sl_l. apply eq_sym_. Qed.

Lemma rkey_sl x a b : rkey (set_lifetime x a b) = rkey x.
Proof. reflexivity. Qed.
Lemma skey_sl x a b : skey (set_lifetime x a b) = skey x.
Proof. reflexivity. Qed.
Lemma is_service_sl x a b : is_service (set_lifetime x a b) = is_service x.
Proof. reflexivity. Qed.

Lemma gen_eq_false_l x y r : gen_eq x r = true -> gen_eq y r = false -> gen_eq x y = false.
Proof.
  intros A B. destruct (gen_eq x y) eqn:E; [|reflexivity].
  assert (C : gen_eq y r = true).
  { eapply eq_trans_; [|exact A]. rewrite eq_sym_. exact E. }
  congruence.
Qed.

(* ------------------------------------------------------------------ *)
(* plain list facts *)

Lemma filter_filter_ {A} (p q : A -> bool) l :
  filter p (filter q l) = filter (fun x => q x && p x) l.
Proof.
  induction l as [|x l IH]; [reflexivity|]. simpl.
  destruct (q x) eqn:Q; simpl; [destruct (p x)|]; rewrite IH; reflexivity.
Qed.

Lemma filter_all_true {A} (p : A -> bool) l :
  (forall x, In x l -> p x = true) -> filter p l = l.
Proof.
  induction l as [|x l IH]; intro H; [reflexivity|]. simpl.
  rewrite (H x (or_introl eq_refl)). f_equal. apply IH. intros y Hy. apply H. right; exact Hy.
Qed.

Lemma filter_all_false {A} (p : A -> bool) l :
  (forall x, In x l -> p x = false) -> filter p l = [].
Proof.
  induction l as [|x l IH]; intro H; [reflexivity|]. simpl.
  rewrite (H x (or_introl eq_refl)). apply IH. intros y Hy. apply H. right; exact Hy.
Qed.

Lemma filter_ext_in_ {A} (p q : A -> bool) l :
  (forall x, In x l -> p x = q x) -> filter p l = filter q l.
Proof.
  induction l as [|x l IH]; intro H; [reflexivity|]. simpl.
  rewrite (H x (or_introl eq_refl)). rewrite IH; [reflexivity|].
  intros y Hy. apply H. right; exact Hy.
Qed.

Lemma find_app_ {A} (p : A -> bool) l1 l2 :
  find p (l1 ++ l2) = match find p l1 with Some x => Some x | None => find p l2 end.
Proof.
  induction l1 as [|x l1 IH]; [reflexivity|]. simpl. destruct (p x); [reflexivity|exact IH].
Qed.

Lemma find_filter_ {A} (p q : A -> bool) l :
  (forall x, In x l -> p x = true -> q x = true) -> find p (filter q l) = find p l.
Proof.
  induction l as [|x l IH]; intro H; [reflexivity|]. simpl.
  assert (IH' : find p (filter q l) = find p l).
  { apply IH. intros y Hy. apply H. right; exact Hy. }
  destruct (q x) eqn:Q; simpl.
  - rewrite IH'. reflexivity.
  - destruct (p x) eqn:P.
    + rewrite (H x (or_introl eq_refl) P) in Q. discriminate.
    + exact IH'.
Qed.

Lemma find_hd_filter {A} (p : A -> bool) l : find p l = hd_error (filter p l).
Proof.
  induction l as [|x l IH]; [reflexivity|]. simpl. destruct (p x); [reflexivity|exact IH].
Qed.

Lemma filter_rev_ {A} (p : A -> bool) l : filter p (rev l) = rev (filter p l).
Proof.
  induction l as [|x l IH]; [reflexivity|]. simpl. rewrite filter_app, IH. simpl.
  destruct (p x); simpl; [reflexivity|apply app_nil_r].
Qed.

Lemma find_rev_unique {A} (p : A -> bool) l :
  (forall x y, In x l -> In y l -> p x = true -> p y = true -> x = y) ->
  find p (rev l) = find p l.
Proof.
  induction l as [|x l IH]; intro H; [reflexivity|]. simpl.
  rewrite find_app_. rewrite IH.
  2:{ intros a b Ha Hb. apply H; right; assumption. }
  simpl. destruct (p x) eqn:P.
  - destruct (find p l) as [y|] eqn:F; [|reflexivity].
    apply find_some in F as [F1 F2]. f_equal. apply H; auto.
    + right; exact F1.
    + left; reflexivity.
  - destruct (find p l); reflexivity.
Qed.

Lemma find_none_all {A} (p : A -> bool) l :
  (forall x, In x l -> p x = false) -> find p l = None.
Proof.
  induction l as [|x l IH]; intro H; [reflexivity|]. simpl.
  rewrite (H x (or_introl eq_refl)). apply IH. intros y Hy. apply H. right; exact Hy.
Qed.

(* ------------------------------------------------------------------ *)
(* distinct_idents *)

Lemma di_filter p l : distinct_idents l -> distinct_idents (filter p l).
Proof.
  induction l as [|x l IH]; intro H; [exact I|]. simpl in H. destruct H as [H1 H2]. simpl.
  destruct (p x); simpl.
  - split; [|apply IH; exact H2]. intros y Hy. apply filter_In in Hy as [Hy _]. apply H1; exact Hy.
  - apply IH; exact H2.
Qed.

Lemma di_unique l x y :
  distinct_idents l -> In x l -> In y l -> gen_eq x y = true -> x = y.
Proof.
  induction l as [|a l IH]; intros H Hx Hy E; [destruct Hx|].
  simpl in H. destruct H as [H1 H2]. destruct Hx as [Hx|Hx], Hy as [Hy|Hy].
  - congruence.
  - subst a. rewrite (H1 y Hy) in E. discriminate.
  - subst a. rewrite eq_sym_ in E. rewrite (H1 x Hx) in E. discriminate.
  - apply IH; assumption.
Qed.

Lemma di_NoDup l : distinct_idents l -> NoDup l.
Proof.
  induction l as [|a l IH]; intro H; [constructor|]. simpl in H. destruct H as [H1 H2].
  constructor; [|apply IH; exact H2]. intro Hin. pose proof (H1 a Hin) as E.
  rewrite eq_refl_ in E. discriminate.
Qed.

Lemma di_app l1 l2 :
  distinct_idents l1 -> distinct_idents l2 ->
  (forall x y, In x l1 -> In y l2 -> gen_eq x y = false) ->
  distinct_idents (l1 ++ l2).
Proof.
  induction l1 as [|a l1 IH]; intros H1 H2 Hc; [exact H2|]. simpl in H1. destruct H1 as [Ha H1].
  simpl. split.
  - intros y Hy. apply in_app_or in Hy as [Hy|Hy]; [apply Ha; exact Hy|].
    apply Hc; [left; reflexivity|exact Hy].
  - apply IH; [exact H1|exact H2|]. intros x y Hx Hy. apply Hc; [right; exact Hx|exact Hy].
Qed.

Lemma di_app_single b r :
  distinct_idents b -> (forall x, In x b -> gen_eq x r = false) -> distinct_idents (b ++ [r]).
Proof.
  intros H1 H2. apply di_app; [exact H1|simpl; split; [intros y []|exact I]|].
  intros x y Hx [Hy|[]]. subst y. apply H2; exact Hx.
Qed.

Lemma di_app_inv l1 l2 :
  distinct_idents (l1 ++ l2) -> distinct_idents l1 /\ distinct_idents l2.
Proof.
  induction l1 as [|a l1 IH]; intro H; [split; [exact I|exact H]|].
  simpl in H. destruct H as [Ha H]. apply IH in H as [H1 H2]. split; [|exact H2].
  simpl. split; [|exact H1]. intros y Hy. apply Ha. apply in_or_app. left; exact Hy.
Qed.

Lemma b_remove_filter b r :
  distinct_idents b -> b_remove b r = filter (fun x => negb (gen_eq x r)) b.
Proof.
  induction b as [|x b IH]; intro H; [reflexivity|]. simpl in H. destruct H as [H1 H2]. simpl.
  destruct (gen_eq x r) eqn:E; simpl.
  - symmetry. apply filter_all_true. intros y Hy. apply negb_true_iff.
    destruct (gen_eq y r) eqn:E'; [|reflexivity].
    assert (C : gen_eq x y = true).
    { eapply eq_trans_; [exact E|]. rewrite eq_sym_. exact E'. }
    rewrite (H1 y Hy) in C. discriminate.
  - f_equal. apply IH; exact H2.
Qed.

Definition upd (r : pyrec) (created ttl : Z) (x : pyrec) : pyrec :=
  if gen_eq x r then set_lifetime x created ttl else x.

Lemma gen_eq_upd_l r c t x y : gen_eq (upd r c t x) y = gen_eq x y.
Proof. unfold upd. destruct (gen_eq x r); [apply gen_eq_sl_l|reflexivity]. Qed.
Lemma gen_eq_upd_r r c t x y : gen_eq y (upd r c t x) = gen_eq y x.
Proof. unfold upd. destruct (gen_eq x r); [apply gen_eq_sl_r|reflexivity]. Qed.

Lemma b_update_map b r c t : b_update b r c t = map (upd r c t) b.
Proof. reflexivity. Qed.

Lemma di_map_upd r c t l : distinct_idents l -> distinct_idents (map (upd r c t) l).
Proof.
  induction l as [|x l IH]; intro H; [exact I|]. simpl in H. destruct H as [H1 H2]. simpl. split.
  - intros y Hy. apply in_map_iff in Hy as [z [Hz1 Hz2]]. subst y.
    rewrite gen_eq_upd_l, gen_eq_upd_r. apply H1; exact Hz2.
  - apply IH; exact H2.
Qed.

(* ------------------------------------------------------------------ *)
(* indexes *)

Definition fl (i : index) : list pyrec := concat (map snd i).

Lemma fl_cons k b i : fl ((k, b) :: i) = b ++ fl i.
Proof. reflexivity. Qed.

Lemma fl_app i1 i2 : fl (i1 ++ i2) = fl i1 ++ fl i2.
Proof. unfold fl. rewrite map_app, concat_app. reflexivity. Qed.

Lemma in_fl x i : In x (fl i) <-> exists k b, In (k, b) i /\ In x b.
Proof.
  unfold fl. rewrite in_concat. split.
  - intros [b [Hb Hx]]. apply in_map_iff in Hb as [[k b'] [E Hkb]]. simpl in E. subst b'.
    exists k, b. split; assumption.
  - intros [k [b [Hkb Hx]]]. exists b. split; [|exact Hx].
    apply in_map_iff. exists (k, b). split; [reflexivity|exact Hkb].
Qed.

Definition bucket_ok (keyof : pyrec -> text) (k : text) (b : bucket) : Prop :=
  b <> [] /\ (forall r, In r b -> keyof r = k) /\ distinct_idents b.

Lemma dk_iff i : distinct_keys i <-> NoDup (map fst i).
Proof.
  induction i as [|[k b] i IH]; simpl.
  - split; intro; [constructor|exact I].
  - split.
    + intros [H1 H2]. constructor; [|apply IH; exact H2].
      intro Hin. apply in_map_iff in Hin as [[k' b'] [E Hin]]. simpl in E. subst k'.
      apply (H1 k b' Hin). reflexivity.
    + intro H. inversion H as [|? ? Hn Hd]; subst. split; [|apply IH; exact Hd].
      intros k' b' Hin E. subst k'. apply Hn. apply in_map_iff. exists (k, b'). split; [reflexivity|exact Hin].
Qed.

Lemma index_ok_iff keyof i :
  index_ok keyof i <-> NoDup (map fst i) /\ forall k b, In (k, b) i -> bucket_ok keyof k b.
Proof. unfold index_ok, bucket_ok. rewrite dk_iff. reflexivity. Qed.

Lemma idx_get_none i k : idx_get i k = None -> ~ In k (map fst i).
Proof.
  unfold idx_get. induction i as [|[k0 b0] i IH]; simpl; intro H; [tauto|].
  destruct (text_eqb k0 k) eqn:E; [discriminate|]. intros [A|A].
  - subst k0. rewrite text_eqb_refl in E. discriminate.
  - apply IH; assumption.
Qed.

Lemma idx_get_split i k b :
  idx_get i k = Some b -> exists i1 i2, i = i1 ++ (k, b) :: i2 /\ ~ In k (map fst i1).
Proof.
  unfold idx_get. induction i as [|[k0 b0] i IH]; simpl; intro H; [discriminate|].
  destruct (text_eqb k0 k) eqn:E.
  - apply text_eqb_eq in E. subst k0. inversion H; subst b0. exists [], i. split; [reflexivity|simpl; tauto].
  - destruct (IH H) as [i1 [i2 [E1 E2]]]. exists ((k0, b0) :: i1), i2. split.
    + simpl. rewrite E1. reflexivity.
    + simpl. intros [A|A]; [|tauto]. subst k0. rewrite text_eqb_refl in E. discriminate.
Qed.

Lemma notin_eqb k0 k (l : list text) : ~ In k (k0 :: l) -> text_eqb k0 k = false.
Proof.
  intro H. destruct (text_eqb k0 k) eqn:E; [|reflexivity]. apply text_eqb_eq in E.
  exfalso. apply H. left; exact E.
Qed.

Lemma idx_get_app i1 i2 k b : ~ In k (map fst i1) -> idx_get (i1 ++ (k, b) :: i2) k = Some b.
Proof.
  unfold idx_get. induction i1 as [|[k0 b0] i1 IH]; simpl; intro H.
  - rewrite text_eqb_refl. reflexivity.
  - rewrite (notin_eqb _ _ _ H). apply IH. tauto.
Qed.

Lemma d_set_app (i1 i2 : index) k (b b' : bucket) :
  ~ In k (map fst i1) -> d_set text_eqb (i1 ++ (k, b) :: i2) k b' = i1 ++ (k, b') :: i2.
Proof.
  induction i1 as [|[k0 b0] i1 IH]; simpl; intro H.
  - rewrite text_eqb_refl. reflexivity.
  - rewrite (notin_eqb _ _ _ H). f_equal. apply IH. tauto.
Qed.

Lemma d_del_app (i1 i2 : index) k (b : bucket) :
  ~ In k (map fst i1) -> d_del text_eqb (i1 ++ (k, b) :: i2) k = i1 ++ i2.
Proof.
  induction i1 as [|[k0 b0] i1 IH]; simpl; intro H.
  - rewrite text_eqb_refl. reflexivity.
  - rewrite (notin_eqb _ _ _ H). f_equal. apply IH. tauto.
Qed.

Lemma in_idx_get i k b : NoDup (map fst i) -> In (k, b) i -> idx_get i k = Some b.
Proof.
  intros Hd Hin. apply in_split in Hin as [l1 [l2 E]]. subst i.
  rewrite map_app in Hd. simpl in Hd. apply NoDup_remove_2 in Hd.
  apply idx_get_app. intro A. apply Hd. apply in_or_app. left; exact A.
Qed.

Lemma idx_get_in i k b : idx_get i k = Some b -> In (k, b) i.
Proof.
  intro H. apply idx_get_split in H as [i1 [i2 [E _]]]. subst i.
  apply in_or_app. right. left. reflexivity.
Qed.

(* every record sits in the bucket of its own key *)
Lemma in_fl_bucket keyof i x :
  index_ok keyof i -> In x (fl i) -> exists b, In (keyof x, b) i /\ In x b /\ idx_get i (keyof x) = Some b.
Proof.
  intros Hok Hx. apply index_ok_iff in Hok as [Hd Hb].
  apply in_fl in Hx as [k [b [Hkb Hx]]].
  destruct (Hb k b Hkb) as [_ [Hk _]]. rewrite (Hk x Hx). exists b.
  split; [exact Hkb|]. split; [exact Hx|]. apply in_idx_get; assumption.
Qed.

Lemma index_ok_split keyof i1 k b i2 :
  index_ok keyof (i1 ++ (k, b) :: i2) ->
  bucket_ok keyof k b /\ ~ In k (map fst i1) /\ ~ In k (map fst i2) /\
  (forall x, In x (fl i1) -> keyof x <> k) /\ (forall x, In x (fl i2) -> keyof x <> k).
Proof.
  intro Hok. pose proof Hok as Hok'. apply index_ok_iff in Hok as [Hd Hb].
  rewrite map_app in Hd. simpl in Hd. pose proof (NoDup_remove_2 _ _ _ Hd) as Hn.
  assert (N1 : ~ In k (map fst i1)) by (intro A; apply Hn; apply in_or_app; left; exact A).
  assert (N2 : ~ In k (map fst i2)) by (intro A; apply Hn; apply in_or_app; right; exact A).
  split; [apply Hb; apply in_or_app; right; left; reflexivity|].
  split; [exact N1|]. split; [exact N2|]. split.
  - intros x Hx E. apply in_fl in Hx as [k' [b' [Hkb Hx]]].
    assert (Hin : In (k', b') (i1 ++ (k, b) :: i2)) by (apply in_or_app; left; exact Hkb).
    destruct (Hb k' b' Hin) as [_ [Hk _]]. rewrite (Hk x Hx) in E. subst k'.
    apply N1. apply in_map_iff. exists (k, b'). split; [reflexivity|exact Hkb].
  - intros x Hx E. apply in_fl in Hx as [k' [b' [Hkb Hx]]].
    assert (Hin : In (k', b') (i1 ++ (k, b) :: i2)) by (apply in_or_app; right; right; exact Hkb).
    destruct (Hb k' b' Hin) as [_ [Hk _]]. rewrite (Hk x Hx) in E. subst k'.
    apply N2. apply in_map_iff. exists (k, b'). split; [reflexivity|exact Hkb].
Qed.

Lemma index_ok_replace keyof i1 k b b' i2 :
  index_ok keyof (i1 ++ (k, b) :: i2) -> bucket_ok keyof k b' ->
  index_ok keyof (i1 ++ (k, b') :: i2).
Proof.
  intros Hok Hb'. apply index_ok_iff in Hok as [Hd Hb]. apply index_ok_iff. split.
  - rewrite map_app in *. exact Hd.
  - intros k0 b0 Hin. apply in_app_or in Hin as [Hin|[Hin|Hin]].
    + apply Hb. apply in_or_app. left; exact Hin.
    + inversion Hin; subst. exact Hb'.
    + apply Hb. apply in_or_app. right; right; exact Hin.
Qed.

Lemma index_ok_delete keyof i1 k b i2 :
  index_ok keyof (i1 ++ (k, b) :: i2) -> index_ok keyof (i1 ++ i2).
Proof.
  intros Hok. apply index_ok_iff in Hok as [Hd Hb]. apply index_ok_iff. split.
  - rewrite map_app in *. simpl in Hd. apply NoDup_remove_1 in Hd. exact Hd.
  - intros k0 b0 Hin. apply Hb. apply in_app_or in Hin as [Hin|Hin]; apply in_or_app;
      [left; exact Hin|right; right; exact Hin].
Qed.

Lemma index_ok_snoc keyof i k b :
  index_ok keyof i -> ~ In k (map fst i) -> bucket_ok keyof k b -> index_ok keyof (i ++ [(k, b)]).
Proof.
  intros Hok Hn Hb'. apply index_ok_iff in Hok as [Hd Hb]. apply index_ok_iff. split.
  - rewrite map_app. simpl. eapply Permutation_NoDup; [apply Permutation_cons_append|].
    constructor; assumption.
  - intros k0 b0 Hin. apply in_app_or in Hin as [Hin|[Hin|[]]].
    + apply Hb; exact Hin.
    + inversion Hin; subst. exact Hb'.
Qed.

Lemma index_ok_tail keyof kb i : index_ok keyof (kb :: i) -> index_ok keyof i.
Proof.
  destruct kb as [k b]. intro H. apply (index_ok_delete keyof [] k b i). exact H.
Qed.

(* lookup = filter of the flattened index *)
Lemma lookup_filter keyof i k :
  index_ok keyof i ->
  match idx_get i k with Some b => b | None => [] end
  = filter (fun r => text_eqb (keyof r) k) (fl i).
Proof.
  intro Hok. destruct (idx_get i k) as [b|] eqn:G.
  - apply idx_get_split in G as [i1 [i2 [E N]]]. subst i.
    destruct (index_ok_split _ _ _ _ _ Hok) as [[_ [Hk _]] [_ [_ [H1 H2]]]].
    rewrite fl_app, fl_cons, !filter_app.
    rewrite (filter_all_false _ (fl i1)), (filter_all_false _ (fl i2)), (filter_all_true _ b).
    + rewrite app_nil_r. reflexivity.
    + intros x Hx. apply text_eqb_eq. apply Hk; exact Hx.
    + intros x Hx. destruct (text_eqb (keyof x) k) eqn:E; [|reflexivity].
      apply text_eqb_eq in E. exfalso. apply (H2 x Hx E).
    + intros x Hx. destruct (text_eqb (keyof x) k) eqn:E; [|reflexivity].
      apply text_eqb_eq in E. exfalso. apply (H1 x Hx E).
  - symmetry. apply filter_all_false. intros x Hx.
    destruct (text_eqb (keyof x) k) eqn:E; [|reflexivity]. apply text_eqb_eq in E.
    destruct (in_fl_bucket keyof i x Hok Hx) as [b [_ [_ G']]]. rewrite E in G'. congruence.
Qed.

(* global distinctness of a flattened index *)
Lemma di_fl keyof i :
  index_ok keyof i ->
  (forall x y, In x (fl i) -> In y (fl i) -> gen_eq x y = true -> keyof x = keyof y) ->
  distinct_idents (fl i).
Proof.
  induction i as [|[k b] i IH]; intros Hok Hk; [exact I|].
  rewrite fl_cons. pose proof (index_ok_split keyof [] k b i Hok) as [[_ [Hkb Hdb]] [_ [_ [_ H2]]]].
  apply di_app.
  - exact Hdb.
  - apply IH; [eapply index_ok_tail; exact Hok|].
    intros x y Hx Hy. apply Hk; rewrite fl_cons; apply in_or_app; right; assumption.
  - intros x y Hx Hy. destruct (gen_eq x y) eqn:E; [|reflexivity]. exfalso.
    apply (H2 y Hy). rewrite <- (Hkb x Hx). symmetry. apply Hk; [| |exact E];
      rewrite fl_cons; apply in_or_app; [left|right]; assumption.
Qed.

(* ---- idx_add ---- *)
Section IdxOps.
  Variable keyof : pyrec -> text.
  Variables (i : index) (k : text) (r : pyrec).
  Hypothesis Hok : index_ok keyof i.
  Hypothesis Hk : forall x, In x (fl i) -> gen_eq x r = true -> keyof x = k.

  Lemma others_false i1 b i2 :
    i = i1 ++ (k, b) :: i2 -> forall y, In y (fl i1) \/ In y (fl i2) -> gen_eq y r = false.
  Proof.
    intros E y Hy. destruct (gen_eq y r) eqn:G; [|reflexivity]. exfalso.
    rewrite E in Hok. destruct (index_ok_split _ _ _ _ _ Hok) as [_ [_ [_ [H1 H2]]]].
    assert (Hin : In y (fl i)).
    { rewrite E, fl_app, fl_cons. destruct Hy as [Hy|Hy]; apply in_or_app; [left; exact Hy|].
      right. apply in_or_app. right; exact Hy. }
    pose proof (Hk y Hin G) as Ky. destruct Hy as [Hy|Hy]; [apply (H1 y Hy Ky)|apply (H2 y Hy Ky)].
  Qed.

  Lemma idx_add_ok : keyof r = k -> index_ok keyof (idx_add i k r).
  Proof.
    intro Kr. unfold idx_add. destruct (idx_get i k) as [b|] eqn:G.
    - apply idx_get_split in G as [i1 [i2 [E N]]]. rewrite E. rewrite d_set_app by exact N.
      rewrite E in Hok. destruct (index_ok_split _ _ _ _ _ Hok) as [[_ [Hkb Hdb]] _].
      eapply index_ok_replace; [exact Hok|]. split; [|split].
      + intro A. apply app_eq_nil in A as [_ A]. discriminate.
      + intros x Hx. apply in_app_or in Hx as [Hx|[Hx|[]]]; [|subst x; exact Kr].
        rewrite b_remove_filter in Hx by exact Hdb. apply filter_In in Hx as [Hx _]. apply Hkb; exact Hx.
      + apply di_app_single.
        * rewrite b_remove_filter by exact Hdb. apply di_filter; exact Hdb.
        * intros x Hx. rewrite b_remove_filter in Hx by exact Hdb. apply filter_In in Hx as [_ Hx].
          apply negb_true_iff in Hx. exact Hx.
    - apply index_ok_snoc; [exact Hok|apply idx_get_none; exact G|]. split; [|split].
      + discriminate.
      + intros x [Hx|[]]. subst x. exact Kr.
      + simpl. split; [intros y []|exact I].
  Qed.

  Lemma idx_add_in y :
    In y (fl (idx_add i k r)) <-> y = r \/ (In y (fl i) /\ gen_eq y r = false).
  Proof.
    unfold idx_add. destruct (idx_get i k) as [b|] eqn:G.
    - apply idx_get_split in G as [i1 [i2 [E N]]]. rewrite E at 1. rewrite d_set_app by exact N.
      pose proof (others_false i1 b i2 E) as Hof.
      pose proof Hok as Hok'. rewrite E in Hok'.
      destruct (index_ok_split _ _ _ _ _ Hok') as [[_ [Hkb Hdb]] _].
      rewrite E at 1. rewrite !fl_app, !fl_cons, b_remove_filter by exact Hdb.
      rewrite !in_app_iff, filter_In, negb_true_iff. simpl. split.
      + intros [H|[[[H1 H2]|[H|[]]]|H]].
        * right. split; [left; exact H|apply Hof; left; exact H].
        * right. split; [right; left; exact H1|exact H2].
        * left. symmetry; exact H.
        * right. split; [right; right; exact H|apply Hof; right; exact H].
      + intros [H|[[H|[H|H]] H2]].
        * right. left. right. left. symmetry; exact H.
        * left; exact H.
        * right. left. left. split; assumption.
        * right. right. exact H.
    - rewrite fl_app, in_app_iff. unfold fl at 2. simpl. split.
      + intros [H|[H|[]]]; [|left; symmetry; exact H]. right. split; [exact H|].
        destruct (gen_eq y r) eqn:E; [|reflexivity]. exfalso.
        destruct (in_fl_bucket keyof i y Hok H) as [b [_ [_ G']]].
        rewrite (Hk y H E) in G'. congruence.
      + intros [H|[H _]]; [right; left; symmetry; exact H|left; exact H].
  Qed.

  (* ---- idx_remove ---- *)
  Lemma idx_remove_ok :
    (exists x, In x (fl i) /\ gen_eq x r = true) ->
    exists i', idx_remove i k r = Ok i' /\ index_ok keyof i' /\
               fl i' = filter (fun x => negb (gen_eq x r)) (fl i).
  Proof.
    intros [x [Hx Ex]]. unfold idx_remove.
    destruct (in_fl_bucket keyof i x Hok Hx) as [b [_ [Hxb G]]]. rewrite (Hk x Hx Ex) in G. rewrite G.
    assert (M : b_mem b r = true).
    { unfold b_mem. apply existsb_exists. exists x. split; assumption. }
    rewrite M. apply idx_get_split in G as [i1 [i2 [E N]]].
    pose proof (others_false i1 b i2 E) as Hof.
    pose proof Hok as Hok'. rewrite E in Hok'.
    destruct (index_ok_split _ _ _ _ _ Hok') as [[_ [Hkb Hdb]] _].
    assert (F : fl i1 ++ b_remove b r ++ fl i2 = filter (fun x => negb (gen_eq x r)) (fl i)).
    { rewrite E, fl_app, fl_cons, !filter_app, <- (b_remove_filter b r Hdb).
      rewrite (filter_all_true _ (fl i1)), (filter_all_true _ (fl i2)); [reflexivity| |].
      - intros y Hy. apply negb_true_iff. apply Hof. right; exact Hy.
      - intros y Hy. apply negb_true_iff. apply Hof. left; exact Hy. }
    destruct (nonempty (b_remove b r)) eqn:NE.
    - eexists. split; [reflexivity|]. rewrite E, d_set_app by exact N. split.
      + eapply index_ok_replace; [exact Hok'|]. split; [|split].
        * intro A. rewrite A in NE. discriminate.
        * intros y Hy. rewrite b_remove_filter in Hy by exact Hdb. apply filter_In in Hy as [Hy _].
          apply Hkb; exact Hy.
        * rewrite b_remove_filter by exact Hdb. apply di_filter; exact Hdb.
      + rewrite fl_app, fl_cons. rewrite <- E. exact F.
    - eexists. split; [reflexivity|]. rewrite E, d_del_app by exact N. split.
      + eapply index_ok_delete; exact Hok'.
      + rewrite <- E, <- F. destruct (b_remove b r); [|discriminate]. rewrite fl_app. reflexivity.
  Qed.

  (* ---- idx_update ---- *)
  Variables (cr tt : Z).
  Hypothesis Hsl : forall x a b, keyof (set_lifetime x a b) = keyof x.

  Lemma keyof_upd x : keyof (upd r cr tt x) = keyof x.
  Proof. unfold upd. destruct (gen_eq x r); [apply Hsl|reflexivity]. Qed.
End IdxOps.

Lemma idx_update_keys i k r cr tt : map fst (idx_update i k r cr tt) = map fst i.
Proof.
  unfold idx_update. rewrite map_map. apply map_ext. intros [k0 b0]. simpl.
  destruct (text_eqb k0 k); reflexivity.
Qed.

Lemma idx_update_in i k r cr tt k0 b0 :
  In (k0, b0) (idx_update i k r cr tt) ->
  exists b, In (k0, b) i /\ (b0 = b \/ b0 = map (upd r cr tt) b).
Proof.
  unfold idx_update. intro H. apply in_map_iff in H as [[k1 b1] [E Hin]]. simpl in E.
  exists b1. destruct (text_eqb k1 k); inversion E; subst; split; auto.
Qed.

Lemma idx_update_ok keyof i k r cr tt :
  (forall x a b, keyof (set_lifetime x a b) = keyof x) ->
  index_ok keyof i -> index_ok keyof (idx_update i k r cr tt).
Proof.
  intros Hsl Hok. apply index_ok_iff in Hok as [Hd Hb]. apply index_ok_iff. split.
  - rewrite idx_update_keys. exact Hd.
  - intros k0 b0 Hin. apply idx_update_in in Hin as [b [Hin [E|E]]]; subst b0; [apply Hb; exact Hin|].
    destruct (Hb k0 b Hin) as [H1 [H2 H3]]. split; [|split].
    + intro A. apply map_eq_nil in A. contradiction.
    + intros x Hx. apply in_map_iff in Hx as [z [Ez Hz]]. subst x.
      rewrite (keyof_upd keyof r cr tt Hsl). apply H2; exact Hz.
    + apply di_map_upd; exact H3.
Qed.

Lemma idx_update_fl keyof i k r cr tt :
  index_ok keyof i ->
  (forall x, In x (fl i) -> gen_eq x r = true -> keyof x = k) ->
  fl (idx_update i k r cr tt) = map (upd r cr tt) (fl i).
Proof.
  induction i as [|[k0 b0] i IH]; intros Hok Hk; [reflexivity|].
  unfold idx_update. simpl map. fold (idx_update i k r cr tt).
  destruct (index_ok_split keyof [] k0 b0 i Hok) as [[_ [Hkb _]] _].
  assert (IH' : fl (idx_update i k r cr tt) = map (upd r cr tt) (fl i)).
  { apply IH; [eapply index_ok_tail; exact Hok|]. intros x Hx. apply Hk. rewrite fl_cons.
    apply in_or_app. right; exact Hx. }
  rewrite (fl_cons k0 b0 i), map_app, <- IH'.
  destruct (text_eqb k0 k) eqn:E.
  - rewrite fl_cons. reflexivity.
  - rewrite fl_cons. f_equal. rewrite <- (map_id b0) at 1. apply map_ext_in.
    intros x Hx. unfold upd. destruct (gen_eq x r) eqn:G; [|reflexivity]. exfalso.
    assert (Hin : In x (fl ((k0, b0) :: i))) by (rewrite fl_cons; apply in_or_app; left; exact Hx).
    pose proof (Hk x Hin G) as Kx. rewrite (Hkb x Hx) in Kx. subst k0.
    rewrite text_eqb_refl in E. discriminate.
Qed.
