(* Sites_C14: the size test and the rollback of Model.WireEnc.check_limit_or_rollback and the character-string limit, stated on the model
   functions with the operators the source writes now (Gen/Sites.v). The remaining encoder sites are in Sites_ops.v. *)
From ZC Require Import Model.Base Model.PyRec Model.WireEnc Gen.Const Gen.Sites.

Lemma ltb_not_geb a b : (a <? b) = negb (a >=? b).
Proof. unfold Z.ltb, Z.geb. destruct (a ?= b); reflexivity. Qed.

Lemma tie_check_limit st start :
  check_limit_or_rollback st start =
  let limit := if e_allow_long st then C_MAX_MSG_ABSOLUTE else C_MAX_MSG_TYPICAL in
  if sop_apply site_enc_fits (e_size st) limit
  then ({| e_rev := e_rev st; e_size := e_size st; e_names := e_names st; e_allow_long := false |}, true)
  else ({| e_rev := e_rev start; e_size := e_size start;
           e_names := filter (fun ni => negb (sop_apply site_enc_rollback_names (snd ni) (e_size start))) (e_names st);
           e_allow_long := false |}, false).
Proof. unfold check_limit_or_rollback. cbn [sop_apply site_enc_fits site_enc_rollback_names].
  destruct (e_size st <=? (if e_allow_long st then C_MAX_MSG_ABSOLUTE else C_MAX_MSG_TYPICAL)); [reflexivity|].
  f_equal. f_equal. apply filter_ext. intros a. apply ltb_not_geb. Qed.

Lemma tie_character_string st b :
  write_character_string st b =
  let n := Z.of_nat (length b) in
  if sop_apply site_enc_string_limit n site_enc_string_limit_rhs then Raise NamePartTooLong
  else bind (write_byte st n) (fun st' => Ok (write_string st' b)).
Proof. unfold write_character_string. cbn [sop_apply site_enc_string_limit site_enc_string_limit_rhs].
  rewrite Z.gtb_ltb. reflexivity. Qed.
