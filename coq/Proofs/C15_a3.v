(* C15 (liveness helper 3): interning a record and adding it to an outgoing queue; when a queue lets a record out. *)
From Coq Require Import ZArith List Bool Lia ZifyBool Sorted.
From ZC Require Import Model.Base Model.PyRec Model.Dict Model.Re Model.Cache Model.Respond Model.Route Model.WireEnc
  Model.OutQueue Model.Node Gen.Const Gen.Extra Gen.DnsPure.
From ZC Require Import Proofs.C20_identity Proofs.C12_lemmas Proofs.C12_queue.
Import ListNotations.
Open Scope Z_scope.
Ltac Zify.zify_post_hook ::= Z.to_euclidean_division_equations.

(* ---- the intern table ---- *)
(* id i stands for (a record with the identity of) r *)
Definition names_id (tbl : list pyrec) (i : Z) (r : pyrec) : Prop :=
  0 <= i /\ exists x, nth_error tbl (Z.to_nat i) = Some x /\ gen_eq x r = true.

Lemma index_of_spec tbl r : forall i0 i, 0 <= i0 -> index_of tbl r i0 = Some i ->
  i0 <= i /\ exists x, nth_error tbl (Z.to_nat (i - i0)) = Some x /\ gen_eq x r = true.
Proof.
  induction tbl as [|y tbl IH]; intros i0 i H0 H; cbn [index_of] in H; [discriminate|].
  destruct (gen_eq y r) eqn:E.
  - inversion H; subst i. split; [lia|]. replace (i0 - i0) with 0 by lia. exists y. split; [reflexivity|exact E].
  - destruct (IH (i0 + 1) i ltac:(lia) H) as (Hle & x & Hn & Hx). split; [lia|].
    exists x. split; [|exact Hx]. replace (Z.to_nat (i - i0)) with (S (Z.to_nat (i - (i0 + 1)))) by lia. exact Hn.
Qed.

Lemma intern_names tbl r : names_id (fst (intern tbl r)) (snd (intern tbl r)) r /\ exists ext, fst (intern tbl r) = tbl ++ ext.
Proof.
  unfold intern. destruct (index_of tbl r 0) as [i|] eqn:E; cbn [fst snd].
  - destruct (index_of_spec tbl r 0 i ltac:(lia) E) as (Hle & x & Hn & Hx). rewrite Z.sub_0_r in Hn.
    split; [split; [exact Hle|exists x; split; assumption]|exists []; rewrite app_nil_r; reflexivity].
  - split; [|exists [r]; reflexivity]. split; [lia|]. exists r. split; [|apply eq_refl_].
    rewrite Nat2Z.id. rewrite nth_error_app2 by lia. rewrite Nat.sub_diag. reflexivity.
Qed.

Lemma names_id_ext tbl ext i r : names_id tbl i r -> names_id (tbl ++ ext) i r.
Proof.
  intros (H0 & x & Hn & Hx). split; [exact H0|]. exists x. split; [|exact Hx].
  rewrite nth_error_app1; [exact Hn|]. apply nth_error_Some. rewrite Hn. discriminate.
Qed.

Lemma intern_list_ext rs : forall tbl ids, exists ext, fst (fold_left (fun acc r => let '(t, i) := intern (fst acc) r in (t, snd acc ++ [i])) rs (tbl, ids)) = tbl ++ ext.
Proof.
  induction rs as [|r rs IH]; intros tbl ids; cbn [fold_left fst snd].
  - exists []. rewrite app_nil_r. reflexivity.
  - destruct (intern_names tbl r) as (_ & ext1 & E1). destruct (intern tbl r) as [t i]. cbn [fst] in E1. subst t.
    destruct (IH (tbl ++ ext1) (ids ++ [i])) as [ext2 E2]. exists (ext1 ++ ext2). rewrite E2, app_assoc. reflexivity.
Qed.

(* interning a one-answer set: one key, which names the answer in the new table *)
Lemma intern_set_single tbl r adds :
  exists k ids, snd (intern_set tbl [(r, adds)]) = [(k, ids)] /\ names_id (fst (intern_set tbl [(r, adds)])) k r /\
                exists ext, fst (intern_set tbl [(r, adds)]) = tbl ++ ext.
Proof.
  unfold intern_set. cbn [fold_left fst snd app].
  destruct (intern_names tbl r) as (Hn & ext1 & E1). destruct (intern tbl r) as [t1 k]. cbn [fst snd] in *. subst t1.
  unfold intern_list. destruct (intern_list_ext adds (tbl ++ ext1) []) as [ext2 E2].
  destruct (fold_left _ adds (tbl ++ ext1, [])) as [t2 ids]. cbn [fst snd] in *. subst t2.
  exists k, ids. split; [reflexivity|]. split; [apply names_id_ext; exact Hn|].
  exists (ext1 ++ ext2). rewrite app_assoc. reflexivity.
Qed.

(* ---- async_add: the keys added sit in the last group afterwards ---- *)
Definition queued (k : Z) (q : oq) : Prop := exists g, In g (q_groups q) /\ In k (keys (g_answers g)).

Lemma async_add_queued q now tnow rnd a k : In k (keys a) -> queued k (async_add q now tnow rnd a).
Proof.
  intro Hk. destruct (step_add q now tnow rnd a) as (_ & _ & [G G' _|i l G Hle G' _|i l G Hlt G' _]).
  - exists (new_group q now rnd a). rewrite G'. split; [left; reflexivity|exact Hk].
  - exists (merge_into l a). rewrite G'. split; [apply in_or_app; right; left; reflexivity|].
    cbn [merge_into g_answers]. apply keys_a_update. right. exact Hk.
  - exists (new_group q now rnd a). rewrite G'. split; [apply in_or_app; right; left; reflexivity|exact Hk].
Qed.

(* ---- deadlines: every group is due no later than (latest time seen) + aggregation + additional ---- *)
Definition QB (T : Z) (q : oq) : Prop :=
  Forall (fun g => g_after g <= g_before g /\ g_before g <= T + q_aggregation q + q_additional q) (q_groups q).

Lemma QB_mono T T' q : T <= T' -> QB T q -> QB T' q.
Proof. intros H HQ. eapply Forall_impl; [|exact HQ]. intros g [A B]. split; [exact A|lia]. Qed.

Lemma async_add_QB T q t now rnd a :
  QB T q -> T <= now -> t <= now -> 20 <= rnd <= 120 -> 120 <= q_aggregation q -> QB now (async_add q t now rnd a).
Proof.
  intros HQ HT Ht Hr Hagg. apply (QB_mono T now q HT) in HQ. unfold QB in *.
  destruct (step_add q t now rnd a) as (E1 & E2 & A). rewrite E1, E2.
  assert (Hnew : g_after (new_group q t rnd a) <= g_before (new_group q t rnd a) /\
                 g_before (new_group q t rnd a) <= now + q_aggregation q + q_additional q)
    by (cbn [new_group g_after g_before]; lia).
  destruct A as [G G' _|i l G Hle G' _|i l G Hlt G' _]; rewrite G'.
  - constructor; [exact Hnew|constructor].
  - rewrite G in HQ. apply Forall_app in HQ as [H1 H2]. apply Forall_app. split; [exact H1|].
    inversion H2 as [|x y Hl _]; subst. constructor; [exact Hl|constructor].
  - apply Forall_app. split; [exact HQ|]. constructor; [exact Hnew|constructor].
Qed.

Lemma ready_cfg q t : q_additional (fst (async_ready_body q t)) = q_additional q /\
                      q_aggregation (fst (async_ready_body q t)) = q_aggregation q.
Proof.
  rewrite ready_unfold.
  assert (P : q_additional (fst (pop_branch q t)) = q_additional q /\ q_aggregation (fst (pop_branch q t)) = q_aggregation q).
  { destruct (pop_branch q t) as [q' o] eqn:E. apply pop_branch_spec in E as (A & B & _). split; assumption. }
  destruct (q_groups q) as [|g0 [|g1 r]]; try exact P. destruct (g_before g0 >? t); [split; reflexivity|exact P].
Qed.

Lemma ready_QB T q t : QB T q -> QB T (fst (async_ready_body q t)).
Proof.
  intro HQ. unfold QB. destruct (ready_cfg q t) as [-> ->]. rewrite ready_unfold.
  assert (P : Forall (fun g => g_after g <= g_before g /\ g_before g <= T + q_aggregation q + q_additional q)
                     (q_groups (fst (pop_branch q t)))).
  { destruct (pop_branch q t) as [q' o] eqn:E. apply pop_branch_spec in E as (_ & _ & popped & rest & G & _ & _ & G' & _).
    cbn [fst]. rewrite G'. unfold QB in HQ. rewrite G in HQ. apply Forall_app in HQ as [_ HQ]. apply Forall_map. exact HQ. }
  destruct (q_groups q) as [|g0 [|g1 r]] eqn:G; try exact P.
  destruct (g_before g0 >? t); [|exact P]. cbn [fst q_groups]. unfold QB in HQ. rewrite G in HQ. exact HQ.
Qed.

(* an async_ready at or after that bound drains the queue: everything queued goes out in one batch *)
Lemma ready_drains T q t : QB T q -> T + q_aggregation q + q_additional q <= t ->
  q_groups (fst (async_ready_body q t)) = [] /\
  snd (async_ready_body q t) = match merge_groups [] (q_groups q) with [] => None | s => Some s end.
Proof.
  intros HQ Ht. rewrite ready_unfold.
  assert (P : q_groups (fst (pop_branch q t)) = [] /\
              snd (pop_branch q t) = match merge_groups [] (q_groups q) with [] => None | s => Some s end).
  { destruct (pop_branch q t) as [q' o] eqn:E. apply pop_branch_spec in E as (_ & _ & popped & rest & G & _ & HL & G' & _ & Ho).
    assert (rest = []).
    { destruct rest as [|g rr]; [reflexivity|]. exfalso. cbn [head_later] in HL. unfold QB in HQ. rewrite G in HQ.
      apply Forall_app in HQ as [_ HQ]. inversion HQ as [|x y [Ha Hb] _]; subst. lia. }
    subst rest. rewrite app_nil_r in G. subst popped. cbn [fst snd]. rewrite G'. split; [reflexivity|].
    rewrite Ho. destruct (merge_groups [] (q_groups q)); reflexivity. }
  destruct (q_groups q) as [|g0 [|g1 r]] eqn:G; try exact P.
  destruct (g_before g0 >? t) eqn:E; [|exact P]. exfalso. unfold QB in HQ. rewrite G in HQ.
  inversion HQ as [|x y [Ha Hb] _]; subst. lia.
Qed.

Lemma ready_sends_queued T q t k : QB T q -> T + q_aggregation q + q_additional q <= t -> queued k q ->
  exists sent, snd (async_ready_body q t) = Some sent /\ In k (keys sent) /\ q_groups (fst (async_ready_body q t)) = [].
Proof.
  intros HQ Ht (g & Hg & Hk). destruct (ready_drains T q t HQ Ht) as [E1 E2].
  assert (Hin : In k (keys (merge_groups [] (q_groups q)))).
  { apply keys_merge_groups. right. exists g. split; assumption. }
  destruct (merge_groups [] (q_groups q)) as [|x s] eqn:E; [destruct Hin|].
  exists (x :: s). split; [exact E2|]. split; [exact Hin|exact E1].
Qed.

Print Assumptions intern_set_single.
Print Assumptions ready_sends_queued.
