(* C03 (part 2): answer sets and routing, up to record identity. *)
From ZC Require Import Model.Base Model.PyRec Model.Dict Model.Re Model.Cache Model.Respond Gen.Const Gen.Extra Gen.DnsPure Spec.AnswerSpec Proofs.C20_identity.

(* [has l a]: l contains a record with the identity of a *)
Definition has (l : list pyrec) (a : pyrec) : Prop := exists r, In r l /\ gen_eq r a = true.

Lemma has_nil a : has [] a <-> False.
Proof. split; [intros (r & [] & _)|intros []]. Qed.

Lemma has_app l1 l2 a : has (l1 ++ l2) a <-> has l1 a \/ has l2 a.
Proof.
  unfold has. split.
  - intros (r & HIn & E). apply in_app_or in HIn as [HIn|HIn]; [left|right]; exists r; auto.
  - intros [(r & HIn & E)|(r & HIn & E)]; exists r; split; auto; apply in_or_app; auto.
Qed.

Lemma has_single r a : has [r] a <-> gen_eq r a = true.
Proof.
  unfold has. split.
  - intros (r' & [<-|[]] & E). exact E.
  - intro E. exists r. split; [left; reflexivity|exact E].
Qed.

Lemma has_existsb s r : existsb (fun x => gen_eq x r) s = true -> forall a, gen_eq r a = true -> has s a.
Proof.
  intros H a E. apply existsb_exists in H as (x & HIn & Hx). exists x. split; [exact HIn|].
  eapply eq_trans_; eassumption.
Qed.

Lemma has_sadd s r a : has (sadd s r) a <-> has s a \/ gen_eq r a = true.
Proof.
  unfold sadd. destruct (existsb (fun x => gen_eq x r) s) eqn:E.
  - split; [intro H; left; exact H|]. intros [H|H]; [exact H|]. eapply has_existsb; eassumption.
  - rewrite has_app, has_single. reflexivity.
Qed.

(* keys of a gen_eq-keyed dict after an assignment *)
Lemma keys_d_set_in {V} (d : list (pyrec * V)) k v x :
  In x (map fst (d_set gen_eq d k v)) -> In x (map fst d) \/ x = k.
Proof.
  induction d as [|[k0 v0] d IH]; cbn [d_set map fst In].
  - intros [H|[]]. right. symmetry. exact H.
  - destruct (gen_eq k0 k); cbn [map fst In].
    + intro H. left. exact H.
    + intros [H|H]; [left; left; exact H|]. apply IH in H as [H|H]; [left; right; exact H|right; exact H].
Qed.

Lemma keys_d_set_old {V} (d : list (pyrec * V)) k v x :
  In x (map fst d) -> In x (map fst (d_set gen_eq d k v)).
Proof.
  induction d as [|[k0 v0] d IH]; cbn [d_set map fst In]; [intros []|].
  destruct (gen_eq k0 k); cbn [map fst In].
  - intro H. exact H.
  - intros [H|H]; [left; exact H|right; apply IH; exact H].
Qed.

Lemma keys_d_set_new {V} (d : list (pyrec * V)) k v :
  exists k', In k' (map fst (d_set gen_eq d k v)) /\ gen_eq k' k = true.
Proof.
  induction d as [|[k0 v0] d IH]; cbn [d_set map fst In].
  - exists k. split; [left; reflexivity|apply eq_refl_].
  - destruct (gen_eq k0 k) eqn:E; cbn [map fst In].
    + exists k0. split; [left; reflexivity|exact E].
    + destruct IH as (k' & HIn & Hk). exists k'. split; [right; exact HIn|exact Hk].
Qed.

Lemma has_as_set (d : answer_set) k v a :
  has (map fst (as_set d k v)) a <-> has (map fst d) a \/ gen_eq k a = true.
Proof.
  unfold as_set, has. split.
  - intros (r & HIn & E). apply keys_d_set_in in HIn as [HIn|HIn].
    + left. exists r. auto.
    + subst. right. exact E.
  - intros [(r & HIn & E)|E].
    + exists r. split; [apply keys_d_set_old; exact HIn|exact E].
    + destruct (keys_d_set_new d k v) as (k' & HIn & Hk). exists k'. split; [exact HIn|].
      eapply eq_trans_; eassumption.
Qed.

(* values of an answer set *)
Lemma vals_d_set_in {V} (d : list (pyrec * V)) k v x w :
  In (x, w) (d_set gen_eq d k v) -> In w (map snd d) \/ w = v.
Proof.
  induction d as [|[k0 v0] d IH]; cbn [d_set map snd In].
  - intros [H|[]]. inversion H. right. reflexivity.
  - destruct (gen_eq k0 k); cbn [In].
    + intros [H|H]; [inversion H; right; reflexivity|]. left. right.
      change w with (snd (x, w)). apply in_map. exact H.
    + intros [H|H]; [inversion H; left; left; reflexivity|].
      apply IH in H as [H|H]; [left; right; exact H|right; exact H].
Qed.

Lemma d_get_in_gen {V} (d : list (pyrec * V)) k v : d_get gen_eq d k = Some v -> In v (map snd d).
Proof.
  induction d as [|[k0 v0] d IH]; cbn [d_get map snd In]; [discriminate|].
  destruct (gen_eq k0 k).
  - intro H. inversion H. left. reflexivity.
  - intro H. right. apply IH. exact H.
Qed.

(* folds that add keys *)
Lemma has_fold_as_set (adds : list pyrec) answers acc a :
  has (map fst (fold_left (fun acc ans => as_set acc ans adds) answers acc)) a <->
  has (map fst acc) a \/ has answers a.
Proof.
  revert acc. induction answers as [|x l IH]; intro acc; cbn [fold_left].
  - rewrite has_nil. tauto.
  - rewrite IH, has_as_set. change (x :: l) with ([x] ++ l). rewrite (has_app [x] l), has_single. tauto.
Qed.

Lemma has_fold_cond {X} (known : list pyrec) (f : X -> pyrec) (h : X -> list pyrec) l acc a :
  has (map fst (fold_left (fun acc x => if suppresses known (f x) then acc else as_set acc (f x) (h x)) l acc)) a <->
  has (map fst acc) a \/ exists x, In x l /\ suppresses known (f x) = false /\ gen_eq (f x) a = true.
Proof.
  revert acc. induction l as [|x l IH]; intro acc; cbn [fold_left].
  - split; [intro H; left; exact H|]. intros [H|(x & [] & _)]. exact H.
  - rewrite IH. destruct (suppresses known (f x)) eqn:S.
    + split.
      * intros [H|(y & HIn & Hy)]; [left; exact H|]. right. exists y. split; [right; exact HIn|exact Hy].
      * intros [H|(y & [<-|HIn] & Hs & Hy)]; [left; exact H| |].
        -- rewrite S in Hs. discriminate.
        -- right. exists y. auto.
    + rewrite has_as_set. split.
      * intros [[H|H]|(y & HIn & Hy)].
        -- left. exact H.
        -- right. exists x. split; [left; reflexivity|]. split; assumption.
        -- right. exists y. split; [right; exact HIn|exact Hy].
      * intros [H|(y & [<-|HIn] & Hs & Hy)].
        -- left. left. exact H.
        -- left. right. exact Hy.
        -- right. exists y. auto.
Qed.

Lemma has_fold_sadd (answers : answer_set) s a :
  has (fold_left (fun acc ra => sadd acc (fst ra)) answers s) a <-> has s a \/ has (map fst answers) a.
Proof.
  revert s. induction answers as [|x l IH]; intro s; cbn [fold_left map].
  - rewrite has_nil. tauto.
  - rewrite IH, has_sadd. change (fst x :: map fst l) with ([fst x] ++ map fst l).
    rewrite (has_app [fst x]), has_single. tauto.
Qed.

(* ---- routing ---- *)
Definition has4 (qr : qresp) (a : pyrec) : Prop :=
  has (q_ucast qr) a \/ has (q_mcast_now qr) a \/ has (q_mcast_aggregate qr) a \/ has (q_mcast_last_second qr) a.

Lemma has4_add_qu c now p answers qr a :
  has4 (add_qu c now p qr answers) a <-> has4 qr a \/ has (map fst answers) a.
Proof.
  unfold add_qu. revert qr. induction answers as [|[r adds] l IH]; intro qr; cbn [fold_left map fst].
  - rewrite has_nil. tauto.
  - rewrite IH. change (r :: map fst l) with ([r] ++ map fst l). rewrite (has_app [r]), has_single.
    unfold has4; cbn [q_ucast q_mcast_now q_mcast_aggregate q_mcast_last_second].
    destruct p, (has_mcast_within_one_quarter_ttl c now r); cbn [negb]; rewrite ?has_sadd; tauto.
Qed.

Lemma has4_add_ucast answers qr a :
  has4 (add_ucast qr answers) a <-> has4 qr a \/ has (map fst answers) a.
Proof.
  unfold add_ucast, has4; cbn [q_ucast q_mcast_now q_mcast_aggregate q_mcast_last_second].
  rewrite has_fold_sadd. tauto.
Qed.

Lemma has4_add_mcast c now p qs answers qr a :
  has4 (add_mcast c now p qs qr answers) a <-> has4 qr a \/ has (map fst answers) a.
Proof.
  unfold add_mcast.
  match goal with |- has4 (fold_left ?F answers ?q0) a <-> _ =>
    assert (G : forall l q, has4 (fold_left F l q) a <-> has4 q a \/ has (map fst l) a) end.
  { induction l as [|ra l IH]; intro q; cbn [fold_left map].
    - rewrite has_nil. tauto.
    - rewrite IH. change (fst ra :: map fst l) with ([fst ra] ++ map fst l). rewrite (has_app [fst ra]), has_single.
      destruct p; [|destruct (has_mcast_record_in_last_second c now (fst ra));
                    [|destruct (match qs with [q1] => respond_immediate (p_type_ q1) | _ => false end)]];
        unfold has4; cbn [q_ucast q_mcast_now q_mcast_aggregate q_mcast_last_second]; rewrite ?has_sadd; tauto. }
  rewrite G. unfold has4; cbn [q_ucast q_mcast_now q_mcast_aggregate q_mcast_last_second]. tauto.
Qed.

(* additionals only ever come from the answer sets *)
Definition adds_ok (P : list pyrec -> Prop) (d : answer_set) : Prop := forall w, In w (map snd d) -> P w.

Lemma adds_ok_as_set P d k v : adds_ok P d -> P v -> adds_ok P (as_set d k v).
Proof.
  intros Hd Hv w Hw. apply in_map_iff in Hw as ([x w'] & Hsnd & HIn). cbn [snd] in Hsnd. subst w'.
  unfold as_set in HIn. apply vals_d_set_in in HIn as [H|H]; [apply Hd; exact H|subst; exact Hv].
Qed.

Lemma adds_ok_fold_pairs P (answers : answer_set) d :
  adds_ok P d -> adds_ok P answers ->
  adds_ok P (fold_left (fun acc ra => as_set acc (fst ra) (snd ra)) answers d).
Proof.
  revert d. induction answers as [|ra l IH]; intros d Hd Ha; cbn [fold_left]; [exact Hd|].
  apply IH.
  - apply adds_ok_as_set; [exact Hd|]. apply Ha. left. reflexivity.
  - intros w Hw. apply Ha. right. exact Hw.
Qed.

Lemma adds_ok_add_qu P c now p answers qr :
  adds_ok P (q_additionals qr) -> adds_ok P answers -> adds_ok P (q_additionals (add_qu c now p qr answers)).
Proof.
  unfold add_qu. revert qr. induction answers as [|[r adds] l IH]; intros qr Hq Ha; cbn [fold_left]; [exact Hq|].
  apply IH.
  - cbn [q_additionals]. apply adds_ok_as_set; [exact Hq|]. apply Ha. left. reflexivity.
  - intros w Hw. apply Ha. right. exact Hw.
Qed.

Lemma adds_ok_add_ucast P answers qr :
  adds_ok P (q_additionals qr) -> adds_ok P answers -> adds_ok P (q_additionals (add_ucast qr answers)).
Proof. intros Hq Ha. unfold add_ucast; cbn [q_additionals]. apply adds_ok_fold_pairs; assumption. Qed.

Lemma adds_ok_add_mcast P c now p qs answers qr :
  adds_ok P (q_additionals qr) -> adds_ok P answers -> adds_ok P (q_additionals (add_mcast c now p qs qr answers)).
Proof.
  intros Hq Ha. unfold add_mcast.
  match goal with |- adds_ok P (q_additionals (fold_left ?F answers ?q0)) =>
    assert (G : forall l q, q_additionals (fold_left F l q) = q_additionals q) end.
  { induction l as [|ra l IH]; intro q; cbn [fold_left]; [reflexivity|]. rewrite IH.
    destruct p; [reflexivity|]. destruct (has_mcast_record_in_last_second c now (fst ra)); [reflexivity|].
    destruct (match qs with [q1] => respond_immediate (p_type_ q1) | _ => false end); reflexivity. }
  rewrite G. cbn [q_additionals]. apply adds_ok_fold_pairs; assumption.
Qed.
