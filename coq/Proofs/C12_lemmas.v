(* C12_lemmas: dictionary facts and step characterisations for the multicast aggregation queue model
   (Model/OutQueue.v).  Used by C12_queue.v. *)
From Coq Require Import ZArith List Bool Lia ZifyBool Sorted.
From ZC Require Import Model.Base Model.Dict Model.OutQueue.
Import ListNotations.
Open Scope Z_scope.
Ltac Zify.zify_post_hook ::= Z.to_euclidean_division_equations.

Definition keys (a : answers) : list Z := map fst a.

(* ---------- dict facts (keys only) ---------- *)

Lemma keys_d_set d k v k' :
  In k' (keys (d_set Z.eqb d k v)) <-> In k' (keys d) \/ k' = k.
Proof.
  unfold keys. induction d as [|[k0 v0] d IH]; cbn [d_set map fst In].
  - intuition.
  - destruct (k0 =? k) eqn:E; cbn [map fst In].
    + apply Z.eqb_eq in E. subst k0. intuition.
    + rewrite IH. intuition.
Qed.

Lemma nodup_d_set d k v : NoDup (keys d) -> NoDup (keys (d_set Z.eqb d k v)).
Proof.
  induction d as [|[k0 v0] d IH]; intro ND.
  - cbn. constructor; [intros []|constructor].
  - cbn [d_set]. destruct (k0 =? k) eqn:E.
    + exact ND.
    + unfold keys in *. cbn [map fst] in *. inversion ND as [|x l NI ND']; subst.
      constructor; [|apply IH; exact ND'].
      intro HI. apply (keys_d_set d k v k0) in HI. destruct HI as [HI|HI]; [exact (NI HI)|].
      subst k0. rewrite Z.eqb_refl in E. discriminate.
Qed.

Lemma a_update_cons a kv b :
  a_update a (kv :: b) = a_update (d_set Z.eqb a (fst kv) (snd kv)) b.
Proof. reflexivity. Qed.

Lemma keys_a_update b : forall a k,
  In k (keys (a_update a b)) <-> In k (keys a) \/ In k (keys b).
Proof.
  induction b as [|kv b IH]; intros a k.
  - cbn. intuition.
  - rewrite a_update_cons, IH, keys_d_set. unfold keys. cbn [map In]. intuition.
Qed.

Lemma nodup_a_update b : forall a, NoDup (keys a) -> NoDup (keys (a_update a b)).
Proof.
  induction b as [|kv b IH]; intros a ND; [exact ND|].
  rewrite a_update_cons. apply IH, nodup_d_set, ND.
Qed.

Lemma keys_d_del_incl d k k' : In k' (keys (d_del Z.eqb d k)) -> In k' (keys d).
Proof.
  unfold keys. induction d as [|[k0 v0] d IH]; cbn [d_del map fst In]; [tauto|].
  destruct (k0 =? k); cbn [map fst In]; intuition.
Qed.

Lemma keys_d_del_keep d k k' : In k' (keys d) -> k' <> k -> In k' (keys (d_del Z.eqb d k)).
Proof.
  unfold keys. induction d as [|[k0 v0] d IH]; cbn [d_del map fst In]; [tauto|].
  intros HI Hne. destruct (k0 =? k) eqn:E; cbn [map fst In].
  - apply Z.eqb_eq in E. destruct HI as [HI|HI]; [congruence|exact HI].
  - destruct HI as [HI|HI]; [left; exact HI|right; apply IH; assumption].
Qed.

Lemma nodup_d_del d k : NoDup (keys d) -> NoDup (keys (d_del Z.eqb d k)).
Proof.
  induction d as [|[k0 v0] d IH]; intro ND; [exact ND|].
  cbn [d_del]. unfold keys in *. cbn [map fst] in *. inversion ND as [|x l NI ND']; subst.
  destruct (k0 =? k); [exact ND'|].
  cbn [map fst]. constructor; [|apply IH; exact ND'].
  intro HI. apply NI. eapply keys_d_del_incl. exact HI.
Qed.

Lemma keys_d_del_nodup d k k' :
  NoDup (keys d) -> In k' (keys (d_del Z.eqb d k)) -> k' <> k.
Proof.
  induction d as [|[k0 v0] d IH]; intros ND HI; [destruct HI|].
  unfold keys in *. cbn [d_del map fst] in *. inversion ND as [|x l NI ND']; subst.
  destruct (k0 =? k) eqn:E.
  - apply Z.eqb_eq in E. subst k0. intro; subst k'. exact (NI HI).
  - cbn [map fst In] in HI. destruct HI as [HI|HI].
    + subst k'. intro; subst k0. rewrite Z.eqb_refl in E. discriminate.
    + apply IH; assumption.
Qed.

Lemma a_remove_cons a kv s :
  a_remove_keys a (kv :: s) = a_remove_keys (d_del Z.eqb a (fst kv)) s.
Proof. reflexivity. Qed.

Lemma keys_remove_incl s : forall a k, In k (keys (a_remove_keys a s)) -> In k (keys a).
Proof.
  induction s as [|kv s IH]; intros a k HI; [exact HI|].
  rewrite a_remove_cons in HI. apply IH in HI. eapply keys_d_del_incl; exact HI.
Qed.

Lemma keys_remove_keep s : forall a k,
  In k (keys a) -> ~ In k (keys s) -> In k (keys (a_remove_keys a s)).
Proof.
  induction s as [|kv s IH]; intros a k HI HN; [exact HI|].
  rewrite a_remove_cons. unfold keys in HN. cbn [map In] in HN.
  apply IH; [apply keys_d_del_keep; [exact HI|intro; subst; tauto]|].
  intro HI2. apply HN. right. exact HI2.
Qed.

Lemma nodup_remove s : forall a, NoDup (keys a) -> NoDup (keys (a_remove_keys a s)).
Proof.
  induction s as [|kv s IH]; intros a ND; [exact ND|].
  rewrite a_remove_cons. apply IH, nodup_d_del, ND.
Qed.

Lemma keys_remove_nodup s : forall a k,
  NoDup (keys a) -> In k (keys (a_remove_keys a s)) -> ~ In k (keys s).
Proof.
  induction s as [|kv s IH]; intros a k ND HI; [intros []|].
  rewrite a_remove_cons in HI. unfold keys. cbn [map In]. intros [HE|HI2].
  - apply keys_remove_incl in HI. apply keys_d_del_nodup in HI; [|exact ND]. congruence.
  - revert HI2. apply (IH (d_del Z.eqb a (fst kv)) k); [apply nodup_d_del, ND|exact HI].
Qed.

(* ---------- merging the popped groups ---------- *)

Definition merge_groups (acc : answers) (popped : list group) : answers :=
  fold_left (fun acc g => a_update acc (g_answers g)) popped acc.

Lemma keys_merge_groups p : forall acc k,
  In k (keys (merge_groups acc p)) <->
  In k (keys acc) \/ exists g, In g p /\ In k (keys (g_answers g)).
Proof.
  induction p as [|g p IH]; intros acc k.
  - cbn. split; [tauto|]. intros [H|[g [[] _]]]. exact H.
  - change (merge_groups acc (g :: p)) with (merge_groups (a_update acc (g_answers g)) p).
    rewrite IH, keys_a_update. split.
    + intros [[H|H]|[g' [H1 H2]]].
      * left; exact H.
      * right; exists g; split; [left; reflexivity|exact H].
      * right; exists g'; split; [right; exact H1|exact H2].
    + intros [H|[g' [[H1|H1] H2]]].
      * left; left; exact H.
      * subst g'. left; right; exact H2.
      * right; exists g'; split; assumption.
Qed.

Lemma nodup_merge_groups p : forall acc, NoDup (keys acc) -> NoDup (keys (merge_groups acc p)).
Proof.
  induction p as [|g p IH]; intros acc ND; [exact ND|].
  change (merge_groups acc (g :: p)) with (merge_groups (a_update acc (g_answers g)) p).
  apply IH, nodup_a_update, ND.
Qed.

Definition head_later (t : Z) (rest : list group) : Prop :=
  match rest with g :: _ => t < g_after g | [] => True end.

Lemma pop_due_spec : forall gs now acc rest sent,
  pop_due gs now acc = (rest, sent) ->
  exists popped, gs = popped ++ rest /\ Forall (fun g => g_after g <= now) popped /\
                 sent = merge_groups acc popped /\ head_later now rest.
Proof.
  induction gs as [|g r IH]; intros now acc rest sent HP; cbn [pop_due] in HP.
  - inversion HP; subst. exists []. repeat split; constructor.
  - destruct (g_after g <=? now) eqn:E.
    + apply IH in HP. destruct HP as [p [H1 [H2 [H3 H4]]]].
      exists (g :: p). subst r. repeat split; try assumption.
      constructor; [lia|exact H2].
    + inversion HP; subst. exists []. repeat split; [constructor|cbn; lia].
Qed.

(* ---------- one step of the LTS, characterised ---------- *)

Definition strip (sent : answers) (g : group) : group :=
  {| g_after := g_after g; g_before := g_before g; g_answers := a_remove_keys (g_answers g) sent |}.

Definition merge_into (g : group) (a : answers) : group :=
  {| g_after := g_after g; g_before := g_before g; g_answers := a_update (g_answers g) a |}.

Definition new_group (q : oq) (now rnd : Z) (a : answers) : group :=
  {| g_after := now + (rnd + q_additional q); g_before := now + q_aggregation q + q_additional q;
     g_answers := a |}.

Definition batch_of (t : Z) (m : answers) : option (Z * answers) :=
  match m with [] => None | _ :: _ => Some (t, m) end.

Lemma last_decomp (gs : list group) d f :
  gs <> [] -> exists i l, gs = i ++ [l] /\ last gs d = l /\ replace_last gs f = i ++ [f l].
Proof.
  induction gs as [|g r IH]; intro NE; [congruence|].
  destruct r as [|g' r'].
  - exists [], g. repeat split.
  - destruct IH as [i [l [H1 [H2 H3]]]]; [discriminate|].
    exists (g :: i), l. repeat split.
    + cbn [app]. rewrite <- H1. reflexivity.
    + rewrite <- H2. reflexivity.
    + cbn [app]. rewrite <- H3. reflexivity.
Qed.

Inductive add_spec (q : oq) (now tnow rnd : Z) (a : answers) (q' : oq) : Prop :=
| AS_empty :
    q_groups q = [] -> q_groups q' = [new_group q now rnd a] ->
    q_timers q' = q_timers q ++ [tnow + (rnd + q_additional q)] -> add_spec q now tnow rnd a q'
| AS_merge i l :
    q_groups q = i ++ [l] -> now + (rnd + q_additional q) <= g_after l ->
    q_groups q' = i ++ [merge_into l a] -> q_timers q' = q_timers q -> add_spec q now tnow rnd a q'
| AS_new i l :
    q_groups q = i ++ [l] -> g_after l < now + (rnd + q_additional q) ->
    q_groups q' = q_groups q ++ [new_group q now rnd a] -> q_timers q' = q_timers q ->
    add_spec q now tnow rnd a q'.

Lemma step_add q now tnow rnd a :
  q_additional (async_add q now tnow rnd a) = q_additional q /\
  q_aggregation (async_add q now tnow rnd a) = q_aggregation q /\
  add_spec q now tnow rnd a (async_add q now tnow rnd a).
Proof.
  unfold async_add. destruct (q_groups q) as [|g r] eqn:G.
  - cbn. repeat split. apply AS_empty; [exact G|reflexivity|reflexivity].
  - set (gs := g :: r) in *.
    set (dflt := {| g_after := 0; g_before := 0; g_answers := [] |}).
    set (f := fun g0 : group => {| g_after := g_after g0; g_before := g_before g0;
                                  g_answers := a_update (g_answers g0) a |}).
    destruct (last_decomp gs dflt f) as [i [l [H1 [H2 H3]]]]; [discriminate|].
    rewrite H2.
    destruct (now + (rnd + q_additional q) <=? g_after l) eqn:E; cbn [q_additional q_aggregation].
    + repeat split. eapply AS_merge with (i := i) (l := l).
      * rewrite G. exact H1.
      * lia.
      * cbn [q_groups]. rewrite H3. reflexivity.
      * reflexivity.
    + repeat split. eapply AS_new with (i := i) (l := l).
      * rewrite G. exact H1.
      * lia.
      * cbn [q_groups]. rewrite G. reflexivity.
      * reflexivity.
Qed.

Inductive fire_spec (q : oq) (d t : Z) (q' : oq) (out : option (Z * answers)) : Prop :=
| FS_resched g0 g1 r :
    q_groups q = g0 :: g1 :: r -> t < g_before g0 -> q_groups q' = q_groups q ->
    q_timers q' = remove_one (q_timers q) d ++ [g_before g0] -> out = None ->
    fire_spec q d t q' out
| FS_pop popped rest :
    q_groups q = popped ++ rest -> Forall (fun g => g_after g <= t) popped -> head_later t rest ->
    (forall g0 g1 r, q_groups q = g0 :: g1 :: r -> g_before g0 <= t) ->
    q_groups q' = map (strip (merge_groups [] popped)) rest ->
    q_timers q' = match rest with
                  | g :: _ => remove_one (q_timers q) d ++ [g_after g]
                  | [] => remove_one (q_timers q) d end ->
    out = batch_of t (merge_groups [] popped) ->
    fire_spec q d t q' out.

Definition pop_branch (q : oq) (now : Z) : oq * option answers :=
  let '(rest, sent) := pop_due (q_groups q) now [] in
  let timers := match rest with g :: _ => q_timers q ++ [now + (g_after g - now)] | [] => q_timers q end in
  ({| q_groups := map (fun g => {| g_after := g_after g; g_before := g_before g;
                                   g_answers := a_remove_keys (g_answers g) sent |}) rest;
      q_timers := timers; q_additional := q_additional q; q_aggregation := q_aggregation q |},
   match sent with [] => None | _ => Some sent end).

Lemma ready_unfold q now :
  async_ready_body q now =
  match q_groups q with
  | g0 :: _ :: _ =>
      if g_before g0 >? now then
        ({| q_groups := q_groups q; q_timers := q_timers q ++ [now + (g_before g0 - now)];
            q_additional := q_additional q; q_aggregation := q_aggregation q |}, None)
      else pop_branch q now
  | _ => pop_branch q now
  end.
Proof. reflexivity. Qed.

Lemma pop_branch_spec q now q' out :
  pop_branch q now = (q', out) ->
  q_additional q' = q_additional q /\ q_aggregation q' = q_aggregation q /\
  exists popped rest,
    q_groups q = popped ++ rest /\ Forall (fun g => g_after g <= now) popped /\ head_later now rest /\
    q_groups q' = map (strip (merge_groups [] popped)) rest /\
    q_timers q' = match rest with g :: _ => q_timers q ++ [g_after g] | [] => q_timers q end /\
    out = match merge_groups [] popped with [] => None | _ :: _ => Some (merge_groups [] popped) end.
Proof.
  unfold pop_branch. destruct (pop_due (q_groups q) now []) as [rest sent] eqn:P.
  apply pop_due_spec in P. destruct P as [popped [H1 [H2 [H3 H4]]]].
  intro E. inversion E; subst q' out. cbn [q_additional q_aggregation q_groups q_timers].
  repeat split. exists popped, rest. subst sent. repeat split; try assumption.
  destruct rest as [|g rr]; [reflexivity|]. rewrite Zplus_minus. reflexivity.
Qed.

Lemma step_fire q d t q' out :
  qstep q (QFire d t) = Some (q', out) ->
  In d (q_timers q) /\ d <= t /\
  q_additional q' = q_additional q /\ q_aggregation q' = q_aggregation q /\
  fire_spec q d t q' out.
Proof.
  cbn [qstep]. destruct (existsb (Z.eqb d) (q_timers q) && (d <=? t)) eqn:C; [|discriminate].
  apply andb_true_iff in C. destruct C as [C1 C2].
  apply existsb_exists in C1. destruct C1 as [x [C1 C1']]. apply Z.eqb_eq in C1'. subst x.
  set (q0 := {| q_groups := q_groups q; q_timers := remove_one (q_timers q) d;
                q_additional := q_additional q; q_aggregation := q_aggregation q |}).
  destruct (async_ready_body q0 t) as [q'' sent] eqn:R.
  intro E. inversion E; subst q'. clear E.
  split; [exact C1|]. split; [lia|].
  rewrite ready_unfold in R. cbn [q0 q_groups] in R.
  assert (POP : pop_branch q0 t = (q'', sent) ->
                (forall g0 g1 r, q_groups q = g0 :: g1 :: r -> g_before g0 <= t) ->
                q_additional q'' = q_additional q /\ q_aggregation q'' = q_aggregation q /\
                fire_spec q d t q'' (match sent with Some s => Some (t, s) | None => None end)).
  { intros PB HB. apply pop_branch_spec in PB.
    destruct PB as [A1 [A2 [popped [rest [B1 [B2 [B3 [B4 [B5 B6]]]]]]]]].
    cbn [q0 q_additional q_aggregation q_groups q_timers] in *.
    repeat split; try assumption.
    eapply FS_pop with (popped := popped) (rest := rest); try eassumption.
    subst sent. unfold batch_of. destruct (merge_groups [] popped); reflexivity. }
  destruct (q_groups q) as [|g0 [|g1 r]] eqn:G.
  - apply POP; [exact R|]. intros; discriminate.
  - apply POP; [exact R|]. intros; discriminate.
  - destruct (g_before g0 >? t) eqn:E.
    + inversion R; subst q'' sent. cbn [q_additional q_aggregation].
      repeat split.
      eapply FS_resched with (g0 := g0) (g1 := g1) (r := r); cbn [q_groups q_timers q0].
      * exact G.
      * lia.
      * symmetry; exact G.
      * rewrite Zplus_minus. reflexivity.
      * reflexivity.
    + apply POP; [exact R|]. intros g0' g1' r' EQ. inversion EQ; subst. lia.
Qed.

(* ---------- StronglySorted helpers ---------- *)

Lemma ss_app_r {A} (R : A -> A -> Prop) l1 l2 :
  StronglySorted R (l1 ++ l2) -> StronglySorted R l2.
Proof.
  induction l1 as [|x l1 IH]; intro H; [exact H|].
  cbn [app] in H. inversion H; subst. apply IH. assumption.
Qed.

Lemma ss_app_l {A} (R : A -> A -> Prop) l1 l2 :
  StronglySorted R (l1 ++ l2) -> StronglySorted R l1.
Proof.
  induction l1 as [|x l1 IH]; intro H; [constructor|].
  cbn [app] in H. inversion H as [|a l HS HF]; subst. constructor; [apply IH; exact HS|].
  apply Forall_app in HF. tauto.
Qed.

Lemma ss_snoc {A} (R : A -> A -> Prop) l x :
  StronglySorted R l -> Forall (fun y => R y x) l -> StronglySorted R (l ++ [x]).
Proof.
  induction l as [|y l IH]; intros HS HF; cbn [app].
  - constructor; constructor.
  - inversion HS as [|a l' HS' HF']; subst. inversion HF as [|a l' HR HF'']; subst.
    constructor; [apply IH; assumption|].
    apply Forall_app. split; [exact HF'|constructor; [exact HR|constructor]].
Qed.

Lemma ss_snoc_inv {A} (R : A -> A -> Prop) l x :
  StronglySorted R (l ++ [x]) -> Forall (fun y => R y x) l.
Proof.
  induction l as [|y l IH]; intro HS; [constructor|].
  cbn [app] in HS. inversion HS as [|a l' HS' HF']; subst.
  constructor; [|apply IH; exact HS'].
  apply Forall_app in HF'. destruct HF' as [_ HF']. inversion HF'; assumption.
Qed.

Lemma ss_map {A} (R : A -> A -> Prop) (f : A -> A) l :
  (forall x y, R x y -> R (f x) (f y)) -> StronglySorted R l -> StronglySorted R (map f l).
Proof.
  intros HR. induction l as [|x l IH]; intro HS; cbn [map]; [constructor|].
  inversion HS as [|a l' HS' HF']; subst. constructor; [apply IH; exact HS'|].
  apply Forall_map. eapply Forall_impl; [|exact HF']. intros y Hy. apply HR. exact Hy.
Qed.
