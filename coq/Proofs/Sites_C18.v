(* Sites_C18: the three comparisons of Model.Info.loop_turn are the ones ServiceInfo.async_request writes now. *)
From ZC Require Import Model.Base Model.PyRec Model.Dict Model.Cache Model.Query Model.Info Gen.Const Gen.Sites.

Lemma tie_loop_deadline c h r now rnd :
  is_complete (rq_info r) = false -> sop_apply site_info_deadline (rq_last r) now = true ->
  snd (loop_turn c h r now rnd) = [RReturn now false].
Proof. intros Hc H. unfold loop_turn. rewrite Hc. cbn [sop_apply site_info_deadline] in H. rewrite H. reflexivity. Qed.

Lemma tie_loop_idle c h r now rnd :
  is_complete (rq_info r) = false -> sop_apply site_info_deadline (rq_last r) now = false ->
  sop_apply site_info_next_due (rq_next r) now = false ->
  loop_turn c h r now rnd = (r, h, []).
Proof. intros Hc H1 H2. unfold loop_turn. rewrite Hc. cbn [sop_apply site_info_deadline site_info_next_due] in H1, H2.
  rewrite H1, H2. reflexivity. Qed.

Lemma tie_loop_query c h r now rnd :
  is_complete (rq_info r) = false -> sop_apply site_info_deadline (rq_last r) now = false ->
  sop_apply site_info_next_due (rq_next r) now = true ->
  let qu := if rq_first r then match rq_forced r with Some b => b | None => true end else false in
  let r' := fst (fst (loop_turn c h r now rnd)) in
  rq_next r' = now + rq_delay r + rnd /\
  rq_delay r' = (if negb qu && sop_apply site_info_delay_floor (rq_delay r) site_info_delay_floor_rhs
                 then site_info_delay_floor_rhs else rq_delay r).
Proof. intros Hc H1 H2. unfold loop_turn. rewrite Hc. cbn [sop_apply site_info_deadline site_info_next_due] in H1, H2.
  rewrite H1, H2.
  destruct (generate_request_query c h now (si_name (rq_info r))
              match si_server (rq_info r) with Some s => s | None => si_name (rq_info r) end
              (if rq_first r then match rq_forced r with Some b => b | None => true end else false)) as [m h'].
  cbn [fst rq_next rq_delay]. split; reflexivity. Qed.

Definition sites_C18_counts : Prop := sites_found_C18 = true /\ ncmp_services_info_ServiceInfo_async_request = 3.
Lemma sites_C18_counts_ok : sites_C18_counts. Proof. repeat split; reflexivity. Qed.
