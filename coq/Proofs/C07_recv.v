(* C07, receiver side: what one arrival (and a sequence of arrivals) does to "the receiver knows instance s".
   Everything is reduced to ONE cached object: the record of the cache that is (identity-)equal to dns_pointer s.
   Built on the flat-view theorems of C05/C06 (Proofs.C06_ingest). *)
From Coq Require Import ZArith List Bool Lia ZifyBool.
From ZC Require Import Model.Base Model.PyRec Model.Dict Model.Re Model.Cache Model.Ingest Model.Respond Model.Register
  Model.Link Gen.Const Gen.DnsPure Spec.CacheSpec Spec.IngestSpec.
From ZC Require Import Proofs.C20_identity Proofs.C05_index Proofs.C05_cache Proofs.C06_lemmas Proofs.C06_ingest.
Ltac Zify.zify_post_hook ::= Z.to_euclidean_division_equations.

(* ------------------------------------------------------------------ *)
(* vocabulary *)

(* what `knows` (current_entry_with_name_and_alias) looks at: owner name up to case, type PTR, the alias EXACTLY *)
Definition looks_like (s : svc) (r : pyrec) : bool :=
  text_eqb (lower (p_name r)) (lower (s_type s)) && (p_type_ r =? C_TYPE_PTR) && text_eqb (p_alias r) (s_name s).

(* a record looks like the pointer of s exactly when it IS it for the cache (gen_eq: kind, class, alias up to case).
   "<-" says: a copy of the pointer spells the instance name as s does (no case variant);
   "->" says: a PTR record type -> name is a DNSPointer of class IN. *)
Definition faithful (s : svc) (r : pyrec) : Prop := looks_like s r = gen_eq r (dns_pointer s).

(* the receiver cache: the C05/C06 invariant, and every cached record is faithful for s *)
Definition Recv (c : cache) (s : svc) : Prop := Inv c /\ forall r, In r (flat c) -> faithful s r.

(* records as decoded from a datagram (the arrival time is stamped by `receive`) *)
Definition decoded (recs : list pyrec) : Prop :=
  forall r, In r recs -> 0 <= p_ttl r < 4294967296 /\ p_kind r <> KQuestion.

(* the three kinds of arrivals *)
Definition announcement (s : svc) (ttl : Z) (recs : list pyrec) : Prop :=
  listed recs (dns_pointer s) = true /\ forall a, In a recs -> gen_eq a (dns_pointer s) = true -> ttl <= p_ttl a.
Definition goodbye (s : svc) (recs : list pyrec) : Prop :=
  listed recs (dns_pointer s) = true /\ forall a, In a recs -> gen_eq a (dns_pointer s) = true -> p_ttl a = 0.
(* a cache-flush record that would hit the pointer of s (a shared record: no well-behaved sender emits one) *)
Definition flush_hits (s : svc) (a : pyrec) : bool :=
  DNSEntry_unique a && text_eqb (lower (p_name a)) (lower (s_type s)) && (p_type_ a =? C_TYPE_PTR)
  && (DNSEntry_class_ a =? C_CLASS_IN).
Definition unrelated (s : svc) (recs : list pyrec) : Prop :=
  listed recs (dns_pointer s) = false /\ forall a, In a recs -> flush_hits s a = false.

(* the arrival carries a copy of the pointer with a positive TTL *)
Definition announces (s : svc) (recs : list pyrec) : bool :=
  existsb (fun a => gen_eq a (dns_pointer s) && (0 <? p_ttl a)) recs.
Definition mentions (s : svc) (a : Z * list pyrec) : bool := listed (snd a) (dns_pointer s).
Definition last_mention (s : svc) (l : list (Z * list pyrec)) : option (Z * list pyrec) := find (mentions s) (rev l).

Definition arrival_ok (s : svc) (ttl : Z) (a : Z * list pyrec) : Prop :=
  decoded (snd a) /\ (forall r, In r (snd a) -> faithful s r) /\
  (announcement s ttl (snd a) \/ goodbye s (snd a) \/ unrelated s (snd a)).

(* ------------------------------------------------------------------ *)
(* everything but the lifetime *)

Definition core (r : pyrec) : pyrec := set_lifetime r 0 0.

Lemma core_sl r a b : core (set_lifetime r a b) = core r.
Proof. reflexivity. Qed.
Lemma core_floor r : core (floorr r) = core r.
Proof.
  unfold floorr, apply_ptr_floor.
  match goal with |- context [if ?b then _ else _] => destruct b end; reflexivity.
Qed.
Lemma core_stamp t r : core (stamp t r) = core r.
Proof. reflexivity. Qed.
Lemma core_hfun now answers x : core (hfun now answers x) = core x.
Proof.
  unfold hfun, mk.
  match goal with |- context [if ?b then _ else _] => destruct b end.
  - rewrite core_sl. unfold refresh. destruct (last_nonzero answers x); reflexivity.
  - unfold refresh. destruct (last_nonzero answers x); reflexivity.
Qed.

Lemma looks_like_core s r : looks_like s (core r) = looks_like s r.
Proof. reflexivity. Qed.
Lemma gen_eq_core_l r y : gen_eq (core r) y = gen_eq r y.
Proof. apply gen_eq_sl_l. Qed.

Lemma faithful_core s r r' : core r = core r' -> faithful s r -> faithful s r'.
Proof.
  unfold faithful. intros E H.
  rewrite <- (looks_like_core s r'), <- (gen_eq_core_l r'), <- E, looks_like_core, gen_eq_core_l. exact H.
Qed.

(* ------------------------------------------------------------------ *)
(* the one cached object that matters *)

Definition ptr_entry (c : cache) (s : svc) : option pyrec := async_get_unique c (dns_pointer s).
Definition pstate (c : cache) (s : svc) : option (Z * Z) := option_map lifetime (ptr_entry c s).

Lemma rkey_pointer s : rkey (dns_pointer s) = lower (s_type s).
Proof. reflexivity. Qed.

Lemma knows_entry c now s : Recv c s ->
  knows c now s = match ptr_entry c s with Some x => negb (DNSRecord_is_expired x now) | None => false end.
Proof.
  intros [HInv HF]. unfold knows, current_entry_with_name_and_alias, ptr_entry.
  rewrite (entries_with_name_flat c (s_type s) HInv), (get_unique_flat c (dns_pointer s) HInv).
  set (P := dns_pointer s).
  set (pred := fun r : pyrec => (DNSEntry_type r =? C_TYPE_PTR) && negb (DNSRecord_is_expired r now)
                                && text_eqb (p_alias r) (s_name s)).
  set (L := rev (filter (fun r : pyrec => text_eqb (rkey r) (lower (s_type s))) (flat c))).
  assert (HL : forall y, In y L -> In y (flat c) /\ pred y = gen_eq y P && negb (DNSRecord_is_expired y now)).
  { intros y Hy. unfold L in Hy. apply in_rev in Hy. apply filter_In in Hy as [Hy Ky]. split; [exact Hy|].
    pose proof (HF y Hy) as Fy. unfold faithful, looks_like in Fy. fold P in Fy. rewrite <- Fy.
    unfold rkey, DNSEntry_key in Ky. rewrite Ky. unfold pred, DNSEntry_type. cbn [andb].
    destruct (p_type_ y =? C_TYPE_PTR), (DNSRecord_is_expired y now), (text_eqb (p_alias y) (s_name s)); reflexivity. }
  destruct (find (fun x => gen_eq x P) (flat c)) as [x|] eqn:Fx.
  - apply find_some in Fx as [Hx Ex].
    assert (HxL : In x L).
    { unfold L. apply in_rev. rewrite rev_involutive. apply filter_In. split; [exact Hx|].
      apply text_eqb_eq. rewrite (gen_eq_rkey x P Ex). reflexivity. }
    destruct (DNSRecord_is_expired x now) eqn:Xx; cbn [negb].
    + destruct (find pred L) as [y|] eqn:Fy; [|reflexivity]. exfalso.
      apply find_some in Fy as [Hy Py]. destruct (HL y Hy) as [Hyc Ey]. rewrite Py in Ey.
      symmetry in Ey. apply andb_true_iff in Ey as [Ey Xy].
      assert (Exy : gen_eq x y = true) by (rewrite (gen_eq_congr_r x y P Ey); exact Ex).
      pose proof (di_unique (flat c) x y (di_flat c HInv) Hx Hyc Exy) as Eq. subst y.
      rewrite Xx in Xy. discriminate.
    + assert (Px : pred x = true).
      { destruct (HL x HxL) as [_ Ep]. rewrite Ep, Ex, Xx. reflexivity. }
      destruct (find_not_none pred L x HxL Px) as [y Fy]. rewrite Fy. reflexivity.
  - destruct (find pred L) as [y|] eqn:Fy; [|reflexivity]. exfalso.
    apply find_some in Fy as [Hy Py]. destruct (HL y Hy) as [Hyc Ey]. rewrite Py in Ey.
    symmetry in Ey. apply andb_true_iff in Ey as [Ey _].
    pose proof (find_none _ _ Fx y Hyc) as C. cbv beta in C. congruence.
Qed.

Lemma knows_pstate c now s : Recv c s ->
  knows c now s = match pstate c s with Some (cr, ttl) => negb (cr + 1000 * ttl <=? now) | None => false end.
Proof.
  intro H. rewrite (knows_entry c now s H). unfold pstate. destruct (ptr_entry c s) as [x|]; reflexivity.
Qed.

Lemma get_unique_congr c y r : Inv c -> gen_eq y r = true -> async_get_unique c y = async_get_unique c r.
Proof.
  intros HInv E. rewrite !get_unique_flat by exact HInv. apply find_ext_. intro x. apply gen_eq_congr_r. exact E.
Qed.

Lemma not_in_cache_no_entry c r : Inv c -> in_cache c r = false -> async_get_unique c r = None.
Proof.
  intros HInv H. rewrite in_cache_flat in H by exact HInv. rewrite existsb_find_ in H.
  rewrite get_unique_flat by exact HInv. destruct (find (fun x => gen_eq x r) (flat c)); [discriminate|reflexivity].
Qed.

Lemma no_entry_not_in_cache c r : Inv c -> async_get_unique c r = None -> in_cache c r = false.
Proof.
  intros HInv H. rewrite in_cache_flat by exact HInv. rewrite existsb_find_.
  rewrite get_unique_flat in H by exact HInv. rewrite H. reflexivity.
Qed.

(* ------------------------------------------------------------------ *)
(* stamping *)

Lemma stamp_wf t recs : decoded recs -> wf_answers t (map (stamp t) recs).
Proof.
  intros H r Hr. apply in_map_iff in Hr as [r0 [E Hr0]]. subst r. destruct (H r0 Hr0) as [Ht Hk].
  split; [reflexivity|]. split; assumption.
Qed.

Lemma gen_eq_stamp_l t a y : gen_eq (stamp t a) y = gen_eq a y.
Proof. apply gen_eq_sl_l. Qed.

Lemma listed_stamp t recs x : listed (map (stamp t) recs) x = listed recs x.
Proof. unfold listed. rewrite existsb_map_. apply existsb_ext_in_. intros a _. apply gen_eq_stamp_l. Qed.

Lemma has_goodbye_stamp t recs x : has_goodbye (map (stamp t) recs) x = has_goodbye recs x.
Proof.
  unfold has_goodbye. rewrite existsb_map_. apply existsb_ext_in_. intros a _. rewrite gen_eq_stamp_l. reflexivity.
Qed.

Lemma floor_ttl_ge r : p_ttl r <= p_ttl (floorr r).
Proof.
  unfold floorr, apply_ptr_floor.
  destruct (negb (p_ttl r =? 0) && (p_type_ r =? C_TYPE_PTR) && (p_ttl r <? C_DNS_PTR_MIN_TTL)) eqn:E; [|lia].
  cbn [p_ttl set_lifetime]. apply andb_true_iff in E as [_ E]. apply Z.ltb_lt in E. lia.
Qed.

(* ------------------------------------------------------------------ *)
(* one arrival *)

Section OneArrival.
  Variables (c : cache) (s : svc) (t : Z) (recs : list pyrec).
  Hypothesis HR : Recv c s.
  Hypothesis HD : decoded recs.
  Hypothesis HF : forall r, In r recs -> faithful s r.
  Local Notation P := (dns_pointer s).
  Local Notation answers := (map (stamp t) recs).

  Lemma receive_ok : exists c', i_final (ingest t answers c) = Ok c' /\ receive c (t, recs) = c' /\ Recv c' s.
  Proof using HR HD HF.
    destruct HR as [HInv HFc]. pose proof (stamp_wf t recs HD) as Hwf.
    destruct (final_flat t answers c HInv Hwf) as [c' [E [HInv' F']]].
    exists c'. split; [exact E|]. split.
    - unfold receive. cbn [fst snd]. rewrite E. reflexivity.
    - split; [exact HInv'|]. intros x Hx.
      apply (in_final_phase2 t answers c c' x F') in Hx.
      apply (phase2_origin t answers c HInv Hwf) in Hx as [[y [Hy Ey]]|[_ Hx]].
      + subst x. apply (faithful_core s y); [symmetry; apply core_hfun|apply HFc; exact Hy].
      + destruct (in_adds t answers c HInv Hwf x Hx) as [a0 [Ha0 [Ex _]]]. subst x.
        apply in_map_iff in Ha0 as [r0 [Ea Hr0]]. subst a0.
        apply (faithful_core s r0); [|apply HF; exact Hr0].
        rewrite core_floor, core_stamp. reflexivity.
  Qed.

  Lemma recv_announce ttl : 0 < ttl -> announcement s ttl recs ->
    exists x, ptr_entry (receive c (t, recs)) s = Some x /\ p_created x = t /\ ttl <= p_ttl x.
  Proof using HR HD HF.
    intros Hpos [HL Hall]. destruct receive_ok as [c' [E [Erc [HInv' _]]]]. rewrite Erc.
    destruct HR as [HInv _]. pose proof (stamp_wf t recs HD) as Hwf.
    unfold listed in HL. apply existsb_exists in HL as [a0 [Ha0 Ea0]].
    set (r := stamp t a0).
    assert (Hr : In r answers) by (apply in_map; exact Ha0).
    assert (ErP : gen_eq r P = true) by (unfold r; rewrite gen_eq_stamp_l; exact Ea0).
    assert (Tr : p_ttl r <> 0) by (pose proof (Hall a0 Ha0 Ea0); unfold r; cbn [stamp set_lifetime p_ttl]; lia).
    assert (Hng : in_cache c r = true -> has_goodbye answers r = false).
    { intros _. rewrite (has_goodbye_congr answers r P ErP), has_goodbye_stamp.
      unfold has_goodbye. apply existsb_false_. intros a Ha.
      destruct (gen_eq a P) eqn:Ea; [|reflexivity]. pose proof (Hall a Ha Ea) as Ta. cbn [andb].
      apply Z.eqb_neq. lia. }
    destruct (ingest_cached t answers c HInv Hwf c' r E Hr Tr Hng) as [x [a [Gx [La [Cx Tx]]]]].
    exists x. split; [|split; [exact Cx|]].
    - unfold ptr_entry. rewrite <- (get_unique_congr c' r P HInv' ErP). exact Gx.
    - apply last_nonzero_some in La as [Ha [Ea _]]. apply in_map_iff in Ha as [a' [Eqa Ha']]. subst a.
      rewrite gen_eq_stamp_l, (gen_eq_congr_r a' r P ErP) in Ea.
      pose proof (Hall a' Ha' Ea) as Ta. pose proof (floor_ttl_ge (stamp t a')) as Fl.
      rewrite Tx. cbn [stamp set_lifetime p_ttl] in Fl |- *. lia.
  Qed.

  Lemma recv_goodbye : goodbye s recs -> ptr_entry (receive c (t, recs)) s = None.
  Proof using HR HD HF.
    intros [HL Hall]. destruct receive_ok as [c' [E [Erc [HInv' _]]]]. rewrite Erc.
    destruct HR as [HInv _]. pose proof (stamp_wf t recs HD) as Hwf.
    unfold ptr_entry. apply not_in_cache_no_entry; [exact HInv'|].
    destruct (in_cache c P) eqn:Hin.
    - apply (ingest_goodbye t answers c HInv Hwf c' P E); [|exact Hin].
      rewrite has_goodbye_stamp. unfold has_goodbye. unfold listed in HL.
      apply existsb_exists in HL as [a0 [Ha0 Ea0]]. apply existsb_exists. exists a0. split; [exact Ha0|].
      rewrite Ea0, (Hall a0 Ha0 Ea0). reflexivity.
    - apply (ingest_goodbye_uncached t answers c HInv Hwf c' P E Hin).
      unfold last_nonzero. apply find_none_all. intros a Ha. apply in_rev in Ha.
      apply in_map_iff in Ha as [a' [Eqa Ha']]. subst a. rewrite gen_eq_stamp_l.
      destruct (gen_eq a' P) eqn:Ea; [|reflexivity]. cbn [andb stamp set_lifetime p_ttl].
      rewrite (Hall a' Ha' Ea). reflexivity.
  Qed.

  Lemma recv_unrelated : unrelated s recs -> pstate (receive c (t, recs)) s = pstate c s.
  Proof using HR HD HF.
    intros [HL Hnf]. destruct receive_ok as [c' [E [Erc [HInv' _]]]]. rewrite Erc.
    destruct HR as [HInv _]. pose proof (stamp_wf t recs HD) as Hwf.
    unfold pstate, ptr_entry. destruct (async_get_unique c P) as [x|] eqn:Gx.
    - rewrite (get_unique_flat c P HInv) in Gx. apply find_some in Gx as [Hx Ex].
      assert (Lx : listed answers x = false).
      { rewrite listed_stamp. unfold listed in HL |- *. rewrite <- HL. apply existsb_ext_in_.
        intros a _. apply gen_eq_congr_r. exact Ex. }
      destruct (ingest_others t answers c HInv Hwf c' x E Hx Lx) as [x' [Gx' Lx']].
      rewrite <- (get_unique_congr c' x P HInv' Ex), Gx'. cbn [option_map]. f_equal. rewrite Lx'.
      assert (Fl : flushed t answers x = false).
      { unfold flushed. apply andb_false_iff. left. rewrite existsb_map_. apply existsb_false_. intros a Ha.
        pose proof (Hnf a Ha) as Fa. unfold flush_hits in Fa.
        rewrite (gen_eq_rkey x P Ex), rkey_pointer, (gen_eq_type x P Ex).
        assert (Ecl : DNSEntry_class_ x = C_CLASS_IN).
        { pose proof Ex as Ex'. apply eq_iff_ident in Ex'. unfold ident_of in Ex'.
          destruct (p_kind x); cbn in Ex'; try discriminate Ex'. inversion Ex' as [[K1 K2 K3 K4]].
          unfold DNSEntry_class_. rewrite class_mask_mod. exact K3. }
        rewrite Ecl. exact Fa. }
      rewrite Fl. reflexivity.
    - assert (Hin : in_cache c P = false) by (apply no_entry_not_in_cache; assumption).
      assert (Ln : last_nonzero answers P = None).
      { apply last_nonzero_none_unlisted. rewrite listed_stamp. exact HL. }
      rewrite (not_in_cache_no_entry c' P HInv' (ingest_goodbye_uncached t answers c HInv Hwf c' P E Hin Ln)).
      reflexivity.
  Qed.
End OneArrival.

Lemma receive_inv c t recs : Inv c -> decoded recs -> Inv (receive c (t, recs)).
Proof.
  intros HInv HD. destruct (ingest_total t (map (stamp t) recs) c HInv (stamp_wf t recs HD)) as [c' [E HI]].
  unfold receive. cbn [fst snd]. rewrite E. exact HI.
Qed.

(* ------------------------------------------------------------------ *)
(* 1. one arrival, in terms of `knows` *)

(* The statements as sketched ("a cache with the invariant of C05/C06", "no LATER goodbye / positive copy") are false; the
   counterexamples are in Proofs/C07_link.v (arrival_teaches_needs_faithful_cache, goodbye_forgets_needs_faithful_cache,
   order_irrelevant_cached, order_irrelevant_uncached, others_matter_when_flushing).  Hence the _partial names; what is added:
   - on the cache: Recv c s = Inv c and every cached record is `faithful` for s (it looks like the pointer of s to `knows`
     exactly when it is the pointer of s to the cache); this is preserved by every arrival of faithful records;
   - on recs: `decoded` (TTL a 32-bit quantity, no question objects), every record faithful for s, and the kind of the arrival
     quantifies over ALL copies of the pointer in the datagram, not the later ones. *)

(* 1a. an arrival all of whose copies of the pointer carry a TTL >= ttl > 0 (so: no goodbye for it ANYWHERE in the datagram -
   the position does not matter, see order_irrelevant_cached) makes the instance known, until t + 1000 * ttl at least
   (the 1125 s PTR floor and a larger TTL of the last copy only lengthen that; a record stamped in the future is unexpired, so
   no lower bound on t' is needed).  Later arrivals: last_arrival_wins_partial. *)
Theorem arrival_teaches_partial : forall c s t recs ttl,
  Recv c s -> decoded recs -> (forall r, In r recs -> faithful s r) ->
  0 < ttl -> announcement s ttl recs ->
  Recv (receive c (t, recs)) s /\
  forall t', t' < t + 1000 * ttl -> knows (receive c (t, recs)) t' s = true.
Proof.
  intros c s t recs ttl HR HD HF Hpos Ha.
  destruct (receive_ok c s t recs HR HD HF) as [c' [_ [Erc HR']]].
  split; [rewrite Erc; exact HR'|]. intros t' Ht'.
  destruct (recv_announce c s t recs HR HD HF ttl Hpos Ha) as [x [Gx [Cx Tx]]].
  rewrite knows_entry by (rewrite Erc; exact HR'). rewrite Gx.
  unfold DNSRecord_is_expired, DNSRecord_created, DNSRecord_ttl, C_EXPIRE_FULL_TIME_MS. rewrite Cx.
  apply negb_true_iff. apply Z.leb_gt. nia.
Qed.

(* 1b. an arrival all of whose copies of the pointer have TTL 0 (no positive copy ANYWHERE in the datagram, see
   order_irrelevant_uncached) makes the instance unknown, at every instant *)
Theorem goodbye_forgets_partial : forall c s t recs,
  Recv c s -> decoded recs -> (forall r, In r recs -> faithful s r) ->
  goodbye s recs ->
  Recv (receive c (t, recs)) s /\ forall t', knows (receive c (t, recs)) t' s = false.
Proof.
  intros c s t recs HR HD HF Hg.
  destruct (receive_ok c s t recs HR HD HF) as [c' [_ [Erc HR']]].
  split; [rewrite Erc; exact HR'|]. intro t'.
  rewrite knows_entry by (rewrite Erc; exact HR').
  rewrite (recv_goodbye c s t recs HR HD HF Hg). reflexivity.
Qed.

(* 1c. an arrival without any copy of the pointer - and without a cache-flush record aimed at it - changes nothing, at any instant *)
Theorem others_do_not_matter_partial : forall c s t recs,
  Recv c s -> decoded recs -> (forall r, In r recs -> faithful s r) ->
  unrelated s recs ->
  Recv (receive c (t, recs)) s /\ forall t', knows (receive c (t, recs)) t' s = knows c t' s.
Proof.
  intros c s t recs HR HD HF Hu.
  destruct (receive_ok c s t recs HR HD HF) as [c' [_ [Erc HR']]].
  split; [rewrite Erc; exact HR'|]. intro t'.
  rewrite (knows_pstate _ t' s) by (rewrite Erc; exact HR'). rewrite (knows_pstate c t' s HR).
  rewrite (recv_unrelated c s t recs HR HD HF Hu). reflexivity.
Qed.

(* ------------------------------------------------------------------ *)
(* 2. sequences of arrivals *)

Lemma receive_all_snoc c l a : receive_all c (l ++ [a]) = receive (receive_all c l) a.
Proof. unfold receive_all. rewrite fold_left_app. reflexivity. Qed.

Lemma last_mention_snoc s l a :
  last_mention s (l ++ [a]) = if mentions s a then Some a else last_mention s l.
Proof. unfold last_mention. rewrite rev_app_distr. reflexivity. Qed.

Lemma announcement_announces s ttl recs : 0 < ttl -> announcement s ttl recs -> announces s recs = true.
Proof.
  intros Hpos [HL Hall]. unfold listed in HL. apply existsb_exists in HL as [a [Ha Ea]].
  unfold announces. apply existsb_exists. exists a. split; [exact Ha|]. rewrite Ea.
  pose proof (Hall a Ha Ea). apply Z.ltb_lt. lia.
Qed.

Lemma goodbye_announces s recs : goodbye s recs -> announces s recs = false.
Proof.
  intros [_ Hall]. unfold announces. apply existsb_false_. intros a Ha.
  destruct (gen_eq a (dns_pointer s)) eqn:Ea; [|reflexivity]. rewrite (Hall a Ha Ea). reflexivity.
Qed.

Lemma receive_all_state s ttl : 0 < ttl -> forall l c, Recv c s -> Forall (arrival_ok s ttl) l ->
  Recv (receive_all c l) s /\
  match last_mention s l with
  | None => pstate (receive_all c l) s = pstate c s
  | Some (t, recs) =>
      if announces s recs then exists ttl', pstate (receive_all c l) s = Some (t, ttl') /\ ttl <= ttl'
      else pstate (receive_all c l) s = None
  end.
Proof.
  intros Hpos l. induction l as [|a l IH] using rev_ind; intros c HR Hall.
  - split; [exact HR|reflexivity].
  - apply Forall_app in Hall as [Hl Ha]. inversion Ha as [|a' l' Hok _]; subst a' l'. clear Ha.
    destruct (IH c HR Hl) as [HRl Hst]. clear IH.
    rewrite receive_all_snoc, last_mention_snoc. destruct a as [t recs].
    destruct Hok as [HD [HF Hk]]. cbn [snd] in HD, HF, Hk.
    destruct (receive_ok (receive_all c l) s t recs HRl HD HF) as [c' [_ [Erc HR']]].
    split; [rewrite Erc; exact HR'|].
    unfold mentions. cbn [snd].
    destruct Hk as [Hk|[Hk|Hk]].
    + rewrite (proj1 Hk), (announcement_announces s ttl recs Hpos Hk).
      destruct (recv_announce (receive_all c l) s t recs HRl HD HF ttl Hpos Hk) as [x [Gx [Cx Tx]]].
      exists (p_ttl x). split; [|exact Tx]. unfold pstate. rewrite Gx. cbn [option_map]. unfold lifetime. rewrite Cx. reflexivity.
    + rewrite (proj1 Hk), (goodbye_announces s recs Hk).
      unfold pstate. rewrite (recv_goodbye (receive_all c l) s t recs HRl HD HF Hk). reflexivity.
    + rewrite (proj1 Hk). rewrite (recv_unrelated (receive_all c l) s t recs HRl HD HF Hk). exact Hst.
Qed.

(* After any sequence of arrivals - announcements of s (every copy of the pointer with TTL >= ttl > 0), goodbyes of s, unrelated
   ones; in any order of arrival times - the instance is known at t' iff the LAST arrival that mentions s is an announcement
   (t' before that announcement's pointer expires; if none mentions s nothing has changed). *)
Theorem last_arrival_wins_partial : forall c s ttl l t',
  Recv c s -> 0 < ttl -> Forall (arrival_ok s ttl) l ->
  (forall t recs, last_mention s l = Some (t, recs) -> announces s recs = true -> t' < t + 1000 * ttl) ->
  knows (receive_all c l) t' s
  = match last_mention s l with
    | None => knows c t' s
    | Some (t, recs) => announces s recs
    end.
Proof.
  intros c s ttl l t' HR Hpos Hall Ht'.
  destruct (receive_all_state s ttl Hpos l c HR Hall) as [HRl Hst].
  rewrite (knows_pstate _ t' s HRl).
  destruct (last_mention s l) as [[t recs]|].
  - destruct (announces s recs) eqn:An.
    + destruct Hst as [ttl' [Ep Hle]]. rewrite Ep. pose proof (Ht' t recs eq_refl An) as Hlt.
      apply negb_true_iff. apply Z.leb_gt. nia.
    + rewrite Hst. reflexivity.
  - rewrite Hst. symmetry. apply knows_pstate. exact HR.
Qed.

(* the "iff" reading when some arrival mentions s *)
Corollary last_arrival_wins_iff_partial : forall c s ttl l t' t recs,
  Recv c s -> 0 < ttl -> Forall (arrival_ok s ttl) l ->
  last_mention s l = Some (t, recs) -> t' < t + 1000 * ttl ->
  (knows (receive_all c l) t' s = true <-> announces s recs = true).
Proof.
  intros c s ttl l t' t recs HR Hpos Hall Hlm Ht'.
  rewrite (last_arrival_wins_partial c s ttl l t' HR Hpos Hall).
  - rewrite Hlm. tauto.
  - intros t0 recs0 E _. rewrite Hlm in E. inversion E; subst. exact Ht'.
Qed.

(* any receiver whose whole history consisted of such arrivals satisfies the receiver hypothesis *)
Lemma recv_empty s : Recv empty_cache s.
Proof. split; [apply inv_empty|]. intros r []. Qed.

Lemma receive_all_recv c s ttl l : Recv c s -> 0 < ttl -> Forall (arrival_ok s ttl) l -> Recv (receive_all c l) s.
Proof. intros HR Hpos Hall. apply (receive_all_state s ttl Hpos l c HR Hall). Qed.

Corollary recv_history s ttl l : 0 < ttl -> Forall (arrival_ok s ttl) l -> Recv (receive_all empty_cache l) s.
Proof. intros Hpos Hall. apply (receive_all_recv empty_cache s ttl l (recv_empty s) Hpos Hall). Qed.
