(* C04: browser callbacks alternate Added/Removed and always match the cache.
   Vocabulary (brun, live_after, cached_instances, events_of, alternates, hyp): Proofs/C04_defs.v.
   Theorems: C04_live, C04_alternate, C04_after (+ the single-step forms), enqueue_precedence (C04_enqueue.v),
   per-datagram key lemma resp_events and purge_events (C04_step.v). *)
From ZC Require Import Model.Base Model.PyRec Model.Dict Model.Re Model.Names Model.Cache Model.Ingest Model.Sched
  Model.Browser Gen.Const Gen.DnsPure Spec.CacheSpec Spec.IngestSpec.
From ZC Require Import Proofs.C20_identity Proofs.C05_index Proofs.C05_cache Proofs.C06_lemmas Proofs.C06_ingest.
From ZC Require Import Proofs.C04_enqueue Proofs.C04_defs Proofs.C04_step.

(* ------------------------------------------------------------------ *)
(* alternation as a state machine: [alt_run live l] is the "reported" bit after l, or None if l does not alternate *)
Fixpoint alt_run (live : bool) (l : list change) : option bool :=
  match l with
  | [] => Some live
  | Added :: r => if live then None else alt_run true r
  | Removed :: r => if live then alt_run false r else None
  | Updated :: r => alt_run live r
  end.

Lemma alt_run_app : forall l1 l2 live,
  alt_run live (l1 ++ l2) = match alt_run live l1 with Some b => alt_run b l2 | None => None end.
Proof.
  induction l1 as [|ch l1 IH]; intros l2 live; [reflexivity|].
  cbn [app alt_run]. destruct ch; [destruct live; [reflexivity|apply IH]|destruct live; [apply IH|reflexivity]|apply IH].
Qed.

Lemma alt_run_alternates : forall l live b, alt_run live l = Some b -> alternates live l.
Proof.
  induction l as [|ch l IH]; intros live b H; [exact I|].
  cbn [alt_run] in H. cbn [alternates]. destruct ch.
  - destruct live; [discriminate H|]. split; [reflexivity|]. apply (IH _ _ H).
  - destruct live; [|discriminate H]. split; [reflexivity|]. apply (IH _ _ H).
  - apply (IH _ _ H).
Qed.

Lemma events_of_app cbs1 cbs2 ty k : events_of (cbs1 ++ cbs2) ty k = events_of cbs1 ty k ++ events_of cbs2 ty k.
Proof. unfold events_of. rewrite filter_app, map_app. reflexivity. Qed.

Lemma events_of_single ty k name t ch :
  events_of [((name, t), ch)] ty k = if text_eqb t ty && text_eqb (lower name) k && is_ar ch then [ch] else [].
Proof.
  unfold events_of, about. cbn [filter fst snd].
  destruct (text_eqb t ty && text_eqb (lower name) k && is_ar ch); reflexivity.
Qed.

Lemma text_eqb_false a b : text_eqb a b = false <-> a <> b.
Proof.
  split.
  - intros E C. apply text_eqb_eq in C. congruence.
  - intro N. destruct (text_eqb a b) eqn:E; [|reflexivity]. apply text_eqb_eq in E. contradiction.
Qed.

(* if the events of every instance alternate, the reported list is duplicate-free and holds exactly the
   instances whose last event is Added *)
Lemma live_after_spec ty : forall cbs,
  (forall k, alt_run false (events_of cbs ty k) <> None) ->
  NoDup (live_after cbs ty) /\
  forall k, In k (live_after cbs ty) <-> alt_run false (events_of cbs ty k) = Some true.
Proof.
  induction cbs as [|cb cbs IH] using rev_ind; intro H.
  - split; [constructor|]. intro k. cbn. split; [intros []|discriminate].
  - assert (Hpre : forall k, alt_run false (events_of cbs ty k) <> None).
    { intros k C. apply (H k). rewrite events_of_app, alt_run_app, C. reflexivity. }
    destruct (IH Hpre) as [Hnd Hspec]. clear IH.
    unfold live_after in *. rewrite fold_left_app. cbn [fold_left].
    set (L := fold_left (live_step ty) cbs []) in *.
    destruct cb as [[name t] ch].
    assert (Hk : forall k, alt_run false (events_of (cbs ++ [((name, t), ch)]) ty k)
                 = match alt_run false (events_of cbs ty k) with
                   | Some b => alt_run b (if text_eqb t ty && text_eqb (lower name) k && is_ar ch then [ch] else [])
                   | None => None
                   end).
    { intro k. rewrite events_of_app, alt_run_app, events_of_single. reflexivity. }
    assert (Hs : forall k b, alt_run false (events_of cbs ty k) = Some b -> (In k L <-> Some b = Some true)).
    { intros k b R. rewrite <- R. apply Hspec. }
    unfold live_step. destruct (text_eqb t ty) eqn:Et.
    2:{ split; [exact Hnd|]. intro k. rewrite Hk. cbn [andb].
        destruct (alt_run false (events_of cbs ty k)) as [b|] eqn:R; [apply (Hs k b R)|exfalso; apply (Hpre k R)]. }
    destruct ch.
    + (* Added *)
      assert (Hnot : ~ In (lower name) L).
      { intro C. apply Hspec in C. apply (H (lower name)). rewrite Hk, C, text_eqb_refl. reflexivity. }
      split; [constructor; assumption|]. intro k. rewrite Hk. cbn [andb is_ar]. rewrite andb_true_r.
      destruct (alt_run false (events_of cbs ty k)) as [b|] eqn:R; [|exfalso; apply (Hpre k R)].
      destruct (text_eqb (lower name) k) eqn:Ek.
      * apply text_eqb_eq in Ek. subst k. split; [|intros _; left; reflexivity]. intros _.
        destruct b; [|reflexivity]. exfalso. apply Hnot. apply (Hs _ _ R). reflexivity.
      * apply text_eqb_false in Ek. cbn [alt_run]. split.
        -- intros [C|C]; [contradiction|]. apply (Hs k b R). exact C.
        -- intro C. right. apply (Hs k b R). exact C.
    + (* Removed *)
      split; [apply NoDup_filter; exact Hnd|]. intro k. rewrite Hk. cbn [andb is_ar]. rewrite andb_true_r.
      rewrite filter_In.
      destruct (alt_run false (events_of cbs ty k)) as [b|] eqn:R; [|exfalso; apply (Hpre k R)].
      destruct (text_eqb (lower name) k) eqn:Ek.
      * apply text_eqb_eq in Ek. subst k. rewrite text_eqb_refl. cbn [negb alt_run].
        split; [intros [_ C]; discriminate C|]. destruct b; discriminate.
      * assert (Ek' : text_eqb k (lower name) = false).
        { apply text_eqb_false. apply text_eqb_false in Ek. congruence. }
        rewrite Ek'. cbn [negb alt_run]. split.
        -- intros [C _]. apply (Hs k b R). exact C.
        -- intro C. split; [apply (Hs k b R); exact C|reflexivity].
    + (* Updated *)
      split; [exact Hnd|]. intro k. rewrite Hk. cbn [is_ar]. rewrite andb_false_r.
      destruct (alt_run false (events_of cbs ty k)) as [b|] eqn:R; [apply (Hs k b R)|exfalso; apply (Hpre k R)].
Qed.

(* ------------------------------------------------------------------ *)
(* the invariant of a run *)

Definition J (types : list text) (n : bnode) (cbs : list (pkey * change)) : Prop :=
  bn_on n = true /\ bn_types n = types /\ Inv (bn_cache n) /\ cache_ok types (bn_cache n) /\
  (forall cb, In cb cbs -> In (snd (fst cb)) types) /\
  forall ty, In ty types -> forall k, alt_run false (events_of cbs ty k) = Some (instb (bn_cache n) ty k).

Definition label_ok (types : list text) (l : blabel) : Prop :=
  match l with BResp now answers => datagram_ok types now answers | _ => True end.

Lemma J_init types s : J types (bnode_init types s) [].
Proof.
  unfold J, bnode_init. cbn [bn_on bn_types bn_cache].
  split; [reflexivity|]. split; [reflexivity|]. split; [apply inv_empty|]. split; [intros x []|].
  split; [intros cb []|]. intros ty _ k. reflexivity.
Qed.

Lemma pending_types types now c1 ups cb :
  In cb (enqueue_all [] (flat_map (update_ops types now c1) ups)) -> In (snd (fst cb)) types.
Proof.
  destruct cb as [[n t] ch]. intro H. apply pending_member in H. apply in_flat_map in H as [u [_ H]].
  cbn [fst snd]. apply (in_update_ops_type types now c1 u ch t n H).
Qed.

Lemma J_extend types n n' cbs p :
  J types n cbs -> bn_on n' = true -> bn_types n' = types -> Inv (bn_cache n') -> cache_ok types (bn_cache n') ->
  (forall cb, In cb p -> In (snd (fst cb)) types) ->
  (forall ty k, In ty types ->
     (events_of p ty k = [Added] /\ instb (bn_cache n) ty k = false /\ instb (bn_cache n') ty k = true) \/
     (events_of p ty k = [Removed] /\ instb (bn_cache n) ty k = true /\ instb (bn_cache n') ty k = false) \/
     (events_of p ty k = [] /\ instb (bn_cache n) ty k = instb (bn_cache n') ty k)) ->
  J types n' (cbs ++ p).
Proof.
  intros [_ [_ [_ [_ [Hty Halt]]]]] Hon Htys Hinv Hok Hpty Hev.
  split; [exact Hon|]. split; [exact Htys|]. split; [exact Hinv|]. split; [exact Hok|]. split.
  - intros cb Hcb. apply in_app_or in Hcb as [Hcb|Hcb]; [apply Hty|apply Hpty]; exact Hcb.
  - intros ty Hin k. rewrite events_of_app, alt_run_app, (Halt ty Hin k).
    destruct (Hev ty k Hin) as [[E [B A]]|[[E [B A]]|[E B]]]; rewrite E; cbn [alt_run].
    + rewrite B, A. reflexivity.
    + rewrite B, A. reflexivity.
    + rewrite B. reflexivity.
Qed.

Lemma J_step types n cbs l n' o :
  types_distinct types -> J types n cbs -> label_ok types l -> bstep n l = Some (n', o) ->
  J types n' (cbs ++ bo_callbacks o).
Proof.
  intros Htd HJ Hl Hs. pose proof HJ as [Hon [Htys [Hinv [Hok _]]]].
  destruct l as [now answers|now|now rnd|now].
  - destruct Hl as [Hwf [Hptr Hcase]].
    destruct (bstep_resp n now answers n' o Hon Hs) as [Ef [Et [Hon' Hcb]]]. rewrite Htys in *.
    rewrite Hcb. apply (J_extend types n n' cbs _ HJ Hon' Et).
    + apply (resp_inv now answers (bn_cache n) (bn_cache n') Hinv Hwf Ef).
    + apply (resp_ok types now answers (bn_cache n) (bn_cache n') Hinv Hok Hwf Hptr Ef).
    + intros cb. unfold resp_ops. apply pending_types.
    + intros ty k Hty.
      apply (resp_events types now answers (bn_cache n) (bn_cache n') Htd Hinv Hok Hwf Hptr Hcase Ef ty k Hty).
  - destruct (bstep_purge n now n' o Hon Hs) as [Ef [Et [Hon' Hcb]]]. rewrite Htys in *.
    rewrite Hcb. apply (J_extend types n n' cbs _ HJ Hon' Et).
    + apply (purge_facts now (bn_cache n) (bn_cache n') Hinv Ef).
    + apply (purge_ok types now (bn_cache n) (bn_cache n') Hinv Hok Ef).
    + intros cb. unfold purge_ops. apply pending_types.
    + intros ty k Hty.
      apply (purge_events types now (bn_cache n) (bn_cache n') Htd Hinv Hok Ef ty k Hty).
  - destruct (bstep_sched n (BStart now rnd) n' o ltac:(repeat intro; discriminate) ltac:(repeat intro; discriminate) Hs) as [Ec [Et [Eo Hcb]]].
    rewrite Hcb, app_nil_r. unfold J. rewrite Ec, Et, Eo. exact HJ.
  - destruct (bstep_sched n (BFire now) n' o ltac:(repeat intro; discriminate) ltac:(repeat intro; discriminate) Hs) as [Ec [Et [Eo Hcb]]].
    rewrite Hcb, app_nil_r. unfold J. rewrite Ec, Et, Eo. exact HJ.
Qed.

Lemma J_run types : types_distinct types -> forall ls n cbs0 n' cbs,
  (forall l, In l ls -> label_ok types l) -> J types n cbs0 -> brun n ls = Some (n', cbs) ->
  J types n' (cbs0 ++ cbs).
Proof.
  intro Htd. induction ls as [|l ls IH]; intros n cbs0 n' cbs Hl HJ Hr.
  - cbn [brun] in Hr. inversion Hr; subst. rewrite app_nil_r. exact HJ.
  - cbn [brun] in Hr. destruct (bstep n l) as [[n1 o]|] eqn:Hs; [|discriminate Hr].
    destruct (brun n1 ls) as [[n2 cbs1]|] eqn:Hr1; [|discriminate Hr]. inversion Hr; subst n2 cbs.
    rewrite app_assoc. apply (IH n1 (cbs0 ++ bo_callbacks o) n' cbs1).
    + intros l0 H0. apply Hl. right. exact H0.
    + apply (J_step types n cbs0 l n1 o Htd HJ); [apply Hl; left; reflexivity|exact Hs].
    + exact Hr1.
Qed.

Lemma hyp_labels types ls : hyp types ls -> forall l, In l ls -> label_ok types l.
Proof. intros [_ H] l Hl. destruct l; cbn [label_ok]; [apply H; exact Hl|exact I|exact I|exact I]. Qed.

Lemma hyp_prefix types ls1 ls2 : hyp types (ls1 ++ ls2) -> hyp types ls1.
Proof. intros [H1 H2]. split; [exact H1|]. intros now answers Hin. apply H2. apply in_or_app. left. exact Hin. Qed.

Lemma run_invariant types s ls n cbs :
  hyp types ls -> brun (bnode_init types s) ls = Some (n, cbs) -> J types n cbs.
Proof.
  intros Hh Hr. pose proof Hh as [Htd _].
  apply (J_run types Htd ls (bnode_init types s) [] n cbs (hyp_labels types ls Hh) (J_init types s) Hr).
Qed.

(* ------------------------------------------------------------------ *)
(* Theorem 1: at every quiescent point the instances reported for a browsed type are exactly the pointers of
   that type held in the cache (compared case-insensitively), and no instance is reported twice *)
Lemma J_live types n cbs : J types n cbs ->
  forall ty, In ty types ->
    (forall k, In k (live_after cbs ty) <-> In k (cached_instances (bn_cache n) ty)) /\
    NoDup (live_after cbs ty).
Proof.
  intros [_ [_ [_ [_ [_ Halt]]]]] ty Hty.
  assert (Hne : forall k, alt_run false (events_of cbs ty k) <> None).
  { intro k. rewrite (Halt ty Hty k). discriminate. }
  destruct (live_after_spec ty cbs Hne) as [Hnd Hspec]. split; [|exact Hnd].
  intro k. rewrite (Hspec k), (Halt ty Hty k), <- instb_iff.
  split; [intro H; inversion H; reflexivity|intro H; rewrite H; reflexivity].
Qed.

Lemma J_alternate types n cbs : J types n cbs -> forall ty k, alternates false (events_of cbs ty k).
Proof.
  intros [_ [_ [_ [_ [Htys Halt]]]]] ty k.
  destruct (in_dec (list_eq_dec Z.eq_dec) ty types) as [Hty|Hty].
  - apply (alt_run_alternates _ _ _ (Halt ty Hty k)).
  - assert (E : events_of cbs ty k = []).
    { unfold events_of. rewrite filter_all_false; [reflexivity|]. intros cb Hcb. unfold about.
      destruct (text_eqb (snd (fst cb)) ty) eqn:Et; [|reflexivity]. apply text_eqb_eq in Et.
      exfalso. apply Hty. rewrite <- Et. apply Htys. exact Hcb. }
    rewrite E. exact I.
Qed.

Theorem C04_live : forall types s ls n cbs,
  hyp types ls ->
  brun (bnode_init types s) ls = Some (n, cbs) ->
  forall ty, In ty types ->
    (forall k, In k (live_after cbs ty) <-> In k (cached_instances (bn_cache n) ty)) /\
    NoDup (live_after cbs ty).
Proof.
  intros types s ls n cbs Hh Hr. apply (J_live types n cbs). apply (run_invariant types s ls n cbs Hh Hr).
Qed.

(* the same at the end of every prefix of a run *)
Corollary C04_live_prefix : forall types s ls1 ls2 n cbs,
  hyp types (ls1 ++ ls2) ->
  brun (bnode_init types s) ls1 = Some (n, cbs) ->
  forall ty, In ty types ->
    (forall k, In k (live_after cbs ty) <-> In k (cached_instances (bn_cache n) ty)) /\
    NoDup (live_after cbs ty).
Proof.
  intros types s ls1 ls2 n cbs Hh. apply C04_live. apply (hyp_prefix types ls1 ls2 Hh).
Qed.

(* Theorem 2: for every (type, lower-cased instance) the Added / Removed callbacks alternate, starting with Added *)
Theorem C04_alternate : forall types s ls n cbs,
  hyp types ls ->
  brun (bnode_init types s) ls = Some (n, cbs) ->
  forall ty k, alternates false (events_of cbs ty k).
Proof.
  intros types s ls n cbs Hh Hr. apply (J_alternate types n cbs). apply (run_invariant types s ls n cbs Hh Hr).
Qed.

(* Theorem 3: an Added callback fired by a response datagram is for a pointer that is in the cache when the
   step ends. Single-step form: any node whose cache is well-formed. *)
Theorem C04_after_step : forall n now answers n' o,
  Inv (bn_cache n) -> cache_ok (bn_types n) (bn_cache n) -> datagram_ok (bn_types n) now answers ->
  bstep n (BResp now answers) = Some (n', o) ->
  forall name ty, In ((name, ty), Added) (bo_callbacks o) ->
    In (lower name) (cached_instances (bn_cache n') ty).
Proof.
  intros n now answers n' o Hinv Hok [Hwf [Hptr Hcase]] Hs name ty Hcb.
  destruct (bn_on n) eqn:Hon.
  - destruct (bstep_resp n now answers n' o Hon Hs) as [Ef [_ [_ Ecb]]]. rewrite Ecb in Hcb.
    apply pending_added in Hcb.
    destruct (resp_A1 (bn_types n) now answers (bn_cache n) (bn_cache n') Hinv Hok Hwf Hptr Ef ty name Hcb) as [_ A].
    apply instb_iff. exact A.
  - exfalso. unfold bstep in Hs.
    destruct (i_final (ingest now answers (bn_cache n))) as [c'|e]; [|discriminate Hs].
    unfold run_updates in Hs. rewrite Hon in Hs. cbn [negb] in Hs. inversion Hs; subst n' o.
    cbn [bo_callbacks] in Hcb. destruct Hcb.
Qed.

(* ... and along a run *)
Theorem C04_after : forall types s ls now answers n cbs n' o,
  hyp types (ls ++ [BResp now answers]) ->
  brun (bnode_init types s) ls = Some (n, cbs) ->
  bstep n (BResp now answers) = Some (n', o) ->
  forall name ty, In ((name, ty), Added) (bo_callbacks o) ->
    In (lower name) (cached_instances (bn_cache n') ty).
Proof.
  intros types s ls now answers n cbs n' o Hh Hr Hs.
  destruct (run_invariant types s ls n cbs (hyp_prefix _ _ _ Hh) Hr) as [_ [Htys [Hinv [Hok _]]]].
  apply (C04_after_step n now answers n' o Hinv); [rewrite Htys; exact Hok| |exact Hs].
  rewrite Htys. destruct Hh as [_ Hh]. apply Hh. apply in_or_app. right. left. reflexivity.
Qed.

(* a run never gets stuck on a response or a purge (only an untimely scheduler label is disabled) *)
Lemma C04_enabled : forall types s ls n cbs l,
  hyp types (ls ++ [l]) -> brun (bnode_init types s) ls = Some (n, cbs) ->
  (forall now rnd, l <> BStart now rnd) -> (forall now, l <> BFire now) ->
  bstep n l <> None.
Proof.
  intros types s ls n cbs l Hh Hr H1 H2.
  destruct (run_invariant types s ls n cbs (hyp_prefix _ _ _ Hh) Hr) as [_ [_ [Hinv _]]].
  destruct l as [now answers|now|now rnd|now].
  - assert (Hd : datagram_ok types now answers).
    { destruct Hh as [_ Hh]. apply Hh. apply in_or_app. right. left. reflexivity. }
    destruct Hd as [Hwf _]. destruct (ingest_total now answers (bn_cache n) Hinv Hwf) as [c' [E _]].
    unfold bstep. rewrite E. destruct (run_updates n now _ _). discriminate.
  - destruct (purge_inv now (bn_cache n) Hinv) as [c' [E _]].
    unfold bstep. rewrite E. destruct (run_updates n now _ _). discriminate.
  - exfalso. apply (H1 now rnd). reflexivity.
  - exfalso. apply (H2 now). reflexivity.
Qed.

(* ------------------------------------------------------------------ *)
(* why name_ok asks, in its second alternative, that the owner name matches no browsed type even up to
   letter case (the sketch only said "inter_types ... is [p_name r] or []"): a pointer record owned by
   "_A._tcp.local." while "_a._tcp.local." is browsed matches no type in the listener (inter_types = []), so no
   callback fires, yet the cache files it under the lower-cased name, i.e. under the browsed type *)
Definition ex_tail : text := [46; 95; 116; 99; 112; 46; 108; 111; 99; 97; 108; 46].     (* "._tcp.local." *)
Definition ex_type : text := 95 :: 97 :: ex_tail.                                       (* "_a._tcp.local." *)
Definition ex_rec : pyrec :=
  {| p_kind := KPointer; p_name := 95 :: 65 :: ex_tail; p_type_ := 12; p_class_ := 1; p_ttl := 4500; p_created := 0;
     p_address := []; p_scope_id := None; p_cpu := []; p_os := [];
     p_alias := 120 :: 46 :: 95 :: 65 :: ex_tail;                                       (* "x._A._tcp.local." *)
     p_text := []; p_priority := 0; p_weight := 0; p_port := 0; p_server := []; p_next_name := []; p_rdtypes := [] |}.

Example sketched_name_hypothesis_too_weak :
  inter_types [ex_type] (possible_types (p_name ex_rec)) = [] /\
  match brun (bnode_init [ex_type] (sched_init 10000 true)) [BResp 0 [ex_rec]] with
  | Some (n, cbs) => live_after cbs ex_type = [] /\ cached_instances (bn_cache n) ex_type = [lower (p_alias ex_rec)]
  | None => False
  end.
Proof. vm_compute. split; [reflexivity|split; reflexivity]. Qed.

(* the hypotheses are satisfiable and the definitions compute what they should: learn an instance, refresh it
   with a re-cased target, withdraw it, and let the purge find nothing *)
Definition ok_rec (alias_head : Z) (ttl created : Z) : pyrec :=
  {| p_kind := KPointer; p_name := ex_type; p_type_ := 12; p_class_ := 32769; p_ttl := ttl; p_created := created;
     p_address := []; p_scope_id := None; p_cpu := []; p_os := [];
     p_alias := alias_head :: 46 :: ex_type;                                            (* "x._a._tcp.local." / "X...." *)
     p_text := []; p_priority := 0; p_weight := 0; p_port := 0; p_server := []; p_next_name := []; p_rdtypes := [] |}.

Example sanity_run :
  inter_types [ex_type] (possible_types ex_type) = [ex_type] /\
  match brun (bnode_init [ex_type] (sched_init 10000 true))
             [BResp 0 [ok_rec 120 4500 0]; BResp 5000 [ok_rec 88 120 5000]; BResp 9000 [ok_rec 120 0 9000]; BPurge 20000] with
  | Some (n, cbs) =>
      cbs = [((120 :: 46 :: ex_type, ex_type), Added); ((120 :: 46 :: ex_type, ex_type), Removed)] /\
      live_after cbs ex_type = [] /\ cached_instances (bn_cache n) ex_type = []
  | None => False
  end.
Proof. vm_compute. split; [reflexivity|split; [reflexivity|split; reflexivity]]. Qed.

(* no_case_clash is needed: two targets differing only in case in one datagram are two pending keys *)
Example case_clash_breaks_alternation :
  match brun (bnode_init [ex_type] (sched_init 10000 true)) [BResp 0 [ok_rec 120 4500 0; ok_rec 88 4500 0]] with
  | Some (n, cbs) => events_of cbs ex_type (120 :: 46 :: ex_type) = [Added; Added]
  | None => False
  end.
Proof. vm_compute. reflexivity. Qed.

Check enqueue_precedence.
Check resp_events.
Check purge_events.
Check C04_live.
Check C04_alternate.
Check C04_after.

Print Assumptions enqueue_precedence.
Print Assumptions resp_events.
Print Assumptions purge_events.
Print Assumptions C04_live.
Print Assumptions C04_live_prefix.
Print Assumptions C04_alternate.
Print Assumptions C04_after_step.
Print Assumptions C04_after.
Print Assumptions C04_enabled.
Print Assumptions sketched_name_hypothesis_too_weak.
