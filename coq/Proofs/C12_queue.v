(* C12_queue: reply-timing theorems for the multicast aggregation queue model (Model/OutQueue.v). *)
From Coq Require Import ZArith List Bool Lia ZifyBool Sorted.
From ZC Require Import Model.Base Model.Dict Model.OutQueue Proofs.C12_lemmas.
Import ListNotations.
Open Scope Z_scope.
Ltac Zify.zify_post_hook ::= Z.to_euclidean_division_equations.

(* ================================================================== *)
(** * Vocabulary used in the statements                                 *)
(* ================================================================== *)

(* [keys] is defined in C12_lemmas:  keys a = map fst a *)

Definition label_time (l : qlabel) : Z :=
  match l with QAdd _ t _ _ => t | QFire _ t => t end.

(* loop time never goes backwards (t is the time of the previous label) *)
Fixpoint times_sorted (t : Z) (ls : list qlabel) : Prop :=
  match ls with [] => True | l :: r => t <= label_time l /\ times_sorted (label_time l) r end.

(* arrival time = handling time, random draw in 20..120 *)
Definition add_ok (l : qlabel) : Prop :=
  match l with QAdd now tnow rnd _ => now = tnow /\ 20 <= rnd <= 120 | QFire _ _ => True end.

(* the answers of an add are a Python dict: no key occurs twice *)
Definition dict_ok (l : qlabel) : Prop :=
  match l with QAdd _ _ _ a => NoDup (keys a) | QFire _ _ => True end.

Definition mentions (k : Z) (l : qlabel) : Prop :=
  match l with QAdd _ _ _ a => In k (keys a) | QFire _ _ => False end.

(* one label is punctual in state q: a timer runs exactly at its deadline, and the label does not
   happen later than any (other) still-pending deadline *)
Definition punctual_label (q : oq) (l : qlabel) : Prop :=
  match l with
  | QAdd _ t _ _ => forall d', In d' (q_timers q) -> t <= d'
  | QFire d t => t = d /\ forall d', In d' (remove_one (q_timers q) d) -> t <= d'
  end.

(* every label of the run is punctual in the state in which it is taken *)
Fixpoint punctual_run (q : oq) (ls : list qlabel) : Prop :=
  match ls with
  | [] => True
  | l :: r =>
      punctual_label q l /\
      match qstep q l with Some (q', _) => punctual_run q' r | None => True end
  end.

(* "after the prefix [pre] (run from q0), the step [l] emits batch b at time s" *)
Definition emits (q0 : oq) (pre : list qlabel) (l : qlabel) (s : Z) (b : answers) : Prop :=
  exists q e q', qrun q0 pre [] = Some (q, e) /\ qstep q l = Some (q', Some (s, b)).

Definition after_lt (g g' : group) : Prop := g_after g < g_after g'.
Definition before_le (g g' : group) : Prop := g_before g <= g_before g'.

(* ================================================================== *)
(** * qrun plumbing                                                     *)
(* ================================================================== *)

Definition opt_list {A} (o : option A) : list A := match o with Some s => [s] | None => [] end.

Lemma qrun_shift : forall ls q tr,
  qrun q ls tr = match qrun q ls [] with Some (q', e) => Some (q', tr ++ e) | None => None end.
Proof.
  induction ls as [|l r IH]; intros q tr; cbn [qrun].
  - rewrite app_nil_r. reflexivity.
  - destruct (qstep q l) as [[q' [s|]]|]; [|apply IH|reflexivity].
    cbn [app]. rewrite (IH q' (tr ++ [s])), (IH q' [s]).
    destruct (qrun q' r []) as [[q'' e]|]; [|reflexivity].
    rewrite <- app_assoc. reflexivity.
Qed.

Lemma qrun_cons_inv q l r qf e :
  qrun q (l :: r) [] = Some (qf, e) ->
  exists q' o e', qstep q l = Some (q', o) /\ qrun q' r [] = Some (qf, e') /\ e = opt_list o ++ e'.
Proof.
  cbn [qrun]. destruct (qstep q l) as [[q' [s|]]|]; [| |discriminate].
  - cbn [app]. rewrite qrun_shift. destruct (qrun q' r []) as [[q'' e']|] eqn:R; [|discriminate].
    intro E. inversion E; subst. exists q', (Some s), e'. repeat split; try assumption.
  - intro R. exists q', None, e. repeat split. exact R.
Qed.

Lemma qrun_cons_intro q l r q' o qf e' :
  qstep q l = Some (q', o) -> qrun q' r [] = Some (qf, e') ->
  qrun q (l :: r) [] = Some (qf, opt_list o ++ e').
Proof.
  intros S R. cbn [qrun]. rewrite S. destruct o as [s|]; [|exact R].
  cbn [app]. rewrite qrun_shift, R. reflexivity.
Qed.

Lemma qrun_app_inv : forall l1 l2 q qf e,
  qrun q (l1 ++ l2) [] = Some (qf, e) ->
  exists q1 e1 e2, qrun q l1 [] = Some (q1, e1) /\ qrun q1 l2 [] = Some (qf, e2) /\ e = e1 ++ e2.
Proof.
  induction l1 as [|l r IH]; intros l2 q qf e R.
  - exists q, [], e. repeat split. exact R.
  - cbn [app] in R. apply qrun_cons_inv in R. destruct R as [q' [o [e' [S [R E]]]]].
    apply IH in R. destruct R as [q1 [e1 [e2 [R1 [R2 E2]]]]].
    exists q1, (opt_list o ++ e1), e2. split; [eapply qrun_cons_intro; eassumption|].
    split; [exact R2|]. subst. rewrite app_assoc. reflexivity.
Qed.

Lemma qrun_app_intro : forall l1 l2 q q1 e1 qf e2,
  qrun q l1 [] = Some (q1, e1) -> qrun q1 l2 [] = Some (qf, e2) ->
  qrun q (l1 ++ l2) [] = Some (qf, e1 ++ e2).
Proof.
  induction l1 as [|l r IH]; intros l2 q q1 e1 qf e2 R1 R2.
  - cbn in R1. inversion R1; subst. exact R2.
  - apply qrun_cons_inv in R1. destruct R1 as [q' [o [e' [S [R E]]]]]. subst e1.
    cbn [app]. rewrite <- app_assoc. eapply qrun_cons_intro; [exact S|].
    eapply IH; eassumption.
Qed.

Lemma emits_cons q l q' o mid l0 s b :
  qstep q l = Some (q', o) -> emits q' mid l0 s b -> emits q (l :: mid) l0 s b.
Proof.
  intros S [qm [e [qm' [R S']]]]. exists qm, (opt_list o ++ e), qm'.
  split; [eapply qrun_cons_intro; eassumption|exact S'].
Qed.

Lemma emits_prefix q0 p q1 e1 mid l s b :
  qrun q0 p [] = Some (q1, e1) -> emits q1 mid l s b -> emits q0 (p ++ mid) l s b.
Proof.
  intros R [qm [e [qm' [R' S']]]]. exists qm, (e1 ++ e), qm'.
  split; [eapply qrun_app_intro; eassumption|exact S'].
Qed.

(* emitted batches are exactly the entries of the trace *)
Lemma trace_emits : forall ls q0 q tr s b,
  qrun q0 ls [] = Some (q, tr) -> In (s, b) tr ->
  exists pre l post, ls = pre ++ l :: post /\ emits q0 pre l s b.
Proof.
  induction ls as [|l r IH]; intros q0 q tr s b R HI.
  - cbn in R. inversion R; subst. destruct HI.
  - apply qrun_cons_inv in R. destruct R as [q' [o [e' [S [R E]]]]]. subst tr.
    apply in_app_or in HI. destruct HI as [HI|HI].
    + destruct o as [x|]; [|destruct HI]. destruct HI as [HI|[]]. subst x.
      exists [], l, r. split; [reflexivity|]. exists q0, [], q'. split; [reflexivity|exact S].
    + destruct (IH _ _ _ _ _ R HI) as [pre [l0 [post [E1 E2]]]].
      exists (l :: pre), l0, post. split; [subst r; reflexivity|].
      eapply emits_cons; eassumption.
Qed.

Lemma emits_trace q0 pre l post s b q tr :
  emits q0 pre l s b -> qrun q0 (pre ++ l :: post) [] = Some (q, tr) -> In (s, b) tr.
Proof.
  intros [q1 [e [q1' [R1 S1]]]] R.
  apply qrun_app_inv in R. destruct R as [q2 [e1 [e2 [R2 [R3 E]]]]].
  rewrite R1 in R2. inversion R2; subst q2 e1. clear R2.
  apply qrun_cons_inv in R3. destruct R3 as [q' [o [e' [S [R3 E2]]]]].
  rewrite S1 in S. inversion S; subst q' o. subst.
  apply in_or_app. right. left. reflexivity.
Qed.

Fixpoint end_time (t : Z) (ls : list qlabel) : Z :=
  match ls with [] => t | l :: r => end_time (label_time l) r end.

Lemma times_sorted_app : forall l1 l2 t,
  times_sorted t (l1 ++ l2) <-> times_sorted t l1 /\ times_sorted (end_time t l1) l2.
Proof.
  induction l1 as [|l r IH]; intros l2 t; cbn [app times_sorted end_time].
  - tauto.
  - rewrite IH. tauto.
Qed.

Lemma punctual_app : forall l1 l2 q q1 e,
  punctual_run q (l1 ++ l2) -> qrun q l1 [] = Some (q1, e) -> punctual_run q1 l2.
Proof.
  induction l1 as [|l r IH]; intros l2 q q1 e P R.
  - cbn in R. inversion R; subst. exact P.
  - apply qrun_cons_inv in R. destruct R as [q' [o [e' [S [R E]]]]].
    cbn [app punctual_run] in P. destruct P as [_ P]. rewrite S in P.
    eapply IH; eassumption.
Qed.

Lemma in_remove_one l d x : In x l -> x <> d -> In x (remove_one l d).
Proof.
  induction l as [|y l IH]; intros HI Hne; [destruct HI|].
  cbn [remove_one]. destruct (y =? d) eqn:E.
  - apply Z.eqb_eq in E. destruct HI as [HI|HI]; [congruence|exact HI].
  - destruct HI as [HI|HI]; [left; exact HI|right; apply IH; assumption].
Qed.

(* ================================================================== *)
(** * State invariants                                                  *)
(* ================================================================== *)

Definition has_wakeup (q : oq) : Prop :=
  match q_groups q with
  | [] => True
  | g0 :: _ => exists d, In d (q_timers q) /\ d <= g_before g0
  end.

Section Inv.
Variables additional aggregation : Z.

Definition cfg (q : oq) : Prop := q_additional q = additional /\ q_aggregation q = aggregation.

Lemma cfg_step q l q' o : cfg q -> qstep q l = Some (q', o) -> cfg q'.
Proof.
  intros [C1 C2] S. destruct l as [now tnow rnd a|d t].
  - cbn in S. inversion S; subst.
    destruct (step_add q now tnow rnd a) as [A1 [A2 _]]. split; congruence.
  - apply step_fire in S. destruct S as [_ [_ [A1 [A2 _]]]]. split; congruence.
Qed.

(* (S) g_after strictly increases along the queue: no hypothesis at all *)
Definition InvS (q : oq) : Prop := StronglySorted after_lt (q_groups q).

Lemma InvS_step q l q' o : InvS q -> qstep q l = Some (q', o) -> InvS q'.
Proof.
  unfold InvS. intros I S. destruct l as [now tnow rnd a|d t].
  - cbn in S. inversion S; subst. clear S.
    destruct (step_add q now tnow rnd a) as [_ [_ A]].
    destruct A as [G G' _|i l G Hle G' _|i l G Hlt G' _]; rewrite G'.
    + constructor; constructor.
    + rewrite G in I. apply ss_snoc; [eapply ss_app_l; exact I|].
      apply ss_snoc_inv in I. exact I.
    + apply ss_snoc; [exact I|]. rewrite G. rewrite G in I.
      apply Forall_app. split.
      * apply ss_snoc_inv in I. eapply Forall_impl; [|exact I].
        intros y Hy. unfold after_lt in *. cbn [new_group g_after]. lia.
      * constructor; [|constructor]. unfold after_lt. cbn [new_group g_after]. lia.
  - apply step_fire in S. destruct S as [_ [_ [_ [_ F]]]].
    destruct F as [g0 g1 r G Hlt G' _ _|popped rest G HP HL HB G' _ _]; rewrite G'; [exact I|].
    rewrite G in I. apply ss_map; [intros x y Hxy; exact Hxy|]. eapply ss_app_r; exact I.
Qed.

(* (A) after <= before for every group, and a non-empty queue has a wake-up before its head's deadline.
   Needs: add_ok labels, 120 <= aggregation *)
Definition InvA (q : oq) : Prop :=
  cfg q /\ Forall (fun g => g_after g <= g_before g) (q_groups q) /\ has_wakeup q.

Hypothesis agg_ge : 120 <= aggregation.

Lemma InvA_step q l q' o : InvA q -> add_ok l -> qstep q l = Some (q', o) -> InvA q'.
Proof.
  intros [C [AB W]] OK S. split; [eapply cfg_step; eassumption|].
  destruct C as [C1 C2]. unfold has_wakeup in *.
  destruct l as [now tnow rnd a|d t].
  - cbn in S. inversion S; subst q' o. clear S. cbn [add_ok] in OK. destruct OK as [OK1 OK2].
    destruct (step_add q now tnow rnd a) as [_ [_ A]].
    destruct A as [G G' TM|i l G Hle G' TM|i l G Hlt G' TM]; rewrite G', TM.
    + split.
      * constructor; [|constructor]. cbn [new_group g_after g_before]. lia.
      * exists (tnow + (rnd + q_additional q)). split; [apply in_or_app; right; left; reflexivity|].
        cbn [new_group g_before]. lia.
    + rewrite G in AB, W. apply Forall_app in AB. destruct AB as [AB1 AB2]. split.
      * apply Forall_app. split; [exact AB1|]. inversion AB2; subst.
        constructor; [exact H1|constructor].
      * destruct i as [|x i']; exact W.
    + split.
      * apply Forall_app. split; [exact AB|]. constructor; [|constructor].
        cbn [new_group g_after g_before]. lia.
      * destruct (q_groups q) as [|g0 r]; [destruct i; discriminate|]. exact W.
  - apply step_fire in S. destruct S as [_ [_ [_ [_ F]]]].
    destruct F as [g0 g1 r G Hlt G' TM _|popped rest G HP HL HB G' TM _]; rewrite G', TM.
    + split; [exact AB|]. rewrite G.
      exists (g_before g0). split; [apply in_or_app; right; left; reflexivity|lia].
    + rewrite G in AB. apply Forall_app in AB. destruct AB as [_ AB]. split.
      * apply Forall_map. exact AB.
      * destruct rest as [|g rr]; [exact I|]. cbn [map strip].
        exists (g_after g). split; [apply in_or_app; right; left; reflexivity|].
        cbn [g_before]. inversion AB; subst. assumption.
Qed.

(* (B) g_before is non-decreasing along the queue and bounded by the current time T + window.
   Needs in addition: loop time monotone *)
Definition InvB (T : Z) (q : oq) : Prop :=
  StronglySorted before_le (q_groups q) /\
  Forall (fun g => g_before g <= T + aggregation + additional) (q_groups q).

Lemma InvB_step T q l q' o :
  cfg q -> InvB T q -> add_ok l -> T <= label_time l -> qstep q l = Some (q', o) ->
  InvB (label_time l) q'.
Proof.
  intros [C1 C2] [SB UB] OK HT S. unfold InvB.
  assert (UB' : Forall (fun g => g_before g <= label_time l + aggregation + additional) (q_groups q)).
  { eapply Forall_impl; [|exact UB]. intros g Hg. cbv beta in *. lia. }
  destruct l as [now tnow rnd a|d t]; cbn [label_time] in *.
  - cbn in S. inversion S; subst q' o. clear S. cbn [add_ok] in OK. destruct OK as [OK1 OK2].
    destruct (step_add q now tnow rnd a) as [_ [_ A]].
    destruct A as [G G' _|i l G Hle G' _|i l G Hlt G' _]; rewrite G'.
    + split; [constructor; constructor|].
      constructor; [|constructor]. cbn [new_group g_before]. lia.
    + rewrite G in SB, UB'. split.
      * apply ss_snoc; [eapply ss_app_l; exact SB|]. apply ss_snoc_inv in SB. exact SB.
      * apply Forall_app in UB'. destruct UB' as [U1 U2]. apply Forall_app. split; [exact U1|].
        inversion U2; subst. constructor; [assumption|constructor].
    + split.
      * apply ss_snoc; [exact SB|]. eapply Forall_impl; [|exact UB].
        intros g Hg. unfold before_le. cbn [new_group g_before]. cbv beta in Hg. lia.
      * apply Forall_app. split; [exact UB'|]. constructor; [|constructor].
        cbn [new_group g_before]. lia.
  - apply step_fire in S. destruct S as [_ [_ [_ [_ F]]]].
    destruct F as [g0 g1 r G Hlt G' _ _|popped rest G HP HL HB G' _ _]; rewrite G'.
    + split; assumption.
    + rewrite G in SB, UB'. split.
      * apply ss_map; [intros x y Hxy; exact Hxy|]. eapply ss_app_r; exact SB.
      * apply Forall_map. apply Forall_app in UB'. destruct UB' as [_ U]. exact U.
Qed.

(* (C) every group's answers have pairwise distinct keys.  Needs: dict_ok labels *)
Definition InvC (q : oq) : Prop := Forall (fun g => NoDup (keys (g_answers g))) (q_groups q).

Lemma InvC_step q l q' o : InvC q -> dict_ok l -> qstep q l = Some (q', o) -> InvC q'.
Proof.
  unfold InvC. intros I OK S. destruct l as [now tnow rnd a|d t].
  - cbn in S. inversion S; subst q' o. clear S. cbn [dict_ok] in OK.
    destruct (step_add q now tnow rnd a) as [_ [_ A]].
    destruct A as [G G' _|i l G Hle G' _|i l G Hlt G' _]; rewrite G'.
    + constructor; [exact OK|constructor].
    + rewrite G in I. apply Forall_app in I. destruct I as [I1 I2]. apply Forall_app.
      split; [exact I1|]. inversion I2; subst. constructor; [|constructor].
      cbn [merge_into g_answers]. apply nodup_a_update. assumption.
    + apply Forall_app. split; [exact I|]. constructor; [exact OK|constructor].
  - apply step_fire in S. destruct S as [_ [_ [_ [_ F]]]].
    destruct F as [g0 g1 r G Hlt G' _ _|popped rest G HP HL HB G' _ _]; rewrite G'; [exact I|].
    rewrite G in I. apply Forall_app in I. destruct I as [_ I]. apply Forall_map.
    eapply Forall_impl; [|exact I]. intros g Hg. cbn [strip g_answers]. apply nodup_remove, Hg.
Qed.

(* lifting step invariants to runs *)
Lemma run_untimed (P : oq -> Prop) (ok : qlabel -> Prop) :
  (forall q l q' o, P q -> ok l -> qstep q l = Some (q', o) -> P q') ->
  forall ls q qf e, P q -> Forall ok ls -> qrun q ls [] = Some (qf, e) -> P qf.
Proof.
  intros ST. induction ls as [|l r IH]; intros q qf e HP HO R.
  - cbn in R. inversion R; subst. exact HP.
  - apply qrun_cons_inv in R. destruct R as [q' [o [e' [S [R _]]]]].
    inversion HO; subst. eapply IH; [|eassumption|exact R]. eapply ST; eassumption.
Qed.

Definition InvAB (T : Z) (q : oq) : Prop := InvA q /\ InvB T q.

Lemma InvAB_step T q l q' o :
  InvAB T q -> add_ok l -> T <= label_time l -> qstep q l = Some (q', o) -> InvAB (label_time l) q'.
Proof.
  intros [IA IB] OK HT S. split; [eapply InvA_step; eassumption|].
  eapply InvB_step; try eassumption. exact (proj1 IA).
Qed.

Lemma InvAB_run : forall ls T q qf e,
  InvAB T q -> Forall add_ok ls -> times_sorted T ls -> qrun q ls [] = Some (qf, e) ->
  InvAB (end_time T ls) qf.
Proof.
  induction ls as [|l r IH]; intros T q qf e HP HO HT R.
  - cbn in R. inversion R; subst. exact HP.
  - apply qrun_cons_inv in R. destruct R as [q' [o [e' [S [R _]]]]].
    inversion HO; subst. cbn [times_sorted] in HT. destruct HT as [HT1 HT2].
    cbn [end_time]. eapply IH; [|eassumption|exact HT2|exact R].
    eapply InvAB_step; eassumption.
Qed.

Lemma init_cfg : cfg (oq_init additional aggregation).
Proof. split; reflexivity. Qed.

Lemma init_InvS : InvS (oq_init additional aggregation).
Proof. constructor. Qed.

Lemma init_InvA : InvA (oq_init additional aggregation).
Proof. split; [exact init_cfg|]. split; [constructor|exact I]. Qed.

Lemma init_InvAB T : InvAB T (oq_init additional aggregation).
Proof. split; [exact init_InvA|]. split; constructor. Qed.

Lemma init_InvC : InvC (oq_init additional aggregation).
Proof. constructor. Qed.

End Inv.

(* ================================================================== *)
(** * 1. timer_inv                                                      *)
(* ================================================================== *)

Lemma Forall_trivial {A} (ls : list A) : Forall (fun _ => True) ls.
Proof. apply Forall_forall. intros; exact I. Qed.

(* Hypotheses: 120 <= aggregation; every add has now = tnow and a draw in 20..120. *)
Theorem timer_inv : forall additional aggregation ls q tr,
  120 <= aggregation ->
  Forall add_ok ls ->
  qrun (oq_init additional aggregation) ls [] = Some (q, tr) ->
  (* a non-empty queue has a pending wake-up no later than its head's send_before *)
  (forall g0 r, q_groups q = g0 :: r -> exists d, In d (q_timers q) /\ d <= g_before g0) /\
  (* send_after strictly increases along the queue *)
  StronglySorted after_lt (q_groups q) /\
  (* send_after <= send_before for every group *)
  Forall (fun g => g_after g <= g_before g) (q_groups q).
Proof.
  intros additional aggregation ls q tr Hagg HOK R.
  assert (IA : InvA additional aggregation q).
  { eapply (run_untimed (InvA additional aggregation) add_ok); [|apply init_InvA|exact HOK|exact R].
    intros q0 l q' o. apply InvA_step. exact Hagg. }
  assert (IS : InvS q).
  { eapply (run_untimed InvS (fun _ => True)); [|apply init_InvS|apply Forall_trivial|exact R].
    intros q0 l q' o H _. apply InvS_step. exact H. }
  destruct IA as [_ [AB W]]. split; [|split; assumption].
  intros g0 r G. unfold has_wakeup in W. rewrite G in W. exact W.
Qed.

(* send_after strictly increasing needs no hypothesis at all *)
Theorem after_increasing : forall additional aggregation ls q tr,
  qrun (oq_init additional aggregation) ls [] = Some (q, tr) -> StronglySorted after_lt (q_groups q).
Proof.
  intros additional aggregation ls q tr R.
  eapply (run_untimed InvS (fun _ => True)); [|apply init_InvS|apply Forall_trivial|exact R].
  intros q0 l q' o H _. apply InvS_step. exact H.
Qed.

(* "g_before is non-decreasing along q_groups" is FALSE under the hypotheses of timer_inv alone:
   add_ok does not say that loop time is monotone.  Two add_ok adds, the second one at an EARLIER time. *)
Definition before_cex : list qlabel := [QAdd 50 50 20 [(1, [])]; QAdd 0 0 120 [(2, [])]].

Example before_cex_run :
  match qrun (oq_init 0 500) before_cex [] with
  | Some (q, _) => map (fun g => (g_after g, g_before g)) (q_groups q)
  | None => []
  end = [(70, 550); (120, 500)].
Proof. vm_compute. reflexivity. Qed.

Example timer_inv_before_false :
  exists ls q tr, Forall add_ok ls /\ qrun (oq_init 0 500) ls [] = Some (q, tr) /\
                  ~ StronglySorted before_le (q_groups q).
Proof.
  eexists before_cex, _, _. split; [|split; [vm_compute; reflexivity|]].
  - repeat constructor; lia.
  - intro H. inversion H as [|g l HS HF]; subst. inversion HF as [|g' l' HR HF']; subst.
    unfold before_le in HR. cbn in HR. lia.
Qed.

(* strongest true variant: add the hypothesis that loop time never goes backwards *)
Theorem timer_inv_before_partial : forall additional aggregation t0 ls q tr,
  120 <= aggregation ->
  Forall add_ok ls ->
  times_sorted t0 ls ->
  qrun (oq_init additional aggregation) ls [] = Some (q, tr) ->
  StronglySorted before_le (q_groups q) /\
  Forall (fun g => g_before g <= end_time t0 ls + aggregation + additional) (q_groups q).
Proof.
  intros additional aggregation t0 ls q tr Hagg HOK HT R.
  destruct (InvAB_run additional aggregation Hagg ls t0 _ _ _ (init_InvAB additional aggregation t0) HOK HT R)
    as [_ IB]. exact IB.
Qed.

(* ================================================================== *)
(** * 2./3. the reply window                                            *)
(* ================================================================== *)

Lemma batch_of_some t m s b : batch_of t m = Some (s, b) -> s = t /\ b = m.
Proof. unfold batch_of. destruct m; [discriminate|]. intro E. inversion E. split; reflexivity. Qed.

Lemma batch_of_in t m k : In k (keys m) -> batch_of t m = Some (t, m).
Proof. unfold batch_of. destruct m; [intros []|reflexivity]. Qed.

Section Window.
Variables additional aggregation : Z.
Notation init := (oq_init additional aggregation).
Notation IA := (InvA additional aggregation).
Notation IB := (InvB additional aggregation).
Notation IAB := (InvAB additional aggregation).

(* in a punctual step, a timer never runs later than the send_before of any queued group *)
Lemma fire_before_bound T q d t :
  IA q -> IB T q -> punctual_label q (QFire d t) ->
  forall g, In g (q_groups q) -> t <= g_before g.
Proof.
  intros [_ [_ W]] [SB _] [Pt Pd] g HI. unfold has_wakeup in W.
  destruct (q_groups q) as [|g0 r] eqn:G; [destruct HI|].
  destruct W as [dw [W1 W2]].
  assert (Hdw : t <= dw).
  { destruct (Z.eq_dec dw d) as [E|NE]; [lia|]. apply Pd. apply in_remove_one; assumption. }
  inversion SB as [|x l SS FA]; subst. destruct HI as [HI|HI].
  - subst. lia.
  - rewrite Forall_forall in FA. specialize (FA g HI). unfold before_le in FA. lia.
Qed.

(* key k is waiting in some group whose send_before is at most B *)
Definition pend (k B : Z) (q : oq) : Prop :=
  exists g, In g (q_groups q) /\ In k (keys (g_answers g)) /\ g_before g <= B.

Lemma pend_step k B T q l q' o :
  IA q -> IB T q -> punctual_label q l -> pend k B q -> qstep q l = Some (q', o) ->
  pend k B q' \/ exists b, o = Some (label_time l, b) /\ In k (keys b) /\ label_time l <= B.
Proof.
  intros HA HB P [g [G1 [G2 G3]]] S. destruct l as [now tnow rnd a|d t].
  - cbn in S. inversion S; subst q' o. clear S. left.
    destruct (step_add q now tnow rnd a) as [_ [_ A]].
    destruct A as [G G' _|i l G Hle G' _|i l G Hlt G' _]; unfold pend; rewrite G'.
    + rewrite G in G1. destruct G1.
    + rewrite G in G1. apply in_app_or in G1. destruct G1 as [G1|[G1|[]]].
      * exists g. split; [apply in_or_app; left; exact G1|split; assumption].
      * subst l. exists (merge_into g a). split; [apply in_or_app; right; left; reflexivity|].
        split; [|exact G3]. cbn [merge_into g_answers]. apply keys_a_update. left. exact G2.
    + exists g. split; [apply in_or_app; left; exact G1|split; assumption].
  - pose proof (fire_before_bound T q d t HA HB P) as FB. cbn [label_time].
    apply step_fire in S. destruct S as [_ [_ [_ [_ F]]]].
    destruct F as [g0 g1 r G Hlt G' _ _|popped rest G HP HL HBf G' _ OUT].
    + left. exists g. rewrite G'. split; [exact G1|split; assumption].
    + set (m := merge_groups [] popped) in *.
      destruct (in_dec Z.eq_dec k (keys m)) as [Y|N].
      * right. exists m. split; [rewrite OUT; eapply batch_of_in; exact Y|].
        split; [exact Y|]. specialize (FB g G1). lia.
      * left. rewrite G in G1. apply in_app_or in G1. destruct G1 as [G1|G1].
        -- exfalso. apply N. apply keys_merge_groups. right. exists g. split; assumption.
        -- exists (strip m g). rewrite G'. split; [apply in_map; exact G1|].
           split; [|exact G3]. cbn [strip g_answers]. apply keys_remove_keep; assumption.
Qed.

Hypothesis agg_ge : 120 <= aggregation.

Lemma upper_aux k B : forall post q T qf e,
  IAB T q -> times_sorted T post -> Forall add_ok post -> punctual_run q post ->
  pend k B q -> qrun q post [] = Some (qf, e) -> q_groups qf = [] ->
  exists mid l post' s b,
    post = mid ++ l :: post' /\ emits q mid l s b /\ In k (keys b) /\ T <= s <= B.
Proof.
  induction post as [|l r IH]; intros q T qf e HI HT HO HP PE R DR.
  - cbn in R. inversion R; subst. destruct PE as [g [G1 _]]. rewrite DR in G1. destruct G1.
  - apply qrun_cons_inv in R. destruct R as [q' [o [e' [S [R _]]]]].
    cbn [times_sorted] in HT. destruct HT as [HT1 HT2].
    inversion HO as [|x y OK1 OK2]; subst.
    cbn [punctual_run] in HP. destruct HP as [PL PR]. rewrite S in PR.
    pose proof (InvAB_step additional aggregation agg_ge T q l q' o HI OK1 HT1 S) as HI'.
    destruct HI as [HA HB].
    destruct (pend_step k B T q l q' o HA HB PL PE S) as [PE'|[b [E1 [E2 E3]]]].
    + destruct (IH q' (label_time l) qf e' HI' HT2 OK2 PR PE' R DR)
        as [mid [l0 [post' [s [b [E1 [E2 [E3 E4]]]]]]]].
      exists (l :: mid), l0, post', s, b. split; [subst r; reflexivity|].
      split; [eapply emits_cons; eassumption|]. split; [exact E3|lia].
    + exists [], l, r, (label_time l), b. split; [reflexivity|].
      split; [|split; [exact E2|lia]].
      exists q, [], q'. split; [reflexivity|]. rewrite S, E1. reflexivity.
Qed.

Lemma pend_after_add k T q now rnd a :
  IA q -> IB T q -> T <= now -> In k (keys a) ->
  pend k (now + aggregation + additional) (async_add q now now rnd a).
Proof.
  intros [[C1 C2] _] [_ UB] HT HK. unfold pend.
  destruct (step_add q now now rnd a) as [_ [_ A]].
  destruct A as [G G' _|i l G Hle G' _|i l G Hlt G' _]; rewrite G'.
  - exists (new_group q now rnd a). split; [left; reflexivity|]. split; [exact HK|].
    cbn [new_group g_before]. lia.
  - exists (merge_into l a). split; [apply in_or_app; right; left; reflexivity|].
    split; [cbn [merge_into g_answers]; apply keys_a_update; right; exact HK|].
    cbn [merge_into g_before]. rewrite G in UB. apply Forall_app in UB. destruct UB as [_ UB].
    inversion UB; subst. lia.
  - exists (new_group q now rnd a). split; [apply in_or_app; right; left; reflexivity|].
    split; [exact HK|]. cbn [new_group g_before]. lia.
Qed.

(* 2. window_upper.  Hypotheses: 120 <= aggregation; loop time monotone; every add has now = tnow and a
   draw in 20..120; the run is punctual; it is followed until the queue is drained. *)
Theorem window_upper : forall t0 ls pre now rnd a post q tr k,
  ls = pre ++ QAdd now now rnd a :: post ->
  times_sorted t0 ls -> Forall add_ok ls -> punctual_run init ls ->
  qrun init ls [] = Some (q, tr) ->
  q_groups q = [] ->
  In k (keys a) ->
  exists mid l post' s b,
    post = mid ++ l :: post' /\                                  (* a later step l of the run ... *)
    emits init (pre ++ QAdd now now rnd a :: mid) l s b /\       (* ... emits batch b at time s *)
    In k (keys b) /\
    now <= s <= now + aggregation + additional.
Proof.
  intros t0 ls pre now rnd a post q tr k E HT HO HP R DR HK. subst ls.
  apply qrun_app_inv in R. destruct R as [q1 [e1 [e2 [R1 [R2 _]]]]].
  apply times_sorted_app in HT. destruct HT as [HT1 HT2].
  apply Forall_app in HO. destruct HO as [HO1 HO2].
  pose proof (InvAB_run additional aggregation agg_ge pre t0 _ _ _
                (init_InvAB additional aggregation t0) HO1 HT1 R1) as HI1.
  pose proof (punctual_app _ _ _ _ _ HP R1) as HP2.
  apply qrun_cons_inv in R2. destruct R2 as [q2 [o [e' [S [R2 _]]]]].
  cbn [times_sorted label_time] in HT2. destruct HT2 as [HT2 HT3].
  inversion HO2 as [|x y OK1 OK2]; subst.
  cbn [punctual_run] in HP2. destruct HP2 as [_ HP3]. rewrite S in HP3.
  pose proof (InvAB_step additional aggregation agg_ge _ _ _ _ _ HI1 OK1 HT2 S) as HI2.
  cbn [label_time] in HI2.
  assert (PE : pend k (now + aggregation + additional) q2).
  { cbn in S. inversion S; subst q2 o. destruct HI1 as [HA HB].
    eapply pend_after_add; eassumption. }
  destruct (upper_aux k _ post q2 now q e' HI2 HT3 OK2 HP3 PE R2 DR)
    as [mid [l [post' [s [b [E1 [E2 [E3 E4]]]]]]]].
  exists mid, l, post', s, b. split; [exact E1|]. split; [|split; assumption].
  replace (pre ++ QAdd now now rnd a :: mid) with ((pre ++ [QAdd now now rnd a]) ++ mid)
    by (rewrite <- app_assoc; reflexivity).
  eapply emits_prefix; [|exact E2].
  eapply qrun_app_intro; [exact R1|]. eapply qrun_cons_intro; [exact S|reflexivity].
Qed.

End Window.

(* ------------------------------------------------------------------ *)
(** ** 3. window_lower: provenance of queued keys (no hypothesis needed) *)
(* ------------------------------------------------------------------ *)

Section Lower.
Variables additional aggregation : Z.
Notation init := (oq_init additional aggregation).

(* every key waiting in a group g was put there by an add of the history, and g is not sent
   before that add's own send_after *)
Definition prov (hist : list qlabel) (q : oq) : Prop :=
  forall g k, In g (q_groups q) -> In k (keys (g_answers g)) ->
  exists now tnow rnd a,
    In (QAdd now tnow rnd a) hist /\ In k (keys a) /\ now + rnd + additional <= g_after g.

Lemma prov_step hist q l q' o :
  cfg additional aggregation q -> prov hist q -> qstep q l = Some (q', o) ->
  prov (hist ++ [l]) q' /\
  (forall s b k, o = Some (s, b) -> In k (keys b) ->
     exists now tnow rnd a,
       In (QAdd now tnow rnd a) hist /\ In k (keys a) /\ now + rnd + additional <= s).
Proof.
  intros [C1 C2] PV S.
  assert (OLD : forall g g' k, In g (q_groups q) -> In k (keys (g_answers g)) -> g_after g' = g_after g ->
                exists now tnow rnd a,
                  In (QAdd now tnow rnd a) (hist ++ [l]) /\ In k (keys a) /\
                  now + rnd + additional <= g_after g').
  { intros g g' k HG HK EA. destruct (PV g k HG HK) as [n [tn [rd [a0 [W1 [W2 W3]]]]]].
    exists n, tn, rd, a0. split; [apply in_or_app; left; exact W1|]. split; [exact W2|lia]. }
  destruct l as [now tnow rnd a|d t].
  - cbn in S. inversion S; subst q' o. clear S. split; [|intros; discriminate].
    assert (NEW : forall k g', In k (keys a) -> now + rnd + additional <= g_after g' ->
                  exists now0 tnow0 rnd0 a0,
                    In (QAdd now0 tnow0 rnd0 a0) (hist ++ [QAdd now tnow rnd a]) /\ In k (keys a0) /\
                    now0 + rnd0 + additional <= g_after g').
    { intros k g' HK HL. exists now, tnow, rnd, a.
      split; [apply in_or_app; right; left; reflexivity|]. split; assumption. }
    destruct (step_add q now tnow rnd a) as [_ [_ A]].
    intros g k HG HK.
    destruct A as [G G' _|i l G Hle G' _|i l G Hlt G' _]; rewrite G' in HG.
    + destruct HG as [HG|[]]. subst g. cbn [new_group g_answers] in HK.
      apply NEW; [exact HK|]. cbn [new_group g_after]. lia.
    + apply in_app_or in HG. destruct HG as [HG|[HG|[]]].
      * apply (OLD g g k); [rewrite G; apply in_or_app; left; exact HG|exact HK|reflexivity].
      * subst g. cbn [merge_into g_answers] in HK. apply keys_a_update in HK.
        destruct HK as [HK|HK].
        -- apply (OLD l _ k); [rewrite G; apply in_or_app; right; left; reflexivity|exact HK|reflexivity].
        -- apply NEW; [exact HK|]. cbn [merge_into g_after]. lia.
    + apply in_app_or in HG. destruct HG as [HG|[HG|[]]].
      * apply (OLD g g k); [exact HG|exact HK|reflexivity].
      * subst g. cbn [new_group g_answers] in HK.
        apply NEW; [exact HK|]. cbn [new_group g_after]. lia.
  - apply step_fire in S. destruct S as [_ [_ [_ [_ F]]]].
    destruct F as [g0 g1 r G Hlt G' _ OUT|popped rest G HP HL HBf G' _ OUT].
    + split; [|intros; subst o; discriminate].
      intros g k HG HK. rewrite G' in HG. apply (OLD g g k); [exact HG|exact HK|reflexivity].
    + split.
      * intros g k HG HK. rewrite G' in HG. apply in_map_iff in HG.
        destruct HG as [g1 [E HG]]. subst g. cbn [strip g_answers] in HK.
        apply keys_remove_incl in HK.
        apply (OLD g1 _ k); [rewrite G; apply in_or_app; right; exact HG|exact HK|reflexivity].
      * intros s b k E HK. rewrite OUT in E. apply batch_of_some in E. destruct E as [E1 E2].
        subst s b. apply keys_merge_groups in HK. destruct HK as [[]|[g [HG HK]]].
        assert (HG' : In g (q_groups q)) by (rewrite G; apply in_or_app; left; exact HG).
        destruct (PV g k HG' HK) as [n [tn [rd [a0 [W1 [W2 W3]]]]]].
        exists n, tn, rd, a0. split; [exact W1|]. split; [exact W2|].
        rewrite Forall_forall in HP. specialize (HP g HG). lia.
Qed.

Lemma prov_run : forall ls hist q qf e,
  cfg additional aggregation q -> prov hist q -> qrun q ls [] = Some (qf, e) ->
  cfg additional aggregation qf /\ prov (hist ++ ls) qf.
Proof.
  induction ls as [|l r IH]; intros hist q qf e C PV R.
  - cbn in R. inversion R; subst. rewrite app_nil_r. split; assumption.
  - apply qrun_cons_inv in R. destruct R as [q' [o [e' [S [R _]]]]].
    destruct (prov_step hist q l q' o C PV S) as [PV' _].
    replace (hist ++ l :: r) with ((hist ++ [l]) ++ r) by (rewrite <- app_assoc; reflexivity).
    eapply IH; [eapply cfg_step; eassumption|exact PV'|exact R].
Qed.

(* No hypothesis on the run: every key of an emitted batch comes from an earlier add, and the batch is not
   sent before that add's own send_after = now + rnd + additional. *)
Theorem window_lower : forall pre l s b k,
  emits init pre l s b -> In k (keys b) ->
  exists now tnow rnd a,
    In (QAdd now tnow rnd a) pre /\ In k (keys a) /\ now + rnd + additional <= s.
Proof.
  intros pre l s b k [q [e [q' [R S]]]] HK.
  assert (P0 : prov [] init) by (intros g k0 []).
  destruct (prov_run pre [] init q e (init_cfg additional aggregation) P0 R) as [C PV].
  cbn [app] in PV.
  destruct (prov_step pre q l q' _ C PV S) as [_ EM]. eapply EM; [reflexivity|exact HK].
Qed.

(* if a single add (with a draw >= 20) mentions k before the batch, the batch is sent >= now + 20 + additional *)
Theorem window_lower_once : forall pre l s b k now tnow rnd a,
  emits init pre l s b -> In k (keys b) ->
  (forall l', In l' pre -> mentions k l' -> l' = QAdd now tnow rnd a) ->
  20 <= rnd ->
  now + 20 + additional <= s.
Proof.
  intros pre l s b k now tnow rnd a EM HK ONE Hrnd.
  destruct (window_lower pre l s b k EM HK) as [n [tn [rd [a0 [W1 [W2 W3]]]]]].
  specialize (ONE _ W1 W2). inversion ONE; subst. lia.
Qed.

(* ------------------------------------------------------------------ *)
(** ** the upper bound for EVERY batch that carries k (punctual, well-formed runs) *)
(* ------------------------------------------------------------------ *)

Hypothesis agg_ge : 120 <= aggregation.

Definition provB (hist : list qlabel) (q : oq) : Prop :=
  forall g k, In g (q_groups q) -> In k (keys (g_answers g)) ->
  exists now rnd a,
    In (QAdd now now rnd a) hist /\ In k (keys a) /\ g_before g <= now + aggregation + additional.

Lemma provB_step T hist q l q' o :
  InvAB additional aggregation T q -> add_ok l -> T <= label_time l ->
  provB hist q -> qstep q l = Some (q', o) -> provB (hist ++ [l]) q'.
Proof.
  intros [[[C1 C2] _] [_ UB]] OK HT PV S.
  assert (OLD : forall g g' k, In g (q_groups q) -> In k (keys (g_answers g)) -> g_before g' = g_before g ->
                exists now rnd a,
                  In (QAdd now now rnd a) (hist ++ [l]) /\ In k (keys a) /\
                  g_before g' <= now + aggregation + additional).
  { intros g g' k HG HK EA. destruct (PV g k HG HK) as [n [rd [a0 [W1 [W2 W3]]]]].
    exists n, rd, a0. split; [apply in_or_app; left; exact W1|]. split; [exact W2|lia]. }
  destruct l as [now tnow rnd a|d t].
  - cbn in S. inversion S; subst q' o. clear S.
    cbn [add_ok] in OK. destruct OK as [OK1 OK2]. subst tnow. cbn [label_time] in HT.
    assert (NEW : forall k g', In k (keys a) -> g_before g' <= now + aggregation + additional ->
                  exists now0 rnd0 a0,
                    In (QAdd now0 now0 rnd0 a0) (hist ++ [QAdd now now rnd a]) /\ In k (keys a0) /\
                    g_before g' <= now0 + aggregation + additional).
    { intros k g' HK HL. exists now, rnd, a.
      split; [apply in_or_app; right; left; reflexivity|]. split; assumption. }
    destruct (step_add q now now rnd a) as [_ [_ A]].
    intros g k HG HK.
    destruct A as [G G' _|i l G Hle G' _|i l G Hlt G' _]; rewrite G' in HG.
    + destruct HG as [HG|[]]. subst g. cbn [new_group g_answers] in HK.
      apply NEW; [exact HK|]. cbn [new_group g_before]. lia.
    + apply in_app_or in HG. destruct HG as [HG|[HG|[]]].
      * apply (OLD g g k); [rewrite G; apply in_or_app; left; exact HG|exact HK|reflexivity].
      * subst g. cbn [merge_into g_answers] in HK. apply keys_a_update in HK.
        destruct HK as [HK|HK].
        -- apply (OLD l _ k); [rewrite G; apply in_or_app; right; left; reflexivity|exact HK|reflexivity].
        -- apply NEW; [exact HK|]. cbn [merge_into g_before].
           rewrite G in UB. apply Forall_app in UB. destruct UB as [_ UB]. inversion UB; subst. lia.
    + apply in_app_or in HG. destruct HG as [HG|[HG|[]]].
      * apply (OLD g g k); [exact HG|exact HK|reflexivity].
      * subst g. cbn [new_group g_answers] in HK.
        apply NEW; [exact HK|]. cbn [new_group g_before]. lia.
  - apply step_fire in S. destruct S as [_ [_ [_ [_ F]]]].
    destruct F as [g0 g1 r G Hlt G' _ OUT|popped rest G HP HL HBf G' _ OUT].
    + intros g k HG HK. rewrite G' in HG. apply (OLD g g k); [exact HG|exact HK|reflexivity].
    + intros g k HG HK. rewrite G' in HG. apply in_map_iff in HG.
      destruct HG as [g1 [E HG]]. subst g. cbn [strip g_answers] in HK.
      apply keys_remove_incl in HK.
      apply (OLD g1 _ k); [rewrite G; apply in_or_app; right; exact HG|exact HK|reflexivity].
Qed.

Lemma provB_run : forall ls T hist q qf e,
  InvAB additional aggregation T q -> provB hist q -> Forall add_ok ls -> times_sorted T ls ->
  qrun q ls [] = Some (qf, e) ->
  InvAB additional aggregation (end_time T ls) qf /\ provB (hist ++ ls) qf.
Proof.
  induction ls as [|l r IH]; intros T hist q qf e HI PV HO HT R.
  - cbn in R. inversion R; subst. rewrite app_nil_r. split; assumption.
  - apply qrun_cons_inv in R. destruct R as [q' [o [e' [S [R _]]]]].
    inversion HO as [|x y OK1 OK2]; subst. cbn [times_sorted] in HT. destruct HT as [HT1 HT2].
    replace (hist ++ l :: r) with ((hist ++ [l]) ++ r) by (rewrite <- app_assoc; reflexivity).
    cbn [end_time]. eapply IH; [| |exact OK2|exact HT2|exact R].
    + eapply InvAB_step; eassumption.
    + eapply provB_step; eassumption.
Qed.

(* Hypotheses: 120 <= aggregation, loop time monotone, adds add_ok, run punctual (all up to and including
   the emitting step).  Every key of every emitted batch was requested by an earlier add whose window
   has not yet closed. *)
Theorem window_upper_all : forall t0 pre l s b k,
  times_sorted t0 (pre ++ [l]) -> Forall add_ok pre -> punctual_run init (pre ++ [l]) ->
  emits init pre l s b -> In k (keys b) ->
  exists now rnd a,
    In (QAdd now now rnd a) pre /\ In k (keys a) /\ s <= now + aggregation + additional.
Proof.
  intros t0 pre l s b k HT HO HP [q [e [q' [R S]]]] HK.
  apply times_sorted_app in HT. destruct HT as [HT1 _].
  assert (P0 : provB [] init) by (intros g k0 []).
  destruct (provB_run pre t0 [] init q e (init_InvAB additional aggregation t0) P0 HO HT1 R) as [HI PV].
  cbn [app] in PV. destruct HI as [HA HB].
  pose proof (punctual_app _ _ _ _ _ HP R) as PL. cbn [punctual_run] in PL. destruct PL as [PL _].
  destruct l as [now tnow rnd a|d t]; [cbn in S; discriminate|].
  pose proof (fire_before_bound additional aggregation _ q d t HA HB PL) as FB.
  apply step_fire in S. destruct S as [_ [_ [_ [_ F]]]].
  destruct F as [g0 g1 r G Hlt G' _ OUT|popped rest G HPp HL HBf G' _ OUT]; [discriminate|].
  symmetry in OUT. apply batch_of_some in OUT. destruct OUT as [E1 E2]. subst s b.
  apply keys_merge_groups in HK. destruct HK as [[]|[g [HG HK]]].
  assert (HG' : In g (q_groups q)) by (rewrite G; apply in_or_app; left; exact HG).
  destruct (PV g k HG' HK) as [n [rd [a0 [W1 [W2 W3]]]]].
  exists n, rd, a0. split; [exact W1|]. split; [exact W2|]. specialize (FB g HG'). lia.
Qed.

End Lower.

(* ================================================================== *)
(** * 4. no_dup                                                         *)
(* ================================================================== *)

(* the keys of every emitted batch are pairwise distinct: no hypothesis, from any start state *)
Theorem no_dup_batch : forall q0 pre l s b, emits q0 pre l s b -> NoDup (keys b).
Proof.
  intros q0 pre l s b [q [e [q' [_ S]]]].
  destruct l as [now tnow rnd a|d t]; [cbn in S; discriminate|].
  apply step_fire in S. destruct S as [_ [_ [_ [_ F]]]].
  destruct F as [g0 g1 r G Hlt G' _ OUT|popped rest G HP HL HBf G' _ OUT]; [discriminate|].
  symmetry in OUT. apply batch_of_some in OUT. destruct OUT as [_ E]. subst b.
  apply nodup_merge_groups. constructor.
Qed.

(* "right after a batch is emitted no group left in the queue contains any of its keys" is FALSE if an add may
   carry the same key twice (a Python dict cannot, the model's association list can): pop(record, None) removes
   one occurrence only.  The run below is punctual and well formed. *)
Definition residual_cex : list qlabel :=
  [QAdd 0 0 100 [(1, [])]; QAdd 50 50 120 [(2, [])]; QFire 100 100;
   QAdd 450 450 120 [(1, []); (1, [])]; QFire 500 500].

Example residual_cex_run :
  match qrun (oq_init 0 500) residual_cex [] with
  | Some (q, tr) => (tr, map g_answers (q_groups q))
  | None => ([], [])
  end = ([(500, [(1, []); (2, [])])], [[(1, [])]]).
Proof. vm_compute. reflexivity. Qed.

(* strongest true variant: the answers of every add are dict-shaped (NoDup keys) *)
Theorem no_dup_partial : forall additional aggregation pre l s b q e q',
  Forall dict_ok pre ->
  qrun (oq_init additional aggregation) pre [] = Some (q, e) ->
  qstep q l = Some (q', Some (s, b)) ->
  NoDup (keys b) /\
  forall g k, In g (q_groups q') -> In k (keys b) -> ~ In k (keys (g_answers g)).
Proof.
  intros additional aggregation pre l s b q e q' HD R S.
  split; [eapply no_dup_batch; exists q, e, q'; split; eassumption|].
  assert (IC : InvC q).
  { eapply (run_untimed InvC dict_ok); [|apply init_InvC|exact HD|exact R].
    intros q0 l0 q0' o. apply InvC_step. }
  destruct l as [now tnow rnd a|d t]; [cbn in S; discriminate|].
  apply step_fire in S. destruct S as [_ [_ [_ [_ F]]]].
  destruct F as [g0 g1 r G Hlt G' _ OUT|popped rest G HP HL HBf G' _ OUT]; [discriminate|].
  symmetry in OUT. apply batch_of_some in OUT. destruct OUT as [_ E]. subst b.
  intros g k HG HK HI. rewrite G' in HG. apply in_map_iff in HG. destruct HG as [g1 [E HG]]. subst g.
  cbn [strip g_answers] in HI. unfold InvC in IC. rewrite G in IC. apply Forall_app in IC.
  destruct IC as [_ IC]. rewrite Forall_forall in IC. specialize (IC g1 HG).
  exact (keys_remove_nodup _ _ _ IC HI HK).
Qed.

(* ================================================================== *)
(** * 5. the reply window for a key requested once, and the two instances *)
(* ================================================================== *)

Lemma punctual_prefix : forall l1 l2 q, punctual_run q (l1 ++ l2) -> punctual_run q l1.
Proof.
  induction l1 as [|l r IH]; intros l2 q P; [exact I|].
  cbn [app punctual_run] in *. destruct P as [P1 P2]. split; [exact P1|].
  destruct (qstep q l) as [[q' o]|]; [|exact I]. eapply IH; exact P2.
Qed.

(* Hypotheses: 120 <= aggregation; loop time monotone; every add has now = tnow and a draw in 20..120; the run is
   punctual and followed until the queue is drained; no other add of the run mentions k. *)
Theorem reply_window : forall additional aggregation t0 ls pre now rnd a post q tr k,
  120 <= aggregation ->
  ls = pre ++ QAdd now now rnd a :: post ->
  times_sorted t0 ls -> Forall add_ok ls -> punctual_run (oq_init additional aggregation) ls ->
  qrun (oq_init additional aggregation) ls [] = Some (q, tr) ->
  q_groups q = [] ->
  In k (keys a) ->
  (forall l, In l pre \/ In l post -> ~ mentions k l) ->
  (exists s b, In (s, b) tr /\ In k (keys b)) /\
  (forall s b, In (s, b) tr -> In k (keys b) ->
               now + 20 + additional <= s <= now + aggregation + additional).
Proof.
  intros additional aggregation t0 ls pre now rnd a post q tr k Hagg E HT HO HP R DR HK ONE.
  split.
  - destruct (window_upper additional aggregation Hagg t0 ls pre now rnd a post q tr k E HT HO HP R DR HK)
      as [mid [l [post' [s [b [E1 [E2 [E3 _]]]]]]]].
    exists s, b. split; [|exact E3]. eapply emits_trace; [exact E2|].
    rewrite <- R. f_equal. subst ls post. rewrite <- app_assoc. reflexivity.
  - intros s b HI HKb.
    assert (ONE' : forall l0, In l0 ls -> mentions k l0 -> l0 = QAdd now now rnd a).
    { intros l0 H0 M0. subst ls. apply in_app_or in H0. destruct H0 as [H0|[H0|H0]].
      - exfalso. apply (ONE l0); [left; exact H0|exact M0].
      - symmetry. exact H0.
      - exfalso. apply (ONE l0); [right; exact H0|exact M0]. }
    assert (OKA : add_ok (QAdd now now rnd a)).
    { rewrite Forall_forall in HO. apply HO. subst ls. apply in_or_app. right. left. reflexivity. }
    cbn [add_ok] in OKA.
    destruct (trace_emits ls _ q tr s b R HI) as [pre' [l' [post' [E' EM]]]].
    assert (SUB : forall l0, In l0 pre' -> In l0 ls).
    { intros l0 H0. rewrite E'. apply in_or_app. left. exact H0. }
    split.
    + eapply (window_lower_once additional aggregation pre' l' s b k now now rnd a EM HKb); [|lia].
      intros l0 H0 M0. apply ONE'; [apply SUB; exact H0|exact M0].
    + assert (E'' : ls = (pre' ++ [l']) ++ post') by (rewrite <- app_assoc; exact E').
      rewrite E'' in HT, HP. apply times_sorted_app in HT. destruct HT as [HT _].
      apply punctual_prefix in HP.
      rewrite E' in HO. apply Forall_app in HO. destruct HO as [HO _].
      destruct (window_upper_all additional aggregation Hagg t0 pre' l' s b k HT HO HP EM HKb)
        as [n [rd [a0 [W1 [W2 W3]]]]].
      assert (EQ : QAdd n n rd a0 = QAdd now now rnd a) by (apply ONE'; [apply SUB; exact W1|exact W2]).
      inversion EQ; subst. lia.
Qed.

(* out_queue: additional = 0, aggregation = 500 *)
Theorem instance_out_queue : forall t0 ls pre now rnd a post q tr k,
  ls = pre ++ QAdd now now rnd a :: post ->
  times_sorted t0 ls -> Forall add_ok ls -> punctual_run (oq_init 0 500) ls ->
  qrun (oq_init 0 500) ls [] = Some (q, tr) ->
  q_groups q = [] ->
  In k (keys a) ->
  (forall l, In l pre \/ In l post -> ~ mentions k l) ->
  (exists s b, In (s, b) tr /\ In k (keys b)) /\
  (forall s b, In (s, b) tr -> In k (keys b) -> now + 20 <= s <= now + 500).
Proof.
  intros t0 ls pre now rnd a post q tr k E HT HO HP R DR HK ONE.
  destruct (reply_window 0 500 t0 ls pre now rnd a post q tr k ltac:(lia) E HT HO HP R DR HK ONE) as [H1 H2].
  split; [exact H1|]. intros s b HI HKb. specialize (H2 s b HI HKb). lia.
Qed.

(* out_delay_queue: additional = 1000, aggregation = 200 *)
Theorem instance_out_delay_queue : forall t0 ls pre now rnd a post q tr k,
  ls = pre ++ QAdd now now rnd a :: post ->
  times_sorted t0 ls -> Forall add_ok ls -> punctual_run (oq_init 1000 200) ls ->
  qrun (oq_init 1000 200) ls [] = Some (q, tr) ->
  q_groups q = [] ->
  In k (keys a) ->
  (forall l, In l pre \/ In l post -> ~ mentions k l) ->
  (exists s b, In (s, b) tr /\ In k (keys b)) /\
  (forall s b, In (s, b) tr -> In k (keys b) -> now + 1020 <= s <= now + 1200).
Proof.
  intros t0 ls pre now rnd a post q tr k E HT HO HP R DR HK ONE.
  destruct (reply_window 1000 200 t0 ls pre now rnd a post q tr k ltac:(lia) E HT HO HP R DR HK ONE) as [H1 H2].
  split; [exact H1|]. intros s b HI HKb. specialize (H2 s b HI HKb). lia.
Qed.

(* ================================================================== *)
(** * Non-vacuity                                                       *)
(* ================================================================== *)

(* three adds: the second is merged into the last (only) group, the third creates a second group;
   then a fourth add re-requests key 1 shortly before the head's send_before *)
Definition ex_run3 : list qlabel :=
  [QAdd 0 0 100 [(1, [10])]; QAdd 10 10 50 [(2, [])]; QAdd 20 20 120 [(3, []); (1, [11])];
   QFire 100 100; QFire 500 500].

Definition ex_run : list qlabel :=
  [QAdd 0 0 100 [(1, [10])]; QAdd 10 10 50 [(2, [])]; QAdd 20 20 120 [(3, []); (1, [11])];
   QFire 100 100; QAdd 450 450 120 [(1, [12]); (4, [])]; QFire 500 500; QFire 570 570].

Example ex_groups_after_three_adds :
  match qrun (oq_init 0 500) (firstn 3 ex_run) [] with
  | Some (q, _) => (map (fun g => (g_after g, g_before g, g_answers g)) (q_groups q), q_timers q)
  | None => ([], [])
  end = ([(100, 500, [(1, [10]); (2, [])]); (140, 520, [(3, []); (1, [11])])], [100]).
Proof. vm_compute. reflexivity. Qed.

Example ex_trace3 :
  qrun (oq_init 0 500) ex_run3 [] =
  Some (oq_init 0 500, [(500, [(1, [11]); (2, []); (3, [])])]).
Proof. vm_compute. reflexivity. Qed.

Example ex_trace :
  qrun (oq_init 0 500) ex_run [] =
  Some (oq_init 0 500, [(500, [(1, [11]); (2, []); (3, [])]); (570, [(4, [])])]).
Proof. vm_compute. reflexivity. Qed.

Example ex_trace_delay :
  qrun (oq_init 1000 200)
       [QAdd 0 0 100 [(1, [10])]; QAdd 10 10 50 [(2, [])]; QAdd 20 20 120 [(3, []); (1, [11])];
        QFire 1100 1100; QFire 1200 1200] [] =
  Some (oq_init 1000 200, [(1200, [(1, [11]); (2, []); (3, [])])]).
Proof. vm_compute. reflexivity. Qed.

Example ex_well_formed :
  times_sorted 0 ex_run /\ Forall add_ok ex_run /\ Forall dict_ok ex_run /\ punctual_run (oq_init 0 500) ex_run.
Proof.
  split; [cbn; lia|]. split; [repeat constructor; lia|]. split.
  - repeat constructor; cbn; intuition lia.
  - cbn. intuition lia.
Qed.

(* the hypotheses of [instance_out_queue] are satisfiable: key 2 is requested once (at time 10) in ex_run *)
Example ex_key2_window :
  forall s b, In (s, b) [(500, [(1, [11]); (2, []); (3, [])]); (570, [(4, [])])] ->
              In 2 (keys b) -> 10 + 20 <= s <= 10 + 500.
Proof.
  destruct ex_well_formed as [HT [HO [_ HP]]].
  refine (proj2 (instance_out_queue 0 ex_run [QAdd 0 0 100 [(1, [10])]] 10 50 [(2, [])]
                   (skipn 2 ex_run) _ _ 2 eq_refl HT HO HP ex_trace eq_refl _ _)).
  - left. reflexivity.
  - intros l [[H|[]]|H] M.
    + subst l. cbn in M. lia.
    + cbn in H. repeat (destruct H as [H|H]; [subst l; cbn in M; lia|]). destruct H.
Qed.

(* the counterexample run of section 4 is well formed and punctual (only dict_ok fails) *)
Example residual_cex_well_formed :
  times_sorted 0 residual_cex /\ Forall add_ok residual_cex /\ punctual_run (oq_init 0 500) residual_cex.
Proof.
  split; [cbn; lia|]. split; [repeat constructor; lia|]. cbn. intuition lia.
Qed.

(* punctuality is necessary for the upper bound: a late timer (deadline 20, run at 600) sends after now + 500 *)
Example upper_needs_punctual :
  qrun (oq_init 0 500) [QAdd 0 0 20 [(1, [])]; QFire 20 600] [] = Some (oq_init 0 500, [(600, [(1, [])])]).
Proof. vm_compute. reflexivity. Qed.

Print Assumptions timer_inv.
Print Assumptions after_increasing.
Print Assumptions timer_inv_before_false.
Print Assumptions timer_inv_before_partial.
Print Assumptions window_upper.
Print Assumptions window_lower.
Print Assumptions window_lower_once.
Print Assumptions window_upper_all.
Print Assumptions no_dup_batch.
Print Assumptions no_dup_partial.
Print Assumptions reply_window.
Print Assumptions instance_out_queue.
Print Assumptions instance_out_delay_queue.
Print Assumptions ex_key2_window.
