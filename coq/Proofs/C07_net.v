(* C07, the link: fates, arrival order (deliveries is a time-sorted permutation of the copies), "one loss leaves two". *)
From Coq Require Import ZArith List Bool Lia ZifyBool.
From ZC Require Import Model.Base Model.PyRec Model.Cache Model.Link.
Ltac Zify.zify_post_hook ::= Z.to_euclidean_division_equations.

Definition arrival := (Z * list pyrec)%type.

(* nondecreasing arrival times *)
Fixpoint tsorted (l : list arrival) : Prop :=
  match l with
  | [] => True
  | a :: r => (forall b, In b r -> fst a <= fst b) /\ tsorted r
  end.

Lemma insert_in a l x : In x (insert_arrival a l) <-> x = a \/ In x l.
Proof.
  induction l as [|b r IH]; cbn [insert_arrival].
  - cbn. intuition congruence.
  - destruct (fst a <? fst b).
    + cbn [In]. intuition congruence.
    + cbn [In]. rewrite IH. intuition congruence.
Qed.

Lemma insert_sorted a l : tsorted l -> tsorted (insert_arrival a l).
Proof.
  induction l as [|b r IH]; intro H; cbn [insert_arrival].
  - cbn. split; [intros b []|exact I].
  - destruct H as [Hb Hr]. destruct (fst a <? fst b) eqn:E.
    + cbn [tsorted]. split; [|split; assumption].
      apply Z.ltb_lt in E. intros x [Hx|Hx]; [subst x; lia|]. specialize (Hb x Hx). lia.
    + cbn [tsorted]. split; [|apply IH; exact Hr].
      apply Z.ltb_ge in E. intros x Hx. apply insert_in in Hx as [Hx|Hx]; [subst x; exact E|apply Hb; exact Hx].
Qed.

Lemma fold_insert_in x : forall l acc,
  In x (fold_left (fun acc a => insert_arrival a acc) l acc) <-> In x l \/ In x acc.
Proof.
  induction l as [|a l IH]; intro acc; cbn [fold_left].
  - cbn. tauto.
  - rewrite IH, insert_in. cbn [In]. intuition congruence.
Qed.

Lemma fold_insert_sorted : forall l acc, tsorted acc -> tsorted (fold_left (fun acc a => insert_arrival a acc) l acc).
Proof.
  induction l as [|a l IH]; intros acc H; cbn [fold_left]; [exact H|]. apply IH. apply insert_sorted. exact H.
Qed.

Lemma by_arrival_in l x : In x (by_arrival l) <-> In x l.
Proof. unfold by_arrival. rewrite fold_insert_in. cbn. tauto. Qed.

Lemma by_arrival_sorted l : tsorted (by_arrival l).
Proof. unfold by_arrival. apply fold_insert_sorted. exact I. Qed.

(* a non-empty time-sorted list ends in an arrival that is not earlier than any other *)
Lemma sorted_last l : tsorted l -> l <> [] -> exists l' x, l = l' ++ [x] /\ forall b, In b l -> fst b <= fst x.
Proof.
  induction l as [|a r IH]; intros H Hne; [congruence|].
  destruct H as [Ha Hr]. destruct r as [|b r'].
  - exists [], a. split; [reflexivity|]. intros b [Hb|[]]. subst b. lia.
  - destruct (IH Hr ltac:(discriminate)) as [l' [x [E Hx]]].
    exists (a :: l'), x. split; [rewrite E; reflexivity|].
    intros y [Hy|Hy]; [|apply Hx; exact Hy]. subst y.
    assert (Hxin : In x (b :: r')) by (rewrite E; apply in_or_app; right; left; reflexivity).
    specialize (Ha x Hxin). lia.
Qed.

(* ---- deliveries ---- *)
Lemma deliveries_in msgs fates x :
  In x (deliveries msgs fates) <->
  exists m f d, In (m, f) (combine msgs fates) /\ In d f /\ x = (w_time m + d, w_recs m).
Proof.
  unfold deliveries. rewrite by_arrival_in, in_flat_map. split.
  - intros [[m f] [Hmf Hx]]. cbn [fst snd] in Hx. unfold arrivals_of in Hx.
    apply in_map_iff in Hx as [d [E Hd]]. exists m, f, d. split; [exact Hmf|]. split; [exact Hd|]. symmetry. exact E.
  - intros [m [f [d [Hmf [Hd E]]]]]. exists (m, f). split; [exact Hmf|]. cbn [fst snd].
    unfold arrivals_of. apply in_map_iff. exists d. split; [symmetry; exact E|exact Hd].
Qed.

Lemma deliveries_sorted msgs fates : tsorted (deliveries msgs fates).
Proof. unfold deliveries. apply by_arrival_sorted. Qed.

(* every delivered copy is a copy of one of the messages, at most 100 ms after it was sent *)
Lemma deliveries_from msgs fates x : Forall fate_ok fates -> In x (deliveries msgs fates) ->
  exists m d, In m msgs /\ 0 <= d <= 100 /\ x = (w_time m + d, w_recs m).
Proof.
  intros Hok Hx. apply deliveries_in in Hx as [m [f [d [Hmf [Hd E]]]]].
  exists m, d. split; [apply (in_combine_l _ _ _ _ Hmf)|]. split; [|exact E].
  apply in_combine_r in Hmf. rewrite Forall_forall in Hok. specialize (Hok f Hmf).
  unfold fate_ok in Hok. rewrite Forall_forall in Hok. apply Hok. exact Hd.
Qed.

(* message m arrives: some copy of it is delivered within 100 ms of its sending time *)
Definition arrives (msgs : list wmsg) (fates : list fate) (m : wmsg) : Prop :=
  exists d, 0 <= d <= 100 /\ In (w_time m + d, w_recs m) (deliveries msgs fates).

Lemma not_lost_arrives msgs fates m f : In (m, f) (combine msgs fates) -> fate_ok f -> f <> [] -> arrives msgs fates m.
Proof.
  intros Hmf Hok Hne. destruct f as [|d f']; [congruence|]. exists d. split.
  - unfold fate_ok in Hok. inversion Hok; assumption.
  - apply deliveries_in. exists m, (d :: f'), d. split; [exact Hmf|]. split; [left; reflexivity|reflexivity].
Qed.

(* ------------------------------------------------------------------ *)
(* 3. one loss leaves two *)
Theorem one_loss_leaves_two : forall f1 f2 f3 : fate, (losses [f1; f2; f3] <= 1)%nat ->
  (f1 <> [] /\ f2 <> []) \/ (f1 <> [] /\ f3 <> []) \/ (f2 <> [] /\ f3 <> []).
Proof.
  intros f1 f2 f3 H. destruct f1, f2, f3; cbn in H; try lia;
    first [left; split; discriminate | right; left; split; discriminate | right; right; split; discriminate].
Qed.

(* hence: of three copies of a message (or three messages) at least two arrive, each within 100 ms of its sending time *)
Theorem one_loss_two_arrive : forall m1 m2 m3 f1 f2 f3,
  fate_ok f1 -> fate_ok f2 -> fate_ok f3 -> (losses [f1; f2; f3] <= 1)%nat ->
  let arr := arrives [m1; m2; m3] [f1; f2; f3] in
  (arr m1 /\ arr m2) \/ (arr m1 /\ arr m3) \/ (arr m2 /\ arr m3).
Proof.
  intros m1 m2 m3 f1 f2 f3 O1 O2 O3 H arr.
  assert (I1 : In (m1, f1) (combine [m1; m2; m3] [f1; f2; f3])) by (left; reflexivity).
  assert (I2 : In (m2, f2) (combine [m1; m2; m3] [f1; f2; f3])) by (right; left; reflexivity).
  assert (I3 : In (m3, f3) (combine [m1; m2; m3] [f1; f2; f3])) by (right; right; left; reflexivity).
  destruct (one_loss_leaves_two f1 f2 f3 H) as [[N1 N2]|[[N1 N3]|[N2 N3]]].
  - left. split; eapply not_lost_arrives; eassumption.
  - right. left. split; eapply not_lost_arrives; eassumption.
  - right. right. split; eapply not_lost_arrives; eassumption.
Qed.

(* one loss among six leaves at least two of the last three *)
Lemma one_loss_of_six f1 f2 f3 f4 f5 f6 : (losses [f1; f2; f3; f4; f5; f6] <= 1)%nat ->
  (losses [f1; f2; f3] <= 1)%nat /\ (losses [f4; f5; f6] <= 1)%nat.
Proof. destruct f1, f2, f3, f4, f5, f6; cbn; lia. Qed.
