(* Sites_C09: one unfolding of Model.Register.check_loop with the two comparisons of Zeroconf.async_check_service as the source writes
   them now (Gen/Sites.v). *)
From ZC Require Import Model.Base Model.PyRec Model.Dict Model.Cache Model.Respond Model.Register Gen.Const Gen.Sites.

Lemma tie_check_loop f c now k acc :
  check_loop (S f) c now k acc =
  if negb (sop_apply site_reg_probe_count (ck_i k) site_reg_probe_count_rhs) then (k, acc ++ [CDone]) else
  match rename_loop (rename_fuel c k) c now k with
  | None => (k, acc ++ [CRaise OtherError])
  | Some (Raise e) => (k, acc ++ [CRaise e])
  | Some (Ok k1) =>
      if sop_apply site_reg_probe_wait now (ck_next k1) then (k1, acc ++ [CWait (ck_next k1 - now)])
      else
        check_loop f c now
          {| ck_svc := ck_svc k1; ck_instance := ck_instance k1; ck_num := ck_num k1;
             ck_next := ck_next k1 + C_CHECK_TIME; ck_i := ck_i k1 + 1;
             ck_allow := ck_allow k1; ck_strict := ck_strict k1 |}
          (acc ++ [CProbe now (probe_question (ck_svc k1)) (dns_pointer (ck_svc k1))])
  end.
Proof. reflexivity. Qed.
