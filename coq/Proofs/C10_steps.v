(* C10_steps: what one step of the scheduler does (characterisation of sstep per label, and the
   preservation of the invariants WF / post_startup). *)
From Coq Require Import ZArith List Bool Lia ZifyBool.
From ZC Require Import Model.Base Model.Dict Gen.Const Model.Sched Proofs.C10_defs.
Import ListNotations.
Open Scope Z_scope.
Ltac Zify.zify_post_hook ::= Z.to_euclidean_division_equations.

Ltac sfields :=
  cbn [arm set_min_next with_heap_alias_fresh sc_heap sc_by_alias sc_fresh sc_next_run sc_delay
       sc_min_next sc_startup_sent sc_first_qu sc_stopped].
Ltac sfields_in H :=
  cbn [arm set_min_next with_heap_alias_fresh sc_heap sc_by_alias sc_fresh sc_next_run sc_delay
       sc_min_next sc_startup_sent sc_first_qu sc_stopped] in H.

(* ================================================================== *)
(** * rearm_if_due_earlier                                              *)
(* ================================================================== *)

Lemma rearm_next_run s w :
  (sc_next_run (rearm_if_due_earlier s w) = sc_next_run s /\
   (sc_min_next s = 0 \/ sc_next_run s = None \/
    exists d k, sc_next_run s = Some (d, k) /\ d <= Z.max w (sc_min_next s))) \/
  (sc_min_next s <> 0 /\
   exists d k, sc_next_run s = Some (d, k) /\ Z.max w (sc_min_next s) < d /\
               sc_next_run (rearm_if_due_earlier s w) = Some (Z.max w (sc_min_next s), TReady)).
Proof.
  unfold rearm_if_due_earlier.
  destruct (sc_min_next s =? 0) eqn:E0; [left; split; [reflexivity|left; lia]|].
  destruct (sc_next_run s) as [[d k]|] eqn:En; [|left; split; [exact En|right; left; reflexivity]].
  destruct (Z.max w (sc_min_next s) <? d) eqn:Ew.
  - right. split; [lia|]. exists d, k. split; [reflexivity|]. split; [lia|reflexivity].
  - left. split; [exact En|]. right. right. exists d, k. split; [reflexivity|lia].
Qed.

(* ================================================================== *)
(** * The two PTR events                                                *)
(* ================================================================== *)

Lemma cancel_fields s a :
  sc_next_run (cancel_ptr_refresh s a) = sc_next_run s /\
  sc_delay (cancel_ptr_refresh s a) = sc_delay s /\
  sc_min_next (cancel_ptr_refresh s a) = sc_min_next s /\
  sc_startup_sent (cancel_ptr_refresh s a) = sc_startup_sent s /\
  sc_first_qu (cancel_ptr_refresh s a) = sc_first_qu s /\
  sc_fresh (cancel_ptr_refresh s a) = sc_fresh s.
Proof. unfold cancel_ptr_refresh. destruct (dget (sc_by_alias s) a); repeat split. Qed.

(* the state to which reschedule_ptr_first_refresh pushes the new query *)
Definition cancelled_for (s : sched) (a : text) (id : Z) : sched :=
  with_heap_alias_fresh s (cancel_id (sc_heap s) id) (ddel (sc_by_alias s) a) (sc_fresh s).

(* the state reschedule_ptr_first_refresh returns in the no-churn case: the entry id re-timed, all else as in s *)
Definition retimed_for (s : sched) (id ttl expire : Z) : sched :=
  with_heap_alias_fresh s (retime_id (sc_heap s) id ttl expire) (sc_by_alias s) (sc_fresh s).

Lemma resched_cases s a n created ttl :
  let refresh := created + 750 * ttl in
  let expire := created + 1000 * ttl in
  (exists cur, registered_query s a = Some cur /\
     - sc_delay s <= refresh - sq_when cur <= sc_delay s /\
     reschedule_ptr_first_refresh s a n created ttl = retimed_for s (sq_id cur) ttl expire) \/
  (exists cur, registered_query s a = Some cur /\
     ~ (- sc_delay s <= refresh - sq_when cur <= sc_delay s) /\
     reschedule_ptr_first_refresh s a n created ttl =
       push (cancelled_for s a (sq_id cur)) a n ttl expire refresh) \/
  (registered_query s a = None /\
     reschedule_ptr_first_refresh s a n created ttl = push s a n ttl expire refresh).
Proof.
  cbv zeta. unfold reschedule_ptr_first_refresh, registered_query, C_EXPIRE_REFRESH_TIME_PERCENT.
  replace (created + 75 * ttl * 10) with (created + 750 * ttl) by lia.
  replace (created + 100 * ttl * 10) with (created + 1000 * ttl) by lia.
  destruct (dget (sc_by_alias s) a) as [id|] eqn:Eg; [|right; right; split; reflexivity].
  destruct (find_id (sc_heap s) id) as [cur|] eqn:Ef; [|right; right; split; reflexivity].
  destruct (find_id_some _ _ _ Ef) as [_ Hid].
  destruct ((- sc_delay s <=? created + 750 * ttl - sq_when cur) &&
            (created + 750 * ttl - sq_when cur <=? sc_delay s)) eqn:Ec.
  - left. exists cur. subst id. repeat split; try reflexivity; lia.
  - right. left. exists cur. split; [reflexivity|]. split; [lia|]. subst id. reflexivity.
Qed.

Lemma resched_fields s a n created ttl :
  let s' := reschedule_ptr_first_refresh s a n created ttl in
  sc_delay s' = sc_delay s /\ sc_min_next s' = sc_min_next s /\
  sc_startup_sent s' = sc_startup_sent s /\ sc_first_qu s' = sc_first_qu s /\
  (sc_min_next s = 0 -> sc_next_run s' = sc_next_run s) /\
  (sc_next_run s <> None -> sc_next_run s' <> None) /\
  (sc_next_run s = None -> sc_next_run s' = None).
Proof.
  cbv zeta.
  assert (Hpush : forall s0 w ex,
            sc_delay s0 = sc_delay s -> sc_min_next s0 = sc_min_next s ->
            sc_startup_sent s0 = sc_startup_sent s -> sc_first_qu s0 = sc_first_qu s ->
            sc_next_run s0 = sc_next_run s ->
            let s' := push s0 a n ttl ex w in
            sc_delay s' = sc_delay s /\ sc_min_next s' = sc_min_next s /\
            sc_startup_sent s' = sc_startup_sent s /\ sc_first_qu s' = sc_first_qu s /\
            (sc_min_next s = 0 -> sc_next_run s' = sc_next_run s) /\
            (sc_next_run s <> None -> sc_next_run s' <> None) /\
            (sc_next_run s = None -> sc_next_run s' = None)).
  { intros s0 w ex H1 H2 H3 H4 H5. cbv zeta.
    destruct (push_fields s0 a n ttl ex w) as (_ & _ & _ & P4 & P5 & P6 & P7).
    rewrite P4, P5, P6, P7, H1, H2, H3, H4. repeat split.
    - intro H0. unfold push.
      match goal with |- sc_next_run (rearm_if_due_earlier ?x ?y) = _ =>
        destruct (rearm_next_run x y) as [[Hr _]|[Hr _]] end.
      + rewrite Hr. exact H5.
      + sfields_in Hr. congruence.
    - intro Hn. unfold push.
      match goal with |- sc_next_run (rearm_if_due_earlier ?x ?y) <> _ =>
        destruct (rearm_next_run x y) as [[Hr _]|[_ [d [k [_ [_ Hr]]]]]] end.
      + rewrite Hr. sfields. congruence.
      + rewrite Hr. discriminate.
    - intro Hn. unfold push.
      match goal with |- sc_next_run (rearm_if_due_earlier ?x ?y) = _ =>
        destruct (rearm_next_run x y) as [[Hr _]|[_ [d [k [Hr _]]]]] end.
      + rewrite Hr. sfields. congruence.
      + sfields_in Hr. congruence. }
  destruct (resched_cases s a n created ttl) as [[cur [_ [_ E]]]|[[cur [_ [_ E]]]|[_ E]]]; rewrite E.
  - repeat split; auto.
  - apply Hpush; reflexivity.
  - apply Hpush; reflexivity.
Qed.

Lemma registered_query_live s a cur :
  WF s -> (registered_query s a = Some cur <-> live s cur /\ sq_alias cur = a).
Proof.
  intros (Hids & Hfr & Hkeys & Hreg & Hlive). unfold registered_query, live. split.
  - destruct (dget (sc_by_alias s) a) as [id|] eqn:Eg; [|discriminate]. intro Hf.
    destruct (find_id_some _ _ _ Hf) as [Hin Hid].
    destruct (Hreg a id Eg) as [y (Hyin & Hyid & Hyal & Hyc)].
    assert (y = cur) by (apply (nodup_id_inj (sc_heap s)); auto; congruence). subst y. auto.
  - intros [[Hin Hc] Ha]. rewrite <- Ha, (Hlive cur Hin Hc). apply find_id_in; assumption.
Qed.

Lemma registered_query_none s a :
  WF s -> (registered_query s a = None <-> dget (sc_by_alias s) a = None).
Proof.
  intros (Hids & Hfr & Hkeys & Hreg & Hlive). unfold registered_query. split.
  - destruct (dget (sc_by_alias s) a) as [id|] eqn:Eg; [|reflexivity]. intro Hf. exfalso.
    destruct (Hreg a id Eg) as [y (Hyin & Hyid & Hyal & Hyc)].
    apply (find_id_none _ _ Hf y Hyin Hyid).
  - intro H. rewrite H. reflexivity.
Qed.

Lemma WF_cancelled_for s a cur :
  WF s -> registered_query s a = Some cur ->
  WF (cancelled_for s a (sq_id cur)) /\ dget (sc_by_alias (cancelled_for s a (sq_id cur))) a = None.
Proof.
  intros Hwf Hr. pose proof Hwf as (Hids & Hfr & Hkeys & Hreg & Hlive).
  apply (registered_query_live _ _ _ Hwf) in Hr as [[Hin Hc] Ha].
  pose proof (Hlive cur Hin Hc) as Hg. rewrite Ha in Hg.
  split.
  - unfold WF, cancelled_for. sfields. apply WFh_cancel; assumption.
  - unfold cancelled_for. sfields. apply dget_del_same. exact Hkeys.
Qed.

Lemma WF_cancel s a : WF s -> WF (cancel_ptr_refresh s a).
Proof.
  intro Hwf. unfold cancel_ptr_refresh.
  destruct (dget (sc_by_alias s) a) as [id|] eqn:Eg; [|exact Hwf].
  unfold WF. sfields. apply WFh_cancel; assumption.
Qed.

Lemma WF_retimed_for s id ttl ex : WF s -> WF (retimed_for s id ttl ex).
Proof. intro Hwf. unfold WF, retimed_for. sfields. apply WFh_retime. exact Hwf. Qed.

(* re-timing keeps every entry live or not as it was, with its time *)
Lemma live_retimed_for s id ttl ex x :
  live (retimed_for s id ttl ex) x <-> exists y, live s y /\ x = retimed id ttl ex y.
Proof.
  unfold live, retimed_for. sfields. rewrite retime_id_in. split.
  - intros [[y [Hy E]] Hc]. exists y. subst x.
    destruct (retimed_fields id ttl ex y) as (_ & _ & _ & Fc & _). rewrite Fc in Hc. auto.
  - intros [y [[Hy Hc] E]]. subst x.
    destruct (retimed_fields id ttl ex y) as (_ & _ & _ & Fc & _). rewrite Fc. split; [exists y; auto|exact Hc].
Qed.

Lemma live_retimed_for_other s a cur ttl ex x :
  WF s -> registered_query s a = Some cur -> live s x -> sq_alias x <> a ->
  live (retimed_for s (sq_id cur) ttl ex) x.
Proof.
  intros Hwf Hr [Hin Hc] Hne. apply (registered_query_live _ _ _ Hwf) in Hr as [[Hcin _] Ha].
  apply live_retimed_for. exists x. split; [split; assumption|].
  rewrite retimed_other; [reflexivity|]. intro E. destruct Hwf as (Hids & _).
  assert (x = cur) by (apply (nodup_id_inj (sc_heap s)); assumption). subst x. congruence.
Qed.

Lemma registered_query_retimed_for s id ttl ex b :
  registered_query (retimed_for s id ttl ex) b = option_map (retimed id ttl ex) (registered_query s b).
Proof.
  unfold registered_query, retimed_for. sfields.
  destruct (dget (sc_by_alias s) b) as [id'|]; [apply find_id_retime|reflexivity].
Qed.

Lemma WF_resched s a n created ttl : WF s -> WF (reschedule_ptr_first_refresh s a n created ttl).
Proof.
  intro Hwf.
  destruct (resched_cases s a n created ttl) as [[cur [_ [_ E]]]|[[cur [Hr [_ E]]]|[Hr E]]]; rewrite E.
  - apply WF_retimed_for. exact Hwf.
  - destruct (WF_cancelled_for _ _ _ Hwf Hr) as [H1 H2]. apply WF_push; assumption.
  - apply WF_push; [exact Hwf|]. apply registered_query_none; assumption.
Qed.

(* live queries of other aliases are not affected *)
Lemma live_cancelled_for s a id x :
  live (cancelled_for s a id) x -> live s x.
Proof.
  unfold live, cancelled_for. sfields. intros [Hin Hc].
  apply cancel_id_in in Hin as [y [Hy E]].
  destruct (sq_id y =? id); subst x; [cbn in Hc; discriminate|]. auto.
Qed.

Lemma live_cancelled_for_other s a cur x :
  WF s -> registered_query s a = Some cur -> live s x -> sq_alias x <> a ->
  live (cancelled_for s a (sq_id cur)) x.
Proof.
  intros Hwf Hr [Hin Hc] Hne. apply (registered_query_live _ _ _ Hwf) in Hr as [[Hcin _] Ha].
  unfold live, cancelled_for. sfields. split; [|exact Hc].
  apply cancel_id_in. exists x. split; [exact Hin|].
  destruct (sq_id x =? sq_id cur) eqn:E; [|reflexivity].
  apply Z.eqb_eq in E. destruct Hwf as (Hids & _).
  assert (x = cur) by (apply (nodup_id_inj (sc_heap s)); assumption). subst x. congruence.
Qed.

Lemma live_push s a n ttl ex w x :
  live (push s a n ttl ex w) x <-> live s x \/ x = new_query (sc_fresh s) a n ttl ex w.
Proof.
  unfold live. destruct (push_fields s a n ttl ex w) as (H1 & _). rewrite H1. split.
  - intros [Hin Hc]. apply in_app_or in Hin as [Hin|[Hin|[]]]; [left; auto|right; auto].
  - intros [[Hin Hc]|E]; [split; [apply in_or_app; left; exact Hin|exact Hc]|].
    subst x. split; [apply in_or_app; right; left; reflexivity|reflexivity].
Qed.

Lemma live_cancel_other s a x :
  WF s -> live s x -> sq_alias x <> a -> live (cancel_ptr_refresh s a) x.
Proof.
  intros Hwf Hl Hne. unfold cancel_ptr_refresh.
  destruct (dget (sc_by_alias s) a) as [id|] eqn:Eg; [|exact Hl].
  pose proof Hwf as (Hids & Hfr & Hkeys & Hreg & Hlive).
  destruct (Hreg a id Eg) as [y (Hyin & Hyid & Hyal & Hyc)].
  assert (Hr : registered_query s a = Some y).
  { apply registered_query_live; [exact Hwf|]. split; [split|]; assumption. }
  subst id. exact (live_cancelled_for_other s a y x Hwf Hr Hl Hne).
Qed.

Lemma live_resched_other s a n created ttl x :
  WF s -> live s x -> sq_alias x <> a -> live (reschedule_ptr_first_refresh s a n created ttl) x.
Proof.
  intros Hwf Hl Hne.
  destruct (resched_cases s a n created ttl) as [[cur [Hr [_ E]]]|[[cur [Hr [_ E]]]|[Hr E]]]; rewrite E.
  - apply live_retimed_for_other with (a := a); assumption.
  - apply live_push. left. apply live_cancelled_for_other; assumption.
  - apply live_push. left. exact Hl.
Qed.

(* post_startup is preserved *)
Lemma post_startup_push s a n ttl ex w :
  post_startup s -> post_startup (push s a n ttl ex w).
Proof.
  intros (Hd & Hm & d & Hn & Hmd & Hx). unfold post_startup.
  destruct (push_fields s a n ttl ex w) as (_ & _ & _ & P4 & P5 & _). rewrite P4, P5.
  split; [exact Hd|]. split; [exact Hm|].
  assert (Hlive : forall x, live (push s a n ttl ex w) x -> live s x \/ sq_when x = w).
  { intros x Hl. apply live_push in Hl as [Hl|Hl]; [left; exact Hl|right; subst x; reflexivity]. }
  unfold push in *.
  match goal with |- context [rearm_if_due_earlier ?x0 ?y0] =>
    destruct (rearm_next_run x0 y0) as [[Hr Hc]|[_ [d0 [k0 [Hr0 [Hlt Hr]]]]]] end.
  - sfields_in Hr. sfields_in Hc. rewrite Hr. exists d. split; [exact Hn|]. split; [exact Hmd|].
    intros x Hl. destruct (Hlive x Hl) as [Hl'|Hw]; [apply Hx; exact Hl'|].
    destruct Hc as [Hc|[Hc|[d1 [k1 [Hc1 Hc2]]]]]; [lia|congruence|].
    rewrite Hn in Hc1. inversion Hc1; subst d1 k1. rewrite Hw. exact Hc2.
  - sfields_in Hr0. sfields_in Hlt. sfields_in Hr. rewrite Hr.
    rewrite Hn in Hr0. inversion Hr0; subst d0 k0.
    exists (Z.max w (sc_min_next s)). split; [reflexivity|]. split; [lia|].
    intros x Hl. destruct (Hlive x Hl) as [Hl'|Hw]; [specialize (Hx x Hl'); lia|rewrite Hw; lia].
Qed.

Lemma post_startup_cancelled_for s a id : post_startup s -> post_startup (cancelled_for s a id).
Proof.
  intros (Hd & Hm & d & Hn & Hmd & Hx). unfold post_startup.
  split; [exact Hd|]. split; [exact Hm|]. exists d. split; [exact Hn|]. split; [exact Hmd|].
  intros x Hl. apply Hx. eapply live_cancelled_for. exact Hl.
Qed.

Lemma post_startup_retimed_for s id ttl ex : post_startup s -> post_startup (retimed_for s id ttl ex).
Proof.
  intros (Hd & Hm & d & Hn & Hmd & Hx). unfold post_startup.
  split; [exact Hd|]. split; [exact Hm|]. exists d. split; [exact Hn|]. split; [exact Hmd|].
  intros x Hl. apply live_retimed_for in Hl as [y [Hy ->]].
  destruct (retimed_fields id ttl ex y) as (_ & _ & _ & _ & Fw). rewrite Fw. apply Hx. exact Hy.
Qed.

Lemma post_startup_cancel s a : post_startup s -> post_startup (cancel_ptr_refresh s a).
Proof.
  intro H. unfold cancel_ptr_refresh.
  destruct (dget (sc_by_alias s) a) as [id|]; [|exact H].
  apply (post_startup_cancelled_for s a id). exact H.
Qed.

Lemma post_startup_resched s a n created ttl :
  post_startup s -> post_startup (reschedule_ptr_first_refresh s a n created ttl).
Proof.
  intro H.
  destruct (resched_cases s a n created ttl) as [[cur [_ [_ E]]]|[[cur [Hr [_ E]]]|[Hr E]]]; rewrite E.
  - apply post_startup_retimed_for. exact H.
  - apply post_startup_push. apply post_startup_cancelled_for. exact H.
  - apply post_startup_push. exact H.
Qed.

(* ================================================================== *)
(** * Rescue queries                                                    *)
(* ================================================================== *)

Lemma rescue_next ttl :
  (ttl * 1000 * C_RESCUE_RECORD_RETRY_TTL_PERCENTAGE_num) / C_RESCUE_RECORD_RETRY_TTL_PERCENTAGE_den = ttl * 100.
Proof. unfold C_RESCUE_RECORD_RETRY_TTL_PERCENTAGE_num, C_RESCUE_RECORD_RETRY_TTL_PERCENTAGE_den. lia. Qed.

Lemma schedule_rescue_eq s q now :
  schedule_rescue s q now =
  if now + sq_ttl q * 100 <? sq_expire q
  then push s (sq_alias q) (sq_name q) (sq_ttl q) (sq_expire q) (now + sq_ttl q * 100) else s.
Proof.
  unfold schedule_rescue. cbv zeta. rewrite rescue_next.
  destruct (now + sq_ttl q * 100 >=? sq_expire q) eqn:E1;
    destruct (now + sq_ttl q * 100 <? sq_expire q) eqn:E2; try reflexivity; lia.
Qed.

(* the rescue query pushed for r by a pass at time now *)
Definition rescue_query (r : squery) (now id : Z) : squery :=
  new_query id (sq_alias r) (sq_name r) (sq_ttl r) (sq_expire r) (now + sq_ttl r * 100).

Definition rescues (now : Z) (ready : list squery) (s : sched) : sched :=
  fold_left (fun acc q => schedule_rescue acc q now) ready s.

Lemma rescues_cons now r ready s :
  rescues now (r :: ready) s = rescues now ready (schedule_rescue s r now).
Proof. reflexivity. Qed.

Lemma rescues_fields now : forall ready s,
  sc_delay (rescues now ready s) = sc_delay s /\
  sc_min_next (rescues now ready s) = sc_min_next s /\
  sc_startup_sent (rescues now ready s) = sc_startup_sent s /\
  sc_first_qu (rescues now ready s) = sc_first_qu s /\
  sc_fresh s <= sc_fresh (rescues now ready s) /\
  (forall x, In x (sc_heap s) -> In x (sc_heap (rescues now ready s))) /\
  (forall x, In x (sc_heap (rescues now ready s)) -> In x (sc_heap s) \/ sc_fresh s <= sq_id x).
Proof.
  induction ready as [|r ready IH]; intro s.
  - cbn. repeat split; auto; lia.
  - rewrite rescues_cons, schedule_rescue_eq.
    destruct (now + sq_ttl r * 100 <? sq_expire r); [|apply IH].
    destruct (IH (push s (sq_alias r) (sq_name r) (sq_ttl r) (sq_expire r) (now + sq_ttl r * 100)))
      as (I1 & I2 & I3 & I4 & I5 & I6 & I7).
    destruct (push_fields s (sq_alias r) (sq_name r) (sq_ttl r) (sq_expire r) (now + sq_ttl r * 100))
      as (P1 & P2 & P3 & P4 & P5 & P6 & P7).
    rewrite I1, I2, I3, I4, P4, P5, P6, P7. repeat split; try lia.
    + intros x Hx. apply I6. rewrite P1. apply in_or_app. left. exact Hx.
    + intros x Hx. destruct (I7 x Hx) as [H|H]; [|right; lia].
      rewrite P1 in H. apply in_app_or in H as [H|[H|[]]]; [left; exact H|].
      right. subst x. cbn. lia.
Qed.

Lemma rescues_spec now : forall ready s,
  WF s -> NoDup (map sq_alias ready) ->
  (forall r, In r ready -> dget (sc_by_alias s) (sq_alias r) = None) ->
  WF (rescues now ready s) /\
  (forall b, (forall r, In r ready -> sq_alias r <> b) ->
             dget (sc_by_alias (rescues now ready s)) b = dget (sc_by_alias s) b) /\
  (forall r, In r ready ->
     if now + sq_ttl r * 100 <? sq_expire r
     then exists id, registered_query (rescues now ready s) (sq_alias r) = Some (rescue_query r now id)
     else registered_query (rescues now ready s) (sq_alias r) = None).
Proof.
  induction ready as [|r ready IH]; intros s Hwf Hnd Hnone.
  - cbn. split; [exact Hwf|]. split; [reflexivity|intros r []].
  - cbn [map] in Hnd. inversion Hnd as [|a0 l0 Hnotin Hnd']; subst.
    rewrite rescues_cons, schedule_rescue_eq.
    assert (Hrest : forall r', In r' ready -> sq_alias r' <> sq_alias r).
    { intros r' Hr' E. apply Hnotin. rewrite <- E. apply in_map. exact Hr'. }
    destruct (now + sq_ttl r * 100 <? sq_expire r) eqn:Ex.
    + set (s1 := push s (sq_alias r) (sq_name r) (sq_ttl r) (sq_expire r) (now + sq_ttl r * 100)).
      destruct (push_fields s (sq_alias r) (sq_name r) (sq_ttl r) (sq_expire r) (now + sq_ttl r * 100))
        as (P1 & P2 & _). fold s1 in P1, P2.
      assert (Hwf1 : WF s1) by (apply WF_push; [exact Hwf|apply Hnone; left; reflexivity]).
      assert (Hnone1 : forall r', In r' ready -> dget (sc_by_alias s1) (sq_alias r') = None).
      { intros r' Hr'. rewrite P2, dget_set_other by (apply Hrest; exact Hr'). apply Hnone. right. exact Hr'. }
      destruct (IH s1 Hwf1 Hnd' Hnone1) as (I1 & I2 & I3).
      split; [exact I1|]. split.
      * intros b Hb. rewrite I2 by (intros r' Hr'; apply Hb; right; exact Hr').
        rewrite P2. apply dget_set_other. intro E. apply (Hb r); [left; reflexivity|congruence].
      * intros r' [E|Hr']; [subst r'|apply I3; exact Hr'].
        rewrite Ex. exists (sc_fresh s). unfold registered_query.
        rewrite I2 by exact Hrest. rewrite P2, dget_set_same.
        change (sc_fresh s) with (sq_id (rescue_query r now (sc_fresh s))) at 1.
        apply find_id_in; [destruct I1 as (Hids & _); exact Hids|].
        destruct (rescues_fields now ready s1) as (_ & _ & _ & _ & _ & F6 & _).
        apply F6. rewrite P1. apply in_or_app. right. left. reflexivity.
    + assert (Hnone1 : forall r', In r' ready -> dget (sc_by_alias s) (sq_alias r') = None)
        by (intros r' Hr'; apply Hnone; right; exact Hr').
      destruct (IH s Hwf Hnd' Hnone1) as (I1 & I2 & I3).
      split; [exact I1|]. split.
      * intros b Hb. apply I2. intros r' Hr'. apply Hb. right. exact Hr'.
      * intros r' [E|Hr']; [subst r'|apply I3; exact Hr'].
        rewrite Ex. apply registered_query_none; [exact I1|].
        rewrite I2 by exact Hrest. apply Hnone. left. reflexivity.
Qed.

(* ================================================================== *)
(** * The timer callback                                                *)
(* ================================================================== *)

Definition startup_send_of (types : list text) (s : sched) (now : Z) : ssend :=
  {| ss_now := now; ss_qu_first := (sc_startup_sent s =? 0) && sc_first_qu s; ss_types := types |}.

Lemma sstep_fire_inv types s now s' out :
  sstep types false s (LFire now) = Some (s', out) ->
  exists d k, sc_next_run s = Some (d, k) /\ d <= now.
Proof.
  unfold sstep. destruct (sc_next_run s) as [[d k]|]; [|discriminate].
  destruct (now <? d) eqn:E; [discriminate|]. intros _. exists d, k. split; [reflexivity|lia].
Qed.

Lemma sstep_startup types s now d :
  sc_next_run s = Some (d, TStartup) -> d <= now ->
  exists s', sstep types false s (LFire now) = Some (s', [startup_send_of types s now]) /\
    sc_heap s' = sc_heap s /\ sc_by_alias s' = sc_by_alias s /\ sc_fresh s' = sc_fresh s /\
    sc_delay s' = sc_delay s /\ sc_first_qu s' = sc_first_qu s /\
    sc_startup_sent s' = sc_startup_sent s + 1 /\
    (4 <= sc_startup_sent s + 1 ->
       sc_next_run s' = Some (now + sc_delay s, TReady) /\ sc_min_next s' = now + sc_delay s) /\
    (sc_startup_sent s + 1 < 4 ->
       sc_next_run s' = Some (now + (sc_startup_sent s + 1) * (sc_startup_sent s + 1) * 1000, TStartup) /\
       sc_min_next s' = sc_min_next s).
Proof.
  intros Hn Hd. unfold sstep. rewrite Hn.
  destruct (now <? d) eqn:E; [lia|]. unfold C_STARTUP_QUERIES.
  destruct (sc_startup_sent s + 1 >=? 4) eqn:E4; eexists; (split; [reflexivity|]); sfields;
    repeat split; intros; try reflexivity; lia.
Qed.

(* the refresh pass, as a function *)
Definition refresh_pass (s : sched) (now : Z) : sched * list ssend :=
  match drain_of s now with
  | (h, al, ready, nxt) =>
      let s2 := rescues now ready (with_heap_alias_fresh s h al (sc_fresh s)) in
      let nxt' := match ready, min_query (sc_heap s2) with
                  | _ :: _, Some m => Some m
                  | _, _ => nxt
                  end in
      let next_time := now + sc_delay s in
      let next_when := match nxt' with
                       | Some q => if sq_when q >? next_time then sq_when q else next_time
                       | None => next_time
                       end in
      (arm (set_min_next s2 next_time) (Some (next_when, TReady)),
       match ready with
       | [] => []
       | _ => [{| ss_now := now; ss_qu_first := false; ss_types := dedup_text (map sq_name ready) |}]
       end)
  end.

Lemma sstep_ready types s now d :
  sc_next_run s = Some (d, TReady) -> d <= now ->
  sstep types false s (LFire now) = Some (refresh_pass s now).
Proof.
  intros Hn Hd. unfold sstep, refresh_pass, drain_of, rescues. rewrite Hn.
  destruct (now <? d) eqn:E; [lia|].
  destruct (drain (S (length (sc_heap s))) (sc_heap s) (sc_by_alias s) now []) as [[[h al] ready] nxt].
  reflexivity.
Qed.

Lemma nodup_map_transfer {A B C} (f : A -> B) (g : A -> C) (l : list A) :
  NoDup (map f l) -> (forall x y, In x l -> In y l -> g x = g y -> f x = f y) -> NoDup (map g l).
Proof.
  induction l as [|x l IH]; intros ND Hinj; [constructor|].
  cbn [map] in *. inversion ND as [|i l0 Hnotin ND']; subst. constructor.
  - intro H. apply in_map_iff in H as [y [Hy1 Hy2]]. apply Hnotin.
    rewrite (Hinj x y); [apply in_map; exact Hy2|left; reflexivity|right; exact Hy2|congruence].
  - apply IH; [exact ND'|]. intros a b Ha Hb. apply Hinj; right; assumption.
Qed.

Lemma refresh_pass_spec s now s' out :
  WF s -> refresh_pass s now = (s', out) ->
  WF s' /\
  sc_delay s' = sc_delay s /\ sc_startup_sent s' = sc_startup_sent s /\ sc_first_qu s' = sc_first_qu s /\
  sc_min_next s' = now + sc_delay s /\
  (exists d', sc_next_run s' = Some (d', TReady) /\ now + sc_delay s <= d' /\
     forall x, In x (sc_heap s') -> d' <= Z.max (sq_when x) (now + sc_delay s)) /\
  out = match pass_ready s now with
        | [] => []
        | _ => [{| ss_now := now; ss_qu_first := false; ss_types := dedup_text (map sq_name (pass_ready s now)) |}]
        end /\
  (forall x, In x (pass_ready s now) <-> live s x /\ sq_when x <= now) /\
  (forall x, live s x -> now < sq_when x -> live s' x) /\
  (forall r, In r (pass_ready s now) ->
     if now + sq_ttl r * 100 <? sq_expire r
     then exists id, registered_query s' (sq_alias r) = Some (rescue_query r now id)
     else registered_query s' (sq_alias r) = None).
Proof.
  intros Hwf H. unfold refresh_pass, pass_ready in *. unfold drain_of in *.
  destruct (drain (S (length (sc_heap s))) (sc_heap s) (sc_by_alias s) now []) as [[[h al] ready] nxt] eqn:ED.
  destruct (drain_spec _ _ _ _ _ _ _ _ _ (sc_fresh s) ED Hwf (Nat.lt_succ_diag_r _))
    as (R1 & R2 & R3 & R4 & popped & R5 & R6 & R7).
  cbn [app] in R5. subst popped.
  pose proof Hwf as (Hids & Hfr & Hkeys & Hreg & Hlive).
  set (s1 := with_heap_alias_fresh s h al (sc_fresh s)) in *.
  assert (Hwf1 : WF s1) by exact R1.
  assert (Hal : NoDup (map sq_alias ready)).
  { apply (nodup_map_transfer sq_id sq_alias); [exact R6|].
    intros x y Hx Hy E. apply R7 in Hx as (Hx1 & Hx2 & _). apply R7 in Hy as (Hy1 & Hy2 & _).
    pose proof (Hlive x Hx1 Hx2) as Gx. pose proof (Hlive y Hy1 Hy2) as Gy. congruence. }
  assert (Hnone : forall r, In r ready -> dget (sc_by_alias s1) (sq_alias r) = None).
  { intros r Hr. apply R7 in Hr as (Hr1 & Hr2 & Hr3).
    destruct (dget (sc_by_alias s1) (sq_alias r)) as [id|] eqn:Eg; [|reflexivity]. exfalso.
    destruct R1 as (_ & _ & _ & Hreg1 & _).
    destruct (Hreg1 _ _ Eg) as [y (Hyin & Hyid & Hyal & Hyc)].
    destruct (R2 y Hyin) as [Hyh Hyw].
    pose proof (Hlive y Hyh Hyc) as Gy. pose proof (Hlive r Hr1 Hr2) as Gr.
    assert (y = r) by (apply (nodup_id_inj (sc_heap s)); auto; congruence). subst y. lia. }
  destruct (rescues_spec now ready s1 Hwf1 Hal Hnone) as (S1 & S2 & S3).
  destruct (rescues_fields now ready s1) as (F1 & F2 & F3 & F4 & F5 & F6 & F7).
  set (s2 := rescues now ready s1) in *.
  inversion H; subst s' out; clear H.
  split; [exact S1|]. sfields. rewrite F1, F3, F4.
  split; [reflexivity|]. split; [reflexivity|]. split; [reflexivity|]. split; [reflexivity|].
  split.
  { eexists. split; [reflexivity|].
    set (nxt' := match ready with [] => nxt | _ :: _ => match min_query (sc_heap s2) with Some m => Some m | None => nxt end end).
    assert (Hnxt : forall x, In x (sc_heap s2) -> exists m, nxt' = Some m /\ sq_when m <= sq_when x).
    { intros x Hx. unfold nxt'. destruct ready as [|r0 ready0].
      - cbn in s2. assert (E2 : sc_heap s2 = h) by reflexivity. rewrite E2 in Hx.
        destruct nxt as [m|]; [|subst h; destruct Hx].
        exists m. split; [reflexivity|]. apply (min_query_spec _ _ R4). exact Hx.
      - destruct (min_query (sc_heap s2)) as [m|] eqn:Em.
        + exists m. split; [reflexivity|]. apply (min_query_spec _ _ Em). exact Hx.
        + apply min_query_none in Em. rewrite Em in Hx. destruct Hx. }
    replace (match ready, min_query (sc_heap s2) with _ :: _, Some m => Some m | _, _ => nxt end) with nxt'
      by (unfold nxt'; destruct ready; [reflexivity|destruct (min_query (sc_heap s2)); reflexivity]).
    split.
    - destruct nxt' as [m|]; [|lia]. destruct (sq_when m >? now + sc_delay s) eqn:E; lia.
    - intros x Hx. destruct (Hnxt x Hx) as [m [Em Hle]]. rewrite Em.
      destruct (sq_when m >? now + sc_delay s) eqn:E; lia. }
  split; [reflexivity|]. split.
  { intro x. unfold live. rewrite R7. tauto. }
  split.
  { intros x [Hx Hc] Hw. split; [|exact Hc]. apply F6. exact (R3 x Hx Hc Hw). }
  exact S3.
Qed.

(* a cancelled query is never in the ready list of a pass (no well-formedness needed) *)
Lemma pass_ready_sound s now x :
  In x (pass_ready s now) -> In x (sc_heap s) /\ sq_cancelled x = false /\ sq_when x <= now.
Proof.
  unfold pass_ready, drain_of.
  destruct (drain (S (length (sc_heap s))) (sc_heap s) (sc_by_alias s) now []) as [[[h al] ready] nxt] eqn:ED.
  intro Hx. destruct (drain_ready_sound _ _ _ _ _ _ _ _ _ ED x Hx) as [[]|H]. exact H.
Qed.

(* the heap after a refresh pass: what was there before, or entries with new ids *)
Lemma refresh_pass_heap s now s' out :
  refresh_pass s now = (s', out) ->
  sc_fresh s <= sc_fresh s' /\
  forall x, In x (sc_heap s') -> In x (sc_heap s) \/ sc_fresh s <= sq_id x.
Proof.
  unfold refresh_pass, drain_of.
  destruct (drain (S (length (sc_heap s))) (sc_heap s) (sc_by_alias s) now []) as [[[h al] ready] nxt] eqn:ED.
  intro H. inversion H; subst s' out; clear H. sfields.
  destruct (rescues_fields now ready (with_heap_alias_fresh s h al (sc_fresh s))) as (_ & _ & _ & _ & F5 & _ & F7).
  sfields_in F5. sfields_in F7. split; [exact F5|].
  intros x Hx. destruct (F7 x Hx) as [Hin|Hid]; [left|right; exact Hid].
  assert (Hsub : forall fuel h0 al0 rd h1 al1 rd1 nx,
            drain fuel h0 al0 now rd = (h1, al1, rd1, nx) -> forall y, In y h1 -> In y h0).
  { induction fuel as [|fuel IH]; intros h0 al0 rd h1 al1 rd1 nx Hd y Hy.
    - cbn in Hd. inversion Hd; subst. exact Hy.
    - cbn [drain] in Hd. destruct (min_query h0) as [m|].
      + destruct (sq_cancelled m).
        * eapply remove_id_subset. eapply IH; eassumption.
        * destruct (sq_when m >? now); [inversion Hd; subst; exact Hy|].
          eapply remove_id_subset. eapply IH; eassumption.
      + inversion Hd; subst. exact Hy. }
  eapply Hsub; eassumption.
Qed.

(* ================================================================== *)
(** * WF is preserved by every step                                     *)
(* ================================================================== *)

Lemma WFh_empty f : WFh [] [] f.
Proof.
  unfold WFh. split; [constructor|]. split; [intros q []|]. split; [constructor|].
  split; [intros a id H; discriminate|intros q []].
Qed.

Lemma WF_init delay qnone : WF (sched_init delay qnone).
Proof. apply WFh_empty. Qed.

Lemma WF_sstep types s l s' out : WF s -> sstep types false s l = Some (s', out) -> WF s'.
Proof.
  intros Hwf H. destruct l as [now rnd|now|a n created ttl|a|].
  - cbn in H. inversion H; subst. exact Hwf.
  - destruct (sstep_fire_inv _ _ _ _ _ H) as [d [[|] [Hn Hd]]].
    + destruct (sstep_startup types s now d Hn Hd) as [s1 (E & H1 & H2 & H3 & _)].
      rewrite E in H. inversion H; subst s1 out. unfold WF. rewrite H1, H2, H3. exact Hwf.
    + rewrite (sstep_ready types s now d Hn Hd) in H. inversion H as [E].
      destruct (refresh_pass_spec s now s' out Hwf E) as (W & _). exact W.
  - cbn in H. inversion H; subst. apply WF_resched. exact Hwf.
  - cbn in H. inversion H; subst. apply WF_cancel. exact Hwf.
  - cbn in H. inversion H; subst. apply WFh_empty.
Qed.

Lemma WF_trun types : forall ls s es, WF s -> trun types s ls = Some es ->
  Forall (fun e => WF (e_pre e) /\ WF (e_post e)) es /\ WF (final s es).
Proof.
  induction ls as [|[l t] r IH]; intros s es Hwf H.
  - cbn in H. inversion H; subst. split; [constructor|exact Hwf].
  - apply trun_cons in H as (s' & out & es' & E1 & E2 & ->).
    pose proof (WF_sstep _ _ _ _ _ Hwf E1) as Hwf'.
    destruct (IH _ _ Hwf' E2) as [I1 I2]. split.
    + constructor; [split; assumption|exact I1].
    + rewrite final_cons. exact I2.
Qed.
