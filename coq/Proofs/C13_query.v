(* C13: query generation - what this instance asks and when it keeps quiet.
   Theorems about Model/Query.v: QuestionHistory, generate_service_query (with its bucketing),
   the lookup's _generate_request_query and the responder's history update. *)
From Coq Require Import ZArith List Bool Lia ZifyBool Permutation.
From ZC Require Import Model.Base Model.PyRec Model.Dict Model.Re Model.Utf8 Model.Cache Model.Respond
  Gen.Const Gen.DnsPure Proofs.C20_identity Model.Query.
Ltac Zify.zify_post_hook ::= Z.to_euclidean_division_equations.

(* ================================================================================================ *)
(*  Vocabulary of the statements                                                                    *)
(* ================================================================================================ *)

(* l1 is l2 with some positions dropped: same order, each position of l2 used at most once *)
Inductive subseq {A : Type} : list A -> list A -> Prop :=
| subseq_nil : subseq [] []
| subseq_skip x l1 l2 : subseq l1 l2 -> subseq l1 (x :: l2)
| subseq_take x l1 l2 : subseq l1 l2 -> subseq (x :: l1) (x :: l2).

(* the (question, known answers) pair generate_service_query builds for the service type t *)
Definition ptr_entry (c : cache) (now : Z) (qu : bool) (t : text) : pyrec * list pyrec :=
  (mkq t C_TYPE_PTR qu, fresh_known c now t C_TYPE_PTR).

(* names of the questions of a list of (question, known) pairs *)
Definition asked_names (qs : list (pyrec * list pyrec)) : list text := map (fun e => p_name (fst e)) qs.

(* "the history suppresses q at time now given the known answers `known`":
   q was asked at most 999 ms ago and every answer known then is (gen_eq-)among the ones known now *)
Definition suppressed_by (h : history) (now : Z) (q : pyrec) (known : list pyrec) : Prop :=
  exists t0 k0, hist_get h q = Some (t0, k0) /\ now - t0 <= 999 /\
                forall r, In r k0 -> exists r', In r' known /\ gen_eq r' r = true.

(* the history after recording the questions qs, in order, each stamped (now, its known list) *)
Definition record_sent (now : Z) (h : history) (qs : list (pyrec * list pyrec)) : history :=
  fold_left (fun h e => hist_add h (fst e) now (snd e)) qs h.

Definition sumZ (l : list Z) : Z := fold_right Z.add 0 l.

(* ================================================================================================ *)
(*  Helper lemmas                                                                                   *)
(* ================================================================================================ *)

Lemma subseq_In {A} (l1 l2 : list A) x : subseq l1 l2 -> In x l1 -> In x l2.
Proof.
  intro S. induction S as [|y l1 l2 S IH|y l1 l2 S IH]; intro H.
  - exact H.
  - right. apply IH. exact H.
  - destruct H as [H|H]; [left; exact H|right; apply IH; exact H].
Qed.

Lemma subseq_length {A} (l1 l2 : list A) : subseq l1 l2 -> (length l1 <= length l2)%nat.
Proof. intro S. induction S as [|y l1 l2 S IH|y l1 l2 S IH]; cbn [length]; lia. Qed.

Lemma find_app_ {A} (p : A -> bool) l1 l2 :
  find p (l1 ++ l2) = match find p l1 with Some x => Some x | None => find p l2 end.
Proof.
  induction l1 as [|x l1 IH]; cbn [app find]; [reflexivity|].
  destruct (p x); [reflexivity|exact IH].
Qed.

(* --- questions built by mkq --- *)
Lemma mkq_unique n ty qu : DNSEntry_unique (mkq n ty qu) = qu.
Proof. unfold DNSEntry_unique, mkq; cbn [p_class_]. destruct qu; reflexivity. Qed.

Lemma class15_mkq n ty qu : class15 (mkq n ty qu) = 1.
Proof. unfold class15, mkq; cbn [p_class_]. destruct qu; reflexivity. Qed.

Lemma mkq_gen_eq n1 t1 qu1 n2 t2 qu2 :
  gen_eq (mkq n1 t1 qu1) (mkq n2 t2 qu2) = true <-> lower n1 = lower n2 /\ t1 = t2.
Proof.
  rewrite question_identity by reflexivity. rewrite !class15_mkq.
  unfold mkq; cbn [p_name p_type_]. tauto.
Qed.

Lemma mkq_neq_type n1 t1 qu1 n2 t2 qu2 : t1 <> t2 -> gen_eq (mkq n1 t1 qu1) (mkq n2 t2 qu2) = false.
Proof.
  intro H. destruct (gen_eq (mkq n1 t1 qu1) (mkq n2 t2 qu2)) eqn:E; [|reflexivity].
  apply mkq_gen_eq in E. tauto.
Qed.

Lemma mkq_neq_name n1 t1 qu1 n2 t2 qu2 : lower n1 <> lower n2 -> gen_eq (mkq n1 t1 qu1) (mkq n2 t2 qu2) = false.
Proof.
  intro H. destruct (gen_eq (mkq n1 t1 qu1) (mkq n2 t2 qu2)) eqn:E; [|reflexivity].
  apply mkq_gen_eq in E. tauto.
Qed.

(* --- the history as a dict keyed by gen_eq --- *)
Lemma hist_get_add h q t k q' :
  hist_get (hist_add h q t k) q' = if gen_eq q q' then Some (t, k) else hist_get h q'.
Proof.
  unfold hist_get, hist_add. induction h as [|[k1 v1] h IH]; cbn [d_set d_get].
  - reflexivity.
  - destruct (gen_eq k1 q) eqn:E1; cbn [d_get].
    + destruct (gen_eq q q') eqn:E2.
      * rewrite (eq_trans_ k1 q q' E1 E2). reflexivity.
      * destruct (gen_eq k1 q') eqn:E3; [|reflexivity]. exfalso.
        rewrite eq_sym_ in E1. rewrite (eq_trans_ q k1 q' E1 E3) in E2. discriminate E2.
    + rewrite IH. destruct (gen_eq k1 q') eqn:E3; [|reflexivity].
      destruct (gen_eq q q') eqn:E2; [|reflexivity]. exfalso.
      rewrite eq_sym_ in E2. rewrite (eq_trans_ k1 q' q E3 E2) in E1. discriminate E1.
Qed.

Lemma hist_add_idem h q t k : hist_add (hist_add h q t k) q t k = hist_add h q t k.
Proof.
  unfold hist_add. induction h as [|[k1 v1] h IH]; cbn [d_set].
  - rewrite eq_refl_. reflexivity.
  - destruct (gen_eq k1 q) eqn:E; cbn [d_set]; rewrite E; [reflexivity|]. rewrite IH. reflexivity.
Qed.

Lemma subset_ident_iff prev known :
  subset_ident prev known = true <-> forall r, In r prev -> exists r', In r' known /\ gen_eq r' r = true.
Proof.
  unfold subset_ident. rewrite forallb_forall. split; intros H r Hr.
  - apply existsb_exists. apply H. exact Hr.
  - apply existsb_exists. apply H. exact Hr.
Qed.

Lemma hist_suppresses_iff h q now known :
  hist_suppresses h q now known = true <-> suppressed_by h now q known.
Proof.
  unfold hist_suppresses, suppressed_by. change C_DUPLICATE_QUESTION_INTERVAL with 999.
  destruct (hist_get h q) as [[t0 k0]|] eqn:G.
  - destruct (now - t0 >? 999) eqn:T.
    + split; [discriminate|]. intros (t1 & k1 & E & Hle & _). inversion E; subst. lia.
    + rewrite subset_ident_iff. split.
      * intro S. exists t0, k0. split; [reflexivity|]. split; [lia|exact S].
      * intros (t1 & k1 & E & _ & S). inversion E; subst. exact S.
  - split; [discriminate|]. intros (t1 & k1 & E & _). discriminate E.
Qed.

Lemma hist_suppresses_add_other h q1 t1 k1 q now known :
  gen_eq q1 q = false -> hist_suppresses (hist_add h q1 t1 k1) q now known = hist_suppresses h q now known.
Proof. intro N. unfold hist_suppresses. rewrite hist_get_add, N. reflexivity. Qed.

Lemma suppressed_by_add_other h q1 t1 k1 q now known :
  gen_eq q1 q = false -> (suppressed_by (hist_add h q1 t1 k1) now q known <-> suppressed_by h now q known).
Proof. intro N. rewrite <- !hist_suppresses_iff, hist_suppresses_add_other by exact N. tauto. Qed.

(* lookups in a history after recording a list of questions: the LAST equal question recorded wins *)
Lemma record_sent_get now : forall qs h q,
  hist_get (record_sent now h qs) q =
  match find (fun e => gen_eq (fst e) q) (rev qs) with
  | Some e => Some (now, snd e)
  | None => hist_get h q
  end.
Proof.
  unfold record_sent. induction qs as [|e qs IH]; intros h q; cbn [fold_left rev]; [reflexivity|].
  rewrite IH, find_app_. destruct (find (fun e0 => gen_eq (fst e0) q) (rev qs)); [reflexivity|].
  cbn [find]. rewrite hist_get_add. destruct (gen_eq (fst e) q); reflexivity.
Qed.

(* ================================================================================================ *)
(*  1. staleness and the known-answer list                                                          *)
(* ================================================================================================ *)

Theorem stale_spec r now : DNSRecord_is_stale r now = true <-> p_created r + 500 * p_ttl r <= now.
Proof.
  unfold DNSRecord_is_stale, DNSRecord_created, DNSRecord_ttl. change C_EXPIRE_STALE_TIME_MS with 500.
  rewrite Z.leb_le. tauto.
Qed.

Theorem fresh_known_spec c now name ty :
  fresh_known c now name ty =
  filter (fun r => now <? p_created r + 500 * p_ttl r) (get_all_by_details c name ty C_CLASS_IN).
Proof.
  unfold fresh_known. apply filter_ext. intro r.
  unfold DNSRecord_is_stale, DNSRecord_created, DNSRecord_ttl. change C_EXPIRE_STALE_TIME_MS with 500.
  destruct (p_created r + 500 * p_ttl r <=? now) eqn:E, (now <? p_created r + 500 * p_ttl r) eqn:E'; cbn [negb]; lia.
Qed.

Theorem fresh_known_In c now name ty r :
  In r (fresh_known c now name ty) <->
  In r (get_all_by_details c name ty C_CLASS_IN) /\ p_created r + 500 * p_ttl r > now.
Proof. rewrite fresh_known_spec, filter_In, Z.ltb_lt. intuition lia. Qed.

(* ================================================================================================ *)
(*  2. generate_service_query: the questions and their known answers                                *)
(* ================================================================================================ *)

Lemma service_questions_cons c h now t rest qu :
  service_questions c h now (t :: rest) qu =
  if negb qu && hist_suppresses h (mkq t C_TYPE_PTR qu) now (fresh_known c now t C_TYPE_PTR)
  then service_questions c h now rest qu
  else let r := service_questions c (if qu then h else hist_add h (mkq t C_TYPE_PTR qu) now (fresh_known c now t C_TYPE_PTR))
                                  now rest qu in
       (ptr_entry c now qu t :: fst r, snd r).
Proof.
  cbn [service_questions]. cbv zeta.
  destruct (negb qu && hist_suppresses h (mkq t C_TYPE_PTR qu) now (fresh_known c now t C_TYPE_PTR)); [reflexivity|].
  destruct (service_questions c (if qu then h else hist_add h (mkq t C_TYPE_PTR qu) now (fresh_known c now t C_TYPE_PTR)) now rest qu);
    reflexivity.
Qed.

Lemma service_questions_shape c now qu : forall types h qs h',
  service_questions c h now types qu = (qs, h') ->
  exists ts, subseq ts types /\ qs = map (ptr_entry c now qu) ts.
Proof.
  induction types as [|t rest IH]; intros h qs h' E.
  - cbn [service_questions] in E. inversion E; subst. exists []. split; [constructor|reflexivity].
  - rewrite service_questions_cons in E.
    destruct (negb qu && hist_suppresses h (mkq t C_TYPE_PTR qu) now (fresh_known c now t C_TYPE_PTR)).
    + destruct (IH _ _ _ E) as (ts & S & Q). exists ts. split; [constructor; exact S|exact Q].
    + cbv zeta in E.
      destruct (service_questions c (if qu then h else hist_add h (mkq t C_TYPE_PTR qu) now (fresh_known c now t C_TYPE_PTR))
                                  now rest qu) as [qs1 h1] eqn:R.
      cbn [fst snd] in E. inversion E as [[Eq Eh]].
      destruct (IH _ _ _ R) as (ts & S & Q).
      exists (t :: ts). split; [constructor; exact S|]. cbn [map]. rewrite <- Q. reflexivity.
Qed.

Lemma asked_names_entries c now qu ts : asked_names (map (ptr_entry c now qu) ts) = ts.
Proof.
  unfold asked_names. rewrite map_map. cbn [ptr_entry fst mkq p_name]. apply map_id.
Qed.

Lemma asked_in_types c h now types qu qs h' t :
  service_questions c h now types qu = (qs, h') -> In t (asked_names qs) -> In t types.
Proof.
  intros E H. destruct (service_questions_shape _ _ _ _ _ _ _ E) as (ts & S & ->).
  rewrite asked_names_entries in H. eapply subseq_In; eassumption.
Qed.

(* every entry is (PTR question for a type of `types` with the requested QU bit, the non-stale cached
   pointers of that type); entries come in the order of `types`, at most one per list position *)
Theorem known_exact c h now types qu qs h' :
  service_questions c h now types qu = (qs, h') ->
  (exists ts, subseq ts types /\ qs = map (ptr_entry c now qu) ts) /\
  Forall (fun e => In (p_name (fst e)) types /\
                   p_type_ (fst e) = C_TYPE_PTR /\
                   DNSEntry_unique (fst e) = qu /\
                   snd e = fresh_known c now (p_name (fst e)) C_TYPE_PTR) qs.
Proof.
  intro E. destruct (service_questions_shape _ _ _ _ _ _ _ E) as (ts & S & Q).
  split; [exists ts; split; assumption|].
  subst qs. apply Forall_forall. intros e He. apply in_map_iff in He as (t & <- & Ht).
  unfold ptr_entry; cbn [fst snd]. rewrite mkq_unique. unfold mkq; cbn [p_name p_type_].
  split; [eapply subseq_In; eassumption|]. auto.
Qed.

(* ================================================================================================ *)
(*  3. QM questions: omitted iff suppressed by the history                                          *)
(* ================================================================================================ *)

(* stated for a list whose lower-cased types are pairwise distinct (earlier elements then do not
   interfere); the head-of-list case needs no hypothesis on the rest, see suppress_iff_head *)
Theorem suppress_iff c now : forall types h qs h' t,
  NoDup (map lower types) ->
  service_questions c h now types false = (qs, h') ->
  In t types ->
  (~ In t (asked_names qs) <->
   suppressed_by h now (mkq t C_TYPE_PTR false) (fresh_known c now t C_TYPE_PTR)).
Proof.
  induction types as [|t1 rest IH]; intros h qs h' t ND E Hin; [contradiction|].
  inversion ND as [|x l Hn1 ND']; subst x l.
  pose proof E as E0. rewrite service_questions_cons in E. cbn [negb andb] in E.
  destruct (hist_suppresses h (mkq t1 C_TYPE_PTR false) now (fresh_known c now t1 C_TYPE_PTR)) eqn:S.
  - destruct Hin as [->|Hin].
    + split; [intros _; apply hist_suppresses_iff; exact S|].
      intros _ Hc. apply Hn1. apply in_map. eapply asked_in_types; eassumption.
    + eapply IH; eassumption.
  - cbv zeta in E. inversion E as [[Eq Eh]]. clear E.
    set (h1 := hist_add h (mkq t1 C_TYPE_PTR false) now (fresh_known c now t1 C_TYPE_PTR)) in *.
    destruct Hin as [->|Hin].
    + split.
      * intro Hc. exfalso. apply Hc. left. reflexivity.
      * intro Sup. apply hist_suppresses_iff in Sup. congruence.
    + assert (Hne : lower t1 <> lower t).
      { intro X. apply Hn1. rewrite X. apply in_map. exact Hin. }
      unfold asked_names. cbn [map In ptr_entry fst mkq p_name]. fold (asked_names (fst (service_questions c h1 now rest false))).
      rewrite <- (suppressed_by_add_other h (mkq t1 C_TYPE_PTR false) now (fresh_known c now t1 C_TYPE_PTR))
        by (apply mkq_neq_name; exact Hne).
      fold h1. rewrite <- (IH h1 _ _ t ND' (surjective_pairing _) Hin).
      split.
      * intros Hc X. apply Hc. right. exact X.
      * intros Hc [X|X]; [|exact (Hc X)]. apply Hne. rewrite X. reflexivity.
Qed.

(* the distinctness hypothesis is needed: with types = ["A"; "a"] and an empty history the question
   for "a" is omitted (the entry just recorded for "A" is gen_eq to it) although h does not suppress it *)
Example suppress_iff_needs_distinct :
  service_questions empty_cache [] 0 [[65]; [97]] false =
    ([ptr_entry empty_cache 0 false [65]], hist_add [] (mkq [65] C_TYPE_PTR false) 0 []) /\
  ~ In [97] (asked_names (fst (service_questions empty_cache [] 0 [[65]; [97]] false))) /\
  ~ suppressed_by [] 0 (mkq [97] C_TYPE_PTR false) (fresh_known empty_cache 0 [97] C_TYPE_PTR).
Proof.
  split; [vm_compute; reflexivity|]. split.
  - vm_compute. intros [X|[]]. discriminate X.
  - intros (t0 & k0 & X & _). discriminate X.
Qed.

(* head of the list (and hence a singleton list): no hypothesis on the rest *)
Theorem suppress_iff_head c h now t rest :
  let q := mkq t C_TYPE_PTR false in
  let known := fresh_known c now t C_TYPE_PTR in
  (suppressed_by h now q known ->
   service_questions c h now (t :: rest) false = service_questions c h now rest false) /\
  (~ suppressed_by h now q known ->
   service_questions c h now (t :: rest) false =
   (ptr_entry c now false t :: fst (service_questions c (hist_add h q now known) now rest false),
    snd (service_questions c (hist_add h q now known) now rest false))).
Proof.
  cbv zeta. rewrite <- hist_suppresses_iff, service_questions_cons. cbn [negb andb].
  destruct (hist_suppresses h (mkq t C_TYPE_PTR false) now (fresh_known c now t C_TYPE_PTR)).
  - split; [reflexivity|]. intro X. exfalso. apply X. reflexivity.
  - split; [discriminate|]. intros _. reflexivity.
Qed.

Theorem suppress_iff_single c h now t :
  let q := mkq t C_TYPE_PTR false in
  let known := fresh_known c now t C_TYPE_PTR in
  (suppressed_by h now q known -> service_questions c h now [t] false = ([], h)) /\
  (~ suppressed_by h now q known ->
   service_questions c h now [t] false = ([(q, known)], hist_add h q now known)).
Proof.
  cbv zeta. destruct (suppress_iff_head c h now t []) as [A B]. cbv zeta in A, B. split; intro S.
  - rewrite (A S). reflexivity.
  - rewrite (B S). reflexivity.
Qed.

(* ================================================================================================ *)
(*  4. QU questions are never omitted and never recorded                                            *)
(* ================================================================================================ *)

Theorem qu_never c now : forall types h qs h',
  service_questions c h now types true = (qs, h') ->
  qs = map (ptr_entry c now true) types /\ h' = h.
Proof.
  induction types as [|t rest IH]; intros h qs h' E.
  - cbn [service_questions] in E. inversion E; subst. split; reflexivity.
  - rewrite service_questions_cons in E. cbn [negb andb] in E. cbv zeta in E.
    destruct (service_questions c h now rest true) as [qs1 h1] eqn:R.
    cbn [fst snd] in E. inversion E; subst. destruct (IH _ _ _ R) as [Q H]. subst.
    split; reflexivity.
Qed.

Corollary qu_never_length c h now types qs h' :
  service_questions c h now types true = (qs, h') -> length qs = length types /\ asked_names qs = types.
Proof.
  intro E. apply qu_never in E as [-> _]. rewrite map_length, asked_names_entries. split; reflexivity.
Qed.

(* ================================================================================================ *)
(*  5. QM: the history afterwards                                                                   *)
(* ================================================================================================ *)

Lemma service_questions_history c now : forall types h qs h',
  service_questions c h now types false = (qs, h') -> h' = record_sent now h qs.
Proof.
  induction types as [|t rest IH]; intros h qs h' E.
  - cbn [service_questions] in E. inversion E; subst. reflexivity.
  - rewrite service_questions_cons in E. cbn [negb andb] in E.
    destruct (hist_suppresses h (mkq t C_TYPE_PTR false) now (fresh_known c now t C_TYPE_PTR)).
    + eapply IH; exact E.
    + cbv zeta in E.
      destruct (service_questions c (hist_add h (mkq t C_TYPE_PTR false) now (fresh_known c now t C_TYPE_PTR)) now rest false)
        as [qs1 h1] eqn:R.
      cbn [fst snd] in E. inversion E; subst. apply IH in R. subst h'.
      unfold record_sent. cbn [fold_left ptr_entry fst snd]. reflexivity.
Qed.

Theorem history_after c h now types qs h' :
  service_questions c h now types false = (qs, h') ->
  (* exactly the questions sent are recorded, in order, each with (now, its known list) *)
  h' = record_sent now h qs /\
  (* lookups afterwards: the last equal question sent wins, everything else is as before *)
  (forall q, hist_get h' q = match find (fun e => gen_eq (fst e) q) (rev qs) with
                             | Some e => Some (now, snd e)
                             | None => hist_get h q
                             end) /\
  (* in particular entries for other questions are unchanged *)
  (forall q, (forall e, In e qs -> gen_eq (fst e) q = false) -> hist_get h' q = hist_get h q) /\
  (* and every question sent is now stamped `now` *)
  (forall e, In e qs -> exists known, hist_get h' (fst e) = Some (now, known)).
Proof.
  intro E. apply service_questions_history in E. subst h'.
  split; [reflexivity|]. split; [intro q; apply record_sent_get|]. split.
  - intros q Hq. rewrite record_sent_get.
    destruct (find (fun e => gen_eq (fst e) q) (rev qs)) as [e|] eqn:F; [|reflexivity].
    apply find_some in F as [Hin He]. apply in_rev in Hin. rewrite (Hq e Hin) in He. discriminate He.
  - intros e He. rewrite record_sent_get.
    destruct (find (fun e0 => gen_eq (fst e0) (fst e)) (rev qs)) as [e1|] eqn:F; [eexists; reflexivity|].
    exfalso. apply in_rev in He. pose proof (find_none _ _ F e He) as X. cbv beta in X.
    rewrite eq_refl_ in X. discriminate X.
Qed.

(* ================================================================================================ *)
(*  6. bucketing                                                                                    *)
(* ================================================================================================ *)

Lemma insert_desc_perm x l : Permutation (insert_desc x l) (x :: l).
Proof.
  induction l as [|y l IH]; cbn [insert_desc]; [apply Permutation_refl|].
  destruct (query_size y <? query_size x); [apply Permutation_refl|].
  eapply perm_trans; [apply perm_skip; exact IH|apply perm_swap].
Qed.

Lemma sort_desc_perm l : Permutation (sort_desc l) l.
Proof.
  unfold sort_desc.
  assert (G : forall l acc, Permutation (fold_left (fun acc x => insert_desc x acc) l acc) (l ++ acc)).
  { clear l. induction l as [|x l IH]; intro acc; cbn [fold_left app]; [apply Permutation_refl|].
    eapply perm_trans; [apply IH|].
    eapply perm_trans; [apply Permutation_app_head; apply insert_desc_perm|].
    apply Permutation_sym. apply Permutation_middle. }
  specialize (G l []). rewrite app_nil_r in G. exact G.
Qed.

Lemma place_perm bs sz e maxb : Permutation (flat_map b_entries (place bs sz e maxb)) (e :: flat_map b_entries bs).
Proof.
  induction bs as [|b r IH]; cbn [place flat_map].
  - cbn [b_entries app]. apply Permutation_refl.
  - destruct (b_bytes b + sz <=? maxb); cbn [flat_map b_entries].
    + rewrite <- app_assoc. cbn [app]. apply Permutation_sym. apply Permutation_middle.
    + eapply perm_trans; [apply Permutation_app_head; exact IH|].
      apply Permutation_sym. apply Permutation_middle.
Qed.

Lemma place_fold_perm maxb : forall l bs,
  Permutation (flat_map b_entries (fold_left (fun bs e => place bs (query_size e) e maxb) l bs))
              (l ++ flat_map b_entries bs).
Proof.
  induction l as [|x l IH]; intro bs; cbn [fold_left app]; [apply Permutation_refl|].
  eapply perm_trans; [apply IH|].
  eapply perm_trans; [apply Permutation_app_head; apply place_perm|].
  apply Permutation_sym. apply Permutation_middle.
Qed.

(* (a) every (question, known answers) entry is in exactly one bucket *)
Theorem bucketing_perm qs : Permutation (flat_map b_entries (group_queries qs)) qs.
Proof.
  unfold group_queries. eapply perm_trans; [apply place_fold_perm|].
  cbn [flat_map]. rewrite app_nil_r. apply sort_desc_perm.
Qed.

Definition bucket_ok (maxb : Z) (b : Query.bucket) : Prop :=
  b_bytes b = sumZ (map query_size (b_entries b)) /\
  b_entries b <> [] /\
  (length (b_entries b) = 1%nat \/ b_bytes b <= maxb).

Lemma sumZ_app l1 l2 : sumZ (l1 ++ l2) = sumZ l1 + sumZ l2.
Proof. unfold sumZ. induction l1 as [|x l1 IH]; cbn [app fold_right]; [reflexivity|]. rewrite IH. lia. Qed.

Lemma place_ok maxb e : forall bs,
  Forall (bucket_ok maxb) bs -> Forall (bucket_ok maxb) (place bs (query_size e) e maxb).
Proof.
  induction bs as [|b r IH]; intro H; cbn [place].
  - constructor; [|constructor]. unfold bucket_ok; cbn [b_bytes b_entries map length]. unfold sumZ; cbn [fold_right].
    split; [lia|]. split; [discriminate|left; reflexivity].
  - inversion H as [|x l Hb Hr]; subst x l.
    destruct (b_bytes b + query_size e <=? maxb) eqn:E.
    + constructor; [|exact Hr]. destruct Hb as (Hs & Hne & _).
      unfold bucket_ok; cbn [b_bytes b_entries]. rewrite map_app, sumZ_app. cbn [map]. unfold sumZ at 2; cbn [fold_right].
      split; [lia|]. split; [|right; lia].
      intro X. apply app_eq_nil in X as [_ X]. discriminate X.
    + constructor; [exact Hb|apply IH; exact Hr].
Qed.

Lemma place_fold_ok maxb : forall l bs,
  Forall (bucket_ok maxb) bs -> Forall (bucket_ok maxb) (fold_left (fun bs e => place bs (query_size e) e maxb) l bs).
Proof.
  induction l as [|x l IH]; intros bs H; cbn [fold_left]; [exact H|]. apply IH. apply place_ok. exact H.
Qed.

(* (b) + (c): sizes are the sums of the entry sizes, a bucket with more than one entry fits the
   payload of a typical packet (1460 - 12 = 1448), no bucket is empty *)
Theorem bucketing_bytes qs :
  Forall (fun b => b_bytes b = sumZ (map query_size (b_entries b)) /\
                   ((length (b_entries b) > 1)%nat -> b_bytes b <= 1448) /\
                   b_entries b <> [])
         (group_queries qs).
Proof.
  assert (H : Forall (bucket_ok 1448) (group_queries qs)).
  { unfold group_queries. change (C_MAX_MSG_TYPICAL - C_DNS_PACKET_HEADER_LEN) with 1448.
    apply place_fold_ok. constructor. }
  eapply Forall_impl; [|exact H]. intros b (Hs & Hne & Hb). split; [exact Hs|]. split; [|exact Hne].
  intro L. destruct Hb as [Hb|Hb]; [lia|exact Hb].
Qed.

Theorem max_payload_value : C_MAX_MSG_TYPICAL - C_DNS_PACKET_HEADER_LEN = 1448.
Proof. reflexivity. Qed.

Lemma bucket_msgs_qs now : forall bs,
  flat_map qm_qs (map (bucket_msg now) bs) = map fst (flat_map b_entries bs).
Proof.
  induction bs as [|b bs IH]; cbn [map flat_map]; [reflexivity|].
  rewrite map_app, IH. reflexivity.
Qed.

(* the outgoing messages: every question generated is in exactly one message (as a multiset), and the
   message that carries it carries all of its known answers and is stamped `now` *)
Theorem bucketing_msgs c h now types multicast qtype msgs h' :
  generate_service_query c h now types multicast qtype = (msgs, h') ->
  let qs := fst (service_questions c h now types (qu_decision multicast qtype)) in
  h' = snd (service_questions c h now types (qu_decision multicast qtype)) /\
  Permutation (flat_map qm_qs msgs) (map fst qs) /\
  (forall q known, In (q, known) qs ->
     exists m, In m msgs /\ In q (qm_qs m) /\ incl known (qm_known m) /\ qm_time m = now) /\
  (forall m, In m msgs -> qm_qs m <> []).
Proof.
  unfold generate_service_query. cbv zeta.
  destruct (service_questions c h now types (qu_decision multicast qtype)) as [qs h1] eqn:R.
  intro E. inversion E; subst. cbn [fst snd]. split; [reflexivity|]. split.
  - rewrite bucket_msgs_qs. apply Permutation_map. apply bucketing_perm.
  - split.
    + intros q known Hin.
      assert (Hin' : In (q, known) (flat_map b_entries (group_queries qs))).
      { eapply Permutation_in; [apply Permutation_sym; apply bucketing_perm|exact Hin]. }
      apply in_flat_map in Hin' as (b & Hb & Hqb).
      exists (bucket_msg now b). split; [apply in_map; exact Hb|]. unfold bucket_msg; cbn [qm_qs qm_known qm_time].
      split; [change q with (fst (q, known)); apply in_map; exact Hqb|]. split; [|reflexivity].
      intros r Hr. apply in_flat_map. exists (q, known). split; [exact Hqb|exact Hr].
    + intros m Hm. apply in_map_iff in Hm as (b & <- & Hb).
      pose proof (bucketing_bytes qs) as F. rewrite Forall_forall in F. destruct (F b Hb) as (_ & _ & Hne).
      unfold bucket_msg; cbn [qm_qs]. destruct (b_entries b); [congruence|discriminate].
Qed.

(* ================================================================================================ *)
(*  7. the lookup's request query                                                                   *)
(* ================================================================================================ *)

(* does _add_question_with_known_answers add the question (name, ty)?  Not if the answer is already
   known (SRV/TXT only), and - for QM - not if the history suppresses it *)
Definition asks (c : cache) (h : history) (now : Z) (qu : bool) (name : text) (ty : Z) (skip_if_known : bool) : bool :=
  negb (skip_if_known && nonempty (fresh_known c now name ty)) &&
  (qu || negb (hist_suppresses h (mkq name ty false) now (fresh_known c now name ty))).

Definition req_part (c : cache) (h : history) (now : Z) (qu : bool) (name : text) (ty : Z) (skip_if_known : bool)
  : list (pyrec * list pyrec) :=
  if asks c h now qu name ty skip_if_known then [(mkq name ty qu, fresh_known c now name ty)] else [].

(* all four decisions are taken against the ORIGINAL history h *)
Definition request_parts (c : cache) (h : history) (now : Z) (name server : text) (qu : bool) : list (pyrec * list pyrec) :=
  req_part c h now qu name C_TYPE_SRV true ++ req_part c h now qu name C_TYPE_TXT true ++
  req_part c h now qu server C_TYPE_A false ++ req_part c h now qu server C_TYPE_AAAA false.

Definition msg_of (now : Z) (parts : list (pyrec * list pyrec)) : query_msg :=
  {| qm_qs := map fst parts; qm_known := flat_map snd parts; qm_time := now |}.

Definition hist_after (qu : bool) (now : Z) (h : history) (parts : list (pyrec * list pyrec)) : history :=
  if qu then h else record_sent now h parts.

Lemma add_q_step c now qu m h name ty skip :
  add_question_with_known c now qu (m, h) name ty skip =
  if asks c h now qu name ty skip
  then ({| qm_qs := qm_qs m ++ [mkq name ty qu]; qm_known := qm_known m ++ fresh_known c now name ty; qm_time := now |},
        if qu then h else hist_add h (mkq name ty false) now (fresh_known c now name ty))
  else (m, h).
Proof.
  unfold add_question_with_known, asks. cbv zeta.
  destruct (skip && nonempty (fresh_known c now name ty)); cbn [negb andb]; [reflexivity|].
  destruct qu; cbn [orb]; [reflexivity|].
  destruct (hist_suppresses h (mkq name ty false) now (fresh_known c now name ty)); reflexivity.
Qed.

Lemma add_q_parts c now qu parts h name ty skip :
  add_question_with_known c now qu (msg_of now parts, h) name ty skip =
  (msg_of now (parts ++ req_part c h now qu name ty skip), hist_after qu now h (req_part c h now qu name ty skip)).
Proof.
  rewrite add_q_step. unfold req_part. destruct (asks c h now qu name ty skip).
  - unfold msg_of; cbn [qm_qs qm_known]. rewrite map_app, flat_map_app. cbn [map flat_map fst snd]. rewrite app_nil_r.
    unfold hist_after, record_sent. destruct qu; reflexivity.
  - rewrite app_nil_r. unfold hist_after, record_sent. destruct qu; reflexivity.
Qed.

Lemma hist_after_app qu now h p1 p2 : hist_after qu now (hist_after qu now h p1) p2 = hist_after qu now h (p1 ++ p2).
Proof. unfold hist_after, record_sent. destruct qu; [reflexivity|]. rewrite fold_left_app. reflexivity. Qed.

Lemma hist_suppresses_record_other now q known : forall parts h,
  Forall (fun e => gen_eq (fst e) q = false) parts ->
  hist_suppresses (record_sent now h parts) q now known = hist_suppresses h q now known.
Proof.
  unfold record_sent. induction parts as [|e parts IH]; intros h F; cbn [fold_left]; [reflexivity|].
  inversion F as [|x l He Hr]; subst x l. rewrite IH by exact Hr. apply hist_suppresses_add_other. exact He.
Qed.

Lemma req_part_hist_after c h now qu parts n ty skip :
  Forall (fun e => gen_eq (fst e) (mkq n ty false) = false) parts ->
  req_part c (hist_after qu now h parts) now qu n ty skip = req_part c h now qu n ty skip.
Proof.
  intro F. unfold req_part, asks, hist_after. destruct qu; [reflexivity|].
  rewrite hist_suppresses_record_other by exact F. reflexivity.
Qed.

Lemma req_part_other c h now qu n1 ty1 skip1 n2 ty2 :
  ty1 <> ty2 -> Forall (fun e => gen_eq (fst e) (mkq n2 ty2 false) = false) (req_part c h now qu n1 ty1 skip1).
Proof.
  intro N. unfold req_part. destruct (asks c h now qu n1 ty1 skip1); constructor; [|constructor].
  cbn [fst]. apply mkq_neq_type. exact N.
Qed.

Ltac tyneq := unfold C_TYPE_SRV, C_TYPE_TXT, C_TYPE_A, C_TYPE_AAAA; lia.

(* the message and the history, exactly *)
Theorem request_query_exact c h now name server qu :
  generate_request_query c h now name server qu =
  (msg_of now (request_parts c h now name server qu),
   if qu then h else record_sent now h (request_parts c h now name server qu)).
Proof.
  unfold generate_request_query. cbv zeta.
  change {| qm_qs := []; qm_known := []; qm_time := now |} with (msg_of now []).
  rewrite add_q_parts. cbn [app].
  rewrite add_q_parts.
  rewrite req_part_hist_after by (apply req_part_other; tyneq).
  rewrite hist_after_app.
  rewrite add_q_parts.
  rewrite req_part_hist_after by (apply Forall_app; split; apply req_part_other; tyneq).
  rewrite hist_after_app.
  rewrite add_q_parts.
  rewrite req_part_hist_after
    by (apply Forall_app; split; [apply Forall_app; split|]; apply req_part_other; tyneq).
  rewrite hist_after_app.
  unfold request_parts, hist_after. rewrite <- !app_assoc. reflexivity.
Qed.

Lemma nonempty_false {A} (l : list A) : nonempty l = false <-> l = [].
Proof. destruct l; cbn; split; intro H; try reflexivity; discriminate H. Qed.

Lemma asks_iff c h now qu n ty skip :
  asks c h now qu n ty skip = true <->
  (skip = true -> fresh_known c now n ty = []) /\
  (qu = true \/ ~ suppressed_by h now (mkq n ty false) (fresh_known c now n ty)).
Proof.
  unfold asks. rewrite <- hist_suppresses_iff.
  rewrite andb_true_iff, negb_true_iff, orb_true_iff, negb_true_iff, andb_false_iff, nonempty_false.
  destruct skip, qu, (hist_suppresses h (mkq n ty false) now (fresh_known c now n ty));
    intuition congruence.
Qed.

Lemma mkq_inj_type n1 t1 q1 n2 t2 q2 : mkq n1 t1 q1 = mkq n2 t2 q2 -> t1 = t2.
Proof. intro H. apply (f_equal p_type_) in H. exact H. Qed.

Lemma In_req_part q c h now qu n ty skip :
  In q (map fst (req_part c h now qu n ty skip)) <-> asks c h now qu n ty skip = true /\ q = mkq n ty qu.
Proof.
  unfold req_part. destruct (asks c h now qu n ty skip); cbn [map fst In].
  - split; [intros [H|[]]; split; [reflexivity|symmetry; exact H]|intros [_ H]; left; symmetry; exact H].
  - split; [intros []|intros [H _]; discriminate H].
Qed.

Lemma In_request_qs q c h now name server qu :
  In q (qm_qs (msg_of now (request_parts c h now name server qu))) <->
  (asks c h now qu name C_TYPE_SRV true = true /\ q = mkq name C_TYPE_SRV qu) \/
  (asks c h now qu name C_TYPE_TXT true = true /\ q = mkq name C_TYPE_TXT qu) \/
  (asks c h now qu server C_TYPE_A false = true /\ q = mkq server C_TYPE_A qu) \/
  (asks c h now qu server C_TYPE_AAAA false = true /\ q = mkq server C_TYPE_AAAA qu).
Proof.
  unfold msg_of, request_parts; cbn [qm_qs]. rewrite !map_app, !in_app_iff, !In_req_part. tauto.
Qed.

Lemma request_known_incl c h now name server qu n ty :
  In (mkq n ty qu, fresh_known c now n ty) (request_parts c h now name server qu) ->
  incl (fresh_known c now n ty) (qm_known (msg_of now (request_parts c h now name server qu))).
Proof.
  intros Hin r Hr. unfold msg_of; cbn [qm_known]. apply in_flat_map.
  exists (mkq n ty qu, fresh_known c now n ty). split; [exact Hin|exact Hr].
Qed.

Theorem request_query c h now name server qu m h' :
  generate_request_query c h now name server qu = (m, h') ->
  let suppressed n ty := suppressed_by h now (mkq n ty false) (fresh_known c now n ty) in
  (* SRV / TXT for the instance name: only when nothing fresh is cached, and QU or not suppressed *)
  (In (mkq name C_TYPE_SRV qu) (qm_qs m) <->
     fresh_known c now name C_TYPE_SRV = [] /\ (qu = true \/ ~ suppressed name C_TYPE_SRV)) /\
  (In (mkq name C_TYPE_TXT qu) (qm_qs m) <->
     fresh_known c now name C_TYPE_TXT = [] /\ (qu = true \/ ~ suppressed name C_TYPE_TXT)) /\
  (* A / AAAA for the server: QU or not suppressed; the fresh addresses go along as known answers *)
  (In (mkq server C_TYPE_A qu) (qm_qs m) <-> (qu = true \/ ~ suppressed server C_TYPE_A)) /\
  (In (mkq server C_TYPE_AAAA qu) (qm_qs m) <-> (qu = true \/ ~ suppressed server C_TYPE_AAAA)) /\
  (In (mkq server C_TYPE_A qu) (qm_qs m) -> incl (fresh_known c now server C_TYPE_A) (qm_known m)) /\
  (In (mkq server C_TYPE_AAAA qu) (qm_qs m) -> incl (fresh_known c now server C_TYPE_AAAA) (qm_known m)) /\
  (* nothing else is asked *)
  (forall q, In q (qm_qs m) -> q = mkq name C_TYPE_SRV qu \/ q = mkq name C_TYPE_TXT qu \/
                               q = mkq server C_TYPE_A qu \/ q = mkq server C_TYPE_AAAA qu) /\
  (* history: untouched for QU; for QM exactly the questions asked are recorded with (now, known) *)
  (qu = true -> h' = h) /\
  (qu = false -> h' = record_sent now h (request_parts c h now name server false)) /\
  qm_time m = now.
Proof.
  rewrite request_query_exact. intro E. inversion E as [[Em Eh]]. clear E. cbv zeta.
  assert (P : forall n ty,
            (asks c h now qu name C_TYPE_SRV true = true /\ mkq n ty qu = mkq name C_TYPE_SRV qu) \/
            (asks c h now qu name C_TYPE_TXT true = true /\ mkq n ty qu = mkq name C_TYPE_TXT qu) \/
            (asks c h now qu server C_TYPE_A false = true /\ mkq n ty qu = mkq server C_TYPE_A qu) \/
            (asks c h now qu server C_TYPE_AAAA false = true /\ mkq n ty qu = mkq server C_TYPE_AAAA qu) ->
            (ty = C_TYPE_SRV -> asks c h now qu name C_TYPE_SRV true = true) /\
            (ty = C_TYPE_TXT -> asks c h now qu name C_TYPE_TXT true = true) /\
            (ty = C_TYPE_A -> asks c h now qu server C_TYPE_A false = true) /\
            (ty = C_TYPE_AAAA -> asks c h now qu server C_TYPE_AAAA false = true)).
  { intros n ty [[A Q]|[[A Q]|[[A Q]|[A Q]]]]; apply mkq_inj_type in Q; subst ty;
      (split; [intro X|split; [intro X|split; intro X]]); try exact A; exfalso; revert X; tyneq. }
  assert (SRV : In (mkq name C_TYPE_SRV qu) (qm_qs (msg_of now (request_parts c h now name server qu))) <->
                asks c h now qu name C_TYPE_SRV true = true).
  { rewrite In_request_qs. split; [intro X; apply P in X; apply X; reflexivity|intro A; left; split; [exact A|reflexivity]]. }
  assert (TXT : In (mkq name C_TYPE_TXT qu) (qm_qs (msg_of now (request_parts c h now name server qu))) <->
                asks c h now qu name C_TYPE_TXT true = true).
  { rewrite In_request_qs. split; [intro X; apply P in X; apply X; reflexivity|intro A; right; left; split; [exact A|reflexivity]]. }
  assert (A4 : In (mkq server C_TYPE_A qu) (qm_qs (msg_of now (request_parts c h now name server qu))) <->
               asks c h now qu server C_TYPE_A false = true).
  { rewrite In_request_qs. split; [intro X; apply P in X; apply X; reflexivity|intro A; right; right; left; split; [exact A|reflexivity]]. }
  assert (A6 : In (mkq server C_TYPE_AAAA qu) (qm_qs (msg_of now (request_parts c h now name server qu))) <->
               asks c h now qu server C_TYPE_AAAA false = true).
  { rewrite In_request_qs. split; [intro X; apply P in X; apply X; reflexivity|intro A; right; right; right; split; [exact A|reflexivity]]. }
  split; [rewrite SRV, asks_iff; intuition congruence|].
  split; [rewrite TXT, asks_iff; intuition congruence|].
  split; [rewrite A4, asks_iff; intuition congruence|].
  split; [rewrite A6, asks_iff; intuition congruence|].
  split.
  { intro X. apply A4 in X. apply (request_known_incl c h now name server qu server C_TYPE_A).
    unfold request_parts, req_part. rewrite X. rewrite !in_app_iff. right; right; left. left; reflexivity. }
  split.
  { intro X. apply A6 in X. apply (request_known_incl c h now name server qu server C_TYPE_AAAA).
    unfold request_parts, req_part. rewrite X. rewrite !in_app_iff. right; right; right. left; reflexivity. }
  split.
  { intros q X. apply In_request_qs in X. tauto. }
  split; [intro Q; subst qu; reflexivity|].
  split; [intro Q; subst qu; reflexivity|reflexivity].
Qed.

(* ================================================================================================ *)
(*  8. the responder's history update                                                               *)
(* ================================================================================================ *)

(* time of the last packet of the (possibly truncated, multi-packet) query *)
Definition last_time (msgs : list qmsg) : Z :=
  match msgs with [] => 0 | m0 :: _ => qm_now (last msgs m0) end.

(* the union of the known answers of the non-probe packets, as a set *)
Definition known_set (msgs : list qmsg) : list pyrec :=
  map fst (d_of_list gen_eq (fun r => r) (flat_map (fun m => if qm_is_probe m then [] else qm_answers m) msgs)).

(* the questions that get recorded: QM questions this responder has an answer strategy for *)
Definition recorded (g : registry) (msgs : list qmsg) : list pyrec :=
  filter (fun q => nonempty (get_strategies g q) && negb (DNSEntry_unique q)) (flat_map qm_questions msgs).

Lemma hist_add_repeat {B} q t k : forall (l : list B) h,
  fold_left (fun h _ => hist_add h q t k) l (hist_add h q t k) = hist_add h q t k.
Proof.
  induction l as [|x l IH]; intro h; cbn [fold_left]; [reflexivity|]. rewrite hist_add_idem. apply IH.
Qed.

Lemma respond_fold g t k : forall qs h,
  fold_left (fun h q => match get_strategies g q with
                        | [] => h
                        | sts => if DNSEntry_unique q then h
                                 else fold_left (fun h _ => hist_add h q t k) sts h
                        end) qs h =
  fold_left (fun h q => hist_add h q t k)
            (filter (fun q => nonempty (get_strategies g q) && negb (DNSEntry_unique q)) qs) h.
Proof.
  induction qs as [|q qs IH]; intro h; cbn [fold_left filter]; [reflexivity|].
  destruct (get_strategies g q) as [|s sts] eqn:G; cbn [nonempty andb]; [apply IH|].
  destruct (DNSEntry_unique q); cbn [negb fold_left]; [apply IH|].
  rewrite hist_add_repeat. apply IH.
Qed.

Theorem responder_history_exact g h msgs :
  respond_history_update g h msgs =
  fold_left (fun h q => hist_add h q (last_time msgs) (known_set msgs)) (recorded g msgs) h.
Proof.
  destruct msgs as [|m0 rest]; [reflexivity|].
  unfold respond_history_update, last_time, known_set, recorded. cbv zeta. apply respond_fold.
Qed.

Lemma hist_add_fold_get t k : forall qs h q,
  hist_get (fold_left (fun h q' => hist_add h q' t k) qs h) q =
  if existsb (fun q' => gen_eq q' q) qs then Some (t, k) else hist_get h q.
Proof.
  induction qs as [|q1 qs IH]; intros h q; cbn [fold_left existsb]; [reflexivity|].
  rewrite IH, hist_get_add.
  destruct (gen_eq q1 q); cbn [orb]; [|reflexivity].
  destruct (existsb (fun q' => gen_eq q' q) qs); reflexivity.
Qed.

(* lookups after the update: a question equal to a recorded one is stamped (time of the last packet,
   known-answer set); every other lookup is as before *)
Theorem responder_history g h msgs q :
  hist_get (respond_history_update g h msgs) q =
  if existsb (fun q' => gen_eq q' q) (recorded g msgs)
  then Some (last_time msgs, known_set msgs)
  else hist_get h q.
Proof. rewrite responder_history_exact. apply hist_add_fold_get. Qed.

(* ... so an entry only ever changes for a QM question of msgs that this responder can answer;
   QU questions are never recorded *)
Corollary responder_history_only g h msgs q :
  hist_get (respond_history_update g h msgs) q <> hist_get h q ->
  exists q', In q' (flat_map qm_questions msgs) /\ gen_eq q' q = true /\
             DNSEntry_unique q' = false /\ get_strategies g q' <> [] /\
             hist_get (respond_history_update g h msgs) q = Some (last_time msgs, known_set msgs).
Proof.
  rewrite responder_history.
  destruct (existsb (fun q' => gen_eq q' q) (recorded g msgs)) eqn:E; [|intro X; exfalso; apply X; reflexivity].
  intros _. apply existsb_exists in E as (q' & Hin & Heq). unfold recorded in Hin.
  apply filter_In in Hin as [Hin Hf]. apply andb_true_iff in Hf as [Hs Hu]. apply negb_true_iff in Hu.
  exists q'. split; [exact Hin|]. split; [exact Heq|]. split; [exact Hu|]. split; [|reflexivity].
  intro X. rewrite X in Hs. discriminate Hs.
Qed.

Corollary responder_history_qu_only g h msgs :
  (forall q, In q (flat_map qm_questions msgs) -> DNSEntry_unique q = true) ->
  respond_history_update g h msgs = h.
Proof.
  intro H. rewrite responder_history_exact.
  assert (R : recorded g msgs = []).
  { unfold recorded. induction (flat_map qm_questions msgs) as [|q l IH]; [reflexivity|]. cbn [filter].
    rewrite (H q (or_introl eq_refl)). rewrite andb_false_r. apply IH. intros q' Hq'. apply H. right. exact Hq'. }
  rewrite R. reflexivity.
Qed.

(* ================================================================================================ *)
(*  9. expiry of the history                                                                        *)
(* ================================================================================================ *)

Theorem hist_expire_spec h now e :
  In e (hist_expire h now) <-> In e h /\ now - fst (snd e) <= 999.
Proof.
  unfold hist_expire. rewrite filter_In. change C_DUPLICATE_QUESTION_INTERVAL with 999.
  destruct (now - fst (snd e) >? 999) eqn:E; cbn [negb]; intuition (try discriminate; lia).
Qed.

Theorem hist_expire_filter h now :
  hist_expire h now = filter (fun e => now - fst (snd e) <=? 999) h.
Proof.
  unfold hist_expire. apply filter_ext. intro e. change C_DUPLICATE_QUESTION_INTERVAL with 999.
  destruct (now - fst (snd e) >? 999) eqn:E, (now - fst (snd e) <=? 999) eqn:E'; cbn [negb]; lia.
Qed.

(* ================================================================================================ *)
Print Assumptions stale_spec.
Print Assumptions fresh_known_spec.
Print Assumptions fresh_known_In.
Print Assumptions known_exact.
Print Assumptions suppress_iff.
Print Assumptions suppress_iff_needs_distinct.
Print Assumptions suppress_iff_head.
Print Assumptions suppress_iff_single.
Print Assumptions qu_never.
Print Assumptions qu_never_length.
Print Assumptions history_after.
Print Assumptions bucketing_perm.
Print Assumptions bucketing_bytes.
Print Assumptions bucketing_msgs.
Print Assumptions request_query_exact.
Print Assumptions request_query.
Print Assumptions responder_history_exact.
Print Assumptions responder_history.
Print Assumptions responder_history_only.
Print Assumptions responder_history_qu_only.
Print Assumptions hist_expire_spec.
Print Assumptions hist_expire_filter.
