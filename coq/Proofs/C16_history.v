(* C16, history level: following every datagram of a history by any number of back-to-back copies
   (same bytes/flags, same arrival instant; any source address, registry state, TC draw) changes
   neither the final listener state nor the effective outputs - provided no datagram has a QU question.
   Model: ZC.Model.Listener.  Vocabulary / one-step lemmas: Proofs/C16_listener.v. *)
From Coq Require Import ZArith List Bool Lia ZifyBool.
From ZC Require Import Model.Base Model.Dict Model.Listener Proofs.C16_listener.
Import ListNotations.
Ltac Zify.zify_post_hook ::= Z.to_euclidean_division_equations.
Open Scope Z_scope.

(* ------------------------------------------------------------------------------------------ *)
(** * Definitions (as given) *)

Inductive lev :=
| EDgram (m : lmsg) (addr : text) (now : Z) (has_entries : bool) (tc_delay : Z)
| EFire (addr : text) (now : Z).

Definition lev_step (s : lstate) (e : lev) : lstate * list lout :=
  match e with
  | EDgram m a now he tc => let '(s', o) := datagram s m a now he tc in (s', [o])
  | EFire a now => match tc_fire s a now with Some (s', o) => (s', [o]) | None => (s, []) end
  end.

Fixpoint lev_run (s : lstate) (es : list lev) : lstate * list lout :=
  match es with
  | [] => (s, [])
  | e :: r => let '(s1, o1) := lev_step s e in let '(s2, o2) := lev_run s1 r in (s2, o1 ++ o2)
  end.

(* the copies of one datagram: same bytes/flags and same arrival instant, but any source address, registry state and TC draw *)
Definition copies_of (m : lmsg) (now : Z) (cs : list (text * bool * Z)) : list lev :=
  map (fun c => EDgram m (fst (fst c)) now (snd (fst c)) (snd c)) cs.

(* es' is es with every datagram followed by any number (possibly zero) of back-to-back copies *)
Inductive Doubling : list lev -> list lev -> Prop :=
| D_nil : Doubling [] []
| D_fire : forall a now r r', Doubling r r' -> Doubling (EFire a now :: r) (EFire a now :: r')
| D_dgram : forall m a now he tc cs r r', Doubling r r' ->
    Doubling (EDgram m a now he tc :: r) (EDgram m a now he tc :: copies_of m now cs ++ r').

Definition no_qu (e : lev) : Prop := match e with EDgram m _ _ _ _ => lm_has_qu m = false | EFire _ _ => True end.

(* outputs that stand for something happening: a dropped duplicate and an ignored oversize datagram are no effect *)
Definition effective (o : lout) : bool := match o with ODuplicate | OOversize => false | _ => true end.

(* ------------------------------------------------------------------------------------------ *)
(** * Unfolding lemmas for the run *)

Lemma lev_run_cons s e r :
  lev_run s (e :: r)
  = (fst (lev_run (fst (lev_step s e)) r),
     snd (lev_step s e) ++ snd (lev_run (fst (lev_step s e)) r)).
Proof.
  cbn [lev_run].
  destruct (lev_step s e) as [s1 o1]. cbn [fst snd].
  destruct (lev_run s1 r) as [s2 o2]. reflexivity.
Qed.

Lemma lev_run_app s l1 l2 :
  lev_run s (l1 ++ l2)
  = (fst (lev_run (fst (lev_run s l1)) l2),
     snd (lev_run s l1) ++ snd (lev_run (fst (lev_run s l1)) l2)).
Proof.
  revert s. induction l1 as [|e l1 IH]; intros s.
  - cbn [app lev_run fst snd]. destruct (lev_run s l2); reflexivity.
  - rewrite <- app_comm_cons. rewrite !lev_run_cons. rewrite IH. cbn [fst snd].
    rewrite app_assoc. reflexivity.
Qed.

Lemma lev_step_dgram s m a now he tc :
  lev_step s (EDgram m a now he tc) = (after s m a now he tc, [outcome s m a now he tc]).
Proof.
  cbn [lev_step]. rewrite datagram_after_outcome. reflexivity.
Qed.

(* ------------------------------------------------------------------------------------------ *)
(** * One copy at the same instant is absorbed *)

(** [s1] absorbs copies of [m] at [now]: whatever the source address, registry state and TC
    draw, the delivery leaves [s1] untouched and reports no effect *)
Definition absorbs (s1 : lstate) (m : lmsg) (now : Z) : Prop :=
  forall a' he' tc', exists o, datagram s1 m a' now he' tc' = (s1, o) /\ effective o = false.

Lemma after_absorbs s m a now he tc :
  lm_has_qu m = false -> absorbs (after s m a now he tc) m now.
Proof.
  intros Hqu a' he' tc'.
  destruct (fits_or_oversize m) as [Hfit|Hov].
  - exists ODuplicate. split; [|reflexivity].
    apply duplicate_ignored_same_time; assumption.
  - exists OOversize. split; [|reflexivity].
    apply oversize_ignored. exact Hov.
Qed.

Lemma copies_absorbed s1 m now cs :
  absorbs s1 m now ->
  fst (lev_run s1 (copies_of m now cs)) = s1
  /\ filter effective (snd (lev_run s1 (copies_of m now cs))) = [].
Proof.
  intros Habs. induction cs as [|c cs IH].
  - cbn [copies_of map lev_run fst snd filter]. auto.
  - unfold copies_of in *. cbn [map]. rewrite lev_run_cons.
    destruct (Habs (fst (fst c)) (snd (fst c)) (snd c)) as (o & Hd & He).
    cbn [lev_step]. rewrite Hd. cbn [fst snd].
    destruct IH as [IHs IHo]. split; [exact IHs|].
    cbn [app filter]. rewrite He. exact IHo.
Qed.

(* ------------------------------------------------------------------------------------------ *)
(** * The history-level theorem *)

Theorem doubling_changes_nothing : forall es es' s,
  Doubling es es' -> Forall no_qu es ->
  fst (lev_run s es') = fst (lev_run s es)
  /\ filter effective (snd (lev_run s es')) = filter effective (snd (lev_run s es)).
Proof.
  intros es es' s Hdbl. revert s.
  induction Hdbl as [|a now r r' Hdbl IH|m a now he tc cs r r' Hdbl IH]; intros s Hnq.
  - split; reflexivity.
  - inversion Hnq as [|x l Hx Hr]; subst x l.
    rewrite !lev_run_cons. cbn [fst snd].
    destruct (IH (fst (lev_step s (EFire a now))) Hr) as [IHs IHo].
    split; [exact IHs|].
    rewrite !filter_app, IHo. reflexivity.
  - inversion Hnq as [|x l Hx Hr]; subst x l. cbn [no_qu] in Hx.
    rewrite !lev_run_cons. rewrite lev_step_dgram. cbn [fst snd].
    rewrite lev_run_app. cbn [fst snd].
    destruct (copies_absorbed (after s m a now he tc) m now cs
                (after_absorbs s m a now he tc Hx)) as [Hcs Hco].
    rewrite Hcs.
    destruct (IH (after s m a now he tc) Hr) as [IHs IHo].
    split; [exact IHs|].
    rewrite !filter_app, Hco, IHo. reflexivity.
Qed.

(* ------------------------------------------------------------------------------------------ *)
(** * Sharpness: with a QU question the copy IS processed again (the open finding) *)

Definition qu_msg : lmsg :=
  {| lm_data := [1]; lm_valid := true; lm_is_query := true; lm_truncated := false; lm_has_qu := true |}.

Example doubling_qu_counterexample : exists es es' s,
  Doubling es es' /\ filter effective (snd (lev_run s es')) <> filter effective (snd (lev_run s es)).
Proof.
  exists [EDgram qu_msg [] 0 true 400],
         [EDgram qu_msg [] 0 true 400; EDgram qu_msg [] 0 true 400],
         lstate_init.
  split.
  - exact (D_dgram qu_msg [] 0 true 400 [([], true, 400)] [] [] D_nil).
  - vm_compute. intros Heq. discriminate Heq.
Qed.

(** the concrete values, for the record: one answer without the copy, two with it *)
Example doubling_qu_counterexample_values :
  filter effective (snd (lev_run lstate_init [EDgram qu_msg [] 0 true 400]))
    = [ORespond [] [qu_msg]]
  /\ filter effective (snd (lev_run lstate_init [EDgram qu_msg [] 0 true 400; EDgram qu_msg [] 0 true 400]))
    = [ORespond [] [qu_msg]; ORespond [] [qu_msg]].
Proof. vm_compute. split; reflexivity. Qed.

(* ------------------------------------------------------------------------------------------ *)
Print Assumptions doubling_changes_nothing.
Print Assumptions doubling_qu_counterexample.
