(* C01 shared definitions and basic lemmas: buffers, the label-reading predicate [reads] that
   abstracts the strict parser's name walk, well-formedness predicates. *)
From Coq Require Import ZArith List Bool Lia ZifyBool.
From ZC Require Import Model.Base Model.PyRec Model.Dict Model.Re Model.Utf8 Model.Names Model.WireEnc
                       Spec.Rfc1035 Gen.Const Gen.DnsPure Gen.Shapes.
From ZC Require Import Proofs.C01_utf8.
Import ListNotations.
Open Scope Z_scope.
Ltac Zify.zify_post_hook ::= Z.to_euclidean_division_equations.

(* ---------- generic list facts ---------- *)
Lemma firstn_length_app {A} (a b : list A) : firstn (length a) (a ++ b) = a.
Proof. induction a as [|x a IH]; simpl; [destruct b; reflexivity | rewrite IH; reflexivity]. Qed.

Lemma skipn_length_app {A} (a b : list A) : skipn (length a) (a ++ b) = b.
Proof. induction a as [|x a IH]; simpl; [reflexivity | exact IH]. Qed.

Lemma firstn_app_le {A} (n : nat) (a b : list A) : (n <= length a)%nat -> firstn n (a ++ b) = firstn n a.
Proof.
  intro H. rewrite firstn_app. replace (n - length a)%nat with 0%nat by lia.
  cbn [firstn]. apply app_nil_r.
Qed.

Lemma skipn_app_le {A} (n : nat) (a b : list A) : (n <= length a)%nat -> skipn n (a ++ b) = skipn n a ++ b.
Proof.
  intro H. rewrite skipn_app. replace (n - length a)%nat with 0%nat by lia. reflexivity.
Qed.

(* ---------- utf-8 of texts as a total function ---------- *)
Definition u8 (s : text) : bytes := match utf8_encode s with Ok b => b | Raise _ => [] end.
Definition enc_ok (s : text) : Prop := utf8_encode s = Ok (u8 s).
Definition ulen (s : text) : Z := len (u8 s).

Lemma enc_ok_intro s b : utf8_encode s = Ok b -> enc_ok s /\ u8 s = b.
Proof. intro H. unfold enc_ok, u8. rewrite H. split; reflexivity. Qed.

Lemma scalar_enc_ok s : scalar_text s = true -> enc_ok s.
Proof. intro H. destruct (utf8_encode_scalar s H) as [b Hb]. apply (enc_ok_intro s b Hb). Qed.

Lemma utf8_encode_app a b ba bb :
  utf8_encode a = Ok ba -> utf8_encode b = Ok bb -> utf8_encode (a ++ b) = Ok (ba ++ bb).
Proof.
  revert ba. induction a as [|c a IH]; intros ba Ha Hb.
  - cbn [utf8_encode] in Ha. inversion Ha. exact Hb.
  - cbn [app utf8_encode] in *. destruct (is_surrogate c); [discriminate|].
    destruct (utf8_encode a) as [ba'|e]; [|discriminate].
    inversion Ha; subst ba. rewrite (IH ba' eq_refl Hb). rewrite app_assoc. reflexivity.
Qed.

Lemma enc_ok_app a b : enc_ok a -> enc_ok b -> enc_ok (a ++ b) /\ u8 (a ++ b) = u8 a ++ u8 b.
Proof. intros Ha Hb. apply enc_ok_intro. apply utf8_encode_app; assumption. Qed.

Lemma enc_ok_dot_cons s : enc_ok s -> enc_ok (46 :: s) /\ u8 (46 :: s) = 46 :: u8 s.
Proof.
  intro H. apply enc_ok_intro. cbn [utf8_encode]. unfold enc_ok in H. rewrite H. reflexivity.
Qed.

Lemma u8_roundtrip s : scalar_text s = true -> utf8_decode_replace (u8 s) = s.
Proof. intro H. apply utf8_roundtrip; [exact H|]. apply scalar_enc_ok; exact H. Qed.

Lemma u8_range s : scalar_text s = true -> Forall (fun x => 0 <= x < 256) (u8 s).
Proof. intro H. apply (utf8_bytes_range s); [exact H|]. apply scalar_enc_ok; exact H. Qed.

Lemma u8_nonempty s : s <> [] -> enc_ok s -> u8 s <> [].
Proof.
  intros Hne Hok. destruct s as [|c s]; [contradiction|].
  unfold enc_ok, u8 in *. cbn [utf8_encode] in *.
  destruct (is_surrogate c); [discriminate|].
  destruct (utf8_encode s) as [b|e]; [|discriminate].
  pose proof (utf8_cp_length c) as Hl.
  destruct (utf8_cp c); [simpl in Hl; lia|discriminate].
Qed.

(* ---------- split_dot / join_dot ---------- *)
Lemma split_dot_nonnil s : split_dot s <> [].
Proof.
  destruct s as [|c s]; simpl; [discriminate|].
  destruct (c =? DOT); [discriminate|]. destruct (split_dot s); discriminate.
Qed.

Lemma split_dot_app a b : split_dot (a ++ DOT :: b) = split_dot a ++ split_dot b.
Proof.
  induction a as [|c a IH].
  - reflexivity.
  - cbn [app split_dot]. rewrite IH. destruct (c =? DOT); [reflexivity|].
    destruct (split_dot a) as [|h t] eqn:E; [exfalso; exact (split_dot_nonnil a E)|]. reflexivity.
Qed.

Lemma join_dot_cons x r : r <> [] -> join_dot (x :: r) = x ++ DOT :: join_dot r.
Proof. destruct r as [|y r]; [intro H; contradiction|]. reflexivity. Qed.

Lemma split_dot_nodot s : ~ In 46 s -> split_dot s = [s].
Proof.
  induction s as [|c s IH]; intro H; [reflexivity|].
  cbn [split_dot]. unfold DOT. destruct (Z.eqb_spec c 46) as [Hc|Hc].
  - exfalso. apply H. left. exact Hc.
  - rewrite IH; [reflexivity|]. intro Hin. apply H. right. exact Hin.
Qed.

Lemma split_join ls : ls <> [] -> Forall (fun l => ~ In 46 l) ls -> split_dot (join_dot ls) = ls.
Proof.
  induction ls as [|x ls IH]; intros Hne Hall; [contradiction|].
  inversion Hall as [|x' ls' Hx Hls]; subst.
  destruct ls as [|y r].
  - cbn [join_dot]. apply split_dot_nodot. exact Hx.
  - rewrite join_dot_cons by discriminate. rewrite split_dot_app.
    rewrite split_dot_nodot by exact Hx. rewrite IH; [reflexivity|discriminate|exact Hls].
Qed.

Lemma sjoin_join ls : sjoin ls = join_dot ls.
Proof. induction ls as [|x ls IH]; [reflexivity|]. cbn [sjoin join_dot]. rewrite IH. reflexivity. Qed.

Lemma strip_dot_app s : strip_dot (s ++ [46]) = s.
Proof. unfold strip_dot. rewrite rev_app_distr. cbn [rev app]. apply rev_involutive. Qed.

(* ---------- the datagram under construction ---------- *)
Definition buf (hdr : bytes) (st : enc) : bytes := hdr ++ rev (e_rev st).
Definition SizeOk (st : enc) : Prop := e_size st = 12 + len (e_rev st).

Lemma put_rev st bs : rev (e_rev (put st bs)) = rev (e_rev st) ++ bs.
Proof. cbn [put e_rev]. rewrite rev_append_rev, rev_app_distr, rev_involutive. reflexivity. Qed.

Lemma put_size st bs : e_size (put st bs) = e_size st + len bs.
Proof. reflexivity. Qed.

Lemma put_SizeOk st bs : SizeOk st -> SizeOk (put st bs).
Proof.
  unfold SizeOk, len. intro H. cbn [put e_rev e_size]. rewrite rev_append_rev, app_length, rev_length. lia.
Qed.

Lemma buf_put hdr st bs : buf hdr (put st bs) = buf hdr st ++ bs.
Proof. unfold buf. rewrite put_rev, app_assoc. reflexivity. Qed.

Lemma buf_len hdr st : length hdr = 12%nat -> SizeOk st -> len (buf hdr st) = e_size st.
Proof.
  unfold SizeOk, buf, len. intros Hh Hs. rewrite app_length, rev_length. lia.
Qed.

(* ---------- sbyte / sslice ---------- *)
Lemma sbyte_some d i x : sbyte d i = Some x -> 0 <= i < len d.
Proof.
  unfold sbyte, len. destruct (i <? 0) eqn:E; [discriminate|]. intro H.
  assert (Hn : nth_error d (Z.to_nat i) <> None) by congruence.
  apply nth_error_Some in Hn. lia.
Qed.

Lemma sbyte_app_l d e i x : sbyte d i = Some x -> sbyte (d ++ e) i = Some x.
Proof.
  intro H. pose proof (sbyte_some d i x H) as Hr. unfold sbyte, len in *.
  destruct (i <? 0); [discriminate|]. rewrite nth_error_app1 by lia. exact H.
Qed.

Lemma sbyte_at d x e : sbyte (d ++ x :: e) (len d) = Some x.
Proof.
  unfold sbyte, len. replace (Z.of_nat (length d) <? 0) with false by lia.
  rewrite Nat2Z.id. rewrite nth_error_app2 by lia. rewrite Nat.sub_diag. reflexivity.
Qed.

Lemma sbyte_at' d x e i : i = len d -> sbyte (d ++ x :: e) i = Some x.
Proof. intros ->. apply sbyte_at. Qed.

Lemma sslice_app_l d e a n l : sslice d a n = Some l -> sslice (d ++ e) a n = Some l.
Proof.
  unfold sslice, slen. rewrite app_length.
  destruct ((a <? 0) || (n <? 0) || (Z.of_nat (length d) <? a + n)) eqn:E; [discriminate|].
  intro H. inversion H as [Hl]. clear H.
  replace ((a <? 0) || (n <? 0) || (Z.of_nat (length d + length e) <? a + n)) with false by lia.
  f_equal. rewrite skipn_app_le by lia. rewrite firstn_app_le; [reflexivity|].
  rewrite skipn_length. lia.
Qed.

Lemma sslice_at d l e : sslice (d ++ l ++ e) (len d) (len l) = Some l.
Proof.
  unfold sslice, slen, len. rewrite !app_length.
  replace ((Z.of_nat (length d) <? 0) || (Z.of_nat (length l) <? 0)
           || (Z.of_nat (length d + (length l + length e)) <? Z.of_nat (length d) + Z.of_nat (length l)))
    with false by lia.
  rewrite !Nat2Z.id. rewrite skipn_length_app, firstn_length_app. reflexivity.
Qed.

Lemma sslice_at' d l e a n : a = len d -> n = len l -> sslice (d ++ l ++ e) a n = Some l.
Proof. intros -> ->. apply sslice_at. Qed.

Lemma su16_app_l d e i v : su16 d i = Some v -> su16 (d ++ e) i = Some v.
Proof.
  unfold su16. destruct (sbyte d i) as [h|] eqn:E1; [|discriminate].
  destruct (sbyte d (i + 1)) as [l|] eqn:E2; [|discriminate].
  intro H. rewrite (sbyte_app_l _ _ _ _ E1), (sbyte_app_l _ _ _ _ E2). exact H.
Qed.

(* ---------- the name walk of the strict parser, with the inner loop named ---------- *)
Definition jumper := Z -> list bytes -> option Z -> option (list bytes * Z).

Fixpoint swalk (d : bytes) (jump : option jumper) (fuel : nat) (pos : Z) (acc : list bytes) (endo : option Z)
  {struct fuel} : option (list bytes * Z) :=
  match fuel with
  | O => None
  | S fuel' =>
      match sbyte d pos with
      | None => None
      | Some n =>
          if n =? 0 then Some (acc, match endo with Some e => e | None => pos + 1 end)
          else if n <? 64 then
            match sslice d (pos + 1) n with
            | None => None
            | Some l => swalk d jump fuel' (pos + 1 + n) (acc ++ [l]) endo
            end
          else if n <? 192 then None
          else
            match sbyte d (pos + 1), jump with
            | Some lo, Some j =>
                let target := (n - 192) * 256 + lo in
                if (target <? pos) && (12 <=? target)
                then j target acc (match endo with Some e => Some e | None => Some (pos + 2) end)
                else None
            | _, _ => None
            end
      end
  end.

Definition jump_of (d : bytes) (hops : nat) : option jumper :=
  match hops with O => None | S h => Some (sname_labels d h) end.

Definition inner (d : bytes) (hops : nat) :=
  (fix walk (fuel : nat) (pos : Z) (acc : list bytes) (endo : option Z) {struct fuel} : option (list bytes * Z) :=
       match fuel with
       | O => None
       | S fuel' =>
           match sbyte d pos with
           | None => None
           | Some n =>
               if n =? 0 then Some (acc, match endo with Some e => e | None => pos + 1 end)
               else if n <? 64 then
                 match sslice d (pos + 1) n with
                 | None => None
                 | Some l => walk fuel' (pos + 1 + n) (acc ++ [l]) endo
                 end
               else if n <? 192 then None
               else
                 match sbyte d (pos + 1), hops with
                 | Some lo, S hops' =>
                     let target := (n - 192) * 256 + lo in
                     if (target <? pos) && (12 <=? target)
                     then sname_labels d hops' target acc (match endo with Some e => Some e | None => Some (pos + 2) end)
                     else None
                 | _, _ => None
                 end
           end
       end).

Lemma sname_labels_inner d hops pos acc endo :
  sname_labels d hops pos acc endo = inner d hops (S (length d)) pos acc endo.
Proof. destruct hops; reflexivity. Qed.

Lemma inner_swalk d hops : forall fuel pos acc endo,
  inner d hops fuel pos acc endo = swalk d (jump_of d hops) fuel pos acc endo.
Proof.
  induction fuel as [|f IH]; intros pos acc endo; [reflexivity|].
  unfold inner at 1. fold (inner d hops). cbn [swalk].
  destruct (sbyte d pos) as [n|]; [|reflexivity].
  destruct (n =? 0); [reflexivity|].
  destruct (n <? 64).
  - destruct (sslice d (pos + 1) n) as [l|]; [|reflexivity]. apply IH.
  - destruct (n <? 192); [reflexivity|].
    destruct (sbyte d (pos + 1)) as [lo|]; [|reflexivity].
    destruct hops as [|h]; reflexivity.
Qed.

Lemma sname_labels_eq d hops pos acc endo :
  sname_labels d hops pos acc endo = swalk d (jump_of d hops) (S (length d)) pos acc endo.
Proof. rewrite sname_labels_inner. apply inner_swalk. Qed.

(* ---------- reads: what the walk sees, as a predicate that is monotone in the buffer ---------- *)
Definition label_at (d : bytes) (pos : Z) (l : bytes) : Prop :=
  1 <= len l <= 63 /\ sbyte d pos = Some (len l) /\ sslice d (pos + 1) (len l) = Some l.

Definition ptr_at (d : bytes) (pos target : Z) : Prop :=
  exists hi lo, sbyte d pos = Some hi /\ sbyte d (pos + 1) = Some lo /\ 192 <= hi /\
                target = (hi - 192) * 256 + lo /\ 12 <= target < pos.

(* [reads d pos ls e]: starting at the label byte at [pos] the walk collects exactly [ls]; [e] is the end offset
   it reports when started with endo = None *)
Fixpoint reads (d : bytes) (pos : Z) (ls : list bytes) (e : Z) {struct ls} : Prop :=
  match ls with
  | [] => sbyte d pos = Some 0 /\ e = pos + 1
  | l :: rest =>
      label_at d pos l /\
      (reads d (pos + 1 + len l) rest e \/
       (rest <> [] /\ e = pos + 1 + len l + 2 /\
        exists t e', ptr_at d (pos + 1 + len l) t /\ reads d t rest e'))
  end.

Definition tail_reads (d : bytes) (pos : Z) (ls : list bytes) (e : Z) : Prop :=
  reads d pos ls e \/ (ls <> [] /\ e = pos + 2 /\ exists t e', ptr_at d pos t /\ reads d t ls e').

Lemma reads_cons d pos l rest e :
  reads d pos (l :: rest) e <-> label_at d pos l /\ tail_reads d (pos + 1 + len l) rest e.
Proof. unfold tail_reads. cbn [reads]. tauto. Qed.

Lemma label_at_app d x pos l : label_at d pos l -> label_at (d ++ x) pos l.
Proof.
  intros (H1 & H2 & H3). split; [exact H1|]. split; [apply sbyte_app_l; exact H2|apply sslice_app_l; exact H3].
Qed.

Lemma ptr_at_app d x pos t : ptr_at d pos t -> ptr_at (d ++ x) pos t.
Proof.
  intros (hi & lo & H1 & H2 & H3). exists hi, lo.
  split; [apply sbyte_app_l; exact H1|]. split; [apply sbyte_app_l; exact H2|exact H3].
Qed.

Lemma reads_app d x : forall ls pos e, reads d pos ls e -> reads (d ++ x) pos ls e.
Proof.
  induction ls as [|l rest IH]; intros pos e H.
  - destruct H as [H1 H2]. split; [apply sbyte_app_l; exact H1|exact H2].
  - cbn [reads] in *. destruct H as [Hl Ht]. split; [apply label_at_app; exact Hl|].
    destruct Ht as [Ht|(Hne & He & t & e' & Hp & Hr)].
    + left. apply IH. exact Ht.
    + right. split; [exact Hne|]. split; [exact He|]. exists t, e'.
      split; [apply ptr_at_app; exact Hp|apply IH; exact Hr].
Qed.

Lemma tail_reads_app d x ls pos e : tail_reads d pos ls e -> tail_reads (d ++ x) pos ls e.
Proof.
  intros [H|(Hne & He & t & e' & Hp & Hr)].
  - left. apply reads_app. exact H.
  - right. split; [exact Hne|]. split; [exact He|]. exists t, e'.
    split; [apply ptr_at_app; exact Hp|apply reads_app; exact Hr].
Qed.

Lemma reads_pos d pos ls e : reads d pos ls e -> 0 <= pos < len d.
Proof.
  destruct ls as [|l rest]; cbn [reads].
  - intros [H _]. apply (sbyte_some _ _ _ H).
  - intros [(_ & H & _) _]. apply (sbyte_some _ _ _ H).
Qed.

(* the walk follows [reads] *)
Lemma reads_swalk d : forall ls,
  (forall pos e hops fuel acc endo, reads d pos ls e -> (length ls <= S hops)%nat -> len d - pos < Z.of_nat fuel ->
     swalk d (jump_of d hops) fuel pos acc endo = Some (acc ++ ls, match endo with Some x => x | None => e end)) /\
  (forall pos e hops fuel acc endo, tail_reads d pos ls e -> (length ls <= hops)%nat -> len d - pos < Z.of_nat fuel ->
     swalk d (jump_of d hops) fuel pos acc endo = Some (acc ++ ls, match endo with Some x => x | None => e end)).
Proof.
  induction ls as [|l rest IH].
  - assert (R : forall pos e hops fuel acc endo, reads d pos [] e -> len d - pos < Z.of_nat fuel ->
       swalk d (jump_of d hops) fuel pos acc endo = Some (acc ++ [], match endo with Some x => x | None => e end)).
    { intros pos e hops fuel acc endo [H1 H2] Hf. pose proof (sbyte_some _ _ _ H1) as Hp.
      destruct fuel as [|f]; [lia|]. cbn [swalk]. rewrite H1. cbn [Z.eqb]. rewrite app_nil_r. subst e. reflexivity. }
    split.
    + intros pos e hops fuel acc endo H _ Hf. apply R; assumption.
    + intros pos e hops fuel acc endo [H|(Hne & _)] _ Hf; [apply R; assumption|contradiction].
  - destruct IH as [_ IHt].
    assert (R : forall pos e hops fuel acc endo, reads d pos (l :: rest) e -> (length (l :: rest) <= S hops)%nat ->
       len d - pos < Z.of_nat fuel ->
       swalk d (jump_of d hops) fuel pos acc endo = Some (acc ++ l :: rest, match endo with Some x => x | None => e end)).
    { intros pos e hops fuel acc endo H Hh Hf. apply reads_cons in H. destruct H as [(Hl1 & Hl2 & Hl3) Ht].
      pose proof (sbyte_some _ _ _ Hl2) as Hp.
      destruct fuel as [|f]; [lia|]. cbn [swalk]. rewrite Hl2.
      replace (len l =? 0) with false by lia. replace (len l <? 64) with true by lia.
      rewrite Hl3. rewrite (IHt _ e hops f (acc ++ [l]) endo Ht).
      - rewrite <- app_assoc. reflexivity.
      - cbn [length] in Hh. lia.
      - lia. }
    split; [exact R|].
    intros pos e hops fuel acc endo [H|(Hne & He & t & e' & Hp & Hr)] Hh Hf.
    + apply R; [exact H|lia|exact Hf].
    + destruct Hp as (hi & lo & Hb1 & Hb2 & Hhi & Ht & Hrange).
      pose proof (sbyte_some _ _ _ Hb1) as Hp.
      destruct fuel as [|f]; [lia|]. cbn [swalk]. rewrite Hb1.
      replace (hi =? 0) with false by lia. replace (hi <? 64) with false by lia.
      replace (hi <? 192) with false by lia. rewrite Hb2.
      destruct hops as [|h]; [cbn [length] in Hh; lia|]. cbn [jump_of].
      cbv zeta. rewrite <- Ht.
      replace ((t <? pos) && (12 <=? t)) with true by lia.
      rewrite sname_labels_eq.
      rewrite (R t e' h (S (length d)) acc _ Hr); [|cbn [length] in *; lia|unfold len; lia].
      destruct endo as [x|]; [reflexivity|]. subst e. reflexivity.
Qed.

Lemma tail_reads_sname_labels d pos ls e :
  tail_reads d pos ls e -> (length ls <= 128)%nat -> 0 <= pos ->
  sname_labels d 128 pos [] None = Some (ls, e).
Proof.
  intros H Hl Hp. rewrite sname_labels_eq.
  destruct (reads_swalk d ls) as [_ Ht].
  rewrite (Ht pos e 128%nat (S (length d)) [] None H Hl); [reflexivity|unfold len; lia].
Qed.

(* ---------- well-formedness ---------- *)
Definition wf_label (l : text) : Prop :=
  l <> [] /\ scalar_text l = true /\ ~ In 46 l /\ ulen l <= 63.

(* [n] is the dotted text with trailing dot of the non-empty label list [ls] *)
Definition name_of (ls : list text) : text := join_dot ls ++ [46].

Definition wf_labels (ls : list text) : Prop :=
  ls <> [] /\ Forall wf_label ls /\ (length ls <= 128)%nat /\ len (name_of ls) <= 253 /\
  wire_len (map u8 ls) <= 255.

Definition wf_name (n : text) : Prop := exists ls, n = name_of ls /\ wf_labels ls.

Lemma wf_label_enc_ok l : wf_label l -> enc_ok l.
Proof. intros (_ & H & _). apply scalar_enc_ok. exact H. Qed.

Lemma wf_label_len l : wf_label l -> 1 <= ulen l <= 63.
Proof.
  intros (Hne & Hs & _ & Hl). split; [|exact Hl].
  pose proof (u8_nonempty l Hne (scalar_enc_ok l Hs)) as Hn. unfold ulen, len.
  destruct (u8 l); [contradiction|cbn [length]; lia].
Qed.

Lemma wf_labels_nodot ls : Forall wf_label ls -> Forall (fun l => ~ In 46 l) ls.
Proof. intro H. eapply Forall_impl; [|exact H]. intros l (_ & _ & Hd & _). exact Hd. Qed.

Lemma join_enc_ok ls : Forall wf_label ls -> enc_ok (join_dot ls).
Proof.
  induction ls as [|l ls IH]; intro H; [reflexivity|].
  inversion H as [|l' ls' Hl Hls]; subst.
  destruct ls as [|y r]; [apply wf_label_enc_ok; exact Hl|].
  rewrite join_dot_cons by discriminate.
  apply enc_ok_app; [apply wf_label_enc_ok; exact Hl|]. apply enc_ok_dot_cons. apply IH. exact Hls.
Qed.

Lemma join_ulen l r : r <> [] -> Forall wf_label (l :: r) ->
  ulen (join_dot (l :: r)) = ulen l + 1 + ulen (join_dot r).
Proof.
  intros Hne H. inversion H as [|l' ls' Hl Hls]; subst.
  rewrite join_dot_cons by exact Hne. unfold ulen.
  pose proof (join_enc_ok r Hls) as Hr.
  destruct (enc_ok_dot_cons _ Hr) as [Hd Hd'].
  destruct (enc_ok_app l (DOT :: join_dot r) (wf_label_enc_ok l Hl) Hd) as [_ Happ].
  rewrite Happ. unfold DOT in *. rewrite Hd'. unfold len. rewrite app_length. cbn [length]. lia.
Qed.

Lemma join_length_lt (l : text) (r : list text) : l <> [] -> (length (join_dot r) < length (join_dot (l :: r)))%nat.
Proof.
  intro Hl. destruct r as [|y r].
  - cbn [join_dot length]. destruct l; [contradiction|cbn [length]; lia].
  - rewrite (join_dot_cons l (y :: r)) by discriminate. rewrite app_length. cbn [length]. lia.
Qed.

(* ---------- the compression dictionary invariant ---------- *)
Definition Valid (d : bytes) (n : text) (idx : Z) : Prop :=
  12 <= idx /\ exists e, reads d idx (map u8 (split_dot n)) e.

Definition NamesOk (hdr : bytes) (st : enc) : Prop :=
  length hdr = 12%nat /\ SizeOk st /\
  forall n idx, In (n, idx) (e_names st) -> Valid (buf hdr st) n idx.

Lemma Valid_app d x n idx : Valid d n idx -> Valid (d ++ x) n idx.
Proof. intros [H1 [e H2]]. split; [exact H1|]. exists e. apply reads_app. exact H2. Qed.

Lemma Valid_lt d n idx : Valid d n idx -> idx < len d.
Proof. intros [_ [e H]]. apply reads_pos in H. lia. Qed.

(* dictionary facts *)
Lemma d_get_In (d : list (text * Z)) n idx : d_get text_eqb d n = Some idx -> In (n, idx) d.
Proof.
  induction d as [|[k v] d IH]; cbn [d_get]; [discriminate|].
  destruct (text_eqb k n) eqn:E.
  - intro H. inversion H; subst. apply text_eqb_eq in E. subst. left. reflexivity.
  - intro H. right. apply IH. exact H.
Qed.

Lemma d_set_In (d : list (text * Z)) k v n idx :
  In (n, idx) (d_set text_eqb d k v) -> In (n, idx) d \/ (n = k /\ idx = v).
Proof.
  induction d as [|[k' v'] d IH]; cbn [d_set].
  - intros [H|[]]. inversion H. right. split; reflexivity.
  - destruct (text_eqb k' k) eqn:E.
    + intros [H|H].
      * inversion H; subst. apply text_eqb_eq in E. right. split; [exact E|reflexivity].
      * left. right. exact H.
    + intros [H|H].
      * left. left. exact H.
      * destruct (IH H) as [H'|H']; [left; right; exact H'|right; exact H'].
Qed.

Lemma names_get_nonzero st n idx : names_get st n = idx -> idx <> 0 -> In (n, idx) (e_names st).
Proof.
  unfold names_get. destruct (d_get text_eqb (e_names st) n) as [i|] eqn:E; intros H Hnz.
  - subst. apply d_get_In. exact E.
  - congruence.
Qed.

(* ---------- compression pointer bytes ---------- *)
Definition link_ok (i : Z) : bool :=
  let hi := Z.lor (Z.shiftr i 8) 192 in
  let lo := Z.land i 255 in
  (192 <=? hi) && (hi <=? 255) && (0 <=? lo) && (lo <=? 255) && ((hi - 192) * 256 + lo =? i).

Lemma link_sweep : all_below (Z.to_nat 16384) link_ok = true.
Proof. vm_compute. reflexivity. Qed.

Lemma link_bytes i : 0 <= i < 16384 ->
  let hi := Z.lor (Z.shiftr i 8) 192 in
  let lo := Z.land i 255 in
  192 <= hi <= 255 /\ 0 <= lo <= 255 /\ (hi - 192) * 256 + lo = i.
Proof.
  intro H. pose proof (all_below_spec _ _ link_sweep i) as Hs.
  assert (Hi : 0 <= i < Z.of_nat (Z.to_nat 16384)) by (rewrite Z2Nat.id; lia).
  specialize (Hs Hi). unfold link_ok in Hs. cbv zeta in *.
  repeat (apply andb_true_iff in Hs; destruct Hs as [Hs ?]).
  lia.
Qed.
