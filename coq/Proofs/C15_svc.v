(* C15 (helper): RegEncodable - the registry only holds services whose records the encoder can write - with a
   field-level sufficient condition and a boolean checker (non-vacuity, examples). *)
From Coq Require Import ZArith List Bool Lia ZifyBool.
From ZC Require Import Model.Base Model.PyRec Model.Dict Model.Re Model.Utf8 Model.Names Model.Cache Model.Respond Model.WireEnc
  Gen.Const Gen.DnsPure Spec.AnswerSpec.
From ZC Require Import Proofs.C01_utf8 Proofs.C01_defs Proofs.C15_enc Proofs.C15_resp.
Import ListNotations.
Open Scope Z_scope.
Ltac Zify.zify_post_hook ::= Z.to_euclidean_division_equations.

(* every record the responder can emit for a registered service (svc_records: the service-type enumeration pointer,
   dns_pointer, dns_service, dns_text, the addresses and the NSEC record) is encodable: names of at most 253 characters
   without lone surrogates and with labels of at most 63 UTF-8 bytes, 16-bit port / weight / priority, 32-bit TTLs,
   rdata of at most 65535 bytes *)
Definition RegEncodable (g : registry) : Prop :=
  forall s, In s (registered g) -> Forall rec_encodable (svc_records s).

(* ---- lower-casing does not change encodability ---- *)
Lemma lower_cp_dot c : (lower_cp c =? 46) = (c =? 46).
Proof. unfold lower_cp. destruct ((65 <=? c) && (c <=? 90)) eqn:E; lia. Qed.

Lemma lower_cp_nsur c : is_surrogate c = false -> is_surrogate (lower_cp c) = false.
Proof. unfold lower_cp, is_surrogate. destruct ((65 <=? c) && (c <=? 90)) eqn:E; lia. Qed.

Lemma lower_nsur s : nsur s -> nsur (lower s).
Proof. intro H. induction H as [|c s Hc Hs IH]; [constructor|]. constructor; [apply lower_cp_nsur; exact Hc|exact IH]. Qed.

Lemma lower_cp_len c : length (utf8_cp (lower_cp c)) = length (utf8_cp c).
Proof.
  unfold lower_cp. destruct ((65 <=? c) && (c <=? 90)) eqn:E; [|reflexivity].
  unfold utf8_cp. destruct (c + 32 <? 128) eqn:E1; [|lia]. destruct (c <? 128) eqn:E2; [reflexivity|lia].
Qed.

Lemma ulen_lower s : nsur s -> ulen (lower s) = ulen s.
Proof.
  intro H. induction H as [|c s Hc Hs IH]; [reflexivity|].
  change (lower (c :: s)) with (lower_cp c :: lower s).
  rewrite ulen_cons by (try apply lower_cp_nsur; try apply lower_nsur; assumption).
  rewrite ulen_cons by assumption. unfold len. rewrite lower_cp_len, IH. reflexivity.
Qed.

Lemma split_dot_lower s : split_dot (lower s) = map lower (split_dot s).
Proof.
  induction s as [|c s IH]; [reflexivity|].
  change (lower (c :: s)) with (lower_cp c :: lower s). cbn [split_dot]. unfold DOT. rewrite lower_cp_dot, IH.
  destruct (c =? 46); [reflexivity|]. destruct (split_dot s); reflexivity.
Qed.

Lemma ends_with_dot_dec (n : text) : (exists r, n = r ++ [46]) \/ (forall r, n <> r ++ [46]).
Proof.
  destruct (rev n) as [|c r] eqn:E.
  - right. intros r0 H. rewrite H, rev_app_distr in E. discriminate.
  - assert (En : n = rev r ++ [c]) by (rewrite <- (rev_involutive n), E; reflexivity).
    destruct (Z.eq_dec c 46) as [->|Hc]; [left; exists (rev r); exact En|].
    right. intros r0 H. rewrite H in En. apply app_inj_tail in En as [_ En]. congruence.
Qed.

Lemma strip_dot_nodot n : (forall r, n <> r ++ [46]) -> strip_dot n = n.
Proof.
  intro H. unfold strip_dot. destruct (rev n) as [|c r] eqn:E; [reflexivity|].
  assert (En : n = rev r ++ [c]) by (rewrite <- (rev_involutive n), E; reflexivity).
  assert (Hc : c <> 46) by (intros ->; exact (H _ En)).
  destruct c as [|p|p]; try reflexivity.
  repeat (destruct p as [p|p|]; try reflexivity). exfalso. apply Hc. reflexivity.
Qed.

Lemma strip_dot_lower n : strip_dot (lower n) = lower (strip_dot n).
Proof.
  destruct (ends_with_dot_dec n) as [[r ->]|H].
  - unfold lower. rewrite map_app. cbn [map]. change (lower_cp 46) with 46. rewrite !strip_dot_app. reflexivity.
  - rewrite (strip_dot_nodot n H). apply strip_dot_nodot. intros r E.
    destruct (rev n) as [|c x] eqn:Er.
    + assert (n = []) by (rewrite <- (rev_involutive n), Er; reflexivity). subst n. destruct r; discriminate E.
    + assert (En : n = rev x ++ [c]) by (rewrite <- (rev_involutive n), Er; reflexivity).
      rewrite En in E. unfold lower in E. rewrite map_app in E. cbn [map] in E.
      apply app_inj_tail in E as [_ E]. pose proof (lower_cp_dot c) as Hd. rewrite E in Hd. cbn in Hd.
      symmetry in Hd. apply Z.eqb_eq in Hd. subst c. exact (H _ En).
Qed.

Lemma encodable_lower n : encodable_name n -> encodable_name (lower n).
Proof.
  intros [[Hns Hlen] Hlab]. split; [split|].
  - apply lower_nsur. exact Hns.
  - unfold len, lower in *. rewrite map_length. exact Hlen.
  - rewrite strip_dot_lower, split_dot_lower.
    destruct (nsur_strip n Hns) as [Hs _]. pose proof (nsur_split _ Hs) as Hsp.
    revert Hlab Hsp. generalize (split_dot (strip_dot n)) as ls. induction ls as [|l ls IH]; intros Hlab Hsp; [constructor|].
    inversion Hlab as [|x y Hl Hls]; subst x y. inversion Hsp as [|x y Hn Hns']; subst x y.
    cbn [map]. constructor; [rewrite ulen_lower by exact Hn; exact Hl|apply IH; assumption].
Qed.

(* ---- a boolean checker ---- *)
Definition nsurb (s : text) : bool := forallb (fun c => negb (is_surrogate c)) s.
Definition encodable_nameb (n : text) : bool :=
  nsurb n && (len n <=? 253) && forallb (fun l => ulen l <=? 63) (split_dot (strip_dot n)).

Lemma nsurb_ok s : nsurb s = true -> nsur s.
Proof.
  unfold nsurb, nsur. intro H. apply Forall_forall. intros c Hc.
  rewrite forallb_forall in H. specialize (H c Hc). apply negb_true_iff in H. exact H.
Qed.

Lemma encodable_nameb_ok n : encodable_nameb n = true -> encodable_name n.
Proof.
  unfold encodable_nameb. intro H. apply andb_true_iff in H as [H H3]. apply andb_true_iff in H as [H1 H2].
  split; [split; [apply nsurb_ok; exact H1|lia]|].
  apply Forall_forall. intros l Hl. rewrite forallb_forall in H3. specialize (H3 l Hl). lia.
Qed.

Lemma enum_name_encodable : encodable_name C_SERVICE_TYPE_ENUMERATION_NAME.
Proof. apply encodable_nameb_ok. vm_compute. reflexivity. Qed.

(* ---- the field-level condition ---- *)
Definition svc_fields_ok (s : svc) : Prop :=
  encodable_name (s_type s) /\ encodable_name (s_name s) /\ encodable_name (s_server s) /\
  u16 (s_port s) /\ u16 (s_weight s) /\ u16 (s_priority s) /\ u32 (s_host_ttl s) /\ u32 (s_other_ttl s) /\
  len (s_text s) <= 65535 /\ Forall (fun a => len a <= 65535) (s_v4 s ++ s_v6 s).

Lemma missing_types_range seen : Forall (fun t => 0 <= t <= 255) (missing_types seen).
Proof.
  unfold missing_types. apply Forall_forall. intros t Ht. apply filter_In in Ht as [Ht _].
  unfold C_ADDRESS_RECORD_TYPES in Ht. cbn [In] in Ht. destruct Ht as [<-|[<-|[]]]; lia.
Qed.

Theorem svc_fields_encodable : forall s, svc_fields_ok s -> Forall rec_encodable (svc_records s).
Proof.
  intros s (Hty & Hnm & Hsrv & Hpo & Hw & Hpr & Hh & Ho & Htx & Had).
  assert (T12 : u16 C_TYPE_PTR) by (unfold u16, C_TYPE_PTR; lia).
  assert (Hother : u32 C_DNS_OTHER_TTL) by (unfold u32, C_DNS_OTHER_TTL; lia).
  unfold svc_records. cbn [app].
  constructor.
  { unfold rec_encodable, enum_pointer; cbn. split; [exact enum_name_encodable|]. split; [exact T12|].
    split; [exact Hother|]. apply encodable_lower. exact Hty. }
  constructor.
  { unfold rec_encodable, dns_pointer; cbn. repeat split; try assumption; try apply Hty; try apply Hnm; try apply Ho; apply T12. }
  constructor.
  { unfold rec_encodable, dns_service; cbn. unfold u16, C_TYPE_SRV. repeat split; try apply Hnm; try apply Hsrv; try apply Hh;
      try apply Hpr; try apply Hw; try apply Hpo; lia. }
  constructor.
  { unfold rec_encodable, dns_text; cbn. unfold u16, C_TYPE_TXT. repeat split; try apply Hnm; try apply Ho; try exact Htx; lia. }
  unfold address_and_nsec. cbv zeta. apply Forall_app. split.
  - unfold dns_addresses. apply Forall_app in Had as [H4 H6]. apply Forall_app. split.
    + apply Forall_forall. intros r Hr. apply in_map_iff in Hr as (a & <- & Ha). rewrite Forall_forall in H4.
      unfold rec_encodable; cbn. unfold u16, C_TYPE_A. repeat split; try apply Hsrv; try apply Hh; try (apply H4; exact Ha); lia.
    + apply Forall_forall. intros r Hr. apply in_map_iff in Hr as (a & <- & Ha). rewrite Forall_forall in H6.
      unfold rec_encodable; cbn. unfold u16, C_TYPE_AAAA. repeat split; try apply Hsrv; try apply Hh; try (apply H6; exact Ha); lia.
  - set (miss := missing_types (map p_type_ (dns_addresses s))).
    assert (Hrange : Forall (fun t => 0 <= t <= 255) miss) by apply missing_types_range.
    clearbody miss. destruct (nonempty miss) eqn:Ene; [|constructor].
    constructor; [|constructor].
    unfold rec_encodable, dns_nsec; cbn [p_name p_type_ p_ttl p_kind p_next_name p_rdtypes set_nsec blank]. unfold u16, C_TYPE_NSEC.
    split; [exact Hnm|]. split; [lia|]. split; [exact Hh|]. split; [exact Hnm|]. split.
    + apply sorted_ne. destruct miss; [discriminate Ene|discriminate].
    + apply sorted_Forall. exact Hrange.
Qed.

Corollary RegEncodable_fields g : (forall s, In s (registered g) -> svc_fields_ok s) -> RegEncodable g.
Proof. intros H s Hs. apply svc_fields_encodable. apply H. exact Hs. Qed.

Definition svc_fields_okb (s : svc) : bool :=
  encodable_nameb (s_type s) && encodable_nameb (s_name s) && encodable_nameb (s_server s) &&
  (0 <=? s_port s) && (s_port s <=? 65535) && (0 <=? s_weight s) && (s_weight s <=? 65535) &&
  (0 <=? s_priority s) && (s_priority s <=? 65535) && (0 <=? s_host_ttl s) && (s_host_ttl s <=? 4294967295) &&
  (0 <=? s_other_ttl s) && (s_other_ttl s <=? 4294967295) && (len (s_text s) <=? 65535) &&
  forallb (fun a => len a <=? 65535) (s_v4 s ++ s_v6 s).

Opaque encodable_nameb.
Lemma svc_fields_okb_ok s : svc_fields_okb s = true -> svc_fields_ok s.
Proof.
  unfold svc_fields_okb. intro H. repeat (apply andb_true_iff in H; destruct H as [H ?]).
  unfold svc_fields_ok, u16, u32. repeat split; try (apply encodable_nameb_ok; assumption); try lia.
  apply Forall_forall. intros a Ha.
  match goal with H' : forallb _ _ = true |- _ => rewrite forallb_forall in H'; specialize (H' a Ha) end. lia.
Qed.

Transparent encodable_nameb.

Print Assumptions encodable_lower.
Print Assumptions svc_fields_encodable.
