(* C15 - liveness half: "... and the instance keeps working: a well-formed query sent afterwards is still answered".
   Helper files: C15_a1.v (the query datagram and its decoding), C15_a2.v (the responder on the single SRV question of a
   registered service), C15_a3.v (interning, async_add, when a queue lets a record out). *)
From Coq Require Import ZArith List Bool Lia ZifyBool Sorted.
From ZC Require Import Model.Base Model.PyRec Model.Dict Model.Re Model.Utf8 Model.Names Model.Cache Model.Ingest Model.Respond Model.Route
  Model.WireDec Model.WireEnc Model.OutQueue Model.Register Model.Listener Model.Node Model.Front
  Spec.Rfc1035 Gen.Const Gen.Extra Gen.DnsPure Gen.Shapes Spec.CacheSpec Spec.AnswerSpec.
From ZC Require Import Proofs.C01_defs Proofs.C01_record Proofs.C03_reg Proofs.C03_respond Proofs.C11_lemmas Proofs.C11_route
  Proofs.C12_lemmas Proofs.C12_queue Proofs.C15_enc Proofs.C15_dec Proofs.C15_resp Proofs.C15_svc Proofs.C15_front
  Proofs.C15_a1 Proofs.C15_a2 Proofs.C15_a3 Proofs.C15_a4 Proofs.C15_a5.
Import ListNotations.
Open Scope Z_scope.
Ltac Zify.zify_post_hook ::= Z.to_euclidean_division_equations.

(* ================================================================================================ *)
(* 1. the query datagram                                                                             *)

Theorem query_datagram : forall name ty now, wf_name name -> In ty [C_TYPE_SRV; C_TYPE_TXT; C_TYPE_A; C_TYPE_AAAA; C_TYPE_PTR; C_TYPE_ANY] ->
  let q := mkq name ty in                       (* blank KQuestion name ty C_CLASS_IN 0 *)
  let m := query_msg q in                       (* flags = C_FLAGS_QR_QUERY, multicast, id 0, questions = [q], no records *)
  let data := query_bytes q in
  packets m = Ok [data] /\ Forall is_byte data /\ Z.of_nat (length data) <= C_MAX_MSG_ABSOLUTE /\
  let p := parse data now None FRAMES in
  let lm := lmsg_of data p in
  m_valid p = true /\ m_escaped p = None /\ m_id p = 0 /\
  lm_valid lm = true /\ lm_is_query lm = true /\ lm_truncated lm = false /\ lm_has_qu lm = false /\
  m_questions p = [q_seen now name ty] /\ m_answers p = [] /\
  qmsg_of p now = {| qm_questions := [q_seen now name ty]; qm_answers := []; qm_is_probe := false; qm_now := now |}.
Proof.
  intros name ty now Hwf Hty. cbv zeta.
  assert (Hu : u16 ty).
  { unfold u16. cbn [In] in Hty. unfold C_TYPE_SRV, C_TYPE_TXT, C_TYPE_A, C_TYPE_AAAA, C_TYPE_PTR, C_TYPE_ANY in Hty. lia. }
  destruct (query_datagram_a1 name ty now Hwf Hu) as (H1 & H2 & H3 & H4). cbv zeta in H4.
  destruct H4 as (V & E & F & I & A & Q & R).
  split; [exact H1|]. split; [exact H2|]. split; [exact H3|]. cbv zeta.
  unfold lmsg_of, qmsg_of. cbn [lm_valid lm_is_query lm_truncated lm_has_qu].
  rewrite V, E, F, I, A, Q, R. repeat split.
Qed.

(* ================================================================================================ *)
(* 2. a registered service is still answered                                                         *)

Lemma srv_q_seen now name : q_seen now name C_TYPE_SRV = srv_q now name.
Proof. reflexivity. Qed.

(* the front end hands the decoded question to the query handler, alone, with the id of the datagram (0) *)
Lemma srv_query_reaches_handler : forall f s name addr port now tc rq rd,
  In s (registered (n_reg (f_node f))) -> wf_name name ->
  let data := query_bytes (mkq name C_TYPE_SRV) in
  is_duplicate (f_ls f) data now = false -> d_get text_eqb (ls_deferred (f_ls f)) addr = None ->
  f_node (fst (fstep f (FDatagram data addr port now tc rq rd))) =
    fst (nstep (f_node f) (LQuery now [srv_qmsg now name] 0 addr port rq rd)) /\
  snd (fstep f (FDatagram data addr port now tc rq rd)) =
    send_gate (snd (nstep (f_node f) (LQuery now [srv_qmsg now name] 0 addr port rq rd))).
Proof.
  intros f s name addr port now tc rq rd Hs Hwf data Hdup Hdef.
  destruct (query_datagram name C_TYPE_SRV now Hwf ltac:(left; reflexivity)) as (_ & Hb & Hsz & H). cbv zeta in H.
  destruct H as (_ & _ & Hid & L1 & L2 & L3 & L4 & _ & _ & HQ). fold data in Hb, Hsz, Hid, L1, L2, L3, L4, HQ.
  rewrite (fstep_datagram_unfold f data addr port now tc rq rd Hb Hsz Hdup). cbv zeta.
  unfold msgs_after, waiting. rewrite Hdef.
  set (p := parse data now None FRAMES) in *.
  assert (HD : datagram (f_ls f) (lmsg_of data p) addr now (nonempty (g_services (n_reg (f_node f)))) tc =
               (set_deferred {| ls_data := Some data; ls_last_time := now; ls_last_msg := Some false;
                                ls_deferred := ls_deferred (f_ls f); ls_timers := ls_timers (f_ls f) |}
                             (d_del text_eqb (ls_deferred (f_ls f)) addr) (d_del text_eqb (ls_timers (f_ls f)) addr),
                ORespond addr [lmsg_of data p])).
  { unfold datagram. cbv zeta. rewrite L1, L2, L3, L4. rewrite (registered_nonempty _ s Hs).
    change (lm_data (lmsg_of data p)) with data.
    destruct (Z.of_nat (length data) >? C_MAX_MSG_ABSOLUTE) eqn:E1; [lia|]. rewrite Hdup. cbn [negb].
    unfold respond_query. cbn [ls_deferred ls_timers]. rewrite Hdef. reflexivity. }
  rewrite HD. unfold respond. change (lm_data (lmsg_of data p)) with data. cbn [flat_map].
  rewrite bset_get_same. cbn [app map fst]. rewrite Hid, HQ, srv_q_seen. fold (srv_qmsg now name).
  destruct (nstep (f_node f) (LQuery now [srv_qmsg now name] 0 addr port rq rd)) as [n' outs]. split; reflexivity.
Qed.

(* the two replies: their answer section is exactly the SRV record of the service (TTL field = s_host_ttl, stored with now = 0),
   the unicast one echoes the id and the question; both are written by the encoder *)
Lemma srv_multicast_shape s :
  o_answers (srv_multicast s) = [(dns_service s, 0)] /\ o_questions (srv_multicast s) = [] /\ o_id (srv_multicast s) = 0 /\
  o_multicast (srv_multicast s) = true /\ o_flags (srv_multicast s) = 33792 /\ ttl_field (dns_service s) 0 = s_host_ttl s.
Proof. repeat split. Qed.

Lemma srv_unicast_shape s now name id :
  o_answers (srv_unicast s now name id) = [(dns_service s, 0)] /\ o_questions (srv_unicast s now name id) = [srv_q now name] /\
  o_id (srv_unicast s now name id) = id /\ o_multicast (srv_unicast s now name id) = false /\ o_flags (srv_unicast s now name id) = 33792.
Proof. repeat split. Qed.

Lemma srv_answer_AS g s : RegEncodable g -> In s (registered g) -> AS rec_encodable (srv_answer s).
Proof.
  intros HE Hs r adds [H|[]]. inversion H; subst r adds. specialize (HE s Hs). unfold svc_records in HE.
  apply Forall_app in HE as [H4 Ha]. split; [|exact Ha].
  inversion H4 as [|x1 l1 _ H3]; subst. inversion H3 as [|x2 l2 _ H2]; subst. inversion H2 as [|x3 l3 Hsrv _]; subst. exact Hsrv.
Qed.

Lemma srv_multicast_packets g s : RegEncodable g -> In s (registered g) -> exists ps, packets (srv_multicast s) = Ok ps.
Proof.
  intros HE Hs. apply packets_encodable.
  pose proof (construct_multicast_good rec_encodable (srv_answer s) (srv_answer_AS g s HE Hs)) as G. cbv zeta in G.
  fold (srv_multicast s) in G. destruct G as (Gq & Ga & Gu & Gd & Gf & Gi).
  unfold msg_encodable, hdr_ok. rewrite Gf, Gi, Gu, Gq. split; [split; [exact flags_resp_u16|unfold u16; lia]|].
  split; [constructor|]. split; [apply good_answers_enc; exact Ga|]. split; [constructor|exact Gd].
Qed.

Lemma srv_unicast_packets g s now name : RegEncodable g -> In s (registered g) -> wf_name name ->
  exists ps, packets (srv_unicast s now name 0) = Ok ps.
Proof.
  intros HE Hs Hwf. apply packets_encodable.
  pose proof (construct_unicast_good rec_encodable (srv_answer s) true [srv_q now name] 0 (srv_answer_AS g s HE Hs)) as G.
  cbv zeta in G. fold (srv_unicast s now name 0) in G. destruct G as (_ & Ga & Gu & Gd & Gf & Gi).
  unfold msg_encodable, hdr_ok. rewrite Gf, Gi, Gu. split; [split; [exact flags_resp_u16|unfold u16; lia]|].
  split.
  { destruct (srv_unicast_shape s now name 0) as (_ & -> & _). constructor; [|constructor].
    split; [exact (wf_name_encodable name Hwf)|unfold u16; change (p_type_ (srv_q now name)) with 33; lia]. }
  split; [apply good_answers_enc; exact Ga|]. split; [constructor|exact Gd].
Qed.

Lemma send_gate_ok_cons t dest m ps rest : packets m = Ok ps -> send_gate (OSend t dest m :: rest) = OSend t dest m :: send_gate rest.
Proof. intro H. unfold send_gate. cbn [flat_map]. rewrite H. reflexivity. Qed.

Lemma send_gate_nil : send_gate [] = [].
Proof. reflexivity. Qed.

(* the general form: any source port.  f is any state reached by a legitimate run (datagrams of any bytes, pending timers,
   node labels keeping the registry encodable); the service is registered, the instance not closed; the question may spell the
   name in any case.  The unicast part exists iff the source port is not 5353; the SRV record is multicast at once, unless it
   was seen on the wire less than a second ago (last_second: C11_recent) - then it is queued in the protected queue. *)
Theorem still_answered_general : forall ls s name addr port now tc rq rd,
  run_ok fnode_init ls ->
  let f := fstate fnode_init ls in
  let n := f_node f in
  In s (registered (n_reg n)) -> n_done n = false -> wf_name name -> lower name = s_key s ->
  let data := query_bytes (mkq name C_TYPE_SRV) in
  is_duplicate (f_ls f) data now = false -> d_get text_eqb (ls_deferred (f_ls f)) addr = None ->
  let l := FDatagram data addr port now tc rq rd in
  let n' := f_node (fst (fstep f l)) in
  let u := if negb (port =? C_MDNS_PORT) then [OSend now (Some (addr, port)) (srv_unicast s now name 0)] else [] in
  (last_second (n_cache n) now (dns_service s) = false ->
     snd (fstep f l) = u ++ [OSend now None (srv_multicast s)] /\ n' = n) /\
  (last_second (n_cache n) now (dns_service s) = true ->
     snd (fstep f l) = u /\ n_q n' = n_q n /\ (exists ext, n_tbl n' = n_tbl n ++ ext) /\
     exists k ids, names_id (n_tbl n') k (dns_service s) /\
                   n_qd n' = async_add (n_qd n) now now rd [(k, ids)] /\ queued k (n_qd n')).
Proof.
  intros ls s name addr port now tc rq rd Hr f n Hs Hd Hwf Hn data Hdup Hdef l n' u.
  pose proof (Good_run ls fnode_init Good_init Hr) as (_ & _ & HJ & _ & HE). fold f in HJ, HE. fold n in HJ, HE.
  pose proof (J_RegInv _ HJ) as HI.
  destruct (srv_query_reaches_handler f s name addr port now tc rq rd Hs Hwf Hdup Hdef) as [En Eo].
  fold data in En, Eo. fold l in En, Eo. fold n' in En. fold n in En, Eo.
  pose proof (srv_strategies (n_reg n) s now name Hn (registered_lookup _ s HI Hs)) as Hst.
  rewrite (srv_nstep n s now name 0 addr port rq rd Hst Hd) in En, Eo. cbv zeta in En, Eo. fold u in En, Eo.
  destruct (srv_multicast_packets _ s HE Hs) as [psm Hpm].
  destruct (srv_unicast_packets _ s now name HE Hs Hwf) as [psu Hpu].
  assert (Hu : send_gate u = u).
  { unfold u. destruct (negb (port =? C_MDNS_PORT)); [|reflexivity]. rewrite (send_gate_ok_cons _ _ _ psu _ Hpu). reflexivity. }
  destruct (last_second (n_cache n) now (dns_service s)) eqn:LS.
  - split; [discriminate|]. intros _.
    destruct (intern_set_single (n_tbl n) (dns_service s) (address_and_nsec s)) as (k & ids & Ea & Hk & Hext).
    fold (srv_answer s) in Ea, Hk, Hext.
    destruct (intern_set (n_tbl n) (srv_answer s)) as [tbl a'] eqn:Ei. cbn [fst snd] in En, Eo, Ea, Hk, Hext. subst a'.
    rewrite Eo, En. cbn [set_queues n_q n_qd n_tbl]. split; [exact Hu|]. split; [reflexivity|]. split; [exact Hext|].
    exists k, ids. split; [exact Hk|]. split; [reflexivity|]. apply async_add_queued. left. reflexivity.
  - split; [|discriminate]. intros _. cbn [fst snd] in En, Eo. split; [|exact En].
    rewrite Eo. unfold send_gate. rewrite flat_map_app. fold (send_gate u). rewrite Hu. cbn [flat_map]. rewrite Hpm. reflexivity.
Qed.

(* from port 5353: answered by multicast - at once, or through the protected queue *)
Theorem still_answered : forall ls s name addr now tc rq rd,
  run_ok fnode_init ls ->
  let f := fstate fnode_init ls in
  let n := f_node f in
  In s (registered (n_reg n)) -> n_done n = false -> wf_name name -> lower name = s_key s ->
  let data := query_bytes (mkq name C_TYPE_SRV) in
  is_duplicate (f_ls f) data now = false -> d_get text_eqb (ls_deferred (f_ls f)) addr = None ->
  let l := FDatagram data addr C_MDNS_PORT now tc rq rd in
  let n' := f_node (fst (fstep f l)) in
  (* answered now: one multicast message whose answer section is the SRV record with TTL s_host_ttl s *)
  (last_second (n_cache n) now (dns_service s) = false /\
   snd (fstep f l) = [OSend now None (srv_multicast s)] /\ o_answers (srv_multicast s) = [(dns_service s, 0)] /\
   ttl_field (dns_service s) 0 = s_host_ttl s /\ (exists ps, packets (srv_multicast s) = Ok ps) /\ n' = n)
  \/
  (* or scheduled: nothing sent, the interned id of the SRV record is in the last group of the protected queue *)
  (last_second (n_cache n) now (dns_service s) = true /\
   snd (fstep f l) = [] /\ n_q n' = n_q n /\
   exists k ids, names_id (n_tbl n') k (dns_service s) /\ n_qd n' = async_add (n_qd n) now now rd [(k, ids)] /\ queued k (n_qd n')).
Proof.
  intros ls s name addr now tc rq rd Hr f n Hs Hd Hwf Hn data Hdup Hdef l n'.
  destruct (still_answered_general ls s name addr C_MDNS_PORT now tc rq rd Hr Hs Hd Hwf Hn Hdup Hdef) as [A B].
  fold f in A, B. fold n in A, B. fold data in A, B. fold l in A, B. fold n' in A, B.
  change (negb (C_MDNS_PORT =? C_MDNS_PORT)) with false in A, B. cbv iota in A, B. cbn [app] in A.
  pose proof (Good_run ls fnode_init Good_init Hr) as (_ & _ & _ & _ & HE).
  destruct (last_second (n_cache n) now (dns_service s)) eqn:LS.
  - right. destruct (B eq_refl) as (B1 & B2 & _ & B4). repeat split; assumption.
  - left. destruct (A eq_refl) as (A1 & A2). split; [reflexivity|]. split; [exact A1|]. split; [reflexivity|].
    split; [reflexivity|]. split; [exact (srv_multicast_packets _ s HE Hs)|exact A2].
Qed.

(* from any other port (legacy unicast query): answered at once by unicast to the source, echoing id and question - in addition
   to the multicast handling above *)
Theorem still_answered_unicast : forall ls s name addr port now tc rq rd,
  run_ok fnode_init ls ->
  let f := fstate fnode_init ls in
  let n := f_node f in
  In s (registered (n_reg n)) -> n_done n = false -> wf_name name -> lower name = s_key s -> port <> C_MDNS_PORT ->
  let data := query_bytes (mkq name C_TYPE_SRV) in
  is_duplicate (f_ls f) data now = false -> d_get text_eqb (ls_deferred (f_ls f)) addr = None ->
  let l := FDatagram data addr port now tc rq rd in
  let um := srv_unicast s now name 0 in
  o_answers um = [(dns_service s, 0)] /\ o_questions um = [q_seen now name C_TYPE_SRV] /\ o_id um = 0 /\ o_multicast um = false /\
  (exists ps, packets um = Ok ps) /\
  exists rest, snd (fstep f l) = OSend now (Some (addr, port)) um :: rest /\
    (rest = [OSend now None (srv_multicast s)] \/
     rest = [] /\ exists k, names_id (n_tbl (f_node (fst (fstep f l)))) k (dns_service s) /\ queued k (n_qd (f_node (fst (fstep f l))))).
Proof.
  intros ls s name addr port now tc rq rd Hr f n Hs Hd Hwf Hn Hp data Hdup Hdef l um.
  destruct (still_answered_general ls s name addr port now tc rq rd Hr Hs Hd Hwf Hn Hdup Hdef) as [A B].
  fold f in A, B. fold n in A, B. fold data in A, B. fold l in A, B.
  replace (negb (port =? C_MDNS_PORT)) with true in A, B by lia. fold um in A, B. cbn [app] in A.
  pose proof (Good_run ls fnode_init Good_init Hr) as (_ & _ & _ & _ & HE).
  repeat (split; [reflexivity|]). split; [exact (srv_unicast_packets _ s now name HE Hs Hwf)|].
  destruct (last_second (n_cache n) now (dns_service s)) eqn:LS.
  - destruct (B eq_refl) as (B1 & _ & _ & k & ids & B4 & _ & B6). exists []. split; [exact B1|]. right. split; [reflexivity|].
    exists k. split; assumption.
  - destruct (A eq_refl) as (A1 & _). eexists. split; [exact A1|]. left. reflexivity.
Qed.

(* ================================================================================================ *)
(* 3. what is queued is sent                                                                         *)

(* Along a run whose times do not go backwards (timed_run: every label's time >= the previous one, random delays drawn from
   20..120 ms, a query handled no earlier than its packets arrived), every group of the two outgoing queues is due no later than
   (time of the last label) + aggregation + additional  (500 + 0 for out_queue, 200 + 1000 for the protected queue).  So the
   async_ready of a queue (the node label LReady, = OutQueue.async_ready_body) that runs at or after that bound multicasts, in one
   message, every record queued there - identified through the intern table - and leaves the queue empty. *)
Theorem queued_answers_are_sent : forall ls T0 delayq k r t,
  timed_run T0 ls ->
  let f := fstate fnode_init ls in
  let n := f_node f in
  n_done n = false -> queued k (queue_of delayq n) -> names_id (n_tbl n) k r ->
  end_time T0 ls + (if delayq then C_PROTECTED_AGGREGATION_DELAY + C_ONE_SECOND else C_AGGREGATION_DELAY) <= t ->
  let l := FNode (LReady delayq t) in
  exists m x, snd (fstep f l) = [OSend t None m] /\ In (x, 0) (o_answers m) /\ gen_eq x r = true /\ o_multicast m = true /\
              q_groups (queue_of delayq (f_node (fst (fstep f l)))) = [].
Proof.
  intros ls T0 delayq k r t Hr f n Hd Hk Hn Ht l.
  destruct (Timed_run ls T0 fnode_init (Timed_init T0) Hr) as [_ HQ]. fold f in HQ. fold n in HQ.
  destruct HQ as (A & B & C1 & C2 & C3 & C4).
  assert (HQB : QB (end_time T0 ls) (queue_of delayq n)) by (destruct delayq; assumption).
  assert (Hb : end_time T0 ls + q_aggregation (queue_of delayq n) + q_additional (queue_of delayq n) <= t).
  { unfold C_PROTECTED_AGGREGATION_DELAY, C_ONE_SECOND, C_AGGREGATION_DELAY in Ht. destruct delayq; cbn [queue_of]; lia. }
  destruct (ready_step_sends (end_time T0 ls) n delayq t k r Hd HQB Hb Hk Hn) as (m & x & E1 & E2 & E3 & E4 & E5).
  exists m, x. unfold l. cbn [fstep]. fold n. destruct (nstep n (LReady delayq t)) as [n' outs]. cbn [fst snd with_node f_node] in *.
  repeat split; assumption.
Qed.

(* putting 2 and 3 together: the SRV question of a registered service, arriving from port 5353 at time now >= the last label,
   is answered by multicast at once, or its record sits in the protected queue and the async_ready of that queue at any time
   >= now + 1200 ms sends it (C12_timer_inv: the queue keeps a timer pending that is no later than the head's deadline) *)
Theorem still_answered_in_time : forall ls T0 s name addr now tc rq rd,
  run_ok fnode_init ls -> timed_run T0 ls -> end_time T0 ls <= now -> 20 <= rq <= 120 -> 20 <= rd <= 120 ->
  let f := fstate fnode_init ls in
  let n := f_node f in
  In s (registered (n_reg n)) -> n_done n = false -> wf_name name -> lower name = s_key s ->
  let data := query_bytes (mkq name C_TYPE_SRV) in
  is_duplicate (f_ls f) data now = false -> d_get text_eqb (ls_deferred (f_ls f)) addr = None ->
  let l := FDatagram data addr C_MDNS_PORT now tc rq rd in
  let f' := fst (fstep f l) in
  snd (fstep f l) = [OSend now None (srv_multicast s)] \/
  forall t, now + 1200 <= t ->
    exists m x, snd (fstep f' (FNode (LReady true t))) = [OSend t None m] /\ In (x, 0) (o_answers m) /\
                gen_eq x (dns_service s) = true /\ o_multicast m = true.
Proof.
  intros ls T0 s name addr now tc rq rd Hr Ht Hnow Hq Hd f n Hs Hdone Hwf Hn data Hdup Hdef l f'.
  destruct (still_answered ls s name addr now tc rq rd Hr Hs Hdone Hwf Hn Hdup Hdef) as [(_ & A & _)|(_ & _ & _ & k & ids & B1 & _ & B3)].
  - left. exact A.
  - right. intros t Hbound. fold f in B1, B3. fold data in B1, B3. fold l in B1, B3. fold f' in B1, B3.
    pose proof (Timed_run ls T0 fnode_init (Timed_init T0) Ht) as HT. fold f in HT.
    pose proof (fstep_Timed _ f l HT ltac:(cbn [flabel_ok l]; repeat split; lia)) as [_ HQ]. fold f' in HQ. cbn [ftime l] in HQ.
    destruct HQ as (_ & B & _ & _ & C3 & C4).
    assert (Hd' : n_done (f_node f') = false).
    { destruct (datagrams_touch_only f l I) as (_ & _ & _ & _ & E). fold f' in E. rewrite E. exact Hdone. }
    destruct (ready_step_sends now (f_node f') true t k (dns_service s) Hd' B ltac:(cbn [queue_of]; lia) B3 B1)
      as (m & x & E1 & E2 & E3 & E4 & _).
    exists m, x. cbn [fstep]. destruct (nstep (f_node f') (LReady true t)) as [n'' outs]. cbn [snd] in *. repeat split; assumption.
Qed.

(* ================================================================================================ *)
(* 2'. the pending case: packets of a truncated query from the same address are waiting              *)

(* the DNSIncoming objects of the packets deferred for addr, as handle_assembled_query gets them when [data] arrives *)
Definition answered_with (f : fnode) (addr : text) (data : bytes) (now : Z) : list qmsg :=
  let p := parse data now None FRAMES in
  map fst (found_of (d_set bytes_eqb (f_msgs f) (mkey addr data) (qmsg_of p now, m_id p)) addr (deferred_of (f_ls f) addr)).

Lemma no_pending_answered_with f addr data now :
  d_get text_eqb (ls_deferred (f_ls f)) addr = None -> answered_with f addr data now = [].
Proof. intro H. unfold answered_with, deferred_of. rewrite H. reflexivity. Qed.

Lemma send_gate_keep outs t dest m ps : In (OSend t dest m) outs -> packets m = Ok ps -> In (OSend t dest m) (send_gate outs).
Proof. intros Hin Hp. unfold send_gate. apply in_flat_map. exists (OSend t dest m). split; [exact Hin|]. rewrite Hp. left. reflexivity. Qed.

(* the reassembly lists hold truncated queries only, as DNSIncoming decoded them - so this datagram (TC bit clear) is never a
   copy of a packet that waits, and its DNSIncoming always enters the table *)
Definition DefTruncP (d : list (text * list lmsg)) : Prop :=
  forall a l, In (a, l) d -> forall m, In m l ->
    lm_truncated m = true /\ exists t, m = lmsg_of (lm_data m) (parse (lm_data m) t None FRAMES).

Definition DefTrunc (f : fnode) : Prop := DefTruncP (ls_deferred (f_ls f)).

Lemma DefTrunc_init : DefTrunc fnode_init.
Proof. intros a l []. Qed.

Lemma datagram_deferred s m a now he tc s' o : datagram s m a now he tc = (s', o) ->
  ls_deferred s' = ls_deferred s \/ ls_deferred s' = d_del text_eqb (ls_deferred s) a \/
  (lm_truncated m = true /\ ls_deferred s' = d_set text_eqb (ls_deferred s) a (deferred_of s a ++ [m])).
Proof.
  unfold datagram. cbv zeta.
  destruct (Z.of_nat (length (lm_data m)) >? C_MAX_MSG_ABSOLUTE); [intro H; inversion H; subst; left; reflexivity|].
  destruct (is_duplicate s (lm_data m) now); [intro H; inversion H; subst; left; reflexivity|].
  destruct (negb (lm_valid m)); [intro H; inversion H; subst; left; reflexivity|].
  destruct (negb (lm_is_query m)); [intro H; inversion H; subst; left; reflexivity|].
  destruct (negb he); [intro H; inversion H; subst; left; reflexivity|].
  destruct (lm_truncated m) eqn:T; cbn [negb].
  2:{ unfold respond_query. cbn [ls_deferred ls_timers]. intro H; inversion H; subst. right. left. reflexivity. }
  cbn [ls_deferred ls_timers].
  destruct (existsb (fun x => bytes_eqb (lm_data x) (lm_data m))
                    match d_get text_eqb (ls_deferred s) a with Some l => l | None => [] end);
    intro H; inversion H; subst; [left; reflexivity|right; right; split; reflexivity].
Qed.

Lemma DefTrunc_step f l : DefTrunc f -> DefTrunc (fst (fstep f l)).
Proof.
  intro HD. destruct l as [data addr port now tc rq rd|addr port now rq rd|nl]; cbn [fstep].
  - destruct (Z.of_nat (length data) >? C_MAX_MSG_ABSOLUTE); [exact HD|].
    destruct (is_duplicate (f_ls f) data now); [exact HD|].
    destruct (m_escaped (parse data now None FRAMES)); [exact HD|].
    set (p := parse data now None FRAMES).
    destruct (datagram (f_ls f) (lmsg_of data p) addr now (nonempty (g_services (n_reg (f_node f)))) tc) as [ls' o] eqn:E.
    assert (HP : DefTruncP (ls_deferred ls')).
    { apply datagram_deferred in E as [E|[E|[T E]]]; rewrite E.
      - exact HD.
      - intros a l Hin. apply tdel_In in Hin. exact (HD a l Hin).
      - intros a l Hin. apply tset_In in Hin as [Hin|[-> ->]]; [exact (HD a l Hin)|].
        intros x Hx. apply in_app_or in Hx as [Hx|[<-|[]]].
        + unfold deferred_of in Hx. destruct (d_get text_eqb (ls_deferred (f_ls f)) addr) as [l0|] eqn:G; [|destruct Hx].
          apply tget_In in G. exact (HD addr l0 G x Hx).
        + split; [exact T|]. exists now. reflexivity. }
    destruct o; try exact HP.
    unfold DefTrunc. rewrite (proj1 (respond_ls _ _ _ _ _ _ _ _ _)). exact HP.
  - unfold respond_query. cbv zeta. unfold DefTrunc. rewrite (proj1 (respond_ls _ _ _ _ _ _ _ _ _)).
    cbn [ls_deferred set_deferred]. intros a l Hin. apply tdel_In in Hin. exact (HD a l Hin).
  - destruct (nstep (f_node f) nl) as [n' outs]. exact HD.
Qed.

Lemma DefTrunc_run : forall ls f, DefTrunc f -> DefTrunc (fstate f ls).
Proof.
  induction ls as [|l ls IH]; intros f HD; [exact HD|]. cbn [fstate]. apply IH. apply DefTrunc_step. exact HD.
Qed.

Lemma srv_query_not_waiting f name addr : DefTrunc f -> wf_name name ->
  waiting f addr (query_bytes (mkq name C_TYPE_SRV)) = false.
Proof.
  intros HD Hwf. destruct (waiting f addr (query_bytes (mkq name C_TYPE_SRV))) eqn:W; [exfalso|reflexivity].
  unfold waiting in W. destruct (d_get text_eqb (ls_deferred (f_ls f)) addr) as [l0|] eqn:G; [|discriminate W].
  apply existsb_exists in W as (x & Hx & Hb). apply text_eqb_eq in Hb.
  apply tget_In in G. destruct (HD addr l0 G x Hx) as [T [t Et]]. rewrite Hb in Et.
  destruct (query_datagram name C_TYPE_SRV t Hwf ltac:(left; reflexivity)) as (_ & _ & _ & H). cbv zeta in H.
  destruct H as (_ & _ & _ & _ & _ & L3 & _). rewrite <- Et in L3. congruence.
Qed.

Lemma srv_query_reaches_handler_pending : forall f s name addr port now tc rq rd,
  MsgsOk f -> In s (registered (n_reg (f_node f))) -> wf_name name ->
  let data := query_bytes (mkq name C_TYPE_SRV) in
  is_duplicate (f_ls f) data now = false -> waiting f addr data = false ->
  let msgs := answered_with f addr data now ++ [srv_qmsg now name] in
  exists id0, QueryOk msgs id0 /\
    f_node (fst (fstep f (FDatagram data addr port now tc rq rd))) = fst (nstep (f_node f) (LQuery now msgs id0 addr port rq rd)) /\
    snd (fstep f (FDatagram data addr port now tc rq rd)) = send_gate (snd (nstep (f_node f) (LQuery now msgs id0 addr port rq rd))).
Proof.
  intros f s name addr port now tc rq rd HM Hs Hwf data Hdup Hnw msgs.
  destruct (query_datagram name C_TYPE_SRV now Hwf ltac:(left; reflexivity)) as (_ & Hb & Hsz & H). cbv zeta in H.
  destruct H as (_ & _ & Hid & L1 & L2 & L3 & L4 & _ & _ & HQ). fold data in Hb, Hsz, Hid, L1, L2, L3, L4, HQ.
  rewrite (fstep_datagram_unfold f data addr port now tc rq rd Hb Hsz Hdup). cbv zeta.
  unfold msgs_after. rewrite Hnw.
  pose proof (parse_QOk data now Hb) as HQok.
  unfold msgs, answered_with. cbv zeta.
  set (p := parse data now None FRAMES) in *.
  set (msgs' := d_set bytes_eqb (f_msgs f) (mkey addr data) (qmsg_of p now, m_id p)) in *.
  assert (HM' : forall k x, In (k, x) msgs' -> QOk x).
  { intros k x Hin. unfold msgs' in Hin. apply bset_In in Hin as [Hin| ->]; [exact (HM k x Hin)|exact HQok]. }
  assert (HD : datagram (f_ls f) (lmsg_of data p) addr now (nonempty (g_services (n_reg (f_node f)))) tc =
               (set_deferred {| ls_data := Some data; ls_last_time := now; ls_last_msg := Some false;
                                ls_deferred := ls_deferred (f_ls f); ls_timers := ls_timers (f_ls f) |}
                             (d_del text_eqb (ls_deferred (f_ls f)) addr) (d_del text_eqb (ls_timers (f_ls f)) addr),
                ORespond addr (deferred_of (f_ls f) addr ++ [lmsg_of data p]))).
  { unfold datagram. cbv zeta. rewrite L1, L2, L3, L4. rewrite (registered_nonempty _ s Hs).
    change (lm_data (lmsg_of data p)) with data.
    destruct (Z.of_nat (length data) >? C_MAX_MSG_ABSOLUTE) eqn:E1; [lia|]. rewrite Hdup. cbn [negb].
    unfold respond_query. cbn [ls_deferred ls_timers]. reflexivity. }
  rewrite HD. unfold respond. rewrite flat_map_app. fold (found_of msgs' addr (deferred_of (f_ls f) addr)).
  cbn [flat_map]. change (lm_data (lmsg_of data p)) with data.
  assert (G : d_get bytes_eqb msgs' (mkey addr data) = Some (qmsg_of p now, m_id p)) by (unfold msgs'; apply bset_get_same).
  rewrite G. cbn [app]. rewrite Hid, HQ, srv_q_seen. fold (srv_qmsg now name).
  assert (Hold : forall x, In x (found_of msgs' addr (deferred_of (f_ls f) addr)) -> QOk x).
  { intros x Hx. apply found_values in Hx as [k Hk]. exact (HM' k x Hk). }
  assert (Hnew : Forall q_soft (qm_questions (srv_qmsg now name))).
  { destruct HQok as [_ Hq]. cbn [fst] in Hq. rewrite HQ in Hq. exact Hq. }
  destruct (found_of msgs' addr (deferred_of (f_ls f) addr)) as [|[q0 i0] rest] eqn:Ef.
  - exists 0. cbn [app map fst]. split.
    { split; [unfold u16; lia|]. intros m [<-|[]]. exact Hnew. }
    destruct (nstep (f_node f) (LQuery now [srv_qmsg now name] 0 addr port rq rd)) as [n' outs]. split; reflexivity.
  - exists i0. rewrite map_app. cbn [app map fst]. split.
    { split; [exact (proj1 (Hold (q0, i0) (or_introl eq_refl)))|].
      intros m [<-|Hm]; [exact (proj2 (Hold (q0, i0) (or_introl eq_refl)))|].
      apply in_app_or in Hm as [Hm|[<-|[]]]; [|exact Hnew].
      apply in_map_iff in Hm as (x & <- & Hx). exact (proj2 (Hold x (or_intror Hx))). }
    destruct (nstep (f_node f) (LQuery now (q0 :: map fst rest ++ [srv_qmsg now name]) i0 addr port rq rd)) as [n' outs].
    split; reflexivity.
Qed.

(* The general statement: whatever is pending for the address is answered together with the query; the SRV record is multicast
   at once, or scheduled in out_queue (sched false) or in the protected queue (sched true) - unless one of the pending packets
   lists it as a known answer with more than half its TTL (RFC 6762 7.1 / 7.2: that is what the querier asked for). *)
Theorem still_answered_pending : forall ls s name addr port now tc rq rd,
  run_ok fnode_init ls ->
  let f := fstate fnode_init ls in
  let n := f_node f in
  In s (registered (n_reg n)) -> n_done n = false -> wf_name name -> lower name = s_key s ->
  let data := query_bytes (mkq name C_TYPE_SRV) in
  is_duplicate (f_ls f) data now = false ->
  suppresses (known_answers (answered_with f addr data now)) (dns_service s) = false ->
  let l := FDatagram data addr port now tc rq rd in
  let n' := f_node (fst (fstep f l)) in
  (exists m x, In (OSend now None m) (snd (fstep f l)) /\ In (x, 0) (o_answers m) /\ gen_eq x (dns_service s) = true /\
               o_multicast m = true)
  \/ sched false (dns_service s) n' \/ sched true (dns_service s) n'.
Proof.
  intros ls s name addr port now tc rq rd Hr f n Hs Hd Hwf Hn data Hdup Hk l n'.
  pose proof (Good_run ls fnode_init Good_init Hr) as (_ & HM & HJ & _ & HE). fold f in HM, HJ, HE. fold n in HJ, HE.
  pose proof (J_RegInv _ HJ) as HI.
  pose proof (srv_query_not_waiting f name addr (DefTrunc_run ls fnode_init DefTrunc_init) Hwf) as Hnw.
  destruct (srv_query_reaches_handler_pending f s name addr port now tc rq rd HM Hs Hwf Hdup Hnw) as (id0 & HQ & En & Eo).
  fold data in HQ, En, Eo. fold l in En, Eo. fold n' in En. fold n in En, Eo.
  pose proof (srv_strategies (n_reg n) s now name Hn (registered_lookup _ s HI Hs)) as Hst.
  pose proof (srv_nstep_pending n s now name (answered_with f addr data now) id0 addr port rq rd Hst Hd Hk) as H.
  cbv zeta in H. rewrite <- En in H. destruct H as [(m & x & H1 & H2 & H3 & H4)|H]; [left|right; exact H].
  exists m, x. split; [|split; [exact H2|split; [exact H3|exact H4]]].
  rewrite Eo. destruct encoder_contained as (_ & _ & Hc).
  destruct (Hc n now _ id0 addr port rq rd HI HE HQ) as [Hsend _].
  destruct (Hsend now None m H1) as [ps Hps]. eapply send_gate_keep; eassumption.
Qed.

(* ... and with 3: answered at once, or sent by the next async_ready of the queue it sits in, once that runs at or after
   now + 500 ms (out_queue) / now + 1200 ms (protected queue) *)
Theorem still_answered_pending_in_time : forall ls T0 s name addr port now tc rq rd,
  run_ok fnode_init ls -> timed_run T0 ls -> end_time T0 ls <= now -> 20 <= rq <= 120 -> 20 <= rd <= 120 ->
  let f := fstate fnode_init ls in
  let n := f_node f in
  In s (registered (n_reg n)) -> n_done n = false -> wf_name name -> lower name = s_key s ->
  let data := query_bytes (mkq name C_TYPE_SRV) in
  is_duplicate (f_ls f) data now = false ->
  suppresses (known_answers (answered_with f addr data now)) (dns_service s) = false ->
  let l := FDatagram data addr port now tc rq rd in
  let f' := fst (fstep f l) in
  let sent_by (o : list nout) (t : Z) :=
    exists m x, o = [OSend t None m] /\ In (x, 0) (o_answers m) /\ gen_eq x (dns_service s) = true /\ o_multicast m = true in
  (exists m x, In (OSend now None m) (snd (fstep f l)) /\ In (x, 0) (o_answers m) /\ gen_eq x (dns_service s) = true /\
               o_multicast m = true)
  \/ (forall t, now + 500 <= t -> sent_by (snd (fstep f' (FNode (LReady false t)))) t)
  \/ (forall t, now + 1200 <= t -> sent_by (snd (fstep f' (FNode (LReady true t)))) t).
Proof.
  intros ls T0 s name addr port now tc rq rd Hr Ht Hnow Hq Hd f n Hs Hdone Hwf Hn data Hdup Hk l f' sent_by.
  destruct (still_answered_pending ls s name addr port now tc rq rd Hr Hs Hdone Hwf Hn Hdup Hk) as [A|B]; [left; exact A|right].
  fold f in B. fold data in B. fold l in B. fold f' in B.
  pose proof (Timed_run ls T0 fnode_init (Timed_init T0) Ht) as HT. fold f in HT.
  pose proof (fstep_Timed _ f l HT ltac:(cbn [flabel_ok l]; repeat split; lia)) as [_ HQ]. fold f' in HQ. cbn [ftime l] in HQ.
  destruct HQ as (QA & QBd & C1 & C2 & C3 & C4).
  assert (Hd' : n_done (f_node f') = false).
  { destruct (datagrams_touch_only f l I) as (_ & _ & _ & _ & E). fold f' in E. rewrite E. exact Hdone. }
  assert (Hstep : forall d t, snd (fstep f' (FNode (LReady d t))) = snd (nstep (f_node f') (LReady d t))).
  { intros d t. cbn [fstep]. destruct (nstep (f_node f') (LReady d t)) as [n'' outs]. reflexivity. }
  destruct B as [(k & B1 & B2)|(k & B1 & B2)]; [left|right]; intros t Hbound; unfold sent_by; rewrite Hstep.
  - destruct (ready_step_sends now (f_node f') false t k (dns_service s) Hd' QA ltac:(cbn [queue_of]; lia) B2 B1)
      as (m & x & E1 & E2 & E3 & E4 & _). exists m, x. repeat split; assumption.
  - destruct (ready_step_sends now (f_node f') true t k (dns_service s) Hd' QBd ltac:(cbn [queue_of]; lia) B2 B1)
      as (m & x & E1 & E2 & E3 & E4 & _). exists m, x. repeat split; assumption.
Qed.

(* ================================================================================================ *)
(* non-vacuity; the hypotheses are needed                                                            *)

Ltac conj_vm := repeat match goal with |- _ /\ _ => split end; try (vm_compute; reflexivity).

Lemma ex_name_wf : wf_name ex_name.                        (* "a._x._tcp.local." *)
Proof.
  exists [[97]; [95;120]; [95;116;99;112]; [108;111;99;97;108]]. split; [reflexivity|].
  split; [discriminate|]. split.
  { repeat constructor; try discriminate; try (vm_compute; intuition congruence). }
  split; [cbn; lia|]. split; vm_compute; congruence.
Qed.

Definition ex_q : bytes := query_bytes (mkq ex_name C_TYPE_SRV).
Definition ex_f : fnode := fstate fnode_init [ex_register ex_host].

(* the hypotheses of still_answered hold after the run that registers the service of C15_example_run; the datagram is the
   one of that example with id 0; it is answered at once *)
Example still_answered_example :
  run_ok fnode_init [ex_register ex_host] /\ timed_run 0 [ex_register ex_host] /\
  In (ex_svc ex_host) (registered (n_reg (f_node ex_f))) /\ n_done (f_node ex_f) = false /\ wf_name ex_name /\
  lower ex_name = s_key (ex_svc ex_host) /\ is_duplicate (f_ls ex_f) ex_q 1000 = false /\
  d_get text_eqb (ls_deferred (f_ls ex_f)) [49] = None /\
  ex_q = [0;0;0;0;0;1;0;0;0;0;0;0; 1;97; 2;95;120; 4;95;116;99;112; 5;108;111;99;97;108; 0; 0;33; 0;1] /\
  snd (fstep ex_f (FDatagram ex_q [49] 5353 1000 450 20 20)) = [OSend 1000 None (srv_multicast (ex_svc ex_host))].
Proof.
  split; [split; [exact (proj1 (proj1 ex_run))|exact I]|]. split; [vm_compute; repeat split; discriminate|].
  split; [vm_compute; left; reflexivity|]. split; [vm_compute; reflexivity|]. split; [exact ex_name_wf|].
  conj_vm.
Qed.

(* the scheduled branch: the SRV record was seen on the wire 100 ms before the query; nothing is sent at once, the record
   sits in the protected queue (send window 2020..2200) and the async_ready at 2200 multicasts it *)
Definition ex_resp : bytes := match packets (srv_multicast (ex_svc ex_host)) with Ok (d :: _) => d | _ => [] end.
Definition ex_f2 : fnode := fstate fnode_init [ex_register ex_host; FDatagram ex_resp [50] 5353 900 450 20 20].

Example still_answered_example_delayed :
  let f3 := fst (fstep ex_f2 (FDatagram ex_q [49] 5353 1000 450 20 20)) in
  last_second (n_cache (f_node ex_f2)) 1000 (dns_service (ex_svc ex_host)) = true /\
  snd (fstep ex_f2 (FDatagram ex_q [49] 5353 1000 450 20 20)) = [] /\
  q_groups (n_qd (f_node f3)) = [{| g_after := 2020; g_before := 2200; g_answers := [(0, [1; 2])] |}] /\
  nth_error (n_tbl (f_node f3)) 0 = Some (dns_service (ex_svc ex_host)) /\
  exists m, snd (fstep f3 (FNode (LReady true 2200))) = [OSend 2200 None m] /\ o_answers m = [(dns_service (ex_svc ex_host), 0)].
Proof. cbv zeta. conj_vm. eexists. split; vm_compute; reflexivity. Qed.

(* "no truncated query of that address pending" cannot simply be dropped: a truncated query from the same address that lists the
   SRV record as a known answer is answered together with ours - and suppresses the answer (nothing sent, nothing queued).
   The same query from another address is answered. *)
Definition ex_tc_msg : out_msg :=
  {| o_flags := C_FLAGS_TC; o_multicast := true; o_id := 0; o_questions := [mkq ex_name C_TYPE_SRV];
     o_answers := [(dns_service (ex_svc ex_host), 0)]; o_authorities := []; o_additionals := [] |}.
Definition ex_tc : bytes := match packets ex_tc_msg with Ok (d :: _) => d | _ => [] end.
Definition ex_f4 : fnode := fstate fnode_init [ex_register ex_host; FDatagram ex_tc [49] 5353 900 450 20 20].

Example pending_known_answer_suppresses :
  let l := FDatagram ex_q [49] 5353 1000 450 20 20 in
  In (ex_svc ex_host) (registered (n_reg (f_node ex_f4))) /\ n_done (f_node ex_f4) = false /\
  is_duplicate (f_ls ex_f4) ex_q 1000 = false /\ d_get text_eqb (ls_deferred (f_ls ex_f4)) [49] <> None /\
  snd (fstep ex_f4 l) = [] /\ q_groups (n_q (f_node (fst (fstep ex_f4 l)))) = [] /\ q_groups (n_qd (f_node (fst (fstep ex_f4 l)))) = [] /\
  suppresses (known_answers (answered_with ex_f4 [49] ex_q 1000)) (dns_service (ex_svc ex_host)) = true /\
  snd (fstep ex_f4 (FDatagram ex_q [50] 5353 1000 450 20 20)) = [OSend 1000 None (srv_multicast (ex_svc ex_host))].
Proof. cbv zeta. conj_vm; [vm_compute; left; reflexivity|vm_compute; discriminate]. Qed.

(* "not done" is needed: after _close() nothing is sent *)
Example closed_instance_is_silent :
  snd (fstep (fstate fnode_init [ex_register ex_host; FNode (LClose 500)]) (FDatagram ex_q [49] 5353 1000 450 20 20)) = [].
Proof. vm_compute. reflexivity. Qed.

(* query_datagram with "encodable" read as C15's encodable_name is false: a name without the trailing dot is encodable, but
   the decoder returns it with the dot (and no service is registered under the dotted spelling) *)
Example encodable_name_is_not_enough :
  encodable_name [97] /\
  m_questions (parse (query_bytes (mkq [97] C_TYPE_SRV)) 5 None FRAMES) = [q_seen 5 [97; 46] C_TYPE_SRV] /\
  q_seen 5 [97; 46] C_TYPE_SRV <> q_seen 5 [97] C_TYPE_SRV.
Proof.
  split; [apply encodable_nameb_ok; vm_compute; reflexivity|]. split; [vm_compute; reflexivity|]. intro H. discriminate H.
Qed.

Print Assumptions query_datagram.
Print Assumptions still_answered_general.
Print Assumptions still_answered.
Print Assumptions still_answered_unicast.
Print Assumptions queued_answers_are_sent.
Print Assumptions still_answered_in_time.
Print Assumptions still_answered_pending.
Print Assumptions still_answered_pending_in_time.
Print Assumptions still_answered_example.
Print Assumptions still_answered_example_delayed.
Print Assumptions pending_known_answer_suppresses.
Print Assumptions closed_instance_is_silent.
Print Assumptions encodable_name_is_not_enough.
