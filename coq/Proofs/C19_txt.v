(* C19 (TXT part): ServiceInfo property dict <-> TXT rdata round trip, on the byte-level model
   (Model/Txt.v). *)
From Coq Require Import Lia ZArith List Bool.
From ZC Require Import Model.Base Model.Re Model.Dict Model.Txt.
Import ListNotations.
Open Scope Z_scope.

Definition norm_empty (v : option bytes) : option bytes := match v with Some [] => None | _ => v end.
Fixpoint keys_distinct (d : props) : bool :=
  match d with [] => true | kv :: r => negb (d_mem bytes_eqb r (fst kv)) && keys_distinct r end.
Definition item_fits (kv : bytes * option bytes) : bool := Z.of_nat (length (item_of kv)) <=? 255.
Definition wf_props (d : props) : bool :=
  keys_distinct d && forallb (fun kv => negb (has_eq (fst kv)) && item_fits kv) d.

(* ---------- generic list facts ---------- *)
Lemma firstn_length_app {A} (a b : list A) : firstn (length a) (a ++ b) = a.
Proof. induction a as [|x a IH]; simpl; [destruct b; reflexivity | rewrite IH; reflexivity]. Qed.

Lemma skipn_length_app {A} (a b : list A) : skipn (length a) (a ++ b) = b.
Proof. induction a as [|x a IH]; simpl; [reflexivity | exact IH]. Qed.

Lemma forallb_andb {A} (f g : A -> bool) l :
  forallb (fun x => f x && g x) l = forallb f l && forallb g l.
Proof.
  induction l as [|x l IH]; simpl; [reflexivity|]. rewrite IH.
  destruct (f x), (g x), (forallb f l), (forallb g l); reflexivity.
Qed.

(* ---------- bytes equality ---------- *)
Lemma bytes_eqb_eq a b : bytes_eqb a b = true <-> a = b.
Proof. apply text_eqb_eq. Qed.

Lemma bytes_eqb_sym a b : bytes_eqb a b = bytes_eqb b a.
Proof.
  destruct (bytes_eqb a b) eqn:E1, (bytes_eqb b a) eqn:E2; try reflexivity.
  - apply bytes_eqb_eq in E1. subst b. rewrite (proj2 (bytes_eqb_eq a a) eq_refl) in E2. discriminate.
  - apply bytes_eqb_eq in E2. subst b. rewrite (proj2 (bytes_eqb_eq a a) eq_refl) in E1. discriminate.
Qed.

(* ---------- dict membership ---------- *)
Lemma d_mem_app_single (d : props) k v k' :
  d_mem bytes_eqb (d ++ [(k, v)]) k' = d_mem bytes_eqb d k' || bytes_eqb k k'.
Proof.
  unfold d_mem. induction d as [|[k0 v0] d IH]; simpl.
  - destruct (bytes_eqb k k'); reflexivity.
  - destruct (bytes_eqb k0 k'); [reflexivity | exact IH].
Qed.

Lemma d_mem_false_in (r : props) k kv :
  d_mem bytes_eqb r k = false -> In kv r -> bytes_eqb (fst kv) k = false.
Proof.
  unfold d_mem. induction r as [|[k0 v0] r IH]; simpl; intros Hm Hin; [contradiction|].
  destruct (bytes_eqb k0 k) eqn:E; [discriminate|].
  destruct Hin as [Heq|Hin]; [subst kv; exact E | apply IH; assumption].
Qed.

Lemma add_first_fresh (acc : props) k v :
  d_mem bytes_eqb acc k = false -> add_first acc k v = acc ++ [(k, v)].
Proof. intro H. unfold add_first. rewrite H. reflexivity. Qed.

(* ---------- partition / has_eq ---------- *)
Lemma partition_eq_noeq k : has_eq k = false -> partition_eq k = (k, []).
Proof.
  induction k as [|c k IH]; simpl; intro H; [reflexivity|].
  apply orb_false_iff in H as [Hc Hk]. rewrite Hc, (IH Hk). reflexivity.
Qed.

Lemma partition_eq_app k v : has_eq k = false -> partition_eq (k ++ EQ :: v) = (k, v).
Proof.
  induction k as [|c k IH]; simpl; intro H; [reflexivity|].
  apply orb_false_iff in H as [Hc Hk]. rewrite Hc, (IH Hk). reflexivity.
Qed.

Lemma has_eq_app k v : has_eq (k ++ EQ :: v) = true.
Proof.
  induction k as [|c k IH]; simpl; [reflexivity|]. rewrite IH. apply orb_true_r.
Qed.

(* ---------- encoder ---------- *)
Lemma encode_cases d :
  (existsb (fun kv => negb (item_fits kv)) d = true /\ txt_encode d = Raise ValueError) \/
  (existsb (fun kv => negb (item_fits kv)) d = false /\ exists b, txt_encode d = Ok b).
Proof.
  unfold txt_encode. induction d as [|kv d IH]; simpl.
  - right. split; [reflexivity | eexists; reflexivity].
  - unfold item_fits at 1 3.
    destruct (255 <? Z.of_nat (length (item_of kv))) eqn:E.
    + left. apply Z.ltb_lt in E.
      assert (Hle : (Z.of_nat (length (item_of kv)) <=? 255) = false) by (apply Z.leb_gt; lia).
      rewrite Hle. split; reflexivity.
    + apply Z.ltb_ge in E.
      assert (Hle : (Z.of_nat (length (item_of kv)) <=? 255) = true) by (apply Z.leb_le; lia).
      rewrite Hle. simpl.
      destruct IH as [[He Hr]|[He [b Hb]]].
      * left. rewrite Hr. split; [exact He | reflexivity].
      * right. rewrite Hb. split; [exact He | eexists; reflexivity].
Qed.

Lemma encode_ok d : forallb item_fits d = true -> exists b, txt_encode d = Ok b.
Proof.
  intro H. destruct (encode_cases d) as [[He _]|[_ Hb]]; [|exact Hb].
  exfalso. apply existsb_exists in He as [kv [Hin Hn]].
  rewrite forallb_forall in H. rewrite (H kv Hin) in Hn. discriminate.
Qed.

(* ---------- decoding an encoded item list ---------- *)
Definition step (acc : props) (it : bytes) : props :=
  let '(k, v) := partition_eq it in add_first acc k (or_none v).

Lemma decode_encoded : forall items b, encode_items items = Ok b ->
  forall fuel acc, (length b < fuel)%nat ->
  txt_decode_loop fuel b acc = Some (fold_left step items acc).
Proof.
  induction items as [|it rest IH]; intros b H fuel acc Hf; simpl in H.
  - inversion H; subst b. destruct fuel as [|fuel']; [simpl in Hf; lia | reflexivity].
  - destruct (255 <? Z.of_nat (length it)) eqn:E; [discriminate|].
    destruct (encode_items rest) as [b'|e] eqn:Er; [|discriminate].
    inversion H; subst b. clear H.
    destruct fuel as [|fuel']; [simpl in Hf; lia|].
    cbn [txt_decode_loop]. rewrite Nat2Z.id.
    rewrite firstn_length_app, skipn_length_app.
    cbn [fold_left]. unfold step at 2.
    destruct (partition_eq it) as [k v] eqn:Ep.
    apply (IH b' eq_refl).
    simpl in Hf. rewrite app_length in Hf. lia.
Qed.

Lemma strings_encoded : forall items b, encode_items items = Ok b ->
  forall fuel, (length b < fuel)%nat -> rfc_strings fuel b = Some items.
Proof.
  induction items as [|it rest IH]; intros b H fuel Hf; simpl in H.
  - inversion H; subst b. destruct fuel as [|fuel']; [simpl in Hf; lia | reflexivity].
  - destruct (255 <? Z.of_nat (length it)) eqn:E; [discriminate|].
    destruct (encode_items rest) as [b'|e] eqn:Er; [|discriminate].
    inversion H; subst b. clear H.
    destruct fuel as [|fuel']; [simpl in Hf; lia|].
    cbn [rfc_strings]. rewrite Nat2Z.id.
    assert (Hlt : (length (it ++ b') <? length it)%nat = false).
    { apply Nat.ltb_ge. rewrite app_length. lia. }
    rewrite Hlt, firstn_length_app, skipn_length_app.
    rewrite (IH b' eq_refl fuel'); [reflexivity|].
    simpl in Hf. rewrite app_length in Hf. lia.
Qed.

(* ---------- what one encoded item decodes to ---------- *)
Lemma step_item acc kv :
  has_eq (fst kv) = false -> d_mem bytes_eqb acc (fst kv) = false ->
  step acc (item_of kv) = acc ++ [(fst kv, norm_empty (snd kv))].
Proof.
  intros Hk Hm. destruct kv as [k [v|]]; unfold step, item_of; cbn [fst snd] in *.
  - rewrite (partition_eq_app k v Hk). rewrite (add_first_fresh _ _ _ Hm).
    destruct v; reflexivity.
  - rewrite (partition_eq_noeq k Hk). rewrite (add_first_fresh _ _ _ Hm). reflexivity.
Qed.

Lemma rfc_attr_item kv :
  has_eq (fst kv) = false -> nonempty (fst kv) = true -> rfc_attr (item_of kv) = Some kv.
Proof.
  intros Hk Hn. destruct kv as [k [v|]]; unfold item_of; cbn [fst snd] in *.
  - destruct k as [|c k']; [discriminate|].
    assert (Hp := partition_eq_app (c :: k') v Hk).
    assert (He := has_eq_app (c :: k') v).
    simpl in Hk. apply orb_false_iff in Hk as [Hc Hk'].
    unfold rfc_attr. cbn [app] in Hp, He |- *.
    rewrite Hc, Hp, He. reflexivity.
  - destruct k as [|c k']; [discriminate|].
    assert (Hp := partition_eq_noeq (c :: k') Hk).
    assert (Hk0 := Hk).
    simpl in Hk. apply orb_false_iff in Hk as [Hc Hk'].
    unfold rfc_attr. rewrite Hc, Hp, Hk0. reflexivity.
Qed.

(* ---------- folding over a well-formed dict ---------- *)
Lemma fresh_after (acc : props) (kv : bytes * option bytes) (v' : option bytes) (r : props) :
  d_mem bytes_eqb r (fst kv) = false ->
  (forall kv', In kv' (kv :: r) -> d_mem bytes_eqb acc (fst kv') = false) ->
  forall kv', In kv' r -> d_mem bytes_eqb (acc ++ [(fst kv, v')]) (fst kv') = false.
Proof.
  intros Hm Hacc kv' Hin. rewrite d_mem_app_single.
  rewrite (Hacc kv' (or_intror Hin)). simpl.
  rewrite bytes_eqb_sym. exact (d_mem_false_in r (fst kv) kv' Hm Hin).
Qed.

Lemma fold_wf : forall d acc,
  keys_distinct d = true ->
  forallb (fun kv => negb (has_eq (fst kv))) d = true ->
  (forall kv, In kv d -> d_mem bytes_eqb acc (fst kv) = false) ->
  fold_left step (map item_of d) acc = acc ++ map (fun kv => (fst kv, norm_empty (snd kv))) d.
Proof.
  induction d as [|kv r IH]; intros acc Hd He Hacc.
  - simpl. rewrite app_nil_r. reflexivity.
  - cbn [keys_distinct] in Hd. apply andb_true_iff in Hd as [Hm Hd].
    apply negb_true_iff in Hm.
    cbn [forallb] in He. apply andb_true_iff in He as [Hk He]. apply negb_true_iff in Hk.
    cbn [map fold_left].
    rewrite (step_item acc kv Hk (Hacc kv (or_introl eq_refl))).
    rewrite (IH _ Hd He (fresh_after acc kv _ r Hm Hacc)).
    rewrite <- app_assoc. reflexivity.
Qed.

Lemma collect_wf : forall d acc,
  keys_distinct d = true ->
  forallb (fun kv => negb (has_eq (fst kv))) d = true ->
  forallb (fun kv => nonempty (fst kv)) d = true ->
  (forall kv, In kv d -> d_mem bytes_eqb acc (fst kv) = false) ->
  rfc_collect (map item_of d) acc = acc ++ d.
Proof.
  induction d as [|kv r IH]; intros acc Hd He Hne Hacc.
  - simpl. rewrite app_nil_r. reflexivity.
  - cbn [keys_distinct] in Hd. apply andb_true_iff in Hd as [Hm Hd].
    apply negb_true_iff in Hm.
    cbn [forallb] in He. apply andb_true_iff in He as [Hk He]. apply negb_true_iff in Hk.
    cbn [forallb] in Hne. apply andb_true_iff in Hne as [Hn Hne].
    cbn [map rfc_collect].
    rewrite (rfc_attr_item kv Hk Hn).
    destruct kv as [k v]. cbv beta iota.
    rewrite (add_first_fresh acc k v (Hacc (k, v) (or_introl eq_refl))).
    assert (Hfr := fresh_after acc (k, v) v r Hm Hacc). cbn [fst] in Hfr.
    rewrite (IH _ Hd He Hne Hfr).
    rewrite <- app_assoc. reflexivity.
Qed.

Lemma wf_split d : wf_props d = true ->
  keys_distinct d = true /\ forallb (fun kv => negb (has_eq (fst kv))) d = true
  /\ forallb item_fits d = true.
Proof.
  unfold wf_props. intro H. apply andb_true_iff in H as [Hd Hf].
  rewrite forallb_andb in Hf. apply andb_true_iff in Hf as [H1 H2]. auto.
Qed.

(* ---------- the theorems ---------- *)
Theorem txt_roundtrip_lib : forall d, wf_props d = true ->
  exists b, txt_encode d = Ok b /\ txt_decode b = Some (map (fun kv => (fst kv, norm_empty (snd kv))) d).
Proof.
  intros d Hwf. destruct (wf_split d Hwf) as [Hd [He Hfit]].
  destruct (encode_ok d Hfit) as [b Hb]. exists b. split; [exact Hb|].
  unfold txt_decode. unfold txt_encode in Hb.
  rewrite (decode_encoded _ b Hb (S (length b)) [] (Nat.lt_succ_diag_r _)).
  rewrite (fold_wf d [] Hd He); [reflexivity|].
  intros kv _. reflexivity.
Qed.

Theorem txt_roundtrip_rfc : forall d, wf_props d = true -> forallb (fun kv => nonempty (fst kv)) d = true ->
  exists b, txt_encode d = Ok b /\ rfc_txt_parse b = Some d.
Proof.
  intros d Hwf Hne. destruct (wf_split d Hwf) as [Hd [He Hfit]].
  destruct (encode_ok d Hfit) as [b Hb]. exists b. split; [exact Hb|].
  unfold rfc_txt_parse. unfold txt_encode in Hb.
  rewrite (strings_encoded _ b Hb (S (length b)) (Nat.lt_succ_diag_r _)).
  rewrite (collect_wf d [] Hd He Hne); [reflexivity|].
  intros kv _. reflexivity.
Qed.

Theorem txt_encode_error : forall d,
  (txt_encode d = Raise ValueError <-> existsb (fun kv => negb (item_fits kv)) d = true) /\
  (forall e, txt_encode d = Raise e -> e = ValueError).
Proof.
  intro d. destruct (encode_cases d) as [[He Hr]|[He [b Hb]]].
  - split; [split; intro; assumption|].
    intros e H. rewrite Hr in H. inversion H. reflexivity.
  - split; [split; intro H|].
    + rewrite Hb in H. discriminate.
    + rewrite He in H. discriminate.
    + intros e H. rewrite Hb in H. discriminate.
Qed.

Lemma loop_total : forall fuel text d, (length text < fuel)%nat ->
  exists d', txt_decode_loop fuel text d = Some d'.
Proof.
  induction fuel as [|fuel' IH]; intros text d Hf; [lia|].
  destruct text as [|n rest]; [eexists; reflexivity|].
  cbn [txt_decode_loop].
  destruct (partition_eq (firstn (Z.to_nat n) rest)) as [k v].
  apply IH. rewrite skipn_length. simpl in Hf. lia.
Qed.

Theorem txt_decode_total : forall b, exists d, txt_decode b = Some d.
Proof. intro b. unfold txt_decode. apply loop_total. lia. Qed.

Print Assumptions txt_roundtrip_lib.
Print Assumptions txt_roundtrip_rfc.
Print Assumptions txt_encode_error.
Print Assumptions txt_decode_total.
