(* C15 (liveness helper 5): the SRV question of a registered service handled together with other packets (the deferred
   packets of a truncated query): answered by multicast at once or scheduled in one of the two queues, unless one of the
   other packets lists the record as a known answer. *)
From Coq Require Import ZArith List Bool Lia ZifyBool Sorted.
From ZC Require Import Model.Base Model.PyRec Model.Dict Model.Re Model.Cache Model.Ingest Model.Respond Model.Route
  Model.WireDec Model.WireEnc Model.OutQueue Model.Register Model.Listener Model.Node Model.Front
  Spec.Rfc1035 Gen.Const Gen.Extra Gen.DnsPure Spec.AnswerSpec.
From ZC Require Import Proofs.C20_identity Proofs.C03_reg Proofs.C03_sets Proofs.C03_respond Proofs.C11_lemmas Proofs.C11_route
  Proofs.C12_lemmas Proofs.C15_front Proofs.C15_a2 Proofs.C15_a3.
Import ListNotations.
Open Scope Z_scope.
Ltac Zify.zify_post_hook ::= Z.to_euclidean_division_equations.

(* ---- the responder ---- *)
Lemma known_answers_app a b : known_answers (a ++ b) = known_answers a ++ known_answers b.
Proof. unfold known_answers. apply flat_map_app. Qed.

Lemma srv_response_pending g c s now name olds ucast :
  get_strategies g (srv_q now name) = [SService s] ->
  suppresses (known_answers olds) (dns_service s) = false ->
  exists qa, async_response g c (olds ++ [srv_qmsg now name]) ucast = Some qa /\
    (inset (dns_service s) (qa_mcast_now qa) \/ inset (dns_service s) (qa_mcast_aggregate qa) \/
     inset (dns_service s) (qa_mcast_last_second qa)).
Proof.
  intros Hs Hk. set (msgs := olds ++ [srv_qmsg now name]).
  assert (Hin : In (srv_qmsg now name) msgs) by (apply in_or_app; right; left; reflexivity).
  assert (Hst : In (srv_q now name, SService s) (strategies_of g msgs)).
  { unfold strategies_of. apply in_flat_map. exists (srv_qmsg now name). split; [exact Hin|].
    cbn [srv_qmsg qm_questions flat_map]. rewrite Hs. left. reflexivity. }
  destruct msgs as [|m0 ms] eqn:Em; [destruct Hin|].
  assert (E : exists qa, async_response g c (m0 :: ms) ucast = Some qa).
  { rewrite async_response_eq. destruct (strategies_of g (m0 :: ms)); [destruct Hst|]. eexists. reflexivity. }
  destruct E as [qa E]. exists qa. split; [exact E|].
  pose proof (response_routing g c m0 ms ucast qa E (dns_service s)) as R. cbv zeta in R.
  destruct R as (_ & RN & RA & RL).
  assert (Hasked : asked (m0 :: ms) (srv_q now name)).
  { exists (srv_qmsg now name). split; [exact Hin|left; reflexivity]. }
  assert (Hans : has (answers_of g (m0 :: ms) (srv_q now name)) (dns_service s)).
  { unfold answers_of. rewrite Hs. cbn [flat_map]. rewrite app_nil_r. unfold answer_question.
    rewrite <- Em. unfold msgs. rewrite known_answers_app. change (known_answers [srv_qmsg now name]) with (@nil pyrec).
    rewrite app_nil_r, Hk. apply has_in. left. reflexivity. }
  set (c_now := qm_now (last (m0 :: ms) m0)) in *. set (p := existsb qm_is_probe (m0 :: ms)) in *.
  set (qs := qm_questions m0) in *.
  assert (QP : qu_path ucast (srv_q now name) = false) by (unfold qu_path; apply andb_false_r).
  destruct p eqn:Ep.
  - left. apply RN. exists (srv_q now name). split; [exact Hasked|]. split; [exact Hans|]. unfold to_now. rewrite QP. left. reflexivity.
  - destruct (last_second c c_now (dns_service s)) eqn:LS.
    + right. right. apply RL. exists (srv_q now name). split; [exact Hasked|]. split; [exact Hans|].
      unfold to_last_second. rewrite QP. split; [reflexivity|exact LS].
    + destruct (immediate qs) eqn:Ei.
      * left. apply RN. exists (srv_q now name). split; [exact Hasked|]. split; [exact Hans|]. unfold to_now. rewrite QP.
        right. split; [exact LS|exact Ei].
      * right. left. apply RA. exists (srv_q now name). split; [exact Hasked|]. split; [exact Hans|]. unfold to_aggregate. rewrite QP.
        repeat split; assumption.
Qed.

(* ---- interning an answer set ---- *)
Definition istep (acc : list pyrec * answers) (ra : pyrec * list pyrec) : list pyrec * answers :=
  let '(t1, k) := intern (fst acc) (fst ra) in
  let '(t2, adds) := intern_list t1 (snd ra) in
  (t2, snd acc ++ [(k, adds)]).

Lemma intern_set_fold tbl a : intern_set tbl a = fold_left istep a (tbl, []).
Proof. reflexivity. Qed.

Lemma istep_spec acc ra :
  (exists ext, fst (istep acc ra) = fst acc ++ ext) /\
  (exists k adds, snd (istep acc ra) = snd acc ++ [(k, adds)] /\ names_id (fst (istep acc ra)) k (fst ra)).
Proof.
  unfold istep. destruct (intern_names (fst acc) (fst ra)) as (Hn & ext1 & E1).
  destruct (intern (fst acc) (fst ra)) as [t1 k]. cbn [fst snd] in Hn, E1. subst t1.
  unfold intern_list. destruct (intern_list_ext (snd ra) (fst acc ++ ext1) []) as [ext2 E2].
  destruct (fold_left _ (snd ra) (fst acc ++ ext1, [])) as [t2 adds]. cbn [fst snd] in *. subst t2. split.
  - exists (ext1 ++ ext2). rewrite app_assoc. reflexivity.
  - exists k, adds. split; [reflexivity|]. apply names_id_ext. exact Hn.
Qed.

Lemma ifold_spec a : forall acc,
  (exists ext, fst (fold_left istep a acc) = fst acc ++ ext) /\
  (forall k, In k (keys (snd acc)) -> In k (keys (snd (fold_left istep a acc)))) /\
  (forall ra, In ra a -> exists k, In k (keys (snd (fold_left istep a acc))) /\ names_id (fst (fold_left istep a acc)) k (fst ra)).
Proof.
  induction a as [|x a IH]; intro acc; cbn [fold_left].
  - split; [exists []; rewrite app_nil_r; reflexivity|]. split; [intros k H; exact H|intros ra []].
  - destruct (istep_spec acc x) as ((ext1 & E1) & k1 & adds1 & E2 & Hn1).
    destruct (IH (istep acc x)) as ((ext2 & E3) & Hmono & Hall). split; [|split].
    + exists (ext1 ++ ext2). rewrite E3, E1, app_assoc. reflexivity.
    + intros k Hk. apply Hmono. rewrite E2. unfold keys. rewrite map_app. apply in_or_app. left. exact Hk.
    + intros ra [<-|Hra]; [|exact (Hall ra Hra)].
      exists k1. split.
      * apply Hmono. rewrite E2. unfold keys. rewrite map_app. apply in_or_app. right. left. reflexivity.
      * rewrite E3. apply names_id_ext. exact Hn1.
Qed.

Lemma names_id_congr tbl k r r' : names_id tbl k r -> gen_eq r r' = true -> names_id tbl k r'.
Proof. intros (H0 & x & Hn & Hx) E. split; [exact H0|]. exists x. split; [exact Hn|]. eapply eq_trans_; eassumption. Qed.

Lemma intern_set_inset tbl a r : inset r a ->
  (exists ext, fst (intern_set tbl a) = tbl ++ ext) /\
  exists k, In k (keys (snd (intern_set tbl a))) /\ names_id (fst (intern_set tbl a)) k r.
Proof.
  intros (r0 & Hin & E). rewrite intern_set_fold. destruct (ifold_spec a (tbl, [])) as (Hext & _ & Hall). split; [exact Hext|].
  unfold C11_lemmas.keys in Hin. apply in_map_iff in Hin as (ra & <- & Hra). destruct (Hall ra Hra) as (k & Hk & Hn).
  exists k. split; [exact Hk|]. eapply names_id_congr; eassumption.
Qed.

Lemma intern_set_ext tbl a : exists ext, fst (intern_set tbl a) = tbl ++ ext.
Proof. rewrite intern_set_fold. exact (proj1 (ifold_spec a (tbl, []))). Qed.

(* ---- what is queued stays queued when more is added ---- *)
Lemma queued_add_mono q t now rnd a k : queued k q -> queued k (async_add q t now rnd a).
Proof.
  intros (g & Hg & Hk). destruct (step_add q t now rnd a) as (_ & _ & [G G' _|i l G Hle G' _|i l G Hlt G' _]).
  - rewrite G in Hg. destruct Hg.
  - rewrite G in Hg. apply in_app_or in Hg as [Hg|[<-|[]]].
    + exists g. rewrite G'. split; [apply in_or_app; left; exact Hg|exact Hk].
    + exists (merge_into l a). rewrite G'. split; [apply in_or_app; right; left; reflexivity|].
      cbn [merge_into g_answers]. apply keys_a_update. left. exact Hk.
  - exists g. rewrite G'. split; [apply in_or_app; left; exact Hg|exact Hk].
Qed.

(* ---- the loop of nstep (LQuery ..) ---- *)
Definition sched (delayq : bool) (r : pyrec) (n : node) : Prop :=
  exists k, names_id (n_tbl n) k r /\ queued k (if delayq then n_qd n else n_q n).

Lemma qfold_sched_keep now rq rd r d a n outs : sched d r n -> sched d r (fst (qfold now rq rd (n, outs) a)).
Proof.
  intros (k & Hn & Hq). destruct a as [ad po msg|msg|t s|t s]; cbn [qfold fst]; try (exists k; split; assumption).
  - destruct (intern_set_ext (n_tbl n) s) as [ext E]. destruct (intern_set (n_tbl n) s) as [tbl a']. cbn [fst] in *. subst tbl.
    exists k. cbn [set_queues n_tbl n_q n_qd]. split; [apply names_id_ext; exact Hn|].
    destruct d; [exact Hq|apply queued_add_mono; exact Hq].
  - destruct (intern_set_ext (n_tbl n) s) as [ext E]. destruct (intern_set (n_tbl n) s) as [tbl a']. cbn [fst] in *. subst tbl.
    exists k. cbn [set_queues n_tbl n_q n_qd]. split; [apply names_id_ext; exact Hn|].
    destruct d; [apply queued_add_mono; exact Hq|exact Hq].
Qed.

Lemma qfold_sched_keep_all now rq rd r d acts : forall n outs, sched d r n -> sched d r (fst (fold_left (qfold now rq rd) acts (n, outs))).
Proof.
  induction acts as [|a acts IH]; intros n outs H; cbn [fold_left]; [exact H|].
  pose proof (qfold_sched_keep now rq rd r d a n outs H) as H'.
  destruct (qfold now rq rd (n, outs) a) as [n1 o1]. apply IH. exact H'.
Qed.

Lemma qfold_sched now rq rd r acts : forall n outs,
  (exists t u, In (AQueue t u) acts /\ inset r u) ->
  sched false r (fst (fold_left (qfold now rq rd) acts (n, outs))).
Proof.
  induction acts as [|a acts IH]; intros n outs (t & u & Hin & Hr); [destruct Hin|]. cbn [fold_left].
  destruct Hin as [->|Hin].
  - cbn [qfold]. destruct (intern_set_inset (n_tbl n) u r Hr) as (_ & k & Hk & Hn).
    destruct (intern_set (n_tbl n) u) as [tbl a']. cbn [fst snd] in *.
    apply qfold_sched_keep_all. exists k. cbn [set_queues n_tbl n_q]. split; [exact Hn|apply async_add_queued; exact Hk].
  - destruct (qfold now rq rd (n, outs) a) as [n1 o1]. apply IH. exists t, u. split; assumption.
Qed.

Lemma qfold_sched_delay now rq rd r acts : forall n outs,
  (exists t u, In (ADelayQueue t u) acts /\ inset r u) ->
  sched true r (fst (fold_left (qfold now rq rd) acts (n, outs))).
Proof.
  induction acts as [|a acts IH]; intros n outs (t & u & Hin & Hr); [destruct Hin|]. cbn [fold_left].
  destruct Hin as [->|Hin].
  - cbn [qfold]. destruct (intern_set_inset (n_tbl n) u r Hr) as (_ & k & Hk & Hn).
    destruct (intern_set (n_tbl n) u) as [tbl a']. cbn [fst snd] in *.
    apply qfold_sched_keep_all. exists k. cbn [set_queues n_tbl n_qd]. split; [exact Hn|apply async_add_queued; exact Hk].
  - destruct (qfold now rq rd (n, outs) a) as [n1 o1]. apply IH. exists t, u. split; assumption.
Qed.

(* ---- the node step ---- *)
Lemma inset_nonempty r a : inset r a -> a <> [].
Proof. intros (x & Hx & _) ->. destruct Hx. Qed.

Theorem srv_nstep_pending n s now name olds id addr port rq rd :
  get_strategies (n_reg n) (srv_q now name) = [SService s] -> n_done n = false ->
  suppresses (known_answers olds) (dns_service s) = false ->
  let st := nstep n (LQuery now (olds ++ [srv_qmsg now name]) id addr port rq rd) in
  (exists m x, In (OSend now None m) (snd st) /\ In (x, 0) (o_answers m) /\ gen_eq x (dns_service s) = true /\ o_multicast m = true)
  \/ sched false (dns_service s) (fst st) \/ sched true (dns_service s) (fst st).
Proof.
  intros Hs Hd Hk st.
  destruct (srv_response_pending (n_reg n) (n_cache n) s now name olds (negb (port =? C_MDNS_PORT)) Hs Hk) as (qa & E & Hcase).
  destruct (olds ++ [srv_qmsg now name]) as [|m0 ms] eqn:Em; [destruct olds; discriminate Em|].
  pose proof (handle_some (n_reg n) (n_cache n) m0 ms id addr port qa E) as Hacts.
  destruct (nstep_LQuery_frame n now (m0 :: ms) id addr port rq rd) as (_ & _ & Eout). fold st in Eout.
  unfold gate in Eout. rewrite Hd in Eout.
  assert (Efst : fst st = fst (fold_left (qfold now rq rd) (handle_assembled_query (n_reg n) (n_cache n) (m0 :: ms) id addr port) (n, []))).
  { unfold st. rewrite nstep_LQuery. destruct (fold_left _ _ _) as [n' outs]. reflexivity. }
  destruct Hcase as [Hn|[Ha|Hl]].
  - left. exists (construct_multicast (qa_mcast_now qa)).
    destruct Hn as (x & Hx & Hxr). exists x. split; [|split; [|split; [exact Hxr|reflexivity]]].
    + rewrite Eout. apply in_flat_map. exists (AMulticast (construct_multicast (qa_mcast_now qa))). split; [|left; reflexivity].
      rewrite Hacts. apply in_or_app. right. unfold multicast_actions. apply in_or_app. left.
      destruct (qa_mcast_now qa) as [|y l]; [destruct Hx|left; reflexivity].
    + destruct (multicast_format (qa_mcast_now qa)) as (_ & _ & _ & _ & _ & Eans). rewrite Eans.
      apply in_map_iff. exists x. split; [reflexivity|exact Hx].
  - right. left. rewrite Efst. apply qfold_sched. exists (qm_now m0), (qa_mcast_aggregate qa). split; [|exact Ha].
    rewrite Hacts. apply in_or_app. right. unfold multicast_actions. apply in_or_app. right. apply in_or_app. left.
    pose proof (inset_nonempty _ _ Ha) as Hne. destruct (qa_mcast_aggregate qa); [contradiction|left; reflexivity].
  - right. right. rewrite Efst. apply qfold_sched_delay. exists (qm_now m0), (qa_mcast_last_second qa). split; [|exact Hl].
    rewrite Hacts. apply in_or_app. right. unfold multicast_actions. apply in_or_app. right. apply in_or_app. right.
    pose proof (inset_nonempty _ _ Hl) as Hne. destruct (qa_mcast_last_second qa); [contradiction|left; reflexivity].
Qed.

Print Assumptions srv_nstep_pending.
