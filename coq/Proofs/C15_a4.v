(* C15 (liveness helper 4): along a run with non-decreasing times, every group of the two outgoing queues of the node is due
   no later than (latest time) + aggregation + additional; the async_ready of a queue at or after that bound sends all of it. *)
From Coq Require Import ZArith List Bool Lia ZifyBool Sorted.
From ZC Require Import Model.Base Model.PyRec Model.Dict Model.Re Model.Cache Model.Ingest Model.Respond Model.Route
  Model.WireDec Model.WireEnc Model.OutQueue Model.Register Model.Listener Model.Node Model.Front Gen.Const Gen.Extra Gen.DnsPure.
From ZC Require Import Proofs.C20_identity Proofs.C12_lemmas Proofs.C12_queue Proofs.C15_front Proofs.C15_a3.
Import ListNotations.
Open Scope Z_scope.
Ltac Zify.zify_post_hook ::= Z.to_euclidean_division_equations.

Definition QBn (T : Z) (n : node) : Prop :=
  QB T (n_q n) /\ QB T (n_qd n) /\
  q_additional (n_q n) = 0 /\ q_aggregation (n_q n) = 500 /\ q_additional (n_qd n) = 1000 /\ q_aggregation (n_qd n) = 200.

Lemma QBn_init T : QBn T node_init.
Proof. repeat split; constructor. Qed.

Lemma QBn_mono T T' n : T <= T' -> QBn T n -> QBn T' n.
Proof. intros H (A & B & C). split; [eapply QB_mono; eassumption|]. split; [eapply QB_mono; eassumption|exact C]. Qed.

Lemma QBn_same T n n' : n_q n' = n_q n -> n_qd n' = n_qd n -> QBn T n -> QBn T n'.
Proof. unfold QBn. intros -> ->. exact (fun x => x). Qed.

(* the time of a node label *)
Definition ntime (l : nlabel) : Z :=
  match l with
  | LResp now _ | LPurge now | LQuery now _ _ _ _ _ _ | LReady _ now | LRegister _ now _ _ _ _ | LCheck _ now | LBcast _ now
  | LUnregister _ now _ | LUpdate _ now _ | LUnregisterAll now | LGoodbyeAll now | LClose now => now
  end.

(* time does not go backwards; the random delays are drawn from 20..120 ms; a query is handled no earlier than its packets arrived *)
Definition nlabel_ok (T : Z) (l : nlabel) : Prop :=
  T <= ntime l /\
  match l with
  | LQuery now msgs _ _ _ rq rd => 20 <= rq <= 120 /\ 20 <= rd <= 120 /\ Forall (fun m => qm_now m <= now) msgs
  | _ => True
  end.

Lemma handle_queue_times g c msgs id addr port a : In a (handle_assembled_query g c msgs id addr port) ->
  match a with
  | AQueue t _ | ADelayQueue t _ => exists m0 rest, msgs = m0 :: rest /\ t = qm_now m0
  | _ => True
  end.
Proof.
  unfold handle_assembled_query. cbv zeta. destruct (async_response g c msgs _) as [qa|]; [|intros []].
  destruct msgs as [|m0 rest]; [intros []|]. intro H.
  apply in_app_or in H as [H|H]; [|apply in_app_or in H as [H|H]; [|apply in_app_or in H as [H|H]]].
  - destruct (qa_ucast qa); [destruct H|]. destruct H as [<-|[]]. exact I.
  - destruct (qa_mcast_now qa); [destruct H|]. destruct H as [<-|[]]. exact I.
  - destruct (qa_mcast_aggregate qa); [destruct H|]. destruct H as [<-|[]]. exists m0, rest. split; reflexivity.
  - destruct (qa_mcast_last_second qa); [destruct H|]. destruct H as [<-|[]]. exists m0, rest. split; reflexivity.
Qed.

Lemma qfold_QBn now rq rd acts : 20 <= rq <= 120 -> 20 <= rd <= 120 ->
  (forall a, In a acts -> match a with AQueue t _ | ADelayQueue t _ => t <= now | _ => True end) ->
  forall n outs, QBn now n -> QBn now (fst (fold_left (qfold now rq rd) acts (n, outs))).
Proof.
  intros Hq Hd. induction acts as [|a acts IH]; intros Ha n outs HQ; cbn [fold_left]; [exact HQ|].
  assert (Ha' : forall a0, In a0 acts -> match a0 with AQueue t _ | ADelayQueue t _ => t <= now | _ => True end)
    by (intros a0 H0; apply Ha; right; exact H0).
  pose proof (Ha a (or_introl eq_refl)) as Ht.
  destruct a as [ad po msg|msg|t s|t s]; cbn [qfold].
  - apply IH; assumption.
  - apply IH; assumption.
  - destruct (intern_set (n_tbl n) s) as [tbl a']. apply IH; [exact Ha'|].
    destruct HQ as (A & B & C1 & C2 & C3 & C4). unfold QBn. cbn [set_queues n_q n_qd].
    destruct (step_add (n_q n) t now rq a') as (E1 & E2 & _). rewrite E1, E2.
    split; [apply (async_add_QB now); try assumption; lia|]. split; [exact B|]. repeat split; assumption.
  - destruct (intern_set (n_tbl n) s) as [tbl a']. apply IH; [exact Ha'|].
    destruct HQ as (A & B & C1 & C2 & C3 & C4). unfold QBn. cbn [set_queues n_q n_qd].
    destruct (step_add (n_qd n) t now rd a') as (E1 & E2 & _). rewrite E1, E2.
    split; [exact A|]. split; [apply (async_add_QB now); try assumption; lia|]. repeat split; assumption.
Qed.

Lemma after_check_queues n id k outs now :
  n_q (fst (after_check n id k outs now)) = n_q n /\ n_qd (fst (after_check n id k outs now)) = n_qd n.
Proof.
  unfold after_check. cbv zeta.
  destruct (last outs CDone); try (split; reflexivity);
    (destruct (register_finish (n_reg n) k) as [[g' task]|e]; split; reflexivity).
Qed.

Lemma QB_strip T q f :
  QB T q -> QB T {| q_groups := map (fun g => {| g_after := g_after g; g_before := g_before g; g_answers := f g |}) (q_groups q);
                    q_timers := q_timers q; q_additional := q_additional q; q_aggregation := q_aggregation q |}.
Proof. unfold QB. cbn [q_groups q_additional q_aggregation]. intro H. apply Forall_map. exact H. Qed.

Theorem nstep_QBn T n l : QBn T n -> nlabel_ok T l -> QBn (ntime l) (fst (nstep n l)).
Proof.
  intros HQ [HT Hl]. apply (QBn_mono T (ntime l) n HT) in HQ.
  destruct l; cbn [ntime] in *; cbn [nstep].
  - exact HQ.
  - exact HQ.
  - destruct Hl as (Hq & Hd & Hm).
    pose proof (qfold_QBn now rnd_q rnd_d (handle_assembled_query (n_reg n) (n_cache n) msgs id addr port) Hq Hd) as F.
    change (fold_left _ (handle_assembled_query (n_reg n) (n_cache n) msgs id addr port) (n, []))
      with (fold_left (qfold now rnd_q rnd_d) (handle_assembled_query (n_reg n) (n_cache n) msgs id addr port) (n, [])).
    specialize (F ltac:(intros a Ha; pose proof (handle_queue_times _ _ _ _ _ _ a Ha) as X; destruct a; try exact I;
                        destruct X as (m0 & rest & -> & ->); inversion Hm as [|m1 l1 Hm1 Hl1]; exact Hm1) n [] HQ).
    destruct (fold_left _ _ _) as [n' outs]. exact F.
  - destruct (async_ready_body (if delayq then n_qd n else n_q n) now) as [q' sent] eqn:E.
    destruct HQ as (A & B & C1 & C2 & C3 & C4).
    destruct delayq; cbn [fst]; unfold QBn; cbn [set_queues n_q n_qd].
    + pose proof (ready_QB now (n_qd n) now B) as X. destruct (ready_cfg (n_qd n) now) as [Y1 Y2]. rewrite E in X, Y1, Y2.
      cbn [fst] in X, Y1, Y2. rewrite Y1, Y2. repeat split; assumption.
    + pose proof (ready_QB now (n_q n) now A) as X. destruct (ready_cfg (n_q n) now) as [Y1 Y2]. rewrite E in X, Y1, Y2.
      cbn [fst] in X, Y1, Y2. rewrite Y1, Y2. repeat split; assumption.
  - destruct (check_start (n_cache n) now s allow strict coop) as [[k outs]|e]; [|exact HQ].
    destruct (after_check_queues n id k outs now) as [X Y]. destruct (after_check n id k outs now) as [n' o].
    cbn [fst] in *. eapply QBn_same; eassumption.
  - destruct (d_get Z.eqb (n_checks n) id) as [k|]; [|exact HQ].
    destruct (check_turn (n_cache n) now k) as [k' outs].
    destruct (after_check_queues n id k' outs now) as [X Y]. destruct (after_check n id k' outs now) as [n' o].
    cbn [fst] in *. eapply QBn_same; eassumption.
  - destruct (d_get Z.eqb (n_tasks n) id) as [b|]; [|exact HQ]. destruct (bcast_turn b now) as [b' outs]. exact HQ.
  - destruct (d_get text_eqb (g_services (n_reg n)) key) as [s|]; [|exact HQ].
    destruct (unregister_service (n_reg n) s) as [[g' task] withdrawn].
    destruct (intern_list (n_tbl n) withdrawn) as [tbl ids]. cbn [fst].
    destruct HQ as (A & B & C). unfold QBn. cbn [set_queues set_reg n_q n_qd q_additional q_aggregation].
    split; [apply QB_strip; exact A|]. split; [apply QB_strip; exact B|exact C].
  - destruct (update_service (n_reg n) s) as [[g' task]|e]; exact HQ.
  - destruct (unregister_all (n_reg n)) as [g' rs]. destruct rs; exact HQ.
  - exact HQ.
  - exact HQ.
Qed.

(* ---- the same along a front-end run ---- *)
Definition ftime (l : flabel) : Z :=
  match l with FDatagram _ _ _ now _ _ _ => now | FTimer _ _ now _ _ => now | FNode nl => ntime nl end.

Definition flabel_ok (T : Z) (l : flabel) : Prop :=
  match l with
  | FDatagram _ _ _ now _ rq rd => T <= now /\ 20 <= rq <= 120 /\ 20 <= rd <= 120
  | FTimer _ _ now rq rd => T <= now /\ 20 <= rq <= 120 /\ 20 <= rd <= 120
  | FNode nl => nlabel_ok T nl
  end.

Fixpoint timed_run (T : Z) (ls : list flabel) : Prop :=
  match ls with [] => True | l :: rest => flabel_ok T l /\ timed_run (ftime l) rest end.
Fixpoint end_time (T : Z) (ls : list flabel) : Z :=
  match ls with [] => T | l :: rest => end_time (ftime l) rest end.

(* every stored DNSIncoming arrived no later than T *)
Definition MT (T : Z) (f : fnode) : Prop := forall k x, In (k, x) (f_msgs f) -> qm_now (fst x) <= T.

Definition Timed (T : Z) (f : fnode) : Prop := MT T f /\ QBn T (f_node f).

Lemma Timed_init T : Timed T fnode_init.
Proof. split; [intros k x []|apply QBn_init]. Qed.

Lemma respond_QBn T f ls' msgs' a port packets now rq rd :
  QBn T (f_node f) -> T <= now -> 20 <= rq <= 120 -> 20 <= rd <= 120 ->
  (forall k x, In (k, x) msgs' -> qm_now (fst x) <= now) ->
  QBn now (f_node (fst (respond f ls' msgs' a port packets now rq rd))).
Proof.
  intros HQ HT Hq Hd HM. unfold respond. fold (found_of msgs' a packets).
  destruct (found_of msgs' a packets) as [|[qm id] rest] eqn:Ef; [cbn [fst f_node]; eapply QBn_mono; eassumption|].
  assert (Hl : nlabel_ok T (LQuery now (map fst ((qm, id) :: rest)) id a port rq rd)).
  { split; [exact HT|]. split; [exact Hq|]. split; [exact Hd|]. apply Forall_forall. intros m Hm.
    apply in_map_iff in Hm as (x & <- & Hx). rewrite <- Ef in Hx. apply found_values in Hx as [k Hk]. exact (HM k x Hk). }
  pose proof (nstep_QBn T (f_node f) _ HQ Hl) as X. cbn [ntime] in X.
  destruct (nstep (f_node f) _) as [n' outs]. exact X.
Qed.

Theorem fstep_Timed T f l : Timed T f -> flabel_ok T l -> Timed (ftime l) (fst (fstep f l)).
Proof.
  intros [HM HQ] Hl.
  assert (HT : T <= ftime l).
  { destruct l as [data addr port now tc rq rd|addr port now rq rd|nl]; cbn [flabel_ok ftime] in *; try lia. apply Hl. }
  split.
  - destruct (fstep_msgs f l) as [E|(data & addr & port & now & tc & rq & rd & -> & E)]; unfold MT; rewrite E.
    + intros k x Hin. specialize (HM k x Hin). lia.
    + intros k x Hin. apply bset_In in Hin as [Hin| ->]; [specialize (HM k x Hin); cbn [ftime] in *; lia|].
      cbn [fst qm_now qmsg_of ftime]. lia.
  - destruct l as [data addr port now tc rq rd|addr port now rq rd|nl]; cbn [flabel_ok ftime] in *; cbn [fstep].
    + destruct Hl as (_ & Hq & Hd).
      assert (Hsame : QBn now (f_node f)) by (eapply QBn_mono; eassumption).
      destruct (Z.of_nat (length data) >? C_MAX_MSG_ABSOLUTE); [exact Hsame|].
      destruct (is_duplicate (f_ls f) data now); [exact Hsame|].
      destruct (m_escaped (parse data now None FRAMES)); [exact Hsame|].
      destruct (datagram _ _ _ _ _ _) as [ls' o].
      destruct o; try exact Hsame.
      apply respond_QBn with (T := T); try assumption.
        intros k x Hin. apply msgs_after_In in Hin as [Hin| ->]; [specialize (HM k x Hin); lia|]. cbn [fst qm_now qmsg_of]. lia.
    + destruct Hl as (_ & Hq & Hd).
      assert (Hsame : QBn now (f_node f)) by (eapply QBn_mono; eassumption).
      destruct (respond_query (f_ls f) None addr) as [ls' o].
      destruct o; try exact Hsame.
      apply respond_QBn with (T := T); try assumption. intros k x Hin. specialize (HM k x Hin). lia.
    + pose proof (nstep_QBn T (f_node f) nl HQ Hl) as X. destruct (nstep (f_node f) nl) as [n' outs]. exact X.
Qed.

Theorem Timed_run : forall ls T f, Timed T f -> timed_run T ls -> Timed (end_time T ls) (fstate f ls).
Proof.
  induction ls as [|l ls IH]; intros T f HT Hr; [exact HT|].
  destruct Hr as [Hl Hr]. cbn [fstate end_time]. apply IH; [apply (fstep_Timed T); assumption|exact Hr].
Qed.

(* ---- the async_ready of a queue, as a node label ---- *)
Lemma construct_multicast_answers a : o_answers (construct_multicast a) = map (fun r => (r, 0)) (map fst a).
Proof. reflexivity. Qed.

Lemma extern_set_has tbl sent k r : In k (keys sent) -> names_id tbl k r ->
  exists x, In x (map fst (extern_set tbl sent)) /\ gen_eq x r = true.
Proof.
  intros Hk (_ & x & Hn & Hx). exists x. split; [|exact Hx].
  unfold keys in Hk. apply in_map_iff in Hk as ([k' adds] & E & Hin). cbn [fst] in E. subst k'.
  apply in_map_iff. exists (x, flat_map (lookup_id tbl) adds). split; [reflexivity|].
  unfold extern_set. apply in_flat_map. exists (k, adds). split; [exact Hin|]. cbn [fst snd].
  assert (L : lookup_id tbl k = [x]) by (unfold lookup_id; rewrite Hn; reflexivity). rewrite L. left. reflexivity.
Qed.

Definition queue_of (delayq : bool) (n : node) : oq := if delayq then n_qd n else n_q n.

Theorem ready_step_sends T n delayq t k r :
  n_done n = false -> QB T (queue_of delayq n) ->
  T + q_aggregation (queue_of delayq n) + q_additional (queue_of delayq n) <= t ->
  queued k (queue_of delayq n) -> names_id (n_tbl n) k r ->
  exists m x, snd (nstep n (LReady delayq t)) = [OSend t None m] /\ In (x, 0) (o_answers m) /\ gen_eq x r = true /\
              o_multicast m = true /\ q_groups (queue_of delayq (fst (nstep n (LReady delayq t)))) = [].
Proof.
  intros Hd HQ Ht Hk Hn. cbn [nstep]. fold (queue_of delayq n).
  destruct (ready_sends_queued T _ t k HQ Ht Hk) as (sent & E1 & E2 & E3).
  destruct (async_ready_body (queue_of delayq n) t) as [q' o]. cbn [fst snd] in E1, E3. subst o.
  unfold gate. rewrite Hd.
  destruct (extern_set_has (n_tbl n) sent k r E2 Hn) as (x & Hx & Hxr).
  exists (construct_multicast (extern_set (n_tbl n) sent)), x. cbn [snd]. split; [reflexivity|].
  split; [rewrite construct_multicast_answers; apply in_map_iff; exists x; split; [reflexivity|exact Hx]|].
  split; [exact Hxr|]. split; [reflexivity|]. destruct delayq; exact E3.
Qed.

Print Assumptions nstep_QBn.
Print Assumptions Timed_run.
Print Assumptions ready_step_sends.
