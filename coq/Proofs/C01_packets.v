(* C01 stage 4: the section loops and packets_info: every emitted datagram is parsed by the strict parser into
   exactly the entries it carries. *)
From Coq Require Import ZArith List Bool Lia ZifyBool.
From ZC Require Import Model.Base Model.PyRec Model.Dict Model.Re Model.Utf8 Model.Names Model.WireEnc
                       Spec.Rfc1035 Gen.Const Gen.DnsPure Gen.Shapes.
From ZC Require Import Proofs.C01_utf8 Proofs.C01_defs Proofs.C01_name Proofs.C01_rebase Proofs.C01_nsec Proofs.C01_record.
Import ListNotations.
Open Scope Z_scope.
Ltac Zify.zify_post_hook ::= Z.to_euclidean_division_equations.

(* ---------- expected parse of a datagram ---------- *)
Definition exp_q (mc : bool) (now' : Z) (q : pyrec) : pyrec := expected_question mc now' q.
Definition exp_a (mc : bool) (now' : Z) (rn : pyrec * Z) : pyrec := expected_record mc (snd rn) now' (fst rn).
Definition exp_r (mc : bool) (now' : Z) (r : pyrec) : pyrec := expected_record mc 0 now' r.

Definition expected_parse (mc : bool) (now' : Z) (qs : list pyrec) (ans : list (pyrec * Z)) (auth adds : list pyrec)
           (c : counts) : list pyrec * list pyrec :=
  let '(nq, na, nau, nad) := c in
  (map (exp_q mc now') (firstn nq qs),
   map (exp_a mc now') (firstn na ans) ++ map (exp_r mc now') (firstn nau auth) ++ map (exp_r mc now') (firstn nad adds)).

(* the datagrams carry consecutive slices of the four sections *)
Fixpoint expected_stream (mc : bool) (now' : Z) (qs : list pyrec) (ans : list (pyrec * Z)) (auth adds : list pyrec)
         (cs : list counts) : list (list pyrec * list pyrec) :=
  match cs with
  | [] => []
  | c :: cs' =>
      let '(nq, na, nau, nad) := c in
      expected_parse mc now' qs ans auth adds c
      :: expected_stream mc now' (skipn nq qs) (skipn na ans) (skipn nau auth) (skipn nad adds) cs'
  end.

Definition packet_ok (now' : Z) (pkt : bytes * counts) (exp : list pyrec * list pyrec) : Prop :=
  let '(nq, na, nau, nad) := snd pkt in
  exists sm, strict_parse (fst pkt) now' = Some sm /\
             s_questions sm = fst exp /\ s_records sm = snd exp /\ s_supported sm = true /\
             s_nq sm = Z.of_nat nq /\ s_nan sm = Z.of_nat na /\ s_nau sm = Z.of_nat nau /\ s_nad sm = Z.of_nat nad.

Definition wf_msg (m : out_msg) : Prop :=
  Forall wf_question (o_questions m) /\ Forall (fun rn => wf_record (fst rn)) (o_answers m) /\
  Forall wf_record (o_authorities m) /\ Forall wf_record (o_additionals m).

Lemma Forall_skipn' {A} (P : A -> Prop) n : forall l, Forall P l -> Forall P (skipn n l).
Proof.
  induction n as [|n IH]; intros l H; [exact H|].
  destruct l as [|x l]; [exact H|]. inversion H; subst. cbn [skipn]. apply IH. assumption.
Qed.

Section Loops.
  Variable hdr : bytes.
  Hypothesis Hhdr : length hdr = 12%nat.
  Variable mc : bool.

  Lemma Ext_same a b : e_rev b = e_rev a -> Ext a b.
  Proof. intro H. exists []. rewrite H, app_nil_r. reflexivity. Qed.

  Lemma questions_loop : forall qs st n st' n',
    NamesOk hdr st -> Forall wf_question qs -> e_size st <= C_MAX_MSG_ABSOLUTE ->
    write_questions mc st qs n = Ok (st', n') ->
    exists k, n' = (n + k)%nat /\ (k <= length qs)%nat /\ NamesOk hdr st' /\ Ext st st' /\
      e_size st + Z.of_nat k <= e_size st' <= C_MAX_MSG_ABSOLUTE /\
      forall rest now' m acc,
        squestions (buf hdr st' ++ rest) now' (k + m) (e_size st) acc =
        squestions (buf hdr st' ++ rest) now' m (e_size st') (acc ++ map (exp_q mc now') (firstn k qs)).
  Proof.
    induction qs as [|q qs IH]; intros st n st' n' Hok Hwf Hlim Hw.
    - cbn [write_questions] in Hw. inversion Hw; subst. exists 0%nat.
      split; [lia|]. split; [cbn; lia|]. split; [exact Hok|]. split; [apply Ext_refl|]. split; [lia|].
      intros rest now' m acc. cbn [firstn map plus]. rewrite app_nil_r. reflexivity.
    - inversion Hwf as [|q' qs' Hq Hqs]; subst q' qs'.
      cbn [write_questions] in Hw.
      destruct (write_question mc st q) as [[st1 fit]|e] eqn:E; [|discriminate]. cbn [bind] in Hw.
      destruct fit.
      + assert (Hfit := fun now' rest n acc => write_question_fit hdr Hhdr mc st q now' st1 rest n acc Hok Hq Hlim E).
        destruct (Hfit 0 [] 0%nat []) as (Hok1 & X1 & Z1 & _ & _).
        destruct (IH st1 (S n) st' n' Hok1 Hqs ltac:(lia) Hw) as (k & Hn & Hk & Hok' & X' & Z' & P').
        exists (S k). split; [lia|]. split; [cbn [length]; lia|]. split; [exact Hok'|].
        split; [exact (Ext_trans _ _ _ X1 X')|]. split; [lia|].
        intros rest now' m acc.
        assert (H1 : squestions (buf hdr st' ++ rest) now' (S (k + m)) (e_size st) acc =
                     squestions (buf hdr st' ++ rest) now' (k + m) (e_size st1) (acc ++ [exp_q mc now' q])).
        { pattern (buf hdr st' ++ rest). apply (lift hdr _ st1 st' rest X'). intro x.
          destruct (Hfit now' x (k + m)%nat acc) as (_ & _ & _ & _ & H). exact H. }
        change (S k + m)%nat with (S (k + m)). rewrite H1. rewrite P'.
        cbn [firstn map]. rewrite <- app_assoc. reflexivity.
      + inversion Hw; subst st' n'. clear Hw.
        destruct (write_question_rollback hdr Hhdr mc st q st1 Hok Hq Hlim E) as (Hok1 & Hr & Hs & _).
        exists 0%nat. split; [lia|]. split; [lia|]. split; [exact Hok1|]. split; [apply Ext_same; exact Hr|].
        split; [lia|].
        intros rest now' m acc. cbn [firstn map plus]. rewrite app_nil_r, Hs. reflexivity.
  Qed.

  Lemma records_loop : forall rs st n st' n',
    NamesOk hdr st -> Forall (fun rn => wf_record (fst rn)) rs -> e_size st <= C_MAX_MSG_ABSOLUTE ->
    write_records mc st rs n = Ok (st', n') ->
    exists k, n' = (n + k)%nat /\ (k <= length rs)%nat /\ NamesOk hdr st' /\ Ext st st' /\
      e_size st + Z.of_nat k <= e_size st' <= C_MAX_MSG_ABSOLUTE /\
      forall rest now' m acc sup,
        srecords (buf hdr st' ++ rest) now' (k + m) (e_size st) acc sup =
        srecords (buf hdr st' ++ rest) now' m (e_size st') (acc ++ map (exp_a mc now') (firstn k rs)) sup.
  Proof.
    induction rs as [|[r now] rs IH]; intros st n st' n' Hok Hwf Hlim Hw.
    - cbn [write_records] in Hw. inversion Hw; subst. exists 0%nat.
      split; [lia|]. split; [cbn; lia|]. split; [exact Hok|]. split; [apply Ext_refl|]. split; [lia|].
      intros rest now' m acc sup. cbn [firstn map plus]. rewrite app_nil_r. reflexivity.
    - inversion Hwf as [|q' qs' Hq Hqs]; subst q' qs'. cbn [fst] in Hq.
      cbn [write_records] in Hw.
      destruct (write_record mc st r now) as [[st1 fit]|e] eqn:E; [|discriminate]. cbn [bind] in Hw.
      destruct fit.
      + assert (Hfit := fun now' rest => write_record_fit hdr Hhdr mc st r now now' st1 rest Hok Hq Hlim E).
        destruct (Hfit 0 []) as (Hok1 & X1 & Z1 & _ & _).
        destruct (IH st1 (S n) st' n' Hok1 Hqs ltac:(lia) Hw) as (k & Hn & Hk & Hok' & X' & Z' & P').
        exists (S k). split; [lia|]. split; [cbn [length]; lia|]. split; [exact Hok'|].
        split; [exact (Ext_trans _ _ _ X1 X')|]. split; [lia|].
        intros rest now' m acc sup.
        assert (H1 : srecord (buf hdr st' ++ rest) now' (e_size st)
                     = Some (Some (expected_record mc now now' r), e_size st1)).
        { pattern (buf hdr st' ++ rest). apply (lift hdr _ st1 st' rest X'). intro x.
          destruct (Hfit now' x) as (_ & _ & _ & _ & H). exact H. }
        change (S k + m)%nat with (S (k + m)). cbn [srecords]. rewrite H1. rewrite P'.
        cbn [firstn map]. rewrite <- app_assoc. reflexivity.
      + inversion Hw; subst st' n'. clear Hw.
        destruct (write_record_rollback hdr Hhdr mc st r now st1 Hok Hq Hlim E) as (Hok1 & Hr & Hs & _).
        exists 0%nat. split; [lia|]. split; [lia|]. split; [exact Hok1|]. split; [apply Ext_same; exact Hr|].
        split; [lia|].
        intros rest now' m acc sup. cbn [firstn map plus]. rewrite app_nil_r, Hs. reflexivity.
  Qed.
End Loops.

(* ---------- one datagram ---------- *)
Lemma su16_hdr b0 b1 b2 b3 b4 b5 b6 b7 b8 b9 b10 b11 body :
  let D := b0 :: b1 :: b2 :: b3 :: b4 :: b5 :: b6 :: b7 :: b8 :: b9 :: b10 :: b11 :: body in
  su16 D 0 = Some (b0 * 256 + b1) /\ su16 D 2 = Some (b2 * 256 + b3) /\ su16 D 4 = Some (b4 * 256 + b5) /\
  su16 D 6 = Some (b6 * 256 + b7) /\ su16 D 8 = Some (b8 * 256 + b9) /\ su16 D 10 = Some (b10 * 256 + b11).
Proof. cbv zeta. repeat split; reflexivity. Qed.

Lemma short_val v : 0 <= v <= 65535 -> (v / 256) mod 256 * 256 + v mod 256 = v.
Proof. intro H. lia. Qed.

Lemma NamesOk_init hdr : length hdr = 12%nat -> NamesOk hdr enc_init.
Proof.
  intro H. split; [exact H|]. split; [reflexivity|]. intros n i [].
Qed.

Lemma one_packet mc now' qs ans auth adds s1 nq s2 na s3 nau s4 nad idv flags :
  Forall wf_question qs -> Forall (fun rn => wf_record (fst rn)) ans -> Forall wf_record auth -> Forall wf_record adds ->
  write_questions mc enc_init qs 0 = Ok (s1, nq) ->
  write_records mc s1 ans 0 = Ok (s2, na) ->
  write_records mc s2 (map (fun r => (r, 0)) auth) 0 = Ok (s3, nau) ->
  write_records mc s3 (map (fun r => (r, 0)) adds) 0 = Ok (s4, nad) ->
  0 <= idv <= 65535 -> 0 <= flags <= 65535 ->
  packet_ok now'
    (short_bytes idv ++ short_bytes flags ++ short_bytes (Z.of_nat nq) ++ short_bytes (Z.of_nat na)
     ++ short_bytes (Z.of_nat nau) ++ short_bytes (Z.of_nat nad) ++ rev (e_rev s4), (nq, na, nau, nad))
    (expected_parse mc now' qs ans auth adds (nq, na, nau, nad)).
Proof.
  intros Hq Ha Hu Hd E1 E2 E3 E4 Hid Hfl.
  set (hdr := short_bytes idv ++ short_bytes flags ++ short_bytes (Z.of_nat nq) ++ short_bytes (Z.of_nat na)
              ++ short_bytes (Z.of_nat nau) ++ short_bytes (Z.of_nat nad)).
  assert (Hhdr : length hdr = 12%nat) by reflexivity.
  assert (Hu' : Forall (fun rn : pyrec * Z => wf_record (fst rn)) (map (fun r => (r, 0)) auth)).
  { apply Forall_map. exact Hu. }
  assert (Hd' : Forall (fun rn : pyrec * Z => wf_record (fst rn)) (map (fun r => (r, 0)) adds)).
  { apply Forall_map. exact Hd. }
  assert (Hinit : e_size enc_init <= C_MAX_MSG_ABSOLUTE) by (cbn; unfold C_MAX_MSG_ABSOLUTE, C_DNS_PACKET_HEADER_LEN; lia).
  destruct (questions_loop hdr Hhdr mc qs enc_init 0 s1 nq (NamesOk_init hdr Hhdr) Hq Hinit E1)
    as (kq & Hkq & Lq & Hok1 & X1 & Z1 & P1).
  destruct (records_loop hdr Hhdr mc ans s1 0 s2 na Hok1 Ha ltac:(lia) E2)
    as (ka & Hka & La & Hok2 & X2 & Z2 & P2).
  destruct (records_loop hdr Hhdr mc _ s2 0 s3 nau Hok2 Hu' ltac:(lia) E3)
    as (ku & Hku & Lu & Hok3 & X3 & Z3 & P3).
  destruct (records_loop hdr Hhdr mc _ s3 0 s4 nad Hok3 Hd' ltac:(lia) E4)
    as (kd & Hkd & Ld & Hok4 & X4 & Z4 & P4).
  cbn [plus] in Hkq, Hka, Hku, Hkd. subst kq ka ku kd.
  change (e_size enc_init) with 12 in *. unfold C_MAX_MSG_ABSOLUTE in *.
  set (D := buf hdr s4).
  assert (HD : short_bytes idv ++ short_bytes flags ++ short_bytes (Z.of_nat nq) ++ short_bytes (Z.of_nat na)
     ++ short_bytes (Z.of_nat nau) ++ short_bytes (Z.of_nat nad) ++ rev (e_rev s4) = D).
  { unfold D, buf, hdr. rewrite <- !app_assoc. reflexivity. }
  unfold packet_ok. cbn [fst snd]. rewrite HD.
  (* section facts on the final datagram *)
  assert (X24 := Ext_trans _ _ _ X3 X4). assert (X14 := Ext_trans _ _ _ X2 X24).
  assert (Q : squestions D now' nq 12 [] = Some (map (exp_q mc now') (firstn nq qs), e_size s1)).
  { rewrite <- (app_nil_r D). unfold D. pattern (buf hdr s4 ++ []).
    apply (lift hdr _ s1 s4 [] X14). intro x.
    pose proof (P1 x now' 0%nat []) as H. rewrite Nat.add_0_r in H. cbn [squestions app] in H. exact H. }
  assert (R1 : forall acc sup, srecords D now' (na + (nau + nad)) (e_size s1) acc sup =
                               srecords D now' (nau + nad) (e_size s2) (acc ++ map (exp_a mc now') (firstn na ans)) sup).
  { intros acc sup. rewrite <- (app_nil_r D). unfold D. pattern (buf hdr s4 ++ []).
    apply (lift hdr _ s2 s4 [] X24). intro x. apply P2. }
  assert (R2 : forall acc sup, srecords D now' (nau + nad) (e_size s2) acc sup =
                               srecords D now' nad (e_size s3) (acc ++ map (exp_r mc now') (firstn nau auth)) sup).
  { intros acc sup. rewrite <- (app_nil_r D). unfold D. pattern (buf hdr s4 ++ []).
    apply (lift hdr _ s3 s4 [] X4). intro x. rewrite P3. rewrite firstn_map, map_map. reflexivity. }
  assert (R3 : forall acc sup, srecords D now' nad (e_size s3) acc sup =
                               Some (acc ++ map (exp_r mc now') (firstn nad adds), e_size s4, sup)).
  { intros acc sup. pose proof (P4 [] now' 0%nat acc sup) as H.
    rewrite Nat.add_0_r, app_nil_r in H. cbn [srecords] in H. rewrite firstn_map, map_map in H. exact H. }
  (* header *)
  pose proof (su16_hdr ((idv / 256) mod 256) (idv mod 256) ((flags / 256) mod 256) (flags mod 256)
                       ((Z.of_nat nq / 256) mod 256) (Z.of_nat nq mod 256)
                       ((Z.of_nat na / 256) mod 256) (Z.of_nat na mod 256)
                       ((Z.of_nat nau / 256) mod 256) (Z.of_nat nau mod 256)
                       ((Z.of_nat nad / 256) mod 256) (Z.of_nat nad mod 256) (rev (e_rev s4))) as HH.
  cbv zeta in HH.
  change (((idv / 256) mod 256) :: (idv mod 256) :: ((flags / 256) mod 256) :: (flags mod 256)
          :: ((Z.of_nat nq / 256) mod 256) :: (Z.of_nat nq mod 256)
          :: ((Z.of_nat na / 256) mod 256) :: (Z.of_nat na mod 256)
          :: ((Z.of_nat nau / 256) mod 256) :: (Z.of_nat nau mod 256)
          :: ((Z.of_nat nad / 256) mod 256) :: (Z.of_nat nad mod 256) :: (rev (e_rev s4))) with D in HH.
  destruct HH as (H0 & H2 & H4 & H6 & H8 & H10).
  rewrite short_val in H0, H2, H4, H6, H8, H10 by lia.
  pose proof (NamesOk_buf_len hdr Hhdr s4 Hok4) as HlenD. fold D in HlenD.
  unfold strict_parse. rewrite H0, H2, H4, H6, H8, H10.
  rewrite Nat2Z.id, Q.
  replace (Z.to_nat (Z.of_nat na + Z.of_nat nau + Z.of_nat nad)) with (na + (nau + nad))%nat by lia.
  rewrite R1, R2, R3.
  replace (e_size s4 =? slen D) with true by (unfold slen, len in *; lia).
  eexists. split; [reflexivity|]. cbn [s_questions s_records s_supported s_nq s_nan s_nau s_nad].
  unfold expected_parse. cbn [fst snd app]. rewrite <- app_assoc.
  repeat split; reflexivity.
Qed.

(* ---------- all datagrams ---------- *)
Lemma packets_loop_ok m now' : forall fuel qs ans auth adds acc ps,
  Forall wf_question qs -> Forall (fun rn => wf_record (fst rn)) ans -> Forall wf_record auth -> Forall wf_record adds ->
  packets_loop fuel m qs ans auth adds acc = Ok ps ->
  exists ps', ps = acc ++ ps' /\
    Forall2 (packet_ok now') ps' (expected_stream (o_multicast m) now' qs ans auth adds (map snd ps')).
Proof.
  induction fuel as [|fuel IH]; intros qs ans auth adds acc ps Hq Ha Hu Hd H; [discriminate|].
  cbn [packets_loop] in H. cbv zeta in H.
  destruct (write_questions (o_multicast m) enc_init qs 0) as [[s1 nq]|e] eqn:E1; [|discriminate]. cbn [bind] in H.
  destruct (write_records (o_multicast m) s1 ans 0) as [[s2 na]|e] eqn:E2; [|discriminate]. cbn [bind] in H.
  destruct (write_records (o_multicast m) s2 (map (fun r => (r, 0)) auth) 0) as [[s3 nau]|e] eqn:E3; [|discriminate].
  cbn [bind] in H.
  destruct (write_records (o_multicast m) s3 (map (fun r => (r, 0)) adds) 0) as [[s4 nad]|e] eqn:E4; [|discriminate].
  cbn [bind] in H.
  set (more := nonempty (skipn nq qs) || nonempty (skipn na ans) || nonempty (skipn nau auth) || nonempty (skipn nad adds)) in *.
  set (flags := if more && is_query (o_flags m) then Z.lor (o_flags m) C_FLAGS_TC else o_flags m) in *.
  destruct ((flags <? 0) || (65535 <? flags) || (o_id m <? 0) || (65535 <? o_id m)) eqn:Erange; [discriminate|].
  set (idv := if o_multicast m then 0 else o_id m) in *.
  assert (Hid : 0 <= idv <= 65535) by (unfold idv; destruct (o_multicast m); lia).
  assert (Hfl : 0 <= flags <= 65535) by lia.
  pose proof (one_packet (o_multicast m) now' qs ans auth adds s1 nq s2 na s3 nau s4 nad idv flags
                Hq Ha Hu Hd E1 E2 E3 E4 Hid Hfl) as Hpkt.
  set (pkt := (short_bytes idv ++ short_bytes flags ++ short_bytes (Z.of_nat nq) ++ short_bytes (Z.of_nat na)
               ++ short_bytes (Z.of_nat nau) ++ short_bytes (Z.of_nat nad) ++ rev (e_rev s4), (nq, na, nau, nad))) in *.
  assert (Hpk : ((short_bytes idv ++ short_bytes flags ++ short_bytes (Z.of_nat nq) ++ short_bytes (Z.of_nat na)
               ++ short_bytes (Z.of_nat nau) ++ short_bytes (Z.of_nat nad)) ++ rev (e_rev s4), (nq, na, nau, nad)) = pkt).
  { unfold pkt. rewrite <- !app_assoc. reflexivity. }
  rewrite Hpk in H.
  assert (Hone : exists ps', acc ++ [pkt] = acc ++ ps' /\
     Forall2 (packet_ok now') ps' (expected_stream (o_multicast m) now' qs ans auth adds (map snd ps'))).
  { exists [pkt]. split; [reflexivity|]. cbn [map expected_stream]. unfold pkt at 2. cbn [snd].
    constructor; [exact Hpkt|constructor]. }
  destruct (negb (nonempty (e_rev s4))).
  - inversion H; subst ps. exact Hone.
  - destruct more.
    + destruct (IH _ _ _ _ _ _ (Forall_skipn' _ nq _ Hq) (Forall_skipn' _ na _ Ha) (Forall_skipn' _ nau _ Hu)
                  (Forall_skipn' _ nad _ Hd) H) as (ps'' & Hps & HF).
      exists (pkt :: ps''). split; [rewrite Hps, <- app_assoc; reflexivity|].
      cbn [map expected_stream]. unfold pkt at 2. cbn [snd].
      constructor; [exact Hpkt|exact HF].
    + inversion H; subst ps. exact Hone.
Qed.

Theorem packets_roundtrip : forall m ps now', wf_msg m -> packets_info m = Ok ps ->
  Forall2 (packet_ok now') ps
    (expected_stream (o_multicast m) now' (o_questions m) (o_answers m) (o_authorities m) (o_additionals m) (map snd ps)).
Proof.
  intros m ps now' (Hq & Ha & Hu & Hd) H. unfold packets_info in H.
  destruct (packets_loop_ok m now' _ _ _ _ _ _ _ Hq Ha Hu Hd H) as (ps' & Hps & HF).
  cbn [app] in Hps. subst ps'. exact HF.
Qed.

(* the statement of the task, spelled out for a single datagram of the stream *)
Corollary packets_each_parses : forall m ps now' pkt, wf_msg m -> packets_info m = Ok ps -> In pkt ps ->
  exists sm, strict_parse (fst pkt) now' = Some sm /\ s_supported sm = true.
Proof.
  intros m ps now' pkt Hwf H Hin. pose proof (packets_roundtrip m ps now' Hwf H) as HF.
  clear H. revert Hin. induction HF as [|p e ps' es Hp HF IH]; intro Hin; [contradiction|].
  destruct Hin as [->|Hin]; [|apply IH; exact Hin].
  unfold packet_ok in Hp. destruct (snd pkt) as [[[nq na] nau] nad].
  destruct Hp as (sm & H1 & _ & _ & H2 & _). exists sm. split; assumption.
Qed.

Print Assumptions packets_roundtrip.
Print Assumptions packets_each_parses.
