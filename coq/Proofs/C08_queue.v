(* C08 (helper 1): facts about the outgoing queue that hold for EVERY per-entry predicate:
   whatever holds of every (record id, additionals) entry of every group keeps holding under
   async_add (if it holds of the added answers), under async_ready_body and under the key
   stripping done by async_unregister_service - and it holds of everything async_ready_body emits. *)
From Coq Require Import ZArith List Bool Lia ZifyBool.
From ZC Require Import Model.Base Model.Dict Model.OutQueue Proofs.C12_lemmas.
Import ListNotations.
Open Scope Z_scope.
Ltac Zify.zify_post_hook ::= Z.to_euclidean_division_equations.

Definition entry := (Z * list Z)%type.

(* every entry of an answers dict satisfies E *)
Definition AnsAll (E : entry -> Prop) (a : answers) : Prop := Forall E a.
(* every entry of every group of the queue satisfies E *)
Definition QAll (E : entry -> Prop) (q : oq) : Prop := Forall (fun g => AnsAll E (g_answers g)) (q_groups q).

(* the `strip` of nstep's LUnregister case (async_remove_answers): pop the withdrawn ids out of every group and drop them
   from the additionals of every entry that stays *)
Definition prune_adds (ids : list Z) (kv : entry) : entry :=
  (fst kv, filter (fun x => negb (existsb (Z.eqb x) ids)) (snd kv)).
Definition strip_group (ids : list Z) (g : group) : group :=
  {| g_after := g_after g; g_before := g_before g;
     g_answers := map (prune_adds ids) (a_remove_keys (g_answers g) (map (fun i => (i, [])) ids)) |}.
Definition strip_queue (ids : list Z) (q : oq) : oq :=
  {| q_groups := map (strip_group ids) (q_groups q);
     q_timers := q_timers q; q_additional := q_additional q; q_aggregation := q_aggregation q |}.

Section Entries.
  Variable E : entry -> Prop.

  Lemma all_d_set d k v : AnsAll E d -> E (k, v) -> AnsAll E (d_set Z.eqb d k v).
  Proof.
    intros Hd Hkv. induction d as [|[k0 v0] d IH]; cbn [d_set].
    - constructor; [exact Hkv|constructor].
    - inversion Hd as [|? ? Hh Ht]; subst. destruct (k0 =? k) eqn:K.
      + apply Z.eqb_eq in K. subst k0. constructor; [exact Hkv|exact Ht].
      + constructor; [exact Hh|apply IH; exact Ht].
  Qed.

  Lemma all_d_del d k : AnsAll E d -> AnsAll E (d_del Z.eqb d k).
  Proof.
    intros Hd. induction d as [|[k0 v0] d IH]; cbn [d_del]; [constructor|].
    inversion Hd as [|? ? Hh Ht]; subst. destruct (k0 =? k); [exact Ht|].
    constructor; [exact Hh|apply IH; exact Ht].
  Qed.

  Lemma all_a_update b : forall a, AnsAll E a -> AnsAll E b -> AnsAll E (a_update a b).
  Proof.
    induction b as [|[k v] b IH]; intros a Ha Hb; [exact Ha|].
    rewrite a_update_cons. inversion Hb as [|? ? Hh Ht]; subst. apply IH; [|exact Ht].
    apply all_d_set; [exact Ha|exact Hh].
  Qed.

  Lemma all_a_remove s : forall a, AnsAll E a -> AnsAll E (a_remove_keys a s).
  Proof.
    induction s as [|kv s IH]; intros a Ha; [exact Ha|].
    rewrite a_remove_cons. apply IH. apply all_d_del. exact Ha.
  Qed.

  Lemma all_replace_last (f : group -> group) gs :
    (forall g, AnsAll E (g_answers g) -> AnsAll E (g_answers (f g))) ->
    Forall (fun g => AnsAll E (g_answers g)) gs ->
    Forall (fun g => AnsAll E (g_answers g)) (replace_last gs f).
  Proof.
    intros Hf. induction gs as [|g gs IH]; intro H; [constructor|].
    inversion H as [|? ? Hh Ht]; subst. destruct gs as [|g2 gs'].
    - cbn [replace_last]. constructor; [apply Hf; exact Hh|constructor].
    - change (replace_last (g :: g2 :: gs') f) with (g :: replace_last (g2 :: gs') f).
      constructor; [exact Hh|apply IH; exact Ht].
  Qed.

  Lemma QAll_add q now tnow rnd a : QAll E q -> AnsAll E a -> QAll E (async_add q now tnow rnd a).
  Proof.
    unfold QAll, async_add. intros Hq Ha. cbv zeta.
    destruct (q_groups q) as [|g0 gs] eqn:G.
    - cbn [q_groups]. constructor; [exact Ha|constructor].
    - match goal with |- context [if ?c then _ else _] => destruct c end; cbn [q_groups].
      + apply all_replace_last; [|exact Hq]. intros g Hg. cbn [g_answers]. apply all_a_update; assumption.
      + apply Forall_app. split; [exact Hq|]. constructor; [exact Ha|constructor].
  Qed.

  Lemma all_pop_due : forall gs now acc rest sent,
    pop_due gs now acc = (rest, sent) ->
    Forall (fun g => AnsAll E (g_answers g)) gs -> AnsAll E acc ->
    Forall (fun g => AnsAll E (g_answers g)) rest /\ AnsAll E sent.
  Proof.
    induction gs as [|g gs IH]; intros now acc rest sent P Hgs Hacc; cbn [pop_due] in P.
    - inversion P; subst. split; [constructor|exact Hacc].
    - inversion Hgs as [|? ? Hh Ht]; subst. destruct (g_after g <=? now).
      + eapply IH; [exact P|exact Ht|]. apply all_a_update; assumption.
      + inversion P; subst. split; [exact Hgs|exact Hacc].
  Qed.

  Lemma all_strip_groups sent rest :
    Forall (fun g => AnsAll E (g_answers g)) rest ->
    Forall (fun g => AnsAll E (g_answers g))
      (map (fun g => {| g_after := g_after g; g_before := g_before g;
                        g_answers := a_remove_keys (g_answers g) sent |}) rest).
  Proof.
    intro H. apply Forall_map. eapply Forall_impl; [|exact H].
    intros g Hg. cbn [g_answers]. apply all_a_remove. exact Hg.
  Qed.

  Lemma QAll_pop_branch q now q' out :
    pop_branch q now = (q', out) -> QAll E q ->
    QAll E q' /\ (forall a, out = Some a -> AnsAll E a).
  Proof.
    unfold pop_branch, QAll. intros P Hq.
    destruct (pop_due (q_groups q) now []) as [rest sent] eqn:PD.
    destruct (all_pop_due _ _ _ _ _ PD Hq (Forall_nil _)) as [Hrest Hsent].
    inversion P; subst; clear P. cbn [q_groups]. split; [apply all_strip_groups; exact Hrest|].
    intros a Ha. destruct sent; [discriminate|]. inversion Ha; subst. exact Hsent.
  Qed.

  Lemma QAll_ready q now q' out :
    async_ready_body q now = (q', out) -> QAll E q ->
    QAll E q' /\ (forall a, out = Some a -> AnsAll E a).
  Proof.
    rewrite ready_unfold. intros R Hq.
    destruct (q_groups q) as [|g0 [|g1 r]] eqn:G.
    - eapply QAll_pop_branch; eassumption.
    - eapply QAll_pop_branch; eassumption.
    - destruct (g_before g0 >? now).
      + inversion R; subst; clear R. split; [|intros a Ha; discriminate].
        unfold QAll in *. cbn [q_groups]. rewrite G in Hq. exact Hq.
      + eapply QAll_pop_branch; eassumption.
  Qed.

  Lemma QAll_strip ids q : (forall e, E e -> E (prune_adds ids e)) -> QAll E q -> QAll E (strip_queue ids q).
  Proof.
    unfold QAll, strip_queue. cbn [q_groups]. intros HP H. apply Forall_map.
    eapply Forall_impl; [|exact H]. intros g Hg. cbn [strip_group g_answers]. unfold AnsAll. apply Forall_map.
    eapply Forall_impl; [|apply all_a_remove; exact Hg]. exact HP.
  Qed.
End Entries.

(* weakening *)
Lemma AnsAll_impl (E E' : entry -> Prop) a : (forall e, E e -> E' e) -> AnsAll E a -> AnsAll E' a.
Proof. intros H Ha. eapply Forall_impl; [|exact Ha]. exact H. Qed.

Lemma QAll_impl (E E' : entry -> Prop) q : (forall e, E e -> E' e) -> QAll E q -> QAll E' q.
Proof.
  intros H Hq. unfold QAll in *. eapply Forall_impl; [|exact Hq].
  intros g Hg. eapply AnsAll_impl; eassumption.
Qed.

Lemma QAll_in (E : entry -> Prop) q g e : QAll E q -> In g (q_groups q) -> In e (g_answers g) -> E e.
Proof.
  intros Hq Hg He. unfold QAll in Hq. rewrite Forall_forall in Hq. specialize (Hq g Hg).
  unfold AnsAll in Hq. rewrite Forall_forall in Hq. apply Hq. exact He.
Qed.

(* ---- stripping really removes the keys, when the groups are dicts (no duplicate key) ---- *)
Definition QDict (q : oq) : Prop := Forall (fun g => NoDup (keys (g_answers g))) (q_groups q).

Definition key_not_in (K : list Z) (e : entry) : Prop := ~ In (fst e) K.

Lemma AnsAll_keys (K : list Z) a : AnsAll (key_not_in K) a <-> (forall k, In k (keys a) -> ~ In k K).
Proof.
  unfold AnsAll, key_not_in, keys. rewrite Forall_forall. split.
  - intros H k Hk. apply in_map_iff in Hk as (e & <- & He). apply H. exact He.
  - intros H e He. apply H. apply in_map. exact He.
Qed.

Lemma keys_of_ids (ids : list Z) : keys (map (fun i => (i, @nil Z)) ids) = ids.
Proof. unfold keys. rewrite map_map. cbn [fst]. apply map_id. Qed.

Lemma keys_prune ids (a : answers) : keys (map (prune_adds ids) a) = keys a.
Proof. unfold keys. rewrite map_map. apply map_ext. reflexivity. Qed.

(* no id of K among the additionals / neither as key nor among the additionals *)
Definition adds_not_in (K : list Z) (e : entry) : Prop := forall a, In a (snd e) -> ~ In a K.
Definition free_of (K : list Z) (e : entry) : Prop := key_not_in K e /\ adds_not_in K e.

Lemma prune_adds_not_in ids e : adds_not_in ids (prune_adds ids e).
Proof.
  intros a Ha Hin. cbn [prune_adds snd] in Ha. apply filter_In in Ha as [_ Ha]. apply negb_true_iff in Ha.
  assert (X : existsb (Z.eqb a) ids = true) by (apply existsb_exists; exists a; split; [exact Hin|apply Z.eqb_refl]).
  congruence.
Qed.

Lemma strip_removes ids q : QDict q -> QAll (key_not_in ids) (strip_queue ids q).
Proof.
  unfold QDict, QAll, strip_queue. cbn [q_groups]. intro H. apply Forall_map.
  eapply Forall_impl; [|exact H]. intros g Hg. cbn [strip_group g_answers].
  apply AnsAll_keys. intros k Hk. rewrite keys_prune in Hk.
  pose proof (keys_remove_nodup (map (fun i => (i, [])) ids) (g_answers g) k Hg Hk) as X. rewrite keys_of_ids in X. exact X.
Qed.

Lemma strip_removes_adds ids q : QAll (adds_not_in ids) (strip_queue ids q).
Proof.
  unfold QAll, strip_queue. cbn [q_groups]. apply Forall_map. apply Forall_forall. intros g _.
  cbn [strip_group g_answers]. unfold AnsAll. apply Forall_map. apply Forall_forall. intros e _. apply prune_adds_not_in.
Qed.

Lemma QAll_and (E1 E2 : entry -> Prop) q : QAll E1 q -> QAll E2 q -> QAll (fun e => E1 e /\ E2 e) q.
Proof.
  unfold QAll, AnsAll. rewrite !Forall_forall. intros H1 H2 g Hg. specialize (H1 g Hg). specialize (H2 g Hg).
  rewrite Forall_forall in *. intros e He. split; [apply H1|apply H2]; exact He.
Qed.

Lemma strip_frees ids q : QDict q -> QAll (free_of ids) (strip_queue ids q).
Proof. intro D. apply QAll_and; [apply strip_removes; exact D|apply strip_removes_adds]. Qed.

(* entries that survive the stripping were there before *)
Lemma in_d_del (d : answers) k e : In e (d_del Z.eqb d k) -> In e d.
Proof.
  induction d as [|[k0 v0] d IH]; cbn [d_del]; [intros []|].
  destruct (k0 =? k); [intro H; right; exact H|]. intros [H|H]; [left; exact H|right; apply IH; exact H].
Qed.

Lemma in_a_remove s : forall (a : answers) e, In e (a_remove_keys a s) -> In e a.
Proof.
  induction s as [|kv s IH]; intros a e H; [exact H|].
  rewrite a_remove_cons in H. apply IH in H. eapply in_d_del. exact H.
Qed.

Lemma strip_groups_in ids q g' e :
  In g' (q_groups (strip_queue ids q)) -> In e (g_answers g') ->
  exists g e0, In g (q_groups q) /\ In e0 (g_answers g) /\ e = prune_adds ids e0.
Proof.
  unfold strip_queue. cbn [q_groups]. intros Hg He. apply in_map_iff in Hg as (g & <- & Hg).
  cbn [strip_group g_answers] in He. apply in_map_iff in He as (e0 & <- & He0).
  exists g, e0. split; [exact Hg|]. split; [eapply in_a_remove; exact He0|reflexivity].
Qed.
