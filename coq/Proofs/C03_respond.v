(* C03: the responder theorems. Helper developments: C03_reg (registry invariant), C03_sets (answer sets and
   routing up to identity), C03_answers (strategies vs candidates). *)
From ZC Require Import Model.Base Model.PyRec Model.Dict Model.Re Model.Cache Model.Respond Gen.Const Gen.Extra Gen.DnsPure Spec.AnswerSpec Proofs.C20_identity.
From ZC Require Import Proofs.C03_reg Proofs.C03_sets Proofs.C03_answers.
From Coq Require Import Permutation.

(* ================= registry ================= *)
Theorem reg_run_inv : forall ops, RegInv (reg_run ops).
Proof. exact reg_run_inv_. Qed.

Theorem reg_add_duplicate : forall g s, d_mem text_eqb (g_services g) (s_key s) = true ->
  reg_add g s = Raise ServiceNameAlreadyRegistered.
Proof. exact reg_add_duplicate_. Qed.

(* ================= known-answer suppression ================= *)
Lemma fold_vals (l : list pyrec) (d : list (pyrec * pyrec)) w :
  In w (map snd (fold_left (fun d k => d_set gen_eq d k k) l d)) -> In w (map snd d) \/ In w l.
Proof.
  revert d. induction l as [|x l IH]; intro d; cbn [fold_left]; [intro H; left; exact H|].
  intro H. apply IH in H as [H|H]; [|right; right; exact H].
  apply in_map_iff in H as ([k w'] & Hsnd & HIn). cbn [snd] in Hsnd. subst w'.
  apply vals_d_set_in in HIn as [HIn|HIn]; [left; exact HIn|right; left; symmetry; exact HIn].
Qed.

Theorem suppresses_spec : forall known r, suppresses known r = true ->
  exists k, In k known /\ gen_eq k r = true /\ p_ttl r < 2 * p_ttl k.
Proof.
  intros known r. unfold suppresses.
  destruct (d_get gen_eq (kn_lookup known) r) as [o|] eqn:G; [|discriminate].
  intro H. exists o. split; [|split].
  - apply d_get_in_gen in G. unfold kn_lookup, d_of_list in G. apply fold_vals in G as [[]|G]. exact G.
  - apply (d_get_vk (rrset_lookup known)); [apply rrset_lookup_vk|exact G].
  - rewrite suppresses_cmp_spec in H. apply Z.ltb_lt in H. exact H.
Qed.

(* ================= TTLs ================= *)
Lemma in_addresses s d : In d (dns_addresses s) -> p_kind d = KAddress /\ p_ttl d = s_host_ttl s.
Proof.
  unfold dns_addresses. intro H. apply in_app_or in H as [H|H]; apply in_map_iff in H as (x & <- & _); split; reflexivity.
Qed.

Theorem candidate_ttls : forall svcs q r, In r (candidates svcs q) ->
  (p_name r = C_SERVICE_TYPE_ENUMERATION_NAME /\ p_ttl r = C_DNS_OTHER_TTL) \/
  exists s, In s svcs /\
    ((p_kind r = KPointer \/ p_kind r = KText) /\ p_ttl r = s_other_ttl s \/
     (p_kind r = KService \/ p_kind r = KAddress \/ p_kind r = KNsec) /\ p_ttl r = s_host_ttl s).
Proof.
  intros svcs q r. unfold candidates. cbv zeta.
  destruct ((p_type_ q =? C_TYPE_PTR) && text_eqb (lower (p_name q)) C_SERVICE_TYPE_ENUMERATION_NAME).
  - intro H. apply in_map_iff in H as (s & <- & _). left. split; reflexivity.
  - intro H. right. apply in_app_or in H as [H|H]; [|apply in_app_or in H as [H|H]; [|apply in_app_or in H as [H|H]]].
    + destruct (is_in (p_type_ q) [C_TYPE_PTR; C_TYPE_ANY]); [|destruct H].
      apply in_map_iff in H as (s & <- & HIn). apply filter_In in HIn as [HIn _].
      exists s. split; [exact HIn|]. left. split; [left; reflexivity|reflexivity].
    + destruct (is_in (p_type_ q) [C_TYPE_A; C_TYPE_AAAA]); [|destruct H].
      apply in_flat_map in H as (s & HIn & Hr). apply filter_In in HIn as [HIn _].
      exists s. split; [exact HIn|]. right. cbv zeta in Hr.
      destruct (filter (fun d => p_type_ d =? p_type_ q) (dns_addresses s)) as [|x l] eqn:F; cbn [nonempty] in Hr.
      * destruct Hr as [<-|[]]. split; [right; right; reflexivity|reflexivity].
      * rewrite <- F in Hr. apply filter_In in Hr as [Hr _]. apply in_addresses in Hr as [Hk Ht].
        split; [right; left; exact Hk|exact Ht].
    + destruct (is_in (p_type_ q) [C_TYPE_SRV; C_TYPE_ANY]); [|destruct H].
      apply in_map_iff in H as (s & <- & HIn). apply filter_In in HIn as [HIn _].
      exists s. split; [exact HIn|]. right. split; [left; reflexivity|reflexivity].
    + destruct (is_in (p_type_ q) [C_TYPE_TXT; C_TYPE_ANY]); [|destruct H].
      apply in_map_iff in H as (s & <- & HIn). apply filter_In in HIn as [HIn _].
      exists s. split; [exact HIn|]. left. split; [right; reflexivity|reflexivity].
Qed.

(* ================= case-insensitive matching ================= *)
Theorem response_case_insensitive : forall g q q', lower (p_name q) = lower (p_name q') -> p_type_ q = p_type_ q' ->
  get_strategies g q = get_strategies g q'.
Proof. intros g q q' Hn Ht. unfold get_strategies. rewrite Hn, Ht. reflexivity. Qed.

(* ================= the shape of async_response ================= *)
Definition strategies_of (g : registry) (msgs : list qmsg) : list (pyrec * strategy) :=
  flat_map (fun m => flat_map (fun q => map (fun st => (q, st)) (get_strategies g q)) (qm_questions m)) msgs.

Definition rstep (c : cache) (now : Z) (is_probe : bool) (questions known : list pyrec) (ucast_source : bool)
                 (qr : qresp) (qs : pyrec * strategy) : qresp :=
  let '(q, st) := qs in
  let answers := answer_question known (p_type_ q) st in
  if negb ucast_source && DNSEntry_unique q then add_qu c now is_probe qr answers
  else add_mcast c now is_probe questions (if ucast_source then add_ucast qr answers else qr) answers.

Definition qr_empty : qresp :=
  {| q_additionals := []; q_ucast := []; q_mcast_now := []; q_mcast_aggregate := []; q_mcast_last_second := [] |}.

Definition qa_of (qr : qresp) : question_answers :=
  {| qa_ucast := with_additionals qr (q_ucast qr); qa_mcast_now := with_additionals qr (q_mcast_now qr);
     qa_mcast_aggregate := with_additionals qr (q_mcast_aggregate qr);
     qa_mcast_last_second := with_additionals qr (q_mcast_last_second qr) |}.

Lemma async_response_eq g c msgs ucast :
  async_response g c msgs ucast =
  match strategies_of g msgs, msgs with
  | [], _ => None
  | _, [] => None
  | _, m0 :: _ =>
      Some (qa_of (fold_left (rstep c (qm_now (last msgs m0)) (existsb qm_is_probe msgs) (qm_questions m0)
                                    (known_answers msgs) ucast) (strategies_of g msgs) qr_empty))
  end.
Proof. reflexivity. Qed.

(* either there is no strategy and no response, or the response is read off the folded state *)
Lemma async_response_cases g c msgs ucast :
  (strategies_of g msgs = [] /\ async_response g c msgs ucast = None) \/
  exists now p qs,
    async_response g c msgs ucast =
    Some (qa_of (fold_left (rstep c now p qs (known_answers msgs) ucast) (strategies_of g msgs) qr_empty)).
Proof.
  rewrite async_response_eq. destruct msgs as [|m0 ms].
  - left. split; reflexivity.
  - destruct (strategies_of g (m0 :: ms)) as [|p l] eqn:S.
    + left. split; reflexivity.
    + right. eexists _, _, _. reflexivity.
Qed.

Lemma map_fst_with_additionals qr rs : map fst (with_additionals qr rs) = rs.
Proof. unfold with_additionals. rewrite map_map. cbn [fst]. apply map_id. Qed.

Lemma has_all_answers qr a : has (map fst (all_answers (Some (qa_of qr)))) a <-> has4 qr a.
Proof.
  unfold all_answers, qa_of; cbn [qa_ucast qa_mcast_now qa_mcast_aggregate qa_mcast_last_second].
  rewrite !map_app, !map_fst_with_additionals, !has_app. unfold has4. tauto.
Qed.

Lemma has4_rstep c now p qs known ucast qr x a :
  has4 (rstep c now p qs known ucast qr x) a <->
  has4 qr a \/ has (map fst (answer_question known (p_type_ (fst x)) (snd x))) a.
Proof.
  destruct x as [q st]. unfold rstep. cbn [fst snd].
  destruct (negb ucast && DNSEntry_unique q).
  - apply has4_add_qu.
  - rewrite has4_add_mcast. destruct ucast; [rewrite has4_add_ucast|]; tauto.
Qed.

Lemma has4_fold c now p qs known ucast S qr a :
  has4 (fold_left (rstep c now p qs known ucast) S qr) a <->
  has4 qr a \/ exists x, In x S /\ has (map fst (answer_question known (p_type_ (fst x)) (snd x))) a.
Proof.
  revert qr. induction S as [|x S IH]; intro qr; cbn [fold_left].
  - split; [intro H; left; exact H|]. intros [H|(x & [] & _)]. exact H.
  - rewrite IH, has4_rstep. split.
    + intros [[H|H]|(y & HIn & H)]; [left; exact H|right; exists x; split; [left; reflexivity|exact H]|].
      right. exists y. split; [right; exact HIn|exact H].
    + intros [H|(y & [<-|HIn] & H)]; [left; left; exact H|left; right; exact H|]. right. exists y. auto.
Qed.

Lemma has4_empty a : has4 qr_empty a <-> False.
Proof. unfold has4, qr_empty; cbn. rewrite !has_nil. tauto. Qed.

Lemma in_strategies_of g msgs x :
  In x (strategies_of g msgs) <->
  exists m, In m msgs /\ In (fst x) (qm_questions m) /\ In (snd x) (get_strategies g (fst x)).
Proof.
  unfold strategies_of. rewrite in_flat_map. split.
  - intros (m & Hm & H). apply in_flat_map in H as (q & Hq & H). apply in_map_iff in H as (st & <- & Hst).
    exists m. cbn [fst snd]. auto.
  - intros (m & Hm & Hq & Hst). exists m. split; [exact Hm|]. apply in_flat_map. exists (fst x). split; [exact Hq|].
    apply in_map_iff. exists (snd x). split; [destruct x; reflexivity|exact Hst].
Qed.

(* the records offered are, up to identity, the keys of the per-strategy answer sets *)
Lemma response_keys g c msgs ucast a :
  has (map fst (all_answers (async_response g c msgs ucast))) a <->
  exists m q, In m msgs /\ In q (qm_questions m) /\ Mx (known_answers msgs) (p_type_ q) (get_strategies g q) a.
Proof.
  assert (R : (exists x, In x (strategies_of g msgs) /\
                 has (map fst (answer_question (known_answers msgs) (p_type_ (fst x)) (snd x))) a) <->
              exists m q, In m msgs /\ In q (qm_questions m) /\ Mx (known_answers msgs) (p_type_ q) (get_strategies g q) a).
  { split.
    - intros (x & HIn & H). apply in_strategies_of in HIn as (m & Hm & Hq & Hst).
      exists m, (fst x). split; [exact Hm|]. split; [exact Hq|]. exists (snd x). auto.
    - intros (m & q & Hm & Hq & st & Hst & H). exists (q, st). split; [|exact H].
      apply in_strategies_of. exists m. auto. }
  rewrite <- R. destruct (async_response_cases g c msgs ucast) as [[S E]|(now & p & qs & E)]; rewrite E.
  - rewrite S. cbn [all_answers map]. rewrite has_nil. split; [intros []|intros (x & [] & _)].
  - rewrite has_all_answers, has4_fold, has4_empty. tauto.
Qed.

(* ================= exactness ================= *)
(* the one corner where the statement fails: the NSEC record that answers a question for a missing address type is
   offered without consulting the known answers; exactness holds iff no such NSEC is listed by the querier *)
Definition nsec_not_suppressed (g : registry) (msgs : list qmsg) : Prop :=
  forall m q s, In m msgs -> In q (qm_questions m) -> In s (registered g) ->
    text_eqb (s_server_key s) (lower (p_name q)) = true ->
    is_in (p_type_ q) [C_TYPE_A; C_TYPE_AAAA] = true ->
    filter (fun d => p_type_ d =? p_type_ q) (dns_addresses s) = [] ->
    suppresses (known_answers msgs) (dns_nsec s (missing_types (map p_type_ (dns_addresses s)))) = false.

Lemma shape_mono known svcs q (addr addr' : Z -> svc -> pyrec -> Prop) a :
  (forall s, In s svcs -> text_eqb (s_server_key s) (lower (p_name q)) = true ->
             is_in (p_type_ q) [C_TYPE_A; C_TYPE_AAAA] = true -> addr (p_type_ q) s a -> addr' (p_type_ q) s a) ->
  shape known svcs q addr a -> shape known svcs q addr' a.
Proof.
  intro H. unfold shape. cbv zeta.
  destruct ((p_type_ q =? C_TYPE_PTR) && text_eqb (lower (p_name q)) C_SERVICE_TYPE_ENUMERATION_NAME); [auto|].
  intros [H1|[(H2 & s & HIn & Ha)|H3]]; [left; exact H1| |right; right; exact H3].
  right. left. split; [exact H2|]. exists s. split; [exact HIn|].
  apply filter_In in HIn as [HIn Hk]. apply H; assumption.
Qed.

Lemma exact_unfold (msgs : list qmsg) (L : pyrec -> Prop) (C : pyrec -> list pyrec) a :
  (exists m q r, In m msgs /\ In q (qm_questions m) /\ In r (C q) /\
                 suppresses (known_answers msgs) r = false /\ gen_eq r a = true) <->
  (exists m q, In m msgs /\ In q (qm_questions m) /\ unsup (known_answers msgs) (C q) a).
Proof.
  split.
  - intros (m & q & r & Hm & Hq & Hr & Hs & E). exists m, q. split; [exact Hm|]. split; [exact Hq|]. exists r. auto.
  - intros (m & q & Hm & Hq & r & Hr & Hs & E). exists m, q, r. auto.
Qed.

(* completeness holds as stated: every candidate the querier does not suppress is offered *)
Theorem response_exact_complete : forall g c msgs ucast a, RegInv g ->
  (exists m q r, In m msgs /\ In q (qm_questions m) /\ In r (candidates (registered g) q) /\
                 suppresses (known_answers msgs) r = false /\ gen_eq r a = true) ->
  (exists r, In r (map fst (all_answers (async_response g c msgs ucast))) /\ gen_eq r a = true).
Proof.
  intros g c msgs ucast a RI H. apply (exact_unfold msgs (fun _ => True)) in H as (m & q & Hm & Hq & H).
  apply response_keys. exists m, q. split; [exact Hm|]. split; [exact Hq|].
  apply strategies_shape; [exact RI|]. apply candidates_shape in H. revert H. apply shape_mono.
  intros s _ _ Ht. apply addr_ans_of_cand. exact Ht.
Qed.

Theorem response_exact_partial : forall g c msgs ucast a, RegInv g -> nsec_not_suppressed g msgs ->
  ((exists r, In r (map fst (all_answers (async_response g c msgs ucast))) /\ gen_eq r a = true) <->
   (exists m q r, In m msgs /\ In q (qm_questions m) /\ In r (candidates (registered g) q) /\
                  suppresses (known_answers msgs) r = false /\ gen_eq r a = true)).
Proof.
  intros g c msgs ucast a RI HN. split; [|apply response_exact_complete; exact RI].
  intro H. apply (exact_unfold msgs (fun _ => True)). apply response_keys in H as (m & q & Hm & Hq & H).
  exists m, q. split; [exact Hm|]. split; [exact Hq|].
  apply candidates_shape. apply strategies_shape in H; [|exact RI]. revert H. apply shape_mono.
  intros s Hs Hk Ht. apply cand_of_addr_ans. intro HF. unfold the_nsec. eapply HN; eassumption.
Qed.

(* a simpler sufficient condition: the querier lists no NSEC record *)
Lemma suppresses_kind known r : suppresses known r = true -> exists k, In k known /\ p_kind k = p_kind r.
Proof.
  intro H. apply suppresses_spec in H as (k & HIn & E & _). exists k. split; [exact HIn|].
  destruct (kind_eqb (p_kind k) (p_kind r)) eqn:K; [apply kind_eqb_eq; exact K|].
  rewrite kinds_disjoint in E; [discriminate|]. intro X. apply kind_eqb_eq in X. congruence.
Qed.

Theorem response_exact_no_known_nsec : forall g c msgs ucast a, RegInv g ->
  (forall k, In k (known_answers msgs) -> p_kind k <> KNsec) ->
  ((exists r, In r (map fst (all_answers (async_response g c msgs ucast))) /\ gen_eq r a = true) <->
   (exists m q r, In m msgs /\ In q (qm_questions m) /\ In r (candidates (registered g) q) /\
                  suppresses (known_answers msgs) r = false /\ gen_eq r a = true)).
Proof.
  intros g c msgs ucast a RI HK. apply response_exact_partial; [exact RI|].
  intros m q s _ _ _ _ _ _.
  destruct (suppresses (known_answers msgs) (dns_nsec s (missing_types (map p_type_ (dns_addresses s))))) eqn:S;
    [|reflexivity].
  apply suppresses_kind in S as (k & HIn & Hk). exfalso. apply (HK k HIn). exact Hk.
Qed.

(* ---- the counterexample to response_exact as stated ---- *)
Definition cx_s : svc :=
  {| s_type := [116]; s_name := [110]; s_server := [104]; s_port := 80; s_weight := 0; s_priority := 0;
     s_text := []; s_host_ttl := 120; s_other_ttl := 4500; s_v4 := []; s_v6 := [[1]] |}.
Definition cx_g : registry := reg_run [OpAdd cx_s].
Definition cx_nsec : pyrec := dns_nsec cx_s (missing_types (map p_type_ (dns_addresses cx_s))).
Definition cx_q : pyrec := blank KQuestion [104] C_TYPE_A C_CLASS_IN 0.
Definition cx_m : qmsg := {| qm_questions := [cx_q]; qm_answers := [cx_nsec]; qm_is_probe := false; qm_now := 0 |}.

(* the host has only an AAAA address; the querier asks for A and already lists the NSEC: it is sent anyway *)
Example cx_offered : map fst (all_answers (async_response cx_g empty_cache [cx_m] false)) = [cx_nsec].
Proof. vm_compute. reflexivity. Qed.
Example cx_candidates : candidates (registered cx_g) cx_q = [cx_nsec].
Proof. vm_compute. reflexivity. Qed.
Example cx_suppressed : suppresses (known_answers [cx_m]) cx_nsec = true.
Proof. vm_compute. reflexivity. Qed.

Theorem response_exact_refuted :
  ~ (forall g c msgs ucast a, RegInv g ->
      ((exists r, In r (map fst (all_answers (async_response g c msgs ucast))) /\ gen_eq r a = true) <->
       (exists m q r, In m msgs /\ In q (qm_questions m) /\ In r (candidates (registered g) q) /\
                      suppresses (known_answers msgs) r = false /\ gen_eq r a = true))).
Proof.
  intro H. specialize (H cx_g empty_cache [cx_m] false cx_nsec (reg_run_inv [OpAdd cx_s])).
  destruct H as [H _].
  assert (L : exists r, In r (map fst (all_answers (async_response cx_g empty_cache [cx_m] false))) /\
                        gen_eq r cx_nsec = true).
  { exists cx_nsec. rewrite cx_offered. split; [left; reflexivity|apply eq_refl_]. }
  apply H in L as (m & q & r & Hm & Hq & Hr & Hs & _).
  destruct Hm as [<-|[]]. cbn [qm_questions cx_m] in Hq. destruct Hq as [<-|[]].
  rewrite cx_candidates in Hr. destruct Hr as [<-|[]]. rewrite cx_suppressed in Hs. discriminate.
Qed.

(* ---- the extra hypothesis is necessary: it is exactly what exactness needs ---- *)
Lemma ident_lower_name a b : ident_of a = ident_of b -> lower (p_name a) = lower (p_name b).
Proof.
  unfold ident_of. destruct (p_kind a), (p_kind b); intro H; try discriminate H; inversion H; reflexivity.
Qed.

Lemma gen_eq_kind_ a b : gen_eq a b = true -> p_kind a = p_kind b.
Proof.
  intro E. destruct (kind_eqb (p_kind a) (p_kind b)) eqn:K; [apply kind_eqb_eq; exact K|].
  rewrite kinds_disjoint in E; [discriminate|]. intro X. apply kind_eqb_eq in X. congruence.
Qed.

Lemma cand_nsec svcs q r :
  In r (candidates svcs q) -> p_kind r = KNsec -> exists s, In s svcs /\ r = the_nsec s.
Proof.
  unfold candidates. cbv zeta.
  destruct ((p_type_ q =? C_TYPE_PTR) && text_eqb (lower (p_name q)) C_SERVICE_TYPE_ENUMERATION_NAME).
  - intro H. apply in_map_iff in H as (s & <- & _). intro K. discriminate K.
  - intro H. apply in_app_or in H as [H|H]; [|apply in_app_or in H as [H|H]; [|apply in_app_or in H as [H|H]]].
    + destruct (is_in (p_type_ q) [C_TYPE_PTR; C_TYPE_ANY]); [|destruct H].
      apply in_map_iff in H as (s & <- & _). intro K. discriminate K.
    + destruct (is_in (p_type_ q) [C_TYPE_A; C_TYPE_AAAA]); [|destruct H].
      apply in_flat_map in H as (s & HIn & Hr). apply filter_In in HIn as [HIn _]. cbv zeta in Hr.
      destruct (filter (fun d => p_type_ d =? p_type_ q) (dns_addresses s)) as [|x l] eqn:F; cbn [nonempty] in Hr.
      * destruct Hr as [<-|[]]. intros _. exists s. split; [exact HIn|reflexivity].
      * rewrite <- F in Hr. apply filter_In in Hr as [Hr _]. apply in_addresses in Hr as [Hk _].
        intro K. rewrite Hk in K. discriminate K.
    + destruct (is_in (p_type_ q) [C_TYPE_SRV; C_TYPE_ANY]); [|destruct H].
      apply in_map_iff in H as (s & <- & _). intro K. discriminate K.
    + destruct (is_in (p_type_ q) [C_TYPE_TXT; C_TYPE_ANY]); [|destruct H].
      apply in_map_iff in H as (s & <- & _). intro K. discriminate K.
Qed.

Theorem nsec_hypothesis_necessary : forall g c msgs ucast, RegInv g ->
  (forall a,
    (exists r, In r (map fst (all_answers (async_response g c msgs ucast))) /\ gen_eq r a = true) <->
    (exists m q r, In m msgs /\ In q (qm_questions m) /\ In r (candidates (registered g) q) /\
                   suppresses (known_answers msgs) r = false /\ gen_eq r a = true)) ->
  nsec_not_suppressed g msgs.
Proof.
  intros g c msgs ucast RI EX m q s Hm Hq Hs Hk Ht HF.
  fold (the_nsec s). destruct (suppresses (known_answers msgs) (the_nsec s)) eqn:S; [|reflexivity]. exfalso.
  assert (L : exists r, In r (map fst (all_answers (async_response g c msgs ucast))) /\ gen_eq r (the_nsec s) = true).
  { apply response_keys. exists m, q. split; [exact Hm|]. split; [exact Hq|].
    apply strategies_shape; [exact RI|]. unfold shape. cbv zeta.
    assert (NP : (p_type_ q =? C_TYPE_PTR) = false).
    { unfold is_in in Ht. cbn [existsb] in Ht.
      apply orb_true_iff in Ht as [Ht|Ht]; [|apply orb_true_iff in Ht as [Ht|Ht]; [|discriminate Ht]];
        apply Z.eqb_eq in Ht; rewrite Ht; reflexivity. }
    rewrite NP. cbn [andb]. right. left. split; [exact Ht|]. exists s. split.
    - apply filter_In. split; [exact Hs|exact Hk].
    - right. split; [|split; [|apply eq_refl_]].
      + destruct (filter (fun d => (p_type_ d =? p_type_ q) && negb (suppresses (known_answers msgs) d)) (dns_addresses s))
          as [|y l'] eqn:F2; [reflexivity|].
        assert (HIn : In y (filter (fun d => p_type_ d =? p_type_ q) (dns_addresses s))).
        { assert (Hy : In y (y :: l')) by (left; reflexivity). rewrite <- F2 in Hy.
          apply filter_In in Hy as [Hy1 Hy2]. apply andb_true_iff in Hy2 as [Hy2 _]. apply filter_In. auto. }
        rewrite HF in HIn. destruct HIn.
      + apply in_missing. split; [exact Ht|]. apply hits_nil. exact HF. }
  apply EX in L as (m' & q' & r & _ & _ & Hr & Hsup & E).
  assert (K : p_kind r = KNsec) by (apply gen_eq_kind_ in E; rewrite E; reflexivity).
  destruct (cand_nsec _ _ _ Hr K) as (s' & Hs' & ->).
  assert (Hkey : s_key s' = s_key s).
  { apply eq_iff_ident in E. apply ident_lower_name in E. exact E. }
  assert (s' = s).
  { pose proof (proj2 (services_lookup g (s_key s) s' RI) (conj Hs' Hkey)) as G1.
    pose proof (proj2 (services_lookup g (s_key s) s RI) (conj Hs eq_refl)) as G2. congruence. }
  subst s'. rewrite S in Hsup. discriminate.
Qed.

(* ================= additionals ================= *)
Definition own (g : registry) (adds : list pyrec) : Prop :=
  forall x, In x adds -> exists s, In s (registered g) /\ In x (own_additionals s).

Lemma own_nil g : own g [].
Proof. intros x []. Qed.

Definition st_ok (g : registry) (st : strategy) : Prop :=
  match st with
  | SEnum _ => True
  | SPointer l | SAddress l => forall s, In s l -> In s (registered g)
  | SService s | SText s => In s (registered g)
  end.

Lemma get_strategies_ok g q st : In st (get_strategies g q) -> st_ok g st.
Proof.
  unfold get_strategies. cbv zeta.
  destruct ((p_type_ q =? C_TYPE_PTR) && text_eqb (lower (p_name q)) C_SERVICE_TYPE_ENUMERATION_NAME).
  - destruct (get_types g); [intros []|]. intros [<-|[]]. exact I.
  - intro H. apply in_app_or in H as [H|H]; [|apply in_app_or in H as [H|H]].
    + destruct ((p_type_ q =? C_TYPE_PTR) || (p_type_ q =? C_TYPE_ANY)); [|destruct H].
      destruct (get_infos g (g_types g) (lower (p_name q))) as [|x l] eqn:G; [destruct H|].
      destruct H as [<-|[]]. cbn [st_ok]. intros s Hs. rewrite <- G in Hs. eapply get_infos_registered. exact Hs.
    + destruct ((p_type_ q =? C_TYPE_A) || (p_type_ q =? C_TYPE_AAAA) || (p_type_ q =? C_TYPE_ANY)); [|destruct H].
      destruct (get_infos g (g_servers g) (lower (p_name q))) as [|x l] eqn:G; [destruct H|].
      destruct H as [<-|[]]. cbn [st_ok]. intros s Hs. rewrite <- G in Hs. eapply get_infos_registered. exact Hs.
    + destruct ((p_type_ q =? C_TYPE_SRV) || (p_type_ q =? C_TYPE_TXT) || (p_type_ q =? C_TYPE_ANY)); [|destruct H].
      destruct (d_get text_eqb (g_services g) (lower (p_name q))) as [s|] eqn:G; [|destruct H].
      assert (Hs : In s (registered g)).
      { apply td_get_in in G. unfold registered. change s with (snd (lower (p_name q), s)). apply in_map. exact G. }
      apply in_app_or in H as [H|H].
      * destruct ((p_type_ q =? C_TYPE_SRV) || (p_type_ q =? C_TYPE_ANY)); [|destruct H]. destruct H as [<-|[]]. exact Hs.
      * destruct ((p_type_ q =? C_TYPE_TXT) || (p_type_ q =? C_TYPE_ANY)); [|destruct H]. destruct H as [<-|[]]. exact Hs.
Qed.

Lemma adds_ok_nil (P : list pyrec -> Prop) : adds_ok P [].
Proof. intros w []. Qed.

Lemma adds_ok_fold_cond {X} (P : list pyrec -> Prop) known (f : X -> pyrec) (h : X -> list pyrec) l acc :
  (forall x, In x l -> P (h x)) -> adds_ok P acc ->
  adds_ok P (fold_left (fun acc x => if suppresses known (f x) then acc else as_set acc (f x) (h x)) l acc).
Proof.
  revert acc. induction l as [|x l IH]; intros acc Hl Ha; cbn [fold_left]; [exact Ha|].
  apply IH; [intros y Hy; apply Hl; right; exact Hy|].
  destruct (suppresses known (f x)); [exact Ha|]. apply adds_ok_as_set; [exact Ha|]. apply Hl. left. reflexivity.
Qed.

Lemma adds_ok_fold_const (P : list pyrec -> Prop) adds (answers : list pyrec) acc :
  P adds -> adds_ok P acc -> adds_ok P (fold_left (fun acc ans => as_set acc ans adds) answers acc).
Proof.
  intro Hp. revert acc. induction answers as [|x l IH]; intros acc Ha; cbn [fold_left]; [exact Ha|].
  apply IH. apply adds_ok_as_set; assumption.
Qed.

Lemma own_address_and_nsec g s l :
  In s (registered g) -> (forall x, In x l -> In x (address_and_nsec s)) -> own g l.
Proof.
  intros Hs Hl x Hx. exists s. split; [exact Hs|]. unfold own_additionals. apply in_or_app. right. apply Hl. exact Hx.
Qed.

Lemma adds_ok_add_address g known t acc s :
  In s (registered g) -> adds_ok (own g) acc -> adds_ok (own g) (add_address_answers known t acc s).
Proof.
  intros Hs Ha. unfold add_address_answers. cbv zeta.
  destruct (nonempty (filter (fun d => (p_type_ d =? t) && negb (suppresses known d)) (dns_addresses s))).
  - apply adds_ok_fold_const; [|exact Ha]. apply (own_address_and_nsec g s); [exact Hs|].
    unfold address_and_nsec. cbv zeta. intros x Hx.
    destruct (nonempty (missing_types (map p_type_ (dns_addresses s)))).
    + apply in_app_or in Hx as [Hx|Hx]; apply in_or_app; [left|right; exact Hx].
      apply filter_In in Hx as [Hx _]. exact Hx.
    + apply in_or_app. left. apply filter_In in Hx as [Hx _]. exact Hx.
  - destruct (existsb (Z.eqb t) (missing_types (map p_type_ (dns_addresses s)))); [|exact Ha].
    apply adds_ok_as_set; [exact Ha|apply own_nil].
Qed.

Lemma answer_adds_ok g known t st : st_ok g st -> adds_ok (own g) (answer_question known t st).
Proof.
  destruct st as [types|l|l|s|s]; cbn [st_ok answer_question]; intro H.
  - apply (adds_ok_fold_cond (own g) known enum_pointer (fun _ => [])); [intros; apply own_nil|apply adds_ok_nil].
  - apply (adds_ok_fold_cond (own g) known dns_pointer (fun s => [dns_service s; dns_text s] ++ address_and_nsec s));
      [|apply adds_ok_nil].
    intros s Hs x Hx. exists s. split; [apply H; exact Hs|exact Hx].
  - assert (G : forall acc, adds_ok (own g) acc -> adds_ok (own g) (fold_left (add_address_answers known t) l acc)).
    { induction l as [|s l IH]; intros acc Ha; cbn [fold_left]; [exact Ha|].
      apply IH; [intros s' Hs'; apply H; right; exact Hs'|].
      apply adds_ok_add_address; [apply H; left; reflexivity|exact Ha]. }
    apply G. apply adds_ok_nil.
  - destruct (suppresses known (dns_service s)); [apply adds_ok_nil|].
    apply adds_ok_as_set; [apply adds_ok_nil|]. apply (own_address_and_nsec g s); auto.
  - destruct (suppresses known (dns_text s)); [apply adds_ok_nil|].
    apply adds_ok_as_set; [apply adds_ok_nil|apply own_nil].
Qed.

Lemma adds_ok_rstep g c now p qs known ucast qr x :
  st_ok g (snd x) -> adds_ok (own g) (q_additionals qr) ->
  adds_ok (own g) (q_additionals (rstep c now p qs known ucast qr x)).
Proof.
  destruct x as [q st]. cbn [snd]. intros Hst Hq. unfold rstep.
  pose proof (answer_adds_ok g known (p_type_ q) st Hst) as Ha.
  destruct (negb ucast && DNSEntry_unique q).
  - apply adds_ok_add_qu; assumption.
  - apply adds_ok_add_mcast; [|exact Ha]. destruct ucast; [apply adds_ok_add_ucast; assumption|exact Hq].
Qed.

Lemma adds_ok_fold g c now p qs known ucast S qr :
  (forall x, In x S -> st_ok g (snd x)) -> adds_ok (own g) (q_additionals qr) ->
  adds_ok (own g) (q_additionals (fold_left (rstep c now p qs known ucast) S qr)).
Proof.
  revert qr. induction S as [|x S IH]; intros qr HS Hq; cbn [fold_left]; [exact Hq|].
  apply IH; [intros y Hy; apply HS; right; exact Hy|]. apply adds_ok_rstep; [apply HS; left; reflexivity|exact Hq].
Qed.

Lemma in_with_additionals (P : list pyrec -> Prop) qr rs r adds :
  adds_ok P (q_additionals qr) -> P [] -> In (r, adds) (with_additionals qr rs) -> P adds.
Proof.
  intros Hq H0 HIn. unfold with_additionals in HIn. apply in_map_iff in HIn as (r' & E & _). inversion E; subst.
  destruct (d_get gen_eq (q_additionals qr) r) as [w|] eqn:G; [|exact H0].
  apply Hq. eapply d_get_in_gen. exact G.
Qed.

Theorem additionals_own : forall g c msgs ucast r adds x, RegInv g ->
  In (r, adds) (all_answers (async_response g c msgs ucast)) -> In x adds ->
  exists s, In s (registered g) /\ In x (own_additionals s).
Proof.
  intros g c msgs ucast r adds x _ HIn Hx.
  destruct (async_response_cases g c msgs ucast) as [[_ E]|(now & p & qs & E)]; rewrite E in HIn; [destruct HIn|].
  cbn [all_answers] in HIn.
  match type of HIn with In _ (qa_ucast (qa_of ?q) ++ _) => set (qr := q) in * end.
  assert (Hq : adds_ok (own g) (q_additionals qr)).
  { apply adds_ok_fold; [|apply adds_ok_nil]. intros y Hy. apply in_strategies_of in Hy as (m & _ & _ & Hst).
    eapply get_strategies_ok. exact Hst. }
  assert (Ho : own g adds).
  { unfold qa_of in HIn; cbn [qa_ucast qa_mcast_now qa_mcast_aggregate qa_mcast_last_second] in HIn.
    repeat (apply in_app_or in HIn as [HIn|HIn]);
      eapply (in_with_additionals (own g)); try exact HIn; try exact Hq; apply own_nil. }
  apply Ho. exact Hx.
Qed.

Print Assumptions reg_run_inv.
Print Assumptions reg_add_duplicate.
Print Assumptions response_exact_partial.
Print Assumptions response_exact_complete.
Print Assumptions response_exact_no_known_nsec.
Print Assumptions response_exact_refuted.
Print Assumptions nsec_hypothesis_necessary.
Print Assumptions suppresses_spec.
Print Assumptions candidate_ttls.
Print Assumptions additionals_own.
Print Assumptions response_case_insensitive.
