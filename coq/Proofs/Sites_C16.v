(* Sites_C16: the comparisons of Model.Listener (and of Model.Front's size guard) are the ones AsyncListener writes now (Gen/Sites.v is
   regenerated from /repo on every run). A changed operator, constant or an added bound in the source breaks one of these lemmas. *)
From ZC Require Import Model.Base Model.Dict Model.Listener Gen.Const Gen.Sites.

Lemma tie_is_duplicate s data now :
  is_duplicate s data now =
  opt_bytes_eqb (ls_data s) data
  && sop_apply site_listener_dup_window (now - C_DUPLICATE_PACKET_SUPPRESSION_INTERVAL) (ls_last_time s)
  && match ls_last_msg s with Some has_qu => negb has_qu | None => false end.
Proof. reflexivity. Qed.

Lemma tie_oversize_drops s m addr now he tc :
  sop_apply site_listener_oversize (Z.of_nat (length (lm_data m))) site_listener_oversize_rhs = true ->
  datagram s m addr now he tc = (s, OOversize).
Proof. unfold datagram. intros H.
  change (Z.of_nat (length (lm_data m)) >? C_MAX_MSG_ABSOLUTE)
    with (sop_apply site_listener_oversize (Z.of_nat (length (lm_data m))) site_listener_oversize_rhs).
  rewrite H. reflexivity. Qed.

Lemma tie_oversize_only s m addr now he tc :
  snd (datagram s m addr now he tc) = OOversize ->
  sop_apply site_listener_oversize (Z.of_nat (length (lm_data m))) site_listener_oversize_rhs = true.
Proof. unfold datagram, respond_query.
  change (Z.of_nat (length (lm_data m)) >? C_MAX_MSG_ABSOLUTE)
    with (sop_apply site_listener_oversize (Z.of_nat (length (lm_data m))) site_listener_oversize_rhs).
  destruct (sop_apply site_listener_oversize (Z.of_nat (length (lm_data m))) site_listener_oversize_rhs); [reflexivity|].
  destruct (is_duplicate s (lm_data m) now); cbn [snd]; [discriminate|].
  destruct (negb (lm_valid m)); cbn [snd]; [discriminate|].
  destruct (negb (lm_is_query m)); cbn [snd]; [discriminate|].
  destruct (negb he); cbn [snd]; [discriminate|].
  destruct (negb (lm_truncated m)); cbn [snd]; [discriminate|].
  match goal with |- context [if ?b then _ else _] => destruct b end; cbn [snd]; discriminate. Qed.

Definition sites_C16_counts : Prop :=
  sites_found_C16 = true /\ ncmp_listener_AsyncListener_datagram_received = 1 /\ ncmp_listener_AsyncListener_process_datagram_at_time = 1.
Lemma sites_C16_counts_ok : sites_C16_counts. Proof. repeat split; reflexivity. Qed.
