(* C01, library half: every octet the message builder emits is a byte (0..255), and the library's own decoder
   (Model.WireDec.parse) recovers from every emitted datagram exactly what the strict RFC 1035 parser does.

   Findings / contents:
   - [wf_msg] does not constrain the raw rdata octets (addresses of A/AAAA records, text of TXT records), and the
     model's write_string copies them verbatim, so [packets_bytes_range] as stated is FALSE
     ([packets_bytes_range_false], datagram [cx_datagram] checked by vm_compute).  The weakest repair is [wf_payload]:
     those octets are bytes ([packets_bytes_range_partial]).
   - [packets_roundtrip_library_partial]: the corollary along the suggested route (byte range + C02
     parse_agrees_with_strict), hence under [wf_payload].
   - [packets_roundtrip_library]: the statement as given, WITHOUT [wf_payload].  The decoder only interprets the octets on
     name paths; C01_library_names re-establishes the encoder's name invariant with pointer octets <= 255,
     C01_library_enc lifts it to entries and datagrams ([parseN]), C01_library_dec re-derives the C02 agreement from
     [parseN] instead of wf_bytes.
   Compile order: C01_library_dec, C01_library_names, C01_library_enc, C01_library. *)
From Coq Require Import ZArith List Bool Lia ZifyBool.
From ZC Require Import Model.Base Model.PyRec Model.Dict Model.Re Model.Utf8 Model.Names Model.WireEnc Model.WireDec
                       Spec.Rfc1035 Gen.Const Gen.DnsPure Gen.Shapes.
From ZC Require Import Proofs.C01_utf8 Proofs.C01_defs Proofs.C01_name Proofs.C01_rebase Proofs.C01_nsec
                       Proofs.C01_record Proofs.C01_packets Proofs.C02_strict
                       Proofs.C01_library_dec Proofs.C01_library_names Proofs.C01_library_enc.
Import ListNotations.
Open Scope Z_scope.
Ltac Zify.zify_post_hook ::= Z.to_euclidean_division_equations.

(* ---------- the invariant ---------- *)
Definition is_byte (b : Z) : Prop := 0 <= b < 256.
Definition BytesOk (st : enc) : Prop := Forall is_byte (e_rev st).

Lemma Forall_firstn' {A} (P : A -> Prop) n : forall l, Forall P l -> Forall P (firstn n l).
Proof.
  induction n as [|n IH]; intros l H; [constructor|].
  destruct l as [|x l]; [constructor|]. inversion H as [|x' l' Hx Hl]; subst x' l'.
  cbn [firstn]. constructor; [exact Hx|apply IH; exact Hl].
Qed.

Lemma Forall_nth_byte (l : bytes) : Forall is_byte l -> forall k, is_byte (nth k l 0).
Proof.
  induction 1 as [|x l Hx Hl IH]; intro k.
  - destruct k; cbn [nth]; unfold is_byte; lia.
  - destruct k as [|k]; cbn [nth]; [exact Hx|apply IH].
Qed.

Lemma put_BytesOk st bs : BytesOk st -> Forall is_byte bs -> BytesOk (put st bs).
Proof.
  unfold BytesOk. intros Hs Hb. cbn [put e_rev]. rewrite rev_append_rev.
  apply Forall_app. split; [apply Forall_rev; exact Hb|exact Hs].
Qed.

Lemma write_byte_B st v st' : BytesOk st -> write_byte st v = Ok st' -> BytesOk st'.
Proof.
  intros Hs Hw. apply write_byte_inv in Hw. destruct Hw as [Hv ->].
  apply put_BytesOk; [exact Hs|]. constructor; [unfold is_byte; lia|constructor].
Qed.

Lemma write_short_B st v st' : BytesOk st -> write_short st v = Ok st' -> BytesOk st'.
Proof.
  intros Hs Hw. apply write_short_inv in Hw. destruct Hw as [Hv ->].
  apply put_BytesOk; [exact Hs|]. repeat constructor; unfold is_byte; lia.
Qed.

Lemma write_int_B st v st' : BytesOk st -> write_int st v = Ok st' -> BytesOk st'.
Proof.
  intros Hs Hw. apply write_int_inv in Hw. destruct Hw as [Hv ->].
  apply put_BytesOk; [exact Hs|]. repeat constructor; unfold is_byte; lia.
Qed.

Lemma write_utf_B st s st' : scalar_text s = true -> BytesOk st -> write_utf st s = Ok st' -> BytesOk st'.
Proof.
  intros Hsc Hs Hw. unfold write_utf in Hw.
  destruct (utf8_encode s) as [u|e] eqn:Eu; [|discriminate]. cbn [bind] in Hw.
  destruct (write_utf_rejects (Z.of_nat (length u))); [discriminate|].
  destruct (write_byte st (Z.of_nat (length u))) as [st1|e] eqn:E1; [|discriminate]. cbn [bind] in Hw.
  inversion Hw; subst st'. unfold write_string.
  apply put_BytesOk; [apply (write_byte_B _ _ _ Hs E1)|].
  exact (utf8_bytes_range s u Hsc Eu).
Qed.

Lemma write_character_string_B st b st' :
  Forall is_byte b -> BytesOk st -> write_character_string st b = Ok st' -> BytesOk st'.
Proof.
  intros Hb Hs Hw. unfold write_character_string in Hw. cbv zeta in Hw.
  destruct (256 <? Z.of_nat (length b)); [discriminate|].
  destruct (write_byte st (Z.of_nat (length b))) as [st1|e] eqn:E1; [|discriminate]. cbn [bind] in Hw.
  inversion Hw; subst st'. unfold write_string.
  apply put_BytesOk; [apply (write_byte_B _ _ _ Hs E1)|exact Hb].
Qed.

Lemma write_link_B st i st' : BytesOk st -> write_link st i = Ok st' -> BytesOk st'.
Proof.
  intros Hs Hw. unfold write_link in Hw.
  destruct (write_byte st (Z.lor (Z.shiftr i 8) 192)) as [st1|e] eqn:E1; [|discriminate]. cbn [bind] in Hw.
  exact (write_byte_B _ _ _ (write_byte_B _ _ _ Hs E1) Hw).
Qed.

Lemma names_set_BytesOk st k v : BytesOk st -> BytesOk (names_set st k v).
Proof. intro H. exact H. Qed.

Lemma write_name_rest_B : forall labels st ss nl st',
  Forall (fun l => scalar_text l = true) labels -> BytesOk st ->
  write_name_rest st ss nl labels = Ok st' -> BytesOk st'.
Proof.
  induction labels as [|l rest IH]; intros st ss nl st' Hl Hs Hw.
  - cbn [write_name_rest] in Hw. exact (write_byte_B _ _ _ Hs Hw).
  - inversion Hl as [|l' rest' Hl0 Hrest]; subst l' rest'.
    cbn [write_name_rest] in Hw. cbv zeta in Hw.
    destruct (negb (names_get st (join_dot (l :: rest)) =? 0)).
    + exact (write_link_B _ _ _ Hs Hw).
    + destruct (utf8_len (join_dot (l :: rest))) as [plen|e]; [|discriminate]. cbn [bind] in Hw.
      destruct (write_utf (names_set st (join_dot (l :: rest)) (ss + nl - plen)) l) as [st2|e] eqn:E2; [|discriminate].
      cbn [bind] in Hw.
      apply (IH st2 ss nl st' Hrest); [|exact Hw].
      apply (write_utf_B _ _ _ Hl0 (names_set_BytesOk st _ _ Hs) E2).
Qed.

Lemma wf_labels_scalar ls : Forall wf_label ls -> Forall (fun l => scalar_text l = true) ls.
Proof. intro H. eapply Forall_impl; [|exact H]. intros l (_ & Hsc & _). exact Hsc. Qed.

Lemma write_name_B st n st' : wf_name n -> BytesOk st -> write_name st n = Ok st' -> BytesOk st'.
Proof.
  intros [ls [Hn (Hne & Hwf & _)]] Hs Hw. subst n.
  unfold write_name, name_of in Hw. rewrite strip_dot_app in Hw. cbv zeta in Hw.
  destruct (negb (names_get st (join_dot ls) =? 0)).
  - exact (write_link_B _ _ _ Hs Hw).
  - rewrite split_join in Hw; [|exact Hne|apply wf_labels_nodot; exact Hwf].
    pose proof (wf_labels_scalar ls Hwf) as Hsc.
    destruct ls as [|l0 rest]; [contradiction|].
    inversion Hsc as [|l' rest' Hl0 Hrest]; subst l' rest'.
    destruct (write_utf (names_set st (join_dot (l0 :: rest)) (e_size st)) l0) as [st2|e] eqn:E2; [|discriminate].
    cbn [bind] in Hw.
    pose proof (write_utf_B _ _ _ Hl0 (names_set_BytesOk st _ _ Hs) E2) as Hs2.
    destruct rest as [|l1 rest].
    + exact (write_byte_B _ _ _ Hs2 Hw).
    + destruct (utf8_len (join_dot (l0 :: l1 :: rest))) as [nlen|e]; [|discriminate]. cbn [bind] in Hw.
      exact (write_name_rest_B _ _ _ _ _ Hrest Hs2 Hw).
Qed.

(* ---------- NSEC bitmap octets ---------- *)
Definition lor_ok (a : Z) : bool :=
  all_below 8 (fun k => (0 <=? Z.lor a (Z.shiftr 128 k)) && (Z.lor a (Z.shiftr 128 k) <? 256)).

Lemma lor_sweep : all_below 256 lor_ok = true.
Proof. vm_compute. reflexivity. Qed.

Lemma lor_byte a k : is_byte a -> 0 <= k < 8 -> is_byte (Z.lor a (Z.shiftr 128 k)).
Proof.
  unfold is_byte. intros Ha Hk.
  pose proof (all_below_spec 256 lor_ok lor_sweep a ltac:(lia)) as H1. unfold lor_ok in H1.
  pose proof (all_below_spec 8 _ H1 k ltac:(lia)) as H2. cbv beta in H2. lia.
Qed.

Lemma upd_bytes bm t : Forall is_byte bm -> 0 <= t <= 255 -> Forall is_byte (upd bm t).
Proof.
  intros Hb Ht. unfold upd. apply Forall_app. split; [apply Forall_firstn'; exact Hb|].
  apply Forall_app. split; [|apply Forall_skipn'; exact Hb].
  constructor; [|constructor]. apply lor_byte; [apply Forall_nth_byte; exact Hb|lia].
Qed.

Lemma nsec_bitmap_bytes : forall types bm total bm' total',
  Forall is_byte bm -> nsec_bitmap types bm total = Ok (bm', total') -> Forall is_byte bm'.
Proof.
  induction types as [|t rest IH]; intros bm total bm' total' Hb H.
  - cbn [nsec_bitmap] in H. inversion H; subst. exact Hb.
  - rewrite nsec_bitmap_cons in H.
    destruct (255 <? t) eqn:E1; [discriminate|]. destruct (t <? 0) eqn:E2; [discriminate|].
    apply (IH _ _ _ _ (upd_bytes bm t Hb ltac:(lia)) H).
Qed.

Lemma repeat0_bytes n : Forall is_byte (repeat 0 n).
Proof. induction n as [|n IH]; cbn [repeat]; constructor; [unfold is_byte; lia|exact IH]. Qed.

(* ---------- rdata ---------- *)
(* the raw octets of a record: the only part of a well-formed entry that [wf_record] leaves unconstrained *)
Definition payload_ok (r : pyrec) : Prop :=
  match p_kind r with
  | KAddress => Forall is_byte (p_address r)
  | KText => Forall is_byte (p_text r)
  | _ => True
  end.

Definition wf_payload (m : out_msg) : Prop :=
  Forall (fun rn => payload_ok (fst rn)) (o_answers m) /\ Forall payload_ok (o_authorities m) /\
  Forall payload_ok (o_additionals m).

Lemma write_rdata_B st r st' : wf_rdata r -> payload_ok r -> BytesOk st -> write_rdata st r = Ok st' -> BytesOk st'.
Proof.
  intros Hwf Hp Hs Hw. unfold wf_rdata in Hwf. unfold payload_ok in Hp. unfold write_rdata in Hw.
  destruct (p_kind r) eqn:Ekind.
  - contradiction.
  - inversion Hw; subst st'. unfold write_string. apply put_BytesOk; assumption.
  - destruct Hwf as (_ & Hcpu & Hos).
    destruct (utf8_encode (p_cpu r)) as [cpu|e] eqn:Ecpu; [|discriminate]. cbn [bind] in Hw.
    destruct (write_character_string st cpu) as [st1|e] eqn:E1; [|discriminate]. cbn [bind] in Hw.
    destruct (utf8_encode (p_os r)) as [os|e] eqn:Eos; [|discriminate]. cbn [bind] in Hw.
    apply (write_character_string_B st1 os st' (utf8_bytes_range _ _ Hos Eos)); [|exact Hw].
    apply (write_character_string_B st cpu st1 (utf8_bytes_range _ _ Hcpu Ecpu) Hs E1).
  - destruct Hwf as (_ & Hn). exact (write_name_B _ _ _ Hn Hs Hw).
  - inversion Hw; subst st'. unfold write_string. apply put_BytesOk; assumption.
  - destruct Hwf as (_ & Hn).
    destruct (write_short st (p_priority r)) as [a1|e] eqn:E1; [|discriminate]. cbn [bind] in Hw.
    destruct (write_short a1 (p_weight r)) as [a2|e] eqn:E2; [|discriminate]. cbn [bind] in Hw.
    destruct (write_short a2 (p_port r)) as [a3|e] eqn:E3; [|discriminate]. cbn [bind] in Hw.
    apply (write_name_B _ _ _ Hn (write_short_B _ _ _ (write_short_B _ _ _ (write_short_B _ _ _ Hs E1) E2) E3) Hw).
  - destruct Hwf as (_ & Hn).
    destruct (nsec_bitmap (sorted (p_rdtypes r)) (repeat 0 32) 0) as [[bitmap total]|e] eqn:Ebm; [|discriminate].
    cbn [bind] in Hw.
    destruct (total =? 0); [discriminate|].
    pose proof (nsec_bitmap_bytes _ _ _ _ _ (repeat0_bytes 32) Ebm) as Hbm.
    destruct (write_name st (p_next_name r)) as [a1|e] eqn:E1; [|discriminate]. cbn [bind] in Hw.
    destruct (write_byte a1 0) as [a2|e] eqn:E2; [|discriminate]. cbn [bind] in Hw.
    destruct (write_byte a2 (Z.of_nat (length (firstn (Z.to_nat total) bitmap)))) as [a3|e] eqn:E3; [|discriminate].
    cbn [bind] in Hw. inversion Hw; subst st'. unfold write_string.
    apply put_BytesOk; [|apply Forall_firstn'; exact Hbm].
    apply (write_byte_B _ _ _ (write_byte_B _ _ _ (write_name_B _ _ _ Hn Hs E1) E2) E3).
Qed.

(* ---------- one entry ---------- *)
Lemma check_B s st res fit : BytesOk s -> BytesOk st -> check_limit_or_rollback s st = (res, fit) -> BytesOk res.
Proof.
  intros H1 H2 H. unfold check_limit_or_rollback in H. cbv zeta in H.
  destruct (e_size s <=? (if e_allow_long s then C_MAX_MSG_ABSOLUTE else C_MAX_MSG_TYPICAL));
    inversion H; subst res; assumption.
Qed.

Lemma write_record_B mc st r now st' fit :
  wf_record r -> payload_ok r -> BytesOk st -> write_record mc st r now = Ok (st', fit) -> BytesOk st'.
Proof.
  intros [Hwn Hwr] Hp Hs Hw.
  destruct (write_record_linear mc st r now _ Hw)
    as (s1 & s2 & s3 & s4 & s7 & rdlen & E1 & E2 & E3 & E4 & Hrd & E7 & Hrdlen & Hres).
  rewrite write_record_class_eq in E3.
  pose proof (write_int_B _ _ _ (write_short_B _ _ _ (write_short_B _ _ _ (write_name_B _ _ _ Hwn Hs E1) E2) E3) E4)
    as Hs4.
  assert (Hs5 : BytesOk (put s4 [rdlen / 256; rdlen mod 256])).
  { apply put_BytesOk; [exact Hs4|]. repeat constructor; unfold is_byte; lia. }
  pose proof (write_rdata_B _ _ _ Hwr Hp Hs5 E7) as Hs7.
  symmetry in Hres. exact (check_B _ _ _ _ Hs7 Hs Hres).
Qed.

Lemma write_question_B mc st q st' fit :
  wf_question q -> BytesOk st -> write_question mc st q = Ok (st', fit) -> BytesOk st'.
Proof.
  intros Hwn Hs Hw. unfold write_question in Hw.
  destruct (write_name st (p_name q)) as [s1|e] eqn:E1; [|discriminate]. cbn [bind] in Hw.
  destruct (write_short s1 (p_type_ q)) as [s2|e] eqn:E2; [|discriminate]. cbn [bind] in Hw.
  destruct (write_record_class mc s2 q) as [s3|e] eqn:E3; [|discriminate]. cbn [bind] in Hw.
  rewrite write_record_class_eq in E3. inversion Hw as [Hres]. clear Hw.
  exact (check_B _ _ _ _ (write_short_B _ _ _ (write_short_B _ _ _ (write_name_B _ _ _ Hwn Hs E1) E2) E3) Hs Hres).
Qed.

(* ---------- the section loops ---------- *)
Lemma write_questions_B mc : forall qs st n st' n',
  Forall wf_question qs -> BytesOk st -> write_questions mc st qs n = Ok (st', n') -> BytesOk st'.
Proof.
  induction qs as [|q qs IH]; intros st n st' n' Hwf Hs Hw.
  - cbn [write_questions] in Hw. inversion Hw; subst. exact Hs.
  - inversion Hwf as [|q' qs' Hq Hqs]; subst q' qs'. cbn [write_questions] in Hw.
    destruct (write_question mc st q) as [[st1 fit]|e] eqn:E; [|discriminate]. cbn [bind] in Hw.
    pose proof (write_question_B _ _ _ _ _ Hq Hs E) as Hs1.
    destruct fit.
    + exact (IH _ _ _ _ Hqs Hs1 Hw).
    + inversion Hw; subst. exact Hs1.
Qed.

Lemma write_records_B mc : forall rs st n st' n',
  Forall (fun rn => wf_record (fst rn)) rs -> Forall (fun rn => payload_ok (fst rn)) rs -> BytesOk st ->
  write_records mc st rs n = Ok (st', n') -> BytesOk st'.
Proof.
  induction rs as [|[r now] rs IH]; intros st n st' n' Hwf Hpl Hs Hw.
  - cbn [write_records] in Hw. inversion Hw; subst. exact Hs.
  - inversion Hwf as [|x xs Hr Hrs]; subst x xs. inversion Hpl as [|x xs Hp Hps]; subst x xs.
    cbn [fst] in Hr, Hp. cbn [write_records] in Hw.
    destruct (write_record mc st r now) as [[st1 fit]|e] eqn:E; [|discriminate]. cbn [bind] in Hw.
    pose proof (write_record_B _ _ _ _ _ _ Hr Hp Hs E) as Hs1.
    destruct fit.
    + exact (IH _ _ _ _ Hrs Hps Hs1 Hw).
    + inversion Hw; subst. exact Hs1.
Qed.

(* ---------- datagrams ---------- *)
Definition pkt_bytes (p : bytes * counts) : Prop := Forall (fun b => 0 <= b < 256) (fst p).

Lemma short_bytes_range v : Forall is_byte (short_bytes v).
Proof. unfold short_bytes. repeat constructor; unfold is_byte; lia. Qed.

Lemma packets_loop_bytes m : forall fuel qs ans auth adds acc ps,
  Forall wf_question qs -> Forall (fun rn => wf_record (fst rn)) ans -> Forall wf_record auth -> Forall wf_record adds ->
  Forall (fun rn => payload_ok (fst rn)) ans -> Forall payload_ok auth -> Forall payload_ok adds ->
  Forall pkt_bytes acc ->
  packets_loop fuel m qs ans auth adds acc = Ok ps -> Forall pkt_bytes ps.
Proof.
  induction fuel as [|fuel IH]; intros qs ans auth adds acc ps Hq Ha Hu Hd Pa Pu Pd Hacc H; [discriminate|].
  cbn [packets_loop] in H. cbv zeta in H.
  destruct (write_questions (o_multicast m) enc_init qs 0) as [[s1 nq]|e] eqn:E1; [|discriminate]. cbn [bind] in H.
  destruct (write_records (o_multicast m) s1 ans 0) as [[s2 na]|e] eqn:E2; [|discriminate]. cbn [bind] in H.
  destruct (write_records (o_multicast m) s2 (map (fun r => (r, 0)) auth) 0) as [[s3 nau]|e] eqn:E3; [|discriminate].
  cbn [bind] in H.
  destruct (write_records (o_multicast m) s3 (map (fun r => (r, 0)) adds) 0) as [[s4 nad]|e] eqn:E4; [|discriminate].
  cbn [bind] in H.
  assert (Hu' : Forall (fun rn : pyrec * Z => wf_record (fst rn)) (map (fun r => (r, 0)) auth))
    by (apply Forall_map; exact Hu).
  assert (Hd' : Forall (fun rn : pyrec * Z => wf_record (fst rn)) (map (fun r => (r, 0)) adds))
    by (apply Forall_map; exact Hd).
  assert (Pu' : Forall (fun rn : pyrec * Z => payload_ok (fst rn)) (map (fun r => (r, 0)) auth))
    by (apply Forall_map; exact Pu).
  assert (Pd' : Forall (fun rn : pyrec * Z => payload_ok (fst rn)) (map (fun r => (r, 0)) adds))
    by (apply Forall_map; exact Pd).
  assert (Hs0 : BytesOk enc_init) by constructor.
  pose proof (write_questions_B _ _ _ _ _ _ Hq Hs0 E1) as Hs1.
  pose proof (write_records_B _ _ _ _ _ _ Ha Pa Hs1 E2) as Hs2.
  pose proof (write_records_B _ _ _ _ _ _ Hu' Pu' Hs2 E3) as Hs3.
  pose proof (write_records_B _ _ _ _ _ _ Hd' Pd' Hs3 E4) as Hs4.
  set (more := nonempty (skipn nq qs) || nonempty (skipn na ans) || nonempty (skipn nau auth) || nonempty (skipn nad adds)) in *.
  set (flags := if more && is_query (o_flags m) then Z.lor (o_flags m) C_FLAGS_TC else o_flags m) in *.
  destruct ((flags <? 0) || (65535 <? flags) || (o_id m <? 0) || (65535 <? o_id m)); [discriminate|].
  set (pkt := ((short_bytes (if o_multicast m then 0 else o_id m) ++ short_bytes flags ++ short_bytes (Z.of_nat nq)
                ++ short_bytes (Z.of_nat na) ++ short_bytes (Z.of_nat nau) ++ short_bytes (Z.of_nat nad))
               ++ rev (e_rev s4), (nq, na, nau, nad))) in *.
  assert (Hpkt : pkt_bytes pkt).
  { unfold pkt_bytes, pkt. cbn [fst]. fold is_byte.
    repeat (apply Forall_app; split; try apply short_bytes_range).
    apply Forall_rev. exact Hs4. }
  assert (Hacc' : Forall pkt_bytes (acc ++ [pkt])).
  { apply Forall_app. split; [exact Hacc|]. constructor; [exact Hpkt|constructor]. }
  destruct (negb (nonempty (e_rev s4))).
  - inversion H; subst ps. exact Hacc'.
  - destruct more.
    + apply (IH _ _ _ _ _ _ (Forall_skipn' _ nq _ Hq) (Forall_skipn' _ na _ Ha) (Forall_skipn' _ nau _ Hu)
                (Forall_skipn' _ nad _ Hd) (Forall_skipn' _ na _ Pa) (Forall_skipn' _ nau _ Pu)
                (Forall_skipn' _ nad _ Pd) Hacc' H).
    + inversion H; subst ps. exact Hacc'.
Qed.

(* every byte the message builder emits is a byte, provided the raw rdata octets are *)
Theorem packets_bytes_range_partial : forall m ps, wf_msg m -> wf_payload m -> packets_info m = Ok ps ->
  Forall (fun p => Forall (fun b => 0 <= b < 256) (fst p)) ps.
Proof.
  intros m ps (Hq & Ha & Hu & Hd) (Pa & Pu & Pd) H. unfold packets_info in H.
  exact (packets_loop_bytes m _ _ _ _ _ _ _ Hq Ha Hu Hd Pa Pu Pd (Forall_nil _) H).
Qed.

(* ---------- [packets_bytes_range] as stated is false ---------- *)
Definition cx_txt : pyrec :=
  {| p_kind := KText; p_name := [97; 46];
     p_type_ := 16; p_class_ := 1; p_ttl := 120; p_created := 0; p_address := []; p_scope_id := None;
     p_cpu := []; p_os := []; p_alias := [];
     p_text := [300]; p_priority := 0; p_weight := 0; p_port := 0; p_server := [];
     p_next_name := []; p_rdtypes := [] |}.
Definition cx_msg : out_msg :=
  {| o_flags := 0; o_multicast := false; o_id := 0; o_questions := [];
     o_answers := [(cx_txt, 0)]; o_authorities := []; o_additionals := [] |}.

Lemma cx_wf_name : wf_name [97; 46].
Proof.
  exists [[97]]. split; [reflexivity|].
  split; [discriminate|]. split.
  - constructor; [|constructor]. split; [discriminate|]. split; [reflexivity|].
    split; [intros [H|[]]; discriminate H|]. vm_compute. intro H; discriminate H.
  - split; [cbn [length]; lia|]. split; vm_compute; intro H; discriminate H.
Qed.

Lemma cx_wf : wf_msg cx_msg.
Proof.
  unfold wf_msg, cx_msg. cbn [o_questions o_answers o_authorities o_additionals].
  split; [constructor|]. split; [|split; constructor].
  constructor; [|constructor]. cbn [fst]. split; [exact cx_wf_name|]. reflexivity.
Qed.

Definition cx_datagram : bytes := [0; 0; 0; 0; 0; 0; 0; 1; 0; 0; 0; 0; 1; 97; 0; 0; 16; 0; 1; 0; 0; 0; 120; 0; 1; 300].

Example cx_packets : packets_info cx_msg = Ok [(cx_datagram, (0, 1, 0, 0)%nat)].
Proof. vm_compute. reflexivity. Qed.

Theorem packets_bytes_range_false :
  ~ (forall m ps, wf_msg m -> packets_info m = Ok ps -> Forall (fun p => Forall (fun b => 0 <= b < 256) (fst p)) ps).
Proof.
  intro H. specialize (H cx_msg _ cx_wf cx_packets).
  inversion H as [|p ps Hp _]; subst. cbn [fst] in Hp. unfold cx_datagram in Hp.
  rewrite Forall_forall in Hp. specialize (Hp 300).
  assert (Hin : In 300 [0; 0; 0; 0; 0; 0; 0; 1; 0; 0; 0; 0; 1; 97; 0; 0; 16; 0; 1; 0; 0; 0; 120; 0; 1; 300]).
  { cbn [In]. repeat (first [left; reflexivity | right]). }
  specialize (Hp Hin). lia.
Qed.

(* ---------- the library decoder ---------- *)
Lemma Forall2_and_l {A B} (P : A -> Prop) (R : A -> B -> Prop) l l' :
  Forall P l -> Forall2 R l l' -> Forall2 (fun a b => P a /\ R a b) l l'.
Proof.
  intros HP HR. induction HR as [|a b l l' Hab HR IH]; [constructor|].
  inversion HP as [|a' l0 Ha Hl]; subst a' l0. constructor; [split; assumption|apply IH; exact Hl].
Qed.

Lemma Forall2_impl' {A B} (R R' : A -> B -> Prop) l l' :
  (forall a b, R a b -> R' a b) -> Forall2 R l l' -> Forall2 R' l l'.
Proof. intros H HR. induction HR as [|a b l l' Hab HR IH]; constructor; [apply H; exact Hab|exact IH]. Qed.

Definition lib_ok (now' : Z) (frames : nat) (pkt : bytes * counts) (exp : list pyrec * list pyrec) : Prop :=
  let p := parse (fst pkt) now' None frames in
  m_valid p = true /\ m_escaped p = None /\ m_questions p = fst exp /\ m_answers p = snd exp /\
  (let '(nq, na, nau, nad) := snd pkt in
   m_nq p = Z.of_nat nq /\ m_nans p = Z.of_nat na /\ m_nauth p = Z.of_nat nau /\ m_nadd p = Z.of_nat nad).

Lemma lib_ok_of_strict now' frames pkt exp :
  (130 <= frames)%nat -> Forall (fun b => 0 <= b < 256) (fst pkt) -> packet_ok now' pkt exp -> lib_ok now' frames pkt exp.
Proof.
  destruct pkt as [d [[[nq na] nau] nad]]. unfold packet_ok, lib_ok. cbn [fst snd]. cbv beta iota zeta.
  intros Hfr Hb Hp.
  destruct Hp as (sm & Hsp & Hqs & Hrs & Hsup & Hnq & Hna & Hnau & Hnad).
  pose proof (parse_agrees_with_strict d now' frames sm Hb Hfr Hsp Hsup) as Hagree.
  cbv zeta in Hagree. cbv beta iota zeta.
  destruct Hagree as (H1 & H2 & _ & _ & H5 & H6 & H7 & H8 & H9 & H10).
  repeat split; congruence.
Qed.

(* hence the library's own decoder recovers from every emitted datagram exactly what the strict parser does *)
Theorem packets_roundtrip_library_partial : forall m ps now' frames,
  wf_msg m -> wf_payload m -> (130 <= frames)%nat -> packets_info m = Ok ps ->
  Forall2 (fun pkt exp =>
             let p := parse (fst pkt) now' None frames in
             m_valid p = true /\ m_escaped p = None /\ m_questions p = fst exp /\ m_answers p = snd exp /\
             (let '(nq, na, nau, nad) := snd pkt in
              m_nq p = Z.of_nat nq /\ m_nans p = Z.of_nat na /\ m_nauth p = Z.of_nat nau /\ m_nadd p = Z.of_nat nad))
          ps (expected_stream (o_multicast m) now' (o_questions m) (o_answers m) (o_authorities m) (o_additionals m) (map snd ps)).
Proof.
  intros m ps now' frames Hwf Hpl Hfr H.
  pose proof (packets_roundtrip m ps now' Hwf H) as HF.
  pose proof (packets_bytes_range_partial m ps Hwf Hpl H) as HB.
  pose proof (Forall2_and_l _ _ _ _ HB HF) as HF2.
  apply (Forall2_impl' _ (lib_ok now' frames) _ _) in HF2; [exact HF2|].
  intros pkt exp [Hb Hp]. exact (lib_ok_of_strict now' frames pkt exp Hfr Hb Hp).
Qed.

(* ---------- the library decoder, without any hypothesis on the raw rdata octets ---------- *)
(* The decoder copies rdata octets verbatim and interprets only the octets on name paths, which the encoder always
   writes in range (C01_library_names / C01_library_enc): [parseN] holds for every emitted datagram. *)
Lemma packets_loop_N m now' : forall fuel qs ans auth adds acc ps,
  Forall wf_question qs -> Forall (fun rn => wf_record (fst rn)) ans -> Forall wf_record auth -> Forall wf_record adds ->
  Forall (fun p : bytes * counts => parseN (fst p) now') acc ->
  packets_loop fuel m qs ans auth adds acc = Ok ps -> Forall (fun p : bytes * counts => parseN (fst p) now') ps.
Proof.
  induction fuel as [|fuel IH]; intros qs ans auth adds acc ps Hq Ha Hu Hd Hacc H; [discriminate|].
  cbn [packets_loop] in H. cbv zeta in H.
  destruct (write_questions (o_multicast m) enc_init qs 0) as [[s1 nq]|e] eqn:E1; [|discriminate]. cbn [bind] in H.
  destruct (write_records (o_multicast m) s1 ans 0) as [[s2 na]|e] eqn:E2; [|discriminate]. cbn [bind] in H.
  destruct (write_records (o_multicast m) s2 (map (fun r => (r, 0)) auth) 0) as [[s3 nau]|e] eqn:E3; [|discriminate].
  cbn [bind] in H.
  destruct (write_records (o_multicast m) s3 (map (fun r => (r, 0)) adds) 0) as [[s4 nad]|e] eqn:E4; [|discriminate].
  cbn [bind] in H.
  set (more := nonempty (skipn nq qs) || nonempty (skipn na ans) || nonempty (skipn nau auth) || nonempty (skipn nad adds)) in *.
  set (flags := if more && is_query (o_flags m) then Z.lor (o_flags m) C_FLAGS_TC else o_flags m) in *.
  destruct ((flags <? 0) || (65535 <? flags) || (o_id m <? 0) || (65535 <? o_id m)) eqn:Erange; [discriminate|].
  set (idv := if o_multicast m then 0 else o_id m) in *.
  assert (Hid : 0 <= idv <= 65535) by (unfold idv; destruct (o_multicast m); lia).
  assert (Hfl : 0 <= flags <= 65535) by lia.
  pose proof (one_packetN (o_multicast m) now' qs ans auth adds s1 nq s2 na s3 nau s4 nad idv flags
                Hq Ha Hu Hd E1 E2 E3 E4 Hid Hfl) as Hpkt.
  set (pkt := (short_bytes idv ++ short_bytes flags ++ short_bytes (Z.of_nat nq) ++ short_bytes (Z.of_nat na)
               ++ short_bytes (Z.of_nat nau) ++ short_bytes (Z.of_nat nad) ++ rev (e_rev s4), (nq, na, nau, nad))) in *.
  assert (Hpk : ((short_bytes idv ++ short_bytes flags ++ short_bytes (Z.of_nat nq) ++ short_bytes (Z.of_nat na)
               ++ short_bytes (Z.of_nat nau) ++ short_bytes (Z.of_nat nad)) ++ rev (e_rev s4), (nq, na, nau, nad)) = pkt).
  { unfold pkt. rewrite <- !app_assoc. reflexivity. }
  rewrite Hpk in H.
  assert (Hacc' : Forall (fun p : bytes * counts => parseN (fst p) now') (acc ++ [pkt])).
  { apply Forall_app. split; [exact Hacc|]. constructor; [exact Hpkt|constructor]. }
  destruct (negb (nonempty (e_rev s4))).
  - inversion H; subst ps. exact Hacc'.
  - destruct more.
    + apply (IH _ _ _ _ _ _ (Forall_skipn' _ nq _ Hq) (Forall_skipn' _ na _ Ha) (Forall_skipn' _ nau _ Hu)
                (Forall_skipn' _ nad _ Hd) Hacc' H).
    + inversion H; subst ps. exact Hacc'.
Qed.

Lemma lib_ok_of_strict_N now' frames pkt exp :
  (130 <= frames)%nat -> parseN (fst pkt) now' -> packet_ok now' pkt exp -> lib_ok now' frames pkt exp.
Proof.
  destruct pkt as [d [[[nq na] nau] nad]]. unfold packet_ok, lib_ok. cbn [fst snd]. cbv beta iota zeta.
  intros Hfr HN Hp.
  destruct Hp as (sm & Hsp & Hqs & Hrs & Hsup & Hnq & Hna & Hnau & Hnad).
  pose proof (parse_agrees_with_strict_N d now' frames sm Hfr HN Hsp) as Hagree.
  cbv zeta in Hagree.
  destruct Hagree as (H1 & H2 & _ & _ & H5 & H6 & H7 & H8 & H9 & H10).
  repeat split; congruence.
Qed.

(* the library's own decoder recovers from every emitted datagram exactly what the strict parser does *)
Theorem packets_roundtrip_library : forall m ps now' frames, wf_msg m -> (130 <= frames)%nat -> packets_info m = Ok ps ->
  Forall2 (fun pkt exp =>
             let p := parse (fst pkt) now' None frames in
             m_valid p = true /\ m_escaped p = None /\ m_questions p = fst exp /\ m_answers p = snd exp /\
             (let '(nq, na, nau, nad) := snd pkt in
              m_nq p = Z.of_nat nq /\ m_nans p = Z.of_nat na /\ m_nauth p = Z.of_nat nau /\ m_nadd p = Z.of_nat nad))
          ps (expected_stream (o_multicast m) now' (o_questions m) (o_answers m) (o_authorities m) (o_additionals m) (map snd ps)).
Proof.
  intros m ps now' frames Hwf Hfr H.
  pose proof (packets_roundtrip m ps now' Hwf H) as HF.
  assert (HN : Forall (fun p : bytes * counts => parseN (fst p) now') ps).
  { destruct Hwf as (Hq & Ha & Hu & Hd). unfold packets_info in H.
    exact (packets_loop_N m now' _ _ _ _ _ _ _ Hq Ha Hu Hd (Forall_nil _) H). }
  pose proof (Forall2_and_l _ _ _ _ HN HF) as HF2.
  apply (Forall2_impl' _ (lib_ok now' frames) _ _) in HF2; [exact HF2|].
  intros pkt exp [Hb Hp]. exact (lib_ok_of_strict_N now' frames pkt exp Hfr Hb Hp).
Qed.

(* the decoder does not depend on the payload hypothesis: the datagram of the counterexample above, with its octet 300,
   is decoded by the library to exactly the expected record *)
Example cx_library_decodes :
  let p := parse cx_datagram 5 None 130 in
  m_valid p = true /\ m_escaped p = None /\ m_questions p = [] /\
  m_answers p = [expected_record false 0 5 cx_txt].
Proof. vm_compute. repeat split; reflexivity. Qed.

Print Assumptions packets_bytes_range_partial.
Print Assumptions packets_bytes_range_false.
Print Assumptions packets_roundtrip_library_partial.
Print Assumptions packets_roundtrip_library.
